import BreezyVerif.Lemmas.C43F
/-!
C43 — helper lemmas, part 7: the incremental upload of a delta without renames,
assembled from the phases; the full upload onto an empty remote.
-/
namespace BreezyVerif.C43

/-- the remote shows the tree on every path that is not ignored (one of the two
special files may be missing: a full upload does not copy them) -/
def Matches (ign : List String) (t : Tree) (root : Node) : Prop :=
  ∀ p, p ≠ [] → ignored ign p = false →
    (look root p = t.look p ∨ (special p = true ∧ look root p = none))

/-- nothing on the remote at ignored paths -/
def Clean (ign : List String) (root : Node) : Prop := ∀ p, ignored ign p = true → look root p = none

/-- no ignored remote content directly below a directory that the delta removes
(or turns into something else) -/
def NoIgnoredBelow (ign : List String) (d : Delta) (root : Node) : Prop :=
  ∀ p, (p ∈ (d.removed.filter fun r => r.kind == .dir).map (·.path) ∨
        p ∈ (d.kindChanged.filter fun k => k.oldKind == .dir).map (·.path)) →
    ∀ x, ignored ign (p ++ [x]) = true → look root (p ++ [x]) = none

theorem Clean.noIgnoredBelow {ign : List String} {root : Node} (h : Clean ign root) (d : Delta) :
    NoIgnoredBelow ign d root := fun _ _ x hx => h _ hx

def rmL (ign : List String) (d : Delta) : List Removed := d.removed.filter fun r => !ignored ign r.path
def kcL (ign : List String) (d : Delta) : List KindChanged := d.kindChanged.filter fun k => !ignored ign k.path
def adL (ign : List String) (d : Delta) : List Path := (d.added ++ d.copied).filter fun p => !ignored ign p
def mdL (ign : List String) (d : Delta) : List Path := d.modified.filter fun p => !ignored ign p

def renOrder (c : Cfg) (d : Delta) : List Renamed :=
  match c.renames with
  | .asFound => d.renamed
  | .childrenFirst => d.renamed.reverse

theorem renOrder_mem (c : Cfg) (d : Delta) (r : Renamed) : r ∈ renOrder c d ↔ r ∈ d.renamed := by
  unfold renOrder
  cases c.renames <;> simp

theorem planInc_eq (c : Cfg) (ign : List String) (t : Tree) (d : Delta) :
    planInc c ign t d = (rmL ign d).map rmStep
      ++ renameSteps ign (renOrder c d) 0
      ++ [.finishRenames, .finishDeletions]
      ++ (kcL ign d).flatMap (kcSteps c t) ++ (adL ign d).flatMap (createSteps c t)
      ++ (mdL ign d).flatMap (modSteps c t) := by
  rfl

theorem renameSteps_ignored (ign : List String) (rs : List Renamed) (k : Nat)
    (h : ∀ r ∈ rs, (ignored ign r.old && ignored ign r.new) = true) : renameSteps ign rs k = [] := by
  induction rs generalizing k with
  | nil => rfl
  | cons r rs ih =>
    unfold renameSteps
    rw [if_pos (h r List.mem_cons_self)]
    exact ih k (fun x hx => h x (List.mem_cons_of_mem _ hx))

theorem pairwiseB_iff {α : Type} (r : α → α → Bool) (l : List α) :
    pairwiseB r l = true ↔ l.Pairwise fun a b => r a b = true := by
  induction l with
  | nil => simp [pairwiseB]
  | cons a l ih => simp [pairwiseB, List.pairwise_cons, List.all_eq_true, ih]

theorem special_single {p : Path} (h : special p = true) : ∃ x, p = [x] := by
  unfold special at h
  simp only [Bool.or_eq_true, beq_iff_eq] at h
  rcases h with h | h <;> exact ⟨_, h⟩

theorem special_snoc (p : Path) (x : String) (hp : p ≠ []) : special (p ++ [x]) = false := by
  cases hs : special (p ++ [x]) with
  | false => rfl
  | true =>
    obtain ⟨y, hy⟩ := special_single hs
    have := congrArg List.length hy
    simp at this
    exact absurd this hp

theorem kindAt_some {t : Tree} {p : Path} {k : Kind} (h : kindAt t p = some k) :
    ∃ e, t.find p = some e ∧ e.kind = k := by
  simpa [kindAt, Option.map_eq_some_iff] using h

theorem contains_iff (l : List Path) (p : Path) : l.contains p = true ↔ p ∈ l := by simp

/-- the facts `deltaOK` packs, as propositions -/
structure DeltaFacts (ign : List String) (old new : Tree) (d : Delta) : Prop where
  ren : ∀ r ∈ d.renamed, (ignored ign r.old && ignored ign r.new) = true
  rm : ∀ r ∈ rmL ign d, r.path ≠ [] ∧ special r.path = false ∧ kindAt old r.path = some r.kind ∧
        (new.find r.path = none ∨ r.path ∈ adL ign d) ∧
        (r.kind = .dir → ∀ e ∈ old, isChildOf e.path r.path = true → ignored ign e.path = false →
          e.path ∈ (rmL ign d).map (·.path))
  rmOrd : (rmL ign d).Pairwise fun a b => a.path ≠ b.path ∧ isChildOf a.path b.path = false
  kc : ∀ k ∈ kcL ign d, k.old = k.path ∧ k.path ≠ [] ∧ special k.path = false ∧ kindAt old k.path = some k.oldKind ∧
        kindAt new k.path = some k.newKind ∧ k.oldKind ≠ k.newKind ∧ k.path ∉ (rmL ign d).map (·.path) ∧
        (k.oldKind = .dir → ∀ e ∈ old, isChildOf e.path k.path = true → ignored ign e.path = false →
          e.path ∈ (rmL ign d).map (·.path))
  kcOrd : (kcL ign d).Pairwise fun a b => a.path ≠ b.path
  ad : ∀ p ∈ adL ign d, p ≠ [] ∧ (old.find p = none ∨ p ∈ (rmL ign d).map (·.path)) ∧ ∃ e, new.find p = some e
  adOrd : (adL ign d).Pairwise fun a b => a ≠ b ∧ isChildOf a b = false
  md : ∀ p ∈ mdL ign d, p ≠ [] ∧ ∃ o e, old.find p = some o ∧ new.find p = some e ∧ o.kind = e.kind ∧ e.kind ≠ .dir
  oldC : ∀ o ∈ old, ignored ign o.path = false → (∃ e, new.find o.path = some e) ∨ o.path ∈ (rmL ign d).map (·.path)
  newC : ∀ e ∈ new, ignored ign e.path = false → e.path ∈ adL ign d ∨
        ∃ o, old.find e.path = some o ∧
          ((o.kind ≠ e.kind ∧ e.path ∈ (kcL ign d).map (·.path)) ∨
           (o.kind = e.kind ∧ (o.obs = e.obs ∨ e.path ∈ mdL ign d)))

theorem deltaFacts {ign : List String} {old new : Tree} {d : Delta} (h : deltaOK ign old new d = true) :
    DeltaFacts ign old new d := by
  unfold deltaOK at h
  simp only [Bool.and_eq_true] at h
  obtain ⟨⟨⟨⟨⟨⟨⟨⟨⟨h1, h2⟩, h3⟩, h4⟩, h5⟩, h6⟩, h7⟩, h8⟩, h9⟩, h10⟩ := h
  rw [List.all_eq_true] at h1 h2 h4 h6 h8 h9 h10
  rw [pairwiseB_iff] at h3 h5 h7
  refine ⟨h1, ?_, ?_, ?_, ?_, ?_, ?_, ?_, ?_, ?_⟩
  · intro r hr
    have := h2 r hr
    simp only [Bool.and_eq_true, bne_iff_ne, ne_eq, Bool.not_eq_true', beq_iff_eq, Bool.or_eq_true,
      Option.isNone_iff_eq_none, List.contains_eq_mem, decide_eq_true_eq, List.all_eq_true,
      Bool.not_eq_eq_eq_not, Bool.not_true] at this
    obtain ⟨⟨⟨⟨a, b⟩, c⟩, e⟩, f⟩ := this
    refine ⟨a, b, c, e, ?_⟩
    intro hk e' he' hch hig
    rcases f with f | f
    · exact absurd hk f
    · rcases f e' he' with g | g
      · simp [hch, hig] at g
      · exact g
  · exact h3.imp fun h => by simpa using h
  · intro k hk
    have := h4 k hk
    simp only [Bool.and_eq_true, bne_iff_ne, ne_eq, Bool.not_eq_true', beq_iff_eq, Bool.or_eq_true,
      List.contains_eq_mem, decide_eq_true_eq, List.all_eq_true, decide_eq_false_iff_not,
      Bool.not_eq_eq_eq_not, Bool.not_true] at this
    obtain ⟨⟨⟨⟨⟨⟨⟨a, b⟩, c⟩, e⟩, f⟩, g⟩, g2⟩, i⟩ := this
    refine ⟨a, b, c, e, f, g, g2, ?_⟩
    intro hkk e' he' hch hig
    rcases i with i | i
    · exact absurd hkk i
    · rcases i e' he' with j | j
      · simp [hch, hig] at j
      · exact j
  · exact h5.imp fun h => by simpa using h
  · intro p hp
    have := h6 p hp
    simp only [Bool.and_eq_true, bne_iff_ne, ne_eq, Bool.or_eq_true, Option.isNone_iff_eq_none,
      List.contains_eq_mem, decide_eq_true_eq, Option.isSome_iff_exists] at this
    exact ⟨this.1.1, this.1.2, this.2⟩
  · exact h7.imp fun h => by simpa using h
  · intro p hp
    have := h8 p hp
    simp only [Bool.and_eq_true, bne_iff_ne, ne_eq] at this
    refine ⟨this.1, ?_⟩
    cases ho : Tree.find old p with
    | none => simp [ho] at this
    | some o =>
      cases hn : Tree.find new p with
      | none => simp [ho, hn] at this
      | some e =>
        simp only [ho, hn, Bool.and_eq_true, beq_iff_eq, bne_iff_ne, ne_eq] at this
        exact ⟨o, e, rfl, rfl, this.2.1, this.2.2⟩
  · intro o ho hig
    have := h9 o ho
    simp only [hig, Bool.not_false, Bool.not_true, Bool.false_or, Bool.or_eq_true, Option.isSome_iff_exists,
      List.contains_eq_mem, decide_eq_true_eq] at this
    exact this
  · intro e he hig
    have := h10 e he
    simp only [hig, Bool.not_false, Bool.not_true, Bool.false_or, Bool.or_eq_true,
      List.contains_eq_mem, decide_eq_true_eq] at this
    rcases this with h | h
    · exact Or.inl h
    · right
      cases ho : Tree.find old e.path with
      | none => simp [ho] at h
      | some o =>
        refine ⟨o, rfl, ?_⟩
        simp only [ho] at h
        by_cases hk : o.kind = e.kind
        · right
          simp only [hk, bne_self_eq_false, Bool.false_eq_true, if_false, Bool.or_eq_true, beq_iff_eq,
            List.contains_eq_mem, decide_eq_true_eq] at h
          exact ⟨hk, h⟩
        · left
          have : (o.kind != e.kind) = true := by simp [hk]
          simp only [this, if_true, List.contains_eq_mem, decide_eq_true_eq] at h
          exact ⟨hk, h⟩

end BreezyVerif.C43
