import BreezyVerif.Lemmas.C30LP
import BreezyVerif.Lemmas.C29Misc
/-! the five laws for the protocol 1/2 server request machine -/
namespace BreezyVerif.C30
open BreezyVerif.C29

def reqWf : Req → Prop
  | .line buf => (10 : UInt8) ∉ buf
  | .body _ d => lpWf d ∧ d.finished = false ∧ d ≠ .failed
  | _ => True

theorem reqWf_afterBody (args : List Bytes) (d : LP) (h : lpWf d) : reqWf (Req.afterBody args d) := by
  cases d with
  | done b u => trivial
  | failed => trivial
  | expectingLength buf => exact ⟨h, rfl, by simp⟩
  | readingBody l bd => exact ⟨h, rfl, by simp⟩
  | readingTrailer bd t => exact ⟨h, rfl, by simp⟩

theorem afterBody_fin {args : List Bytes} {d : LP} (h : (Req.afterBody args d).finished = true) :
    d.finished = true ∧ (Req.afterBody args d).unused = d.unused := by
  cases d <;> simp [Req.afterBody, Req.finished, Req.unused, LP.finished, LP.unused] at h ⊢

theorem reqLaws (w : List Bytes → Bool) : Laws (reqMachine w) reqWf where
  append := Req.feed_append w
  wf_feed := by
    intro s x h
    cases s with
    | line buf =>
      simp only [reqMachine, Req.feed_line]
      unfold Req.lineStep
      split
      · rename_i hs; exact splitLine_none_notMem hs
      · simp only
        split
        · exact reqWf_afterBody _ _ (lpWf_feed _ _ lpWf_init)
        · trivial
    | body args d =>
      simp only [reqMachine, Req.feed_body]
      exact reqWf_afterBody _ _ (lpWf_feed _ _ h.1)
    | done a b u => trivial
    | failed => trivial
  fin_feed := by
    intro s x h
    cases s <;> simp [reqMachine, Req.finished] at h
    simp [reqMachine, Req.feed, Req.finished, Req.unused]
  fin_stop := by
    intro s h
    cases s <;> simp [reqMachine, Req.finished] at h
    simp [reqMachine, Req.nextReadSize]
  hint := by
    intro s q hwf hnf hfin
    cases s with
    | line buf =>
      simp only [reqMachine, Req.feed_line] at hfin ⊢
      unfold Req.lineStep at hfin ⊢
      cases hs : splitLine (buf ++ q) with
      | none => simp [hs, Req.finished] at hfin
      | some lr =>
        obtain ⟨l, rest⟩ := lr
        obtain ⟨h1, h2⟩ := splitLine_append_prefix hs hwf
        simp only [hs] at hfin ⊢
        refine ⟨by simp [Req.nextReadSize], by simp [Req.nextReadSize], ?_⟩
        by_cases hw : w (splitSoh l) = true
        · simp only [hw, if_true] at hfin ⊢
          obtain ⟨hf, hu⟩ := afterBody_fin hfin
          rw [hu]
          have := (lpLaws.hint LP.init rest lpWf_init rfl hf).2.2
          simp only [lpMachine, LP.nextReadSize, LP.init] at this hu ⊢
          simp only [Req.nextReadSize]
          omega
        · simp only [hw, Bool.false_eq_true, if_false, Req.nextReadSize, Req.unused]
          omega
    | body args d =>
      simp only [reqMachine, Req.feed_body] at hfin ⊢
      obtain ⟨hf, hu⟩ := afterBody_fin hfin
      rw [hu]
      obtain ⟨_, h1, h2⟩ := lpLaws.hint d q hwf.1 hwf.2.1 hf
      simp only [lpMachine] at h1 h2
      refine ⟨?_, h1, h2⟩
      simp only [Req.nextReadSize, beq_eq_false_iff_ne, ne_eq]
      omega
    | done a b u => simp [reqMachine, Req.finished] at hnf
    | failed => simp [reqMachine, Req.feed, Req.finished] at hfin

theorem reqWf_init : reqWf (.line []) := by simp [reqWf]

end BreezyVerif.C30
