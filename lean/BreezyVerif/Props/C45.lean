import BreezyVerif.Lemmas.C45
import BreezyVerif.Lemmas.C45S
/-!
C45 — theorems about the end-of-line filters.

All statements are for **every** byte string (no length bound, all 256 byte
values), every entry of `_eol_filter_stack_map` and both values of
`sys.platform == "win32"` (`win`).  "Canonical" is the property's notion:
content that its own reader leaves unchanged (`readIn stack c = c`).
"A freshly checked-out tree reports no changes" is, in the model, the equation
`reportsChange sha stack (sha c) (writeOut stack c) = false` for an abstract hash
function `sha` (the dirstate compares the SHA-1 of the read-converted file with
the recorded one; the SHA-1 function itself is a parameter): `checkout_clean`,
`checkout_dirty_iff`, `checkout_clean_binary`; it follows from the equation
`readIn stack (writeOut stack c) = c` (`roundtrip_iff`).
-/
namespace BreezyVerif.C45

/-! ### converter level -/

theorem toLf_of_noNul {c : Bytes} (h : hasNul c = false) : toLf c = replCrlf c := by
  simp [toLf, h]

theorem toCrlf_of_noNul {c : Bytes} (h : hasNul c = false) : toCrlf c = subUnixNl false c := by
  simp [toCrlf, h]

/-- LF reader, CRLF writer -/
theorem toLf_toCrlf (c : Bytes) (hn : hasNul c = false) (hc : toLf c = c) :
    toLf (toCrlf c) = c := by
  rw [toLf_of_noNul hn] at hc
  rw [toCrlf_of_noNul hn, toLf_of_noNul (by rw [hasNul_subUnixNl]; exact hn)]
  exact replCrlf_subUnixNl false c ((replCrlf_fix_iff c).1 hc)

/-- CRLF reader, LF writer: exactly the texts without `\r\r\n` come back -/
theorem toCrlf_toLf_iff (c : Bytes) (hn : hasNul c = false) (hc : toCrlf c = c) :
    toCrlf (toLf c) = c ↔ noCrCrLf false c = true := by
  rw [toCrlf_of_noNul hn] at hc
  rw [toLf_of_noNul hn, toCrlf_of_noNul (by rw [hasNul_replCrlf]; exact hn)]
  exact subUnixNl_replCrlf_iff false c ((subUnixNl_fix_iff false c).1 hc)

/-- **The CRLF reader always produces canonical content** (so whatever a
commit stores under a CRLF-in-repo setting is canonical). -/
theorem toCrlf_canonical (d : Bytes) : toCrlf (toCrlf d) = toCrlf d := by
  by_cases hn : hasNul d = true
  · simp [toCrlf, hn]
  · have hn' : hasNul d = false := by simpa using hn
    rw [toCrlf_of_noNul hn', toCrlf_of_noNul (by rw [hasNul_subUnixNl]; exact hn')]
    exact (subUnixNl_fix_iff false _).2 (allCrLf_subUnixNl false d)

/-- The LF reader does not: a working file `"\r\r\n"` is stored as `"\r\n"`,
which the same reader would change again (outside C45, which speaks about
canonical content only; reported as an observation). -/
theorem toLf_not_idempotent_witness : toLf (toLf [13, 13, 10]) ≠ toLf [13, 13, 10] := by decide

/-! ### every setting -/

/-- **Exact characterisation of the round trip.**  For every entry of the
table, on both platforms, and every canonical text without NUL: writing the
text to the working tree and reading it back gives the same text *iff* it is
not the case that the setting stores CRLF but writes LF (`lossy`) and the text
contains `\r\r\n`. -/
theorem roundtrip_iff (win : Bool) (name : String) (stack : List Filter)
    (h : (name, stack) ∈ eolMap win) (c : Bytes) (hn : hasNul c = false)
    (hc : readIn stack c = c) :
    readIn stack (writeOut stack c) = c ↔ (lossy stack = true → noCrCrLf false c = true) := by
  simp only [eolMap, List.mem_cons, Prod.mk.injEq, List.mem_nil_iff, or_false] at h
  rcases h with h | h | h | h | h | h | h <;> obtain ⟨rfl, rfl⟩ := h <;> cases win <;>
    simp only [readIn, writeOut, inputFile, outputBytes, Conv.apply, Conv.fn, nativeOutput, lossy,
      List.reverse_cons, List.reverse_nil, List.nil_append, List.foldl_cons, List.foldl_nil,
      List.flatten_cons, List.flatten_nil, List.append_nil, List.any_cons, List.any_nil,
      Bool.or_false, if_true, if_false, Bool.false_eq_true] at hc ⊢ <;>
    first
      | (simp; done)                                 -- no filter
      | (simp only [hc]; simp)                       -- reader = writer
      | (rw [toLf_toCrlf c hn hc]; simp)             -- LF in repo, CRLF in tree
      | (rw [toCrlf_toLf_iff c hn hc]; simp)         -- CRLF in repo, LF in tree

/-- **LF-in-repo settings (and `exact`)**: every canonical text round-trips. -/
theorem roundtrip_lf_repo (win : Bool) (name : String) (stack : List Filter)
    (h : (name, stack) ∈ eolMap win) (hlf : stack.all (·.reader = some .toLf) = true)
    (c : Bytes) (hn : hasNul c = false) (hc : readIn stack c = c) :
    readIn stack (writeOut stack c) = c := by
  rw [roundtrip_iff win name stack h c hn hc]
  intro hl
  exfalso
  simp only [eolMap, List.mem_cons, Prod.mk.injEq, List.mem_nil_iff, or_false] at h
  rcases h with h | h | h | h | h | h | h <;> obtain ⟨rfl, rfl⟩ := h <;>
    simp [lossy] at hl hlf

/-- non-vacuity: `crlf` is an LF-in-repo entry and `"a\nb\r"` is canonical for it -/
example : ("crlf", [⟨some .toLf, some .toCrlf⟩]) ∈ eolMap false
    ∧ ([⟨some Conv.toLf, some Conv.toCrlf⟩] : List Filter).all (·.reader = some .toLf) = true
    ∧ hasNul [97, 10, 98, 13] = false
    ∧ readIn [⟨some .toLf, some .toCrlf⟩] [97, 10, 98, 13] = [97, 10, 98, 13]
    ∧ writeOut [⟨some .toLf, some .toCrlf⟩] [97, 10, 98, 13] = [97, 13, 10, 98, 13] := by decide

/-- **CRLF-in-repo settings (indeed every setting)** — partial: the canonical
text must not contain `\r\r\n`.  What is missing is exactly the family of
`crlf_repo_witness` (`roundtrip_iff` shows the hypothesis is necessary for the
settings that store CRLF and write LF). -/
theorem roundtrip_crlf_repo_partial (win : Bool) (name : String) (stack : List Filter)
    (h : (name, stack) ∈ eolMap win)
    (c : Bytes) (hn : hasNul c = false) (hc : readIn stack c = c)
    (hx : noCrCrLf false c = true) :
    readIn stack (writeOut stack c) = c :=
  (roundtrip_iff win name stack h c hn hc).2 (fun _ => hx)

/-- non-vacuity: `"a\r\nb\r"` satisfies all hypotheses for `lf-with-crlf-in-repo` -/
example : ("lf-with-crlf-in-repo", [⟨some .toCrlf, some .toLf⟩]) ∈ eolMap false
    ∧ hasNul [97, 13, 10, 98, 13] = false
    ∧ readIn [⟨some .toCrlf, some .toLf⟩] [97, 13, 10, 98, 13] = [97, 13, 10, 98, 13]
    ∧ noCrCrLf false [97, 13, 10, 98, 13] = true
    ∧ writeOut [⟨some .toCrlf, some .toLf⟩] [97, 13, 10, 98, 13] = [97, 10, 98, 13] := by decide

/-- **Witness (finding F9).**  `"a\r\r\n"` has no NUL and is canonical for
`lf-with-crlf-in-repo` (and for `native-with-crlf-in-repo` off Windows), is
written to the working tree as `"a\r\n"` and read back as `"a\r\n"`. -/
theorem crlf_repo_witness :
    let c : Bytes := [97, 13, 13, 10]
    ∀ name ∈ ["lf-with-crlf-in-repo", "native-with-crlf-in-repo"],
      ∃ stack, eolLookup false name = some stack ∧ hasNul c = false ∧ readIn stack c = c ∧
        writeOut stack c = [97, 13, 10] ∧ readIn stack (writeOut stack c) = [97, 13, 10] ∧
        readIn stack (writeOut stack c) ≠ c := by
  decide

/-! ### what the settings mean for the working tree -/

/-- the writer of the stack, if it has exactly one filter with a writer -/
def writerOf : List Filter → Option Conv
  | [f] => f.writer
  | _ => none

/-- **Settings that write CRLF** (`crlf`, `crlf-with-crlf-in-repo`, and the
`native` ones on win32): whatever text is checked out, every `\n` in the
working tree follows a `\r`. -/
theorem crlf_settings_write_crlf (win : Bool) (name : String) (stack : List Filter)
    (h : (name, stack) ∈ eolMap win)
    (hname : name = "crlf" ∨ name = "crlf-with-crlf-in-repo" ∨
      (win = true ∧ (name = "native" ∨ name = "native-with-crlf-in-repo")))
    (c : Bytes) (hn : hasNul c = false) :
    writerOf stack = some .toCrlf ∧ allCrLf false (writeOut stack c) = true := by
  have key : allCrLf false (toCrlf c) = true := by
    rw [toCrlf_of_noNul hn]; exact allCrLf_subUnixNl false c
  simp only [eolMap, List.mem_cons, Prod.mk.injEq, List.mem_nil_iff, or_false] at h
  rcases h with h | h | h | h | h | h | h <;> obtain ⟨rfl, rfl⟩ := h <;> cases win <;>
    simp_all [writerOf, writeOut, outputBytes, Conv.apply, Conv.fn, nativeOutput]

/-- **`*-with-crlf-in-repo` settings store CRLF**: whatever text is in the
working tree, every `\n` of what is read (and committed) follows a `\r`. -/
theorem crlf_repo_settings_store_crlf (win : Bool) (name : String) (stack : List Filter)
    (h : (name, stack) ∈ eolMap win)
    (hname : name = "native-with-crlf-in-repo" ∨ name = "lf-with-crlf-in-repo" ∨
      name = "crlf-with-crlf-in-repo")
    (d : Bytes) (hn : hasNul d = false) :
    allCrLf false (readIn stack d) = true := by
  have key : allCrLf false (toCrlf d) = true := by
    rw [toCrlf_of_noNul hn]; exact allCrLf_subUnixNl false d
  simp only [eolMap, List.mem_cons, Prod.mk.injEq, List.mem_nil_iff, or_false] at h
  rcases h with h | h | h | h | h | h | h <;> obtain ⟨rfl, rfl⟩ := h <;> cases win <;>
    simp_all [readIn, inputFile, Conv.apply, Conv.fn]

/-- **Settings that write LF** (`lf`, `lf-with-crlf-in-repo`, and the `native`
ones off win32): a canonical text without `\r\r\n` is checked out without any
`\r\n`. -/
theorem lf_settings_write_lf (win : Bool) (name : String) (stack : List Filter)
    (h : (name, stack) ∈ eolMap win)
    (hname : name = "lf" ∨ name = "lf-with-crlf-in-repo" ∨
      (win = false ∧ (name = "native" ∨ name = "native-with-crlf-in-repo")))
    (c : Bytes) (hn : hasNul c = false) (hc : readIn stack c = c) (hx : noCrCrLf false c = true) :
    writerOf stack = some .toLf ∧ noCrLf false (writeOut stack c) = true := by
  have lfrepo : toLf c = c → noCrLf false (toLf c) = true := by
    intro e; rw [e]; rw [toLf_of_noNul hn] at e; exact (replCrlf_fix_iff c).1 e
  have crlfrepo : toCrlf c = c → noCrLf false (toLf c) = true := by
    intro e
    rw [toCrlf_of_noNul hn] at e
    rw [toLf_of_noNul hn]
    exact noCrLf_replCrlf false c ((subUnixNl_fix_iff false c).1 e) hx (by simp)
  simp only [eolMap, List.mem_cons, Prod.mk.injEq, List.mem_nil_iff, or_false] at h
  rcases h with h | h | h | h | h | h | h <;> obtain ⟨rfl, rfl⟩ := h <;> cases win <;>
    simp_all [writerOf, writeOut, readIn, inputFile, outputBytes, Conv.apply, Conv.fn, nativeOutput]

/-- non-vacuity for `lf_settings_write_lf` -/
example : ("lf-with-crlf-in-repo", [⟨some .toCrlf, some .toLf⟩]) ∈ eolMap true
    ∧ readIn [⟨some .toCrlf, some .toLf⟩] [97, 13, 10, 13] = [97, 13, 10, 13]
    ∧ noCrCrLf false [97, 13, 10, 13] = true
    ∧ writeOut [⟨some .toCrlf, some .toLf⟩] [97, 13, 10, 13] = [97, 10, 13] := by decide

/-- **Binary content is never converted**, by any setting, in either
direction, whatever the chunking. -/
theorem binary_untouched (win : Bool) (name : String) (stack : List Filter)
    (h : (name, stack) ∈ eolMap win) (chunks : List Bytes) (hn : hasNul chunks.flatten = true) :
    (outputBytes chunks stack).flatten = chunks.flatten ∧
    inputFile chunks.flatten stack = chunks.flatten := by
  simp only [eolMap, List.mem_cons, Prod.mk.injEq, List.mem_nil_iff, or_false] at h
  rcases h with h | h | h | h | h | h | h <;> obtain ⟨rfl, rfl⟩ := h <;> cases win <;>
    simp [inputFile, outputBytes, Conv.apply, Conv.fn, nativeOutput, toLf, toCrlf, hn]

/-- `exact` has no filter: chunks pass through untouched in both directions -/
theorem exact_identity (win : Bool) (chunks : List Bytes) (c : Bytes) :
    eolLookup win "exact" = some [] ∧ outputBytes chunks [] = chunks ∧ inputFile c [] = c := by
  cases win <;> simp [eolLookup, eolMap, outputBytes, inputFile]

/-- the converters only see the joined content: chunking is irrelevant -/
theorem output_chunking (stack : List Filter) (chunks chunks' : List Bytes)
    (h : chunks.flatten = chunks'.flatten) :
    (outputBytes chunks stack).flatten = (outputBytes chunks' stack).flatten := by
  unfold outputBytes
  generalize stack.reverse = l
  induction l generalizing chunks chunks' with
  | nil => simpa using h
  | cons f r ih =>
    simp only [List.foldl_cons]
    cases f.writer with
    | none => exact ih _ _ h
    | some w => apply ih; simp [Conv.apply, h]

/-- **Proposed repair.**  With the guarded LF writer
(`(?<!\r)\r\n` ↦ `\n`) the CRLF-in-repo settings round-trip every canonical
text, `\r\r\n` included. -/
theorem roundtrip_crlf_repo_fixed (c : Bytes) (hc : toCrlf c = c) :
    toCrlf (toLfGuarded c) = c := by
  by_cases hn : hasNul c = true
  · simp [toLfGuarded, toCrlf, hn]
  · have hn' : hasNul c = false := by simpa using hn
    rw [toCrlf_of_noNul hn'] at hc
    have h2 : hasNul (replCrlfGuarded false c) = false := by
      rw [hasNul_replCrlfGuarded]; exact hn'
    simp only [toLfGuarded, hn', Bool.false_eq_true, if_false]
    rw [toCrlf_of_noNul h2]
    exact subUnixNl_replCrlfGuarded false c ((subUnixNl_fix_iff false c).1 hc)

/-! ### the filtered SHA-1 provider, `FilteredStat`, and "reports no changes"

`ContentFilterAwareSHA1Provider.sha1` / `.stat_and_sha1` hash
`hashedText stack disk` and report `statSize stack disk`; the dirstate reports
a file as modified iff that hash differs from the recorded one
(`reportsChange`, for an *abstract* hash function `sha : Bytes → H`). -/

/-- **A file is empty iff its conversion is empty**, for every entry of the
table on both platforms: `FilteredStat`'s `st_size or base.st_size` (a filtered
size of 0 falls back to the size on disk) can therefore never pick a wrong size. -/
theorem filtered_size_zero_iff (win : Bool) (name : String) (stack : List Filter)
    (h : (name, stack) ∈ eolMap win) (d : Bytes) :
    readIn stack d = [] ↔ d = [] := by
  simp only [eolMap, List.mem_cons, Prod.mk.injEq, List.mem_nil_iff, or_false] at h
  rcases h with h | h | h | h | h | h | h <;> obtain ⟨rfl, rfl⟩ := h <;>
    simp [readIn, inputFile, Conv.apply, Conv.fn, toLf_eq_nil, toCrlf_eq_nil]

/-- **`stat_and_sha1` reports the canonical size and hashes the canonical
text**, for every entry of the table, both platforms and every file content:
the `st_size` is the length of the read-converted file (the `or` fallback of
`FilteredStat` included) and the hashed text is the read-converted file. -/
theorem stat_size_canonical (win : Bool) (name : String) (stack : List Filter)
    (h : (name, stack) ∈ eolMap win) (d : Bytes) :
    statSize stack d = (readIn stack d).length ∧ hashedText stack d = readIn stack d := by
  refine ⟨?_, hashedText_eq stack d⟩
  unfold statSize
  split
  · rename_i he
    have : stack = [] := by simpa using he
    subst this
    rw [readIn_nil]
  · unfold filteredStatSize
    split
    · rename_i h0
      have hnil : readIn stack d = [] := List.eq_nil_of_length_eq_zero h0
      have hd := (filtered_size_zero_iff win name stack h d).1 hnil
      subst hd
      rw [hnil]
    · rfl

/-- `FilteredStat` really falls back: a stack whose reader could empty a file
would report the disk size — no table entry has such a reader
(`filtered_size_zero_iff`), this only shows the modelled `or` is not vacuous. -/
example : filteredStatSize 0 7 = 7 ∧ filteredStatSize 5 7 = 5
    ∧ statSize [⟨some .toLf, some .toCrlf⟩] [97, 13, 10] = 2
    ∧ statSize [] [97, 13, 10] = 3 ∧ statSize [⟨some .toLf, some .toCrlf⟩] [] = 0 := by decide

/-- **A fresh checkout reports no changes** (abstract hash).  For every hash
function, every entry of the table, both platforms and every canonical text `c`
without NUL (without `\r\r\n` if the setting stores CRLF and writes LF): the
file written by the checkout hashes to the recorded hash of `c`, i.e. the
dirstate does not report it as modified; and `stat_and_sha1` reports the
canonical size `len(c)`. -/
theorem checkout_clean {H : Type} [DecidableEq H] (sha : Bytes → H)
    (win : Bool) (name : String) (stack : List Filter) (h : (name, stack) ∈ eolMap win)
    (c : Bytes) (hn : hasNul c = false) (hc : readIn stack c = c)
    (hx : lossy stack = true → noCrCrLf false c = true) :
    reportsChange sha stack (sha c) (writeOut stack c) = false ∧
    statSize stack (writeOut stack c) = c.length := by
  have rt := (roundtrip_iff win name stack h c hn hc).2 hx
  refine ⟨?_, ?_⟩
  · simp [reportsChange, hashedText_eq, rt]
  · rw [(stat_size_canonical win name stack h _).1, rt]

/-- non-vacuity of `checkout_clean`: `native-with-crlf-in-repo` is lossy off
win32, `"a\r\nb\r"` satisfies every hypothesis and is checked out as `"a\nb\r"` -/
example : ("native-with-crlf-in-repo", [⟨some .toCrlf, some .toLf⟩]) ∈ eolMap false
    ∧ lossy [⟨some .toCrlf, some .toLf⟩] = true
    ∧ hasNul [97, 13, 10, 98, 13] = false
    ∧ readIn [⟨some .toCrlf, some .toLf⟩] [97, 13, 10, 98, 13] = [97, 13, 10, 98, 13]
    ∧ noCrCrLf false [97, 13, 10, 98, 13] = true
    ∧ writeOut [⟨some .toCrlf, some .toLf⟩] [97, 13, 10, 98, 13] = [97, 10, 98, 13]
    ∧ reportsChange id [⟨some .toCrlf, some .toLf⟩] [97, 13, 10, 98, 13] [97, 10, 98, 13] = false
    ∧ reportsChange id [⟨some .toCrlf, some .toLf⟩] [97, 13, 10, 98, 13] [97, 98, 13] = true := by
  decide

/-- **Exactly the lossy family is reported as modified.**  If the hash
separates the two texts involved (the recorded `c` and what the written file
reads back as), the fresh checkout of a canonical text without NUL reports a
change iff the setting stores CRLF but writes LF and the text contains
`\r\r\n`. -/
theorem checkout_dirty_iff {H : Type} [DecidableEq H] (sha : Bytes → H)
    (win : Bool) (name : String) (stack : List Filter) (h : (name, stack) ∈ eolMap win)
    (c : Bytes) (hn : hasNul c = false) (hc : readIn stack c = c)
    (hinj : sha (readIn stack (writeOut stack c)) = sha c → readIn stack (writeOut stack c) = c) :
    reportsChange sha stack (sha c) (writeOut stack c) = true ↔
      (lossy stack = true ∧ noCrCrLf false c = false) := by
  have rt := roundtrip_iff win name stack h c hn hc
  simp only [reportsChange, hashedText_eq, bne_iff_ne, ne_eq]
  constructor
  · intro hne
    have : ¬ readIn stack (writeOut stack c) = c := fun e => hne (by rw [e])
    rw [rt] at this
    by_cases hl : lossy stack = true
    · refine ⟨hl, ?_⟩
      cases hx : noCrCrLf false c with
      | false => rfl
      | true => exact absurd (fun _ => hx) this
    · exact absurd (fun hl' => absurd hl' hl) this
  · intro ⟨hl, hx⟩ he
    have := rt.1 (hinj he) hl
    rw [hx] at this
    exact Bool.false_ne_true this

/-- **Witness on the checkout level** (the finding, family crlf-repo-cr-cr-lf):
for every hash that separates `"a\r\n"` from `"a\r\r\n"`, the fresh checkout of
the canonical text `"a\r\r\n"` under `lf-with-crlf-in-repo` (and
`native-with-crlf-in-repo` off win32) is reported as modified. -/
theorem checkout_dirty_witness {H : Type} [DecidableEq H] (sha : Bytes → H)
    (hsep : sha [97, 13, 10] ≠ sha [97, 13, 13, 10]) :
    let c : Bytes := [97, 13, 13, 10]
    ∀ name ∈ ["lf-with-crlf-in-repo", "native-with-crlf-in-repo"],
      ∃ stack, eolLookup false name = some stack ∧ hasNul c = false ∧ readIn stack c = c ∧
        reportsChange sha stack (sha c) (writeOut stack c) = true := by
  intro c name hname
  refine ⟨[⟨some .toCrlf, some .toLf⟩], ?_, by decide, by decide, ?_⟩
  · simp only [List.mem_cons, List.mem_nil_iff, or_false] at hname
    rcases hname with rfl | rfl <;> decide
  · have e : hashedText [⟨some .toCrlf, some .toLf⟩] (writeOut [⟨some .toCrlf, some .toLf⟩] c)
        = [97, 13, 10] := by decide
    simp only [reportsChange, e, bne_iff_ne, ne_eq]
    exact hsep

/-- the identity "hash" separates the two texts: the hypothesis of
`checkout_dirty_witness` is satisfiable -/
example : (id : Bytes → Bytes) [97, 13, 10] ≠ id [97, 13, 13, 10] := by decide

/-- **Binary content is never reported as modified**: content with NUL is
written to the tree unchanged by every setting on both platforms, hashes to the
recorded hash (any hash function) and is reported with its own size. -/
theorem checkout_clean_binary {H : Type} [DecidableEq H] (sha : Bytes → H)
    (win : Bool) (name : String) (stack : List Filter) (h : (name, stack) ∈ eolMap win)
    (c : Bytes) (hn : hasNul c = true) :
    writeOut stack c = c ∧ reportsChange sha stack (sha c) (writeOut stack c) = false ∧
    statSize stack (writeOut stack c) = c.length := by
  have hb := binary_untouched win name stack h [c] (by simpa using hn)
  simp only [List.flatten_cons, List.flatten_nil, List.append_nil] at hb
  have hw : writeOut stack c = c := hb.1
  have hr : readIn stack c = c := hb.2
  refine ⟨hw, ?_, ?_⟩
  · simp [reportsChange, hashedText_eq, hw, hr]
  · rw [hw, (stat_size_canonical win name stack h c).1, hr]

/-- non-vacuity: `"a\r\n\0"` under `crlf` -/
example : ("crlf", [⟨some .toLf, some .toCrlf⟩]) ∈ eolMap true ∧ hasNul [97, 13, 10, 0] = true
    ∧ writeOut [⟨some .toLf, some .toCrlf⟩] [97, 13, 10, 0] = [97, 13, 10, 0] := by decide

/-- **A path without an `eol` preference** (no rule matches, or the section
does not set `eol`) gets the empty stack: nothing is converted, the file itself
is hashed and its own size reported, and a fresh checkout never reports a change. -/
theorem unset_pref_exact {H : Type} [DecidableEq H] (sha : Bytes → H) (win : Bool) (c : Bytes) :
    prefStack win none = some [] ∧ prefStack win (some "exact") = some [] ∧
    writeOut [] c = c ∧ hashedText [] c = c ∧ statSize [] c = c.length ∧
    reportsChange sha [] (sha c) (writeOut [] c) = false := by
  cases win <;>
    simp [prefStack, eolLookup, eolMap, writeOut, outputBytes, hashedText, statSize, reportsChange]

/-- a known key gets the table's stack, an unknown one is an error -/
theorem prefStack_some (win : Bool) (key : String) : prefStack win (some key) = eolLookup win key := rfl

/-! ### every comparison route, and the "sizes differ ⇒ contents differ" shortcut

The dirstate fast path (`reportsChange`) and the generic tree comparison
(`contentMatches`, `InterTree.file_content_matches` behind
`InterInventoryTree.iter_changes`: `extra_trees` given, the other tree not a
dirstate parent, `status -r` / `diff -r`) must take the same decision.  The
code has no size shortcut (`SizeCheck.off`); the theorems below say which size
such a shortcut may look at. -/

/-- **Both routes take the same decision**, for every hash function, stack,
recorded size / hash and file content. -/
theorem generic_path_agrees {H : Type} [DecidableEq H] (sha : Bytes → H) (stack : List Filter)
    (recSize : Nat) (recorded : H) (disk : Bytes) :
    contentMatches sha .off stack recSize recorded disk = !reportsChange sha stack recorded disk := by
  simp only [contentMatches, targetSize, reportsChange, bne, Bool.not_not]

/-- **A fresh checkout reports no changes through every route**: under the
hypotheses of `checkout_clean`, the dirstate route, the generic route without
a size shortcut and the generic route with a shortcut on the *filtered* size
all say "unchanged". -/
theorem checkout_clean_every_route {H : Type} [DecidableEq H] (sha : Bytes → H)
    (win : Bool) (name : String) (stack : List Filter) (h : (name, stack) ∈ eolMap win)
    (c : Bytes) (hn : hasNul c = false) (hc : readIn stack c = c)
    (hx : lossy stack = true → noCrCrLf false c = true) :
    reportsChange sha stack (sha c) (writeOut stack c) = false ∧
    contentMatches sha .off stack c.length (sha c) (writeOut stack c) = true ∧
    contentMatches sha .filtered stack c.length (sha c) (writeOut stack c) = true := by
  obtain ⟨h1, h2⟩ := checkout_clean sha win name stack h c hn hc hx
  have rt := (roundtrip_iff win name stack h c hn hc).2 hx
  refine ⟨h1, ?_, ?_⟩
  · simp [contentMatches, targetSize, hashedText_eq, rt]
  · simp [contentMatches, targetSize, hashedText_eq, rt, h2]

/-- **A size shortcut is sound against the FILTERED size**: for every entry
of the table, both platforms, every recorded text `c` and every file content
`d` (fresh or modified), comparing `FilteredStat`'s size with the recorded
size first never changes the decision — provided equal hashes imply equal
lengths for the two texts involved (true for every collision-free pair). -/
theorem size_check_filtered_sound {H : Type} [DecidableEq H] (sha : Bytes → H)
    (win : Bool) (name : String) (stack : List Filter) (h : (name, stack) ∈ eolMap win)
    (c d : Bytes)
    (hlen : sha (readIn stack d) = sha c → (readIn stack d).length = c.length) :
    contentMatches sha .filtered stack c.length (sha c) d =
      contentMatches sha .off stack c.length (sha c) d := by
  have hs := (stat_size_canonical win name stack h d).1
  simp only [contentMatches, targetSize, hs, hashedText_eq]
  split
  · rename_i hne
    have hne' : (readIn stack d).length ≠ c.length := by simpa using hne
    symm
    simp only [beq_eq_false_iff_ne, ne_eq]
    exact fun e => hne' (hlen e)
  · rfl

/-- non-vacuity: the identity "hash" satisfies `hlen`, and the filtered size
of the `crlf` checkout `"a\r\n"` of `"a\n"` is the recorded size 2 -/
example : ((id : Bytes → Bytes) (readIn [⟨some .toLf, some .toCrlf⟩] [97, 13, 10]) = id [97, 10] →
      (readIn [⟨some .toLf, some .toCrlf⟩] [97, 13, 10]).length = ([97, 10] : Bytes).length)
    ∧ targetSize [⟨some .toLf, some .toCrlf⟩] [97, 13, 10] .filtered = some 2
    ∧ targetSize [⟨some .toLf, some .toCrlf⟩] [97, 13, 10] .raw = some 3
    ∧ contentMatches id .filtered [⟨some .toLf, some .toCrlf⟩] 2 [97, 10] [97, 13, 10] = true
    ∧ contentMatches id .filtered [⟨some .toLf, some .toCrlf⟩] 2 [97, 10] [98, 13, 10] = false := by
  decide

/-- for every entry of the table the checkout has the length of the text exactly when it is the text -/
theorem length_writeOut_eq_iff (win : Bool) (name : String) (stack : List Filter)
    (h : (name, stack) ∈ eolMap win) (c : Bytes) :
    (writeOut stack c).length = c.length ↔ writeOut stack c = c := by
  simp only [eolMap, List.mem_cons, Prod.mk.injEq, List.mem_nil_iff, or_false] at h
  rcases h with h | h | h | h | h | h | h <;> obtain ⟨rfl, rfl⟩ := h <;> cases win <;>
    simp [writeOut, outputBytes, Conv.apply, Conv.fn, nativeOutput, length_toLf_eq_iff,
      length_toCrlf_eq_iff]

/-- **A size shortcut on the RAW disk size is unsound — exactly on the
converted files.**  For every hash function, every entry of the table, both
platforms and every canonical text without NUL (without `\r\r\n` for the lossy
settings): comparing the `os.lstat` size of the freshly checked-out file with
the recorded size reports the file as different *iff* the setting's writer
changed the text at all. -/
theorem size_check_raw_dirty_iff {H : Type} [DecidableEq H] (sha : Bytes → H)
    (win : Bool) (name : String) (stack : List Filter) (h : (name, stack) ∈ eolMap win)
    (c : Bytes) (hn : hasNul c = false) (hc : readIn stack c = c)
    (hx : lossy stack = true → noCrCrLf false c = true) :
    contentMatches sha .raw stack c.length (sha c) (writeOut stack c) = false ↔
      writeOut stack c ≠ c := by
  have rt := (roundtrip_iff win name stack h c hn hc).2 hx
  have hl := length_writeOut_eq_iff win name stack h c
  simp only [contentMatches, targetSize, hashedText_eq, rt, beq_self_eq_true]
  constructor
  · intro e he
    have := hl.2 he
    simp [this] at e
  · intro hne
    have : (writeOut stack c).length ≠ c.length := fun e => hne (hl.1 e)
    simp [this]

/-- non-vacuity of `size_check_raw_dirty_iff`: `"a\nb\r"` under `crlf` satisfies the hypotheses and is converted -/
example : ("crlf", [⟨some .toLf, some .toCrlf⟩]) ∈ eolMap false
    ∧ hasNul [97, 10, 98, 13] = false
    ∧ readIn [⟨some .toLf, some .toCrlf⟩] [97, 10, 98, 13] = [97, 10, 98, 13]
    ∧ lossy [⟨some .toLf, some .toCrlf⟩] = false
    ∧ writeOut [⟨some .toLf, some .toCrlf⟩] [97, 10, 98, 13] ≠ [97, 10, 98, 13] := by decide

/-- **Witness**: for *every* hash function, the fresh checkout of the canonical
text `"a\n"` under `crlf` (both platforms) is the 3-byte file `"a\r\n"`; a
shortcut on the raw size says "different", the comparison without shortcut and
the one on the filtered size say "same". -/
theorem size_check_raw_witness {H : Type} [DecidableEq H] (sha : Bytes → H) (win : Bool) :
    let c : Bytes := [97, 10]
    ∃ stack, eolLookup win "crlf" = some stack ∧ hasNul c = false ∧ readIn stack c = c ∧
      writeOut stack c = [97, 13, 10] ∧
      contentMatches sha .raw stack c.length (sha c) (writeOut stack c) = false ∧
      contentMatches sha .off stack c.length (sha c) (writeOut stack c) = true ∧
      contentMatches sha .filtered stack c.length (sha c) (writeOut stack c) = true := by
  intro c
  have e : writeOut [⟨some .toLf, some .toCrlf⟩] c = [97, 13, 10] := by decide
  have r : hashedText [⟨some .toLf, some .toCrlf⟩] [97, 13, 10] = c := by decide
  have s : statSize [⟨some .toLf, some .toCrlf⟩] [97, 13, 10] = 2 := by decide
  refine ⟨[⟨some .toLf, some .toCrlf⟩], by cases win <;> decide, by decide, by decide, e, ?_, ?_, ?_⟩
  · simp [contentMatches, targetSize, e, c]
  · simp [contentMatches, targetSize, e, r]
  · simp [contentMatches, targetSize, e, r, s, c]

/-- the same for the CRLF-in-repo settings that write LF off win32: `"a\r\n"` is checked out as `"a\n"` -/
theorem size_check_raw_witness_crlf_repo {H : Type} [DecidableEq H] (sha : Bytes → H) :
    let c : Bytes := [97, 13, 10]
    ∀ name ∈ ["lf-with-crlf-in-repo", "native-with-crlf-in-repo"],
      ∃ stack, eolLookup false name = some stack ∧ hasNul c = false ∧ readIn stack c = c ∧
        writeOut stack c = [97, 10] ∧
        contentMatches sha .raw stack c.length (sha c) (writeOut stack c) = false ∧
        contentMatches sha .off stack c.length (sha c) (writeOut stack c) = true := by
  intro c name hname
  have e : writeOut [⟨some .toCrlf, some .toLf⟩] c = [97, 10] := by decide
  have r : hashedText [⟨some .toCrlf, some .toLf⟩] [97, 10] = c := by decide
  refine ⟨[⟨some .toCrlf, some .toLf⟩], ?_, by decide, by decide, e, ?_, ?_⟩
  · simp only [List.mem_cons, List.mem_nil_iff, or_false] at hname
    rcases hname with rfl | rfl <;> decide
  · simp [contentMatches, targetSize, e, c]
  · simp [contentMatches, targetSize, e, r]

end BreezyVerif.C45
