import BreezyVerif.Model.C24
/-! C24 — helper lemmas: association-list dicts and the `_reconcile_tags` loop. -/
namespace BreezyVerif.C24

section dict
variable {κ ν : Type} [DecidableEq κ]

@[simp] theorem dget_nil (n : κ) : dget ([] : Dict κ ν) n = none := rfl

theorem dget_cons (k : κ) (v : ν) (r : Dict κ ν) (n : κ) :
    dget ((k, v) :: r) n = if k = n then some v else dget r n := rfl

theorem dget_dset_self (d : Dict κ ν) (k : κ) (v : ν) : dget (dset d k v) k = some v := by
  induction d with
  | nil => simp [dset, dget_cons]
  | cons e r ih =>
    obtain ⟨a, b⟩ := e
    by_cases h : a = k <;> simp [dset, dget_cons, h, ih]

theorem dget_dset_ne (d : Dict κ ν) (k n : κ) (v : ν) (h : k ≠ n) :
    dget (dset d k v) n = dget d n := by
  induction d with
  | nil => simp [dset, dget_cons, h]
  | cons e r ih =>
    obtain ⟨a, b⟩ := e
    by_cases h1 : a = k
    · subst h1; simp [dset, dget_cons, h]
    · by_cases h2 : a = n
      · subst h2; simp [dset, dget_cons, h1]
      · simp [dset, dget_cons, h1, h2, ih]

theorem dget_eq_none_iff (d : Dict κ ν) (n : κ) : dget d n = none ↔ n ∉ dkeys d := by
  induction d with
  | nil => simp [dkeys]
  | cons e r ih =>
    obtain ⟨a, b⟩ := e
    by_cases h : a = n
    · simp [dget_cons, h, dkeys]
    · have : ¬ n = a := fun e => h e.symm
      simpa [dget_cons, h, dkeys, this] using ih

theorem dget_isSome_iff (d : Dict κ ν) (n : κ) : (dget d n).isSome ↔ n ∈ dkeys d := by
  have := dget_eq_none_iff d n
  cases h : dget d n <;> simp_all

theorem dget_some_mem (d : Dict κ ν) (n : κ) (v : ν) (h : dget d n = some v) : (n, v) ∈ d := by
  induction d with
  | nil => simp at h
  | cons e r ih =>
    obtain ⟨a, b⟩ := e
    by_cases h1 : a = n
    · simp [dget_cons, h1] at h; simp [h1, h]
    · simp [dget_cons, h1] at h; simp [ih h]

theorem dget_of_mem (d : Dict κ ν) (hn : (dkeys d).Nodup) (n : κ) (v : ν) (h : (n, v) ∈ d) :
    dget d n = some v := by
  induction d with
  | nil => simp at h
  | cons e r ih =>
    obtain ⟨a, b⟩ := e
    simp [dkeys] at hn
    rcases List.mem_cons.mp h with h | h
    · simp at h; simp [dget_cons, h.1, h.2]
    · have : a ≠ n := by
        intro e; subst e
        exact hn.1 v h
      simp only [dget_cons, this, if_false]
      exact ih (by simpa [dkeys] using hn.2) h

theorem dkeys_dset (d : Dict κ ν) (k : κ) (v : ν) :
    dkeys (dset d k v) = if k ∈ dkeys d then dkeys d else dkeys d ++ [k] := by
  induction d with
  | nil => simp [dset, dkeys]
  | cons e r ih =>
    obtain ⟨a, b⟩ := e
    by_cases h : a = k
    · simp [dset, dkeys, h]
    · have h' : ¬ k = a := fun e => h e.symm
      simp only [dset, h, if_false]
      simp only [dkeys, List.map_cons, List.mem_cons, h', false_or] at ih ⊢
      rw [ih]
      by_cases hm : k ∈ List.map Prod.fst r <;> simp [hm]

theorem dset_nodup (d : Dict κ ν) (k : κ) (v : ν) (h : (dkeys d).Nodup) : (dkeys (dset d k v)).Nodup := by
  rw [dkeys_dset]
  split
  · exact h
  · rename_i hk
    simp [List.nodup_append, h]
    intro a ha e; subst e; exact hk ha

end dict

/-! ### the loop of `_reconcile_tags` -/
section reconcile
variable {κ ν : Type} [DecidableEq κ] [DecidableEq ν]

/-- what the statement says the value of one tag must be: `s` = source
definition if the tag is in the source and selected, `d` = destination definition -/
def specVal (s d : Option ν) (ow : Bool) : Option ν :=
  match s, d with
  | none, d => d
  | some v, none => some v
  | some v, some w => if v = w then some w else if ow then some v else some w

/-- the update reported for one tag -/
def specUpd (s d : Option ν) (ow : Bool) : Option ν :=
  match s, d with
  | none, _ => none
  | some v, none => some v
  | some v, some w => if v ≠ w ∧ ow = true then some v else none

/-- the source's definition of `n`, if the selector lets it through -/
def srcSel (sel : Option (κ → Bool)) (src : Dict κ ν) (n : κ) : Option ν :=
  if selected sel n then dget src n else none

/-- the loop body in a form convenient for proofs -/
theorem step_eq (ow : Bool) (sel : Option (κ → Bool)) (st : Rec κ ν) (k : κ) (v : ν) :
    step ow sel st (k, v) =
      if selected sel k = false then st
      else match dget st.result k with
        | none => { st with result := dset st.result k v, updates := dset st.updates k v }
        | some w =>
          if w = v then st
          else if ow = true then { st with result := dset st.result k v, updates := dset st.updates k v }
          else { st with conflicts := st.conflicts ++ [(k, v, w)] } := by
  unfold step stepKind selected
  cases sel with
  | none =>
    cases hc : dget st.result k with
    | none => simp
    | some w => by_cases hw : w = v <;> cases ow <;> simp [hw]
  | some f =>
    cases hf : f k
    · simp [hf]
    · cases hc : dget st.result k with
      | none => simp [hf]
      | some w => by_cases hw : w = v <;> cases ow <;> simp [hw, hf]

theorem step_result_self (ow : Bool) (sel : Option (κ → Bool)) (st : Rec κ ν) (k : κ) (v : ν) :
    dget (step ow sel st (k, v)).result k
      = specVal (if selected sel k then some v else none) (dget st.result k) ow := by
  rw [step_eq]; unfold specVal
  cases hs : selected sel k <;> simp
  cases hc : dget st.result k with
  | none => simp [dget_dset_self]
  | some w =>
    by_cases hw : w = v
    · simp [hw, hc]
    · have hw' : ¬ v = w := fun e => hw e.symm
      cases ow <;> simp [hw, hw', hc, dget_dset_self]

theorem step_result_ne (ow : Bool) (sel : Option (κ → Bool)) (st : Rec κ ν) (k n : κ) (v : ν)
    (h : k ≠ n) : dget (step ow sel st (k, v)).result n = dget st.result n := by
  rw [step_eq]
  split
  · rfl
  · split
    · simp [dget_dset_ne _ _ _ _ h]
    · split
      · rfl
      · split <;> simp [dget_dset_ne _ _ _ _ h]

theorem step_updates_self (ow : Bool) (sel : Option (κ → Bool)) (st : Rec κ ν) (k : κ) (v : ν) :
    dget (step ow sel st (k, v)).updates k
      = match specUpd (if selected sel k then some v else none) (dget st.result k) ow with
        | some x => some x
        | none => dget st.updates k := by
  rw [step_eq]; unfold specUpd
  cases hs : selected sel k <;> simp
  cases hc : dget st.result k with
  | none => simp [dget_dset_self]
  | some w =>
    by_cases hw : w = v
    · subst hw
      simp
    · have hw' : ¬ v = w := fun e => hw e.symm
      cases ow <;> simp [hw, hw', dget_dset_self]

theorem step_updates_ne (ow : Bool) (sel : Option (κ → Bool)) (st : Rec κ ν) (k n : κ) (v : ν)
    (h : k ≠ n) : dget (step ow sel st (k, v)).updates n = dget st.updates n := by
  rw [step_eq]
  split
  · rfl
  · split
    · simp [dget_dset_ne _ _ _ _ h]
    · split
      · rfl
      · split <;> simp [dget_dset_ne _ _ _ _ h]

theorem step_conflicts (ow : Bool) (sel : Option (κ → Bool)) (st : Rec κ ν) (k : κ) (v : ν)
    (c : κ × ν × ν) :
    c ∈ (step ow sel st (k, v)).conflicts ↔
      c ∈ st.conflicts ∨ (c.1 = k ∧ c.2.1 = v ∧ selected sel k = true ∧ ow = false
        ∧ dget st.result k = some c.2.2 ∧ v ≠ c.2.2) := by
  rw [step_eq]
  obtain ⟨cn, cv, cw⟩ := c
  cases hs : selected sel k <;> simp
  cases hc : dget st.result k with
  | none => simp
  | some w =>
    by_cases hw : w = v
    · simp [hw]
    · cases ow <;> simp [hw]
      constructor
      · rintro (h | ⟨rfl, rfl, rfl⟩)
        · exact Or.inl h
        · exact Or.inr ⟨rfl, rfl, rfl, fun e => hw e.symm⟩
      · rintro (h | ⟨rfl, rfl, rfl, _⟩)
        · exact Or.inl h
        · exact Or.inr ⟨rfl, rfl, rfl⟩

omit [DecidableEq ν] in
theorem srcSel_cons_self (sel : Option (κ → Bool)) (k : κ) (v : ν) (r : Dict κ ν) :
    srcSel sel ((k, v) :: r) k = if selected sel k then some v else none := by
  simp [srcSel, dget_cons]

omit [DecidableEq ν] in
theorem srcSel_cons_ne (sel : Option (κ → Bool)) (k n : κ) (v : ν) (r : Dict κ ν) (h : k ≠ n) :
    srcSel sel ((k, v) :: r) n = srcSel sel r n := by
  simp [srcSel, dget_cons, h]

omit [DecidableEq ν] in
theorem srcSel_not_mem (sel : Option (κ → Bool)) (r : Dict κ ν) (n : κ) (h : n ∉ dkeys r) :
    srcSel sel r n = none := by
  simp [srcSel, (dget_eq_none_iff r n).mpr h]

theorem specVal_none (d : Option ν) (ow : Bool) : specVal none d ow = d := by
  unfold specVal; rfl

theorem specUpd_none (d : Option ν) (ow : Bool) : specUpd none d ow = none := by
  unfold specUpd; rfl

theorem foldl_result (ow : Bool) (sel : Option (κ → Bool)) (src : Dict κ ν) (hn : (dkeys src).Nodup)
    (st : Rec κ ν) (n : κ) :
    dget (src.foldl (step ow sel) st).result n = specVal (srcSel sel src n) (dget st.result n) ow := by
  induction src generalizing st with
  | nil => simp [srcSel, specVal_none]
  | cons e r ih =>
    obtain ⟨k, v⟩ := e
    simp only [dkeys, List.map_cons, List.nodup_cons] at hn
    rw [List.foldl_cons, ih (by simpa [dkeys] using hn.2)]
    by_cases h : k = n
    · subst h
      rw [srcSel_not_mem sel r k (by simpa [dkeys] using hn.1), specVal_none, step_result_self,
        srcSel_cons_self]
    · rw [step_result_ne _ _ _ _ _ _ h, srcSel_cons_ne _ _ _ _ _ h]

theorem foldl_updates (ow : Bool) (sel : Option (κ → Bool)) (src : Dict κ ν) (hn : (dkeys src).Nodup)
    (st : Rec κ ν) (n : κ) :
    dget (src.foldl (step ow sel) st).updates n
      = match specUpd (srcSel sel src n) (dget st.result n) ow with
        | some x => some x
        | none => dget st.updates n := by
  induction src generalizing st with
  | nil => simp [srcSel, specUpd_none]
  | cons e r ih =>
    obtain ⟨k, v⟩ := e
    simp only [dkeys, List.map_cons, List.nodup_cons] at hn
    rw [List.foldl_cons, ih (by simpa [dkeys] using hn.2)]
    by_cases h : k = n
    · subst h
      rw [srcSel_not_mem sel r k (by simpa [dkeys] using hn.1), specUpd_none, step_updates_self,
        srcSel_cons_self]
    · rw [step_result_ne _ _ _ _ _ _ h, step_updates_ne _ _ _ _ _ _ h, srcSel_cons_ne _ _ _ _ _ h]

theorem foldl_conflicts (ow : Bool) (sel : Option (κ → Bool)) (src : Dict κ ν) (hn : (dkeys src).Nodup)
    (st : Rec κ ν) (c : κ × ν × ν) :
    c ∈ (src.foldl (step ow sel) st).conflicts ↔
      c ∈ st.conflicts ∨ (ow = false ∧ srcSel sel src c.1 = some c.2.1
        ∧ dget st.result c.1 = some c.2.2 ∧ c.2.1 ≠ c.2.2) := by
  induction src generalizing st with
  | nil => simp [srcSel]
  | cons e r ih =>
    obtain ⟨k, v⟩ := e
    simp only [dkeys, List.map_cons, List.nodup_cons] at hn
    rw [List.foldl_cons, ih (by simpa [dkeys] using hn.2), step_conflicts]
    by_cases h : k = c.1
    · subst h
      rw [srcSel_not_mem sel r c.1 (by simpa [dkeys] using hn.1), srcSel_cons_self]
      cases hs : selected sel c.1 <;> simp
      constructor
      · rintro (h | ⟨h1, h2, h3, h4⟩)
        · exact Or.inl h
        · exact Or.inr ⟨h2, h1.symm, h3, h1 ▸ h4⟩
      · rintro (h | ⟨h1, h2, h3, h4⟩)
        · exact Or.inl h
        · exact Or.inr ⟨h2.symm, h1, h3, h2 ▸ h4⟩
    · have h' : ¬ c.1 = k := fun e => h e.symm
      rw [step_result_ne _ _ _ _ _ _ h, srcSel_cons_ne _ _ _ _ _ h]
      simp [h']

/-! ### `_merge_to` and `merge` -/

theorem dictNe_false (a b : Dict κ ν) (ha : (dkeys a).Nodup) (h : dictNe a b = false) (n : κ) :
    dget a n = dget b n := by
  simp only [dictNe, Bool.not_eq_false', Bool.and_eq_true, beq_iff_eq, List.all_eq_true] at h
  obtain ⟨hlen, hall⟩ := h
  cases hg : dget a n with
  | some v => exact (hall _ (dget_some_mem a n v hg)).symm
  | none =>
    cases hb : dget b n with
    | none => rfl
    | some w =>
      exfalso
      have hna : n ∉ dkeys a := (dget_eq_none_iff a n).mp hg
      have hnb : n ∈ dkeys b := (dget_isSome_iff b n).mp (by simp [hb])
      have hsub : (n :: dkeys a) ⊆ dkeys b := by
        intro k hk
        rcases List.mem_cons.mp hk with rfl | hk
        · exact hnb
        · simp only [dkeys, List.mem_map] at hk
          obtain ⟨e, he, rfl⟩ := hk
          exact (dget_isSome_iff b e.1).mp (by simp [hall e he])
      have := List.Nodup.length_le_of_subset (List.nodup_cons.mpr ⟨hna, ha⟩) hsub
      simp [dkeys] at this
      omega

theorem foldl_result_nodup (ow : Bool) (sel : Option (κ → Bool)) (src : Dict κ ν) (st : Rec κ ν)
    (h : (dkeys st.result).Nodup) : (dkeys (src.foldl (step ow sel) st).result).Nodup := by
  induction src generalizing st with
  | nil => exact h
  | cons e r ih =>
    rw [List.foldl_cons]
    apply ih
    obtain ⟨k, v⟩ := e
    rw [step_eq]
    split
    · exact h
    · split
      · exact dset_nodup _ _ _ h
      · split
        · exact h
        · split
          · exact dset_nodup _ _ _ h
          · exact h

theorem foldl_updates_nodup (ow : Bool) (sel : Option (κ → Bool)) (src : Dict κ ν) (st : Rec κ ν)
    (h : (dkeys st.updates).Nodup) : (dkeys (src.foldl (step ow sel) st).updates).Nodup := by
  induction src generalizing st with
  | nil => exact h
  | cons e r ih =>
    rw [List.foldl_cons]
    apply ih
    obtain ⟨k, v⟩ := e
    rw [step_eq]
    split
    · exact h
    · split
      · exact dset_nodup _ _ _ h
      · split
        · exact h
        · split
          · exact dset_nodup _ _ _ h
          · exact h

omit [DecidableEq ν] in
theorem dget_dupdate (a b : Dict κ ν) (hb : (dkeys b).Nodup) (n : κ) :
    dget (dupdate a b) n = match dget b n with
      | some x => some x
      | none => dget a n := by
  induction b generalizing a with
  | nil => simp [dupdate]
  | cons e r ih =>
    obtain ⟨k, v⟩ := e
    simp only [dkeys, List.map_cons, List.nodup_cons] at hb
    have : dupdate a ((k, v) :: r) = dupdate (dset a k v) r := rfl
    rw [this, ih _ (by simpa [dkeys] using hb.2)]
    by_cases h : k = n
    · subst h
      rw [(dget_eq_none_iff r k).mpr (by simpa [dkeys] using hb.1)]
      simp [dget_cons, dget_dset_self]
    · simp [dget_cons, h, dget_dset_ne _ _ _ _ h]

end reconcile
end BreezyVerif.C24
