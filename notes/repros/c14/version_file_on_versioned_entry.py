"""C14 family bzr-version-file-on-versioned-entry (+partial).

version_file(trans_id, file_id=new) on a tree path that is versioned, without unversion_file:
final_file_id() says the entry has the new id, find_raw_conflicts() is empty, but
_generate_inventory_delta adds the new id without removing the old one.
 (1) same path: apply() moves the files, then apply_inventory_delta raises InconsistentDelta
     ("path already occupied") OUTSIDE the rollback: new file on disk, inventory unchanged —
     a partially applied tree;
 (2) renamed in the same transform: apply() succeeds but the inventory keeps the old id at the
     old path (a versioned, missing entry) which the preview tree does not show.
Exit 1 = defect present, 0 = absent."""
import sys
from _boot import *
bad = 0
# (1)
wt = make_tree("2a", [("b", "file", "B", True)])
before = listing(wt)
tt = wt.transform()
try:
    tt.version_file(tt.trans_id_tree_path("b"), file_id=b"fid1")
    tt.new_file("d", tt.root, [b"N6"], b"fid2")
    print("(1) raw conflicts:", tt.find_raw_conflicts())
    resolve_conflicts(tt)
    try:
        tt.apply()
        print("(1) applied:", listing(wt))
    except MalformedTransform as e:
        print("(1) MalformedTransform (acceptable)", e.conflicts)
    except Exception as e:
        after = listing(wt)
        print("(1) apply raised %s" % type(e).__name__)
        print("    before:", before)
        print("    after: ", after)
        if after != before:
            print("(1) DEFECT: partially applied tree")
            bad = 1
        else:
            print("(1) DEFECT: a conflict-free transform does not apply")
            bad = 1
finally:
    tt.finalize()
# (2)
wt = make_tree("2a", [("b", "directory", "", True)])
tt = wt.transform()
try:
    b = tt.trans_id_tree_path("b")
    tt.version_file(b, file_id=b"fid2")
    tt.adjust_path("e", tt.root, b)
    resolve_conflicts(tt)
    pv = sorted(p for p, _e in tt.get_preview_tree().iter_entries_by_dir() if p)
    tt.apply()
    after = listing(wt)
    print("(2) preview paths:", pv, " applied:", after)
    if sorted(after) != pv:
        print("(2) DEFECT: preview and applied tree differ")
        bad = 1
except MalformedTransform as e:
    print("(2) MalformedTransform (acceptable)", e.conflicts)
finally:
    tt.finalize()
sys.exit(bad)
