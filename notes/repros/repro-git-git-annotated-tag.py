"""C24 finding `git-git-annotated-tag-object-not-copied` — standalone repro.

usage: /venv/bin/python repro-git-git-annotated-tag.py [/path/to/breezy/checkout]   (default /repo)

InterTagsFromGitToLocalGit.merge (breezy/git/branch.py) copies a tag from one
local git repository to another by writing the source's *unpeeled* sha into the
target's ref.  For an annotated tag that sha names a tag object; merge() checks
that the target has the tagged commit but never copies the tag object.  When the
target does not have it the new ref is broken: get_tag_dict() skips it.  So
 - a tag only in the source is reported in `updates` but is not readable in the
   target, and
 - with overwrite=True a readable target tag is replaced by the broken ref and
   disappears from the target's tag dictionary.
exit 1 = tags lost / not added, exit 0 = fine.
"""
import os
import shutil
import sys
import tempfile

sys.path.insert(0, sys.argv[1] if len(sys.argv) > 1 else "/repo")
home = tempfile.mkdtemp(prefix="c24-repro-home-", dir="/var/tmp")
os.environ["HOME"] = os.environ["BRZ_HOME"] = home
import breezy  # noqa: E402

breezy.initialize()
import breezy.bzr  # noqa: E402,F401
import breezy.git  # noqa: E402,F401
from breezy import trace  # noqa: E402
from breezy.controldir import ControlDir, format_registry  # noqa: E402
from dulwich.objects import Commit, Tag  # noqa: E402

trace.be_quiet(True)
scratch = tempfile.mkdtemp(prefix="c24-repro-", dir="/var/tmp")
problems = []
try:
    wt = ControlDir.create_standalone_workingtree(
        os.path.join(scratch, "src"), format=format_registry.make_controldir("git"))
    r1 = wt.commit("one", committer="T <t@example.com>")
    r2 = wt.commit("two", committer="T <t@example.com>")
    wt.branch.controldir.sprout(os.path.join(scratch, "dst"))     # dst has both commits

    def annotate(name, revid):
        repo = wt.branch.repository._git
        t = Tag()
        t.tagger = b"T <t@example.com>"
        t.message = b"release\n"
        t.name = name.encode()
        t.object = (Commit, revid[len(b"git-v1:"):])
        t.tag_time = 1500000000
        t.tag_timezone = 0
        repo.object_store.add_object(t)
        repo.refs[b"refs/tags/" + name.encode()] = t.id

    annotate("v1", r1)          # `git tag -a v1`
    annotate("v2", r2)
    src = ControlDir.open(os.path.join(scratch, "src")).open_branch()
    dst = ControlDir.open(os.path.join(scratch, "dst")).open_branch()
    dst.tags._set_tag_dict({})
    dst.tags.set_tag("v2", r1)  # differing definition of v2 in the destination
    print("source :", src.tags.get_tag_dict())
    before = dict(dst.tags.get_tag_dict())
    print("before :", before)
    updates, conflicts = src.tags.merge_to(dst.tags, overwrite=True)
    after = ControlDir.open(os.path.join(scratch, "dst")).open_branch().tags.get_tag_dict()
    print("updates:", updates, "conflicts:", sorted(conflicts))
    print("after  :", after)
    if after.get("v1") != r1:
        problems.append("source-only tag v1 is reported as added but is not readable in the destination")
    if "v2" not in after:
        problems.append("destination tag v2 is lost (overwritten by a ref to a tag object the destination does not have)")
finally:
    shutil.rmtree(scratch, ignore_errors=True)
    shutil.rmtree(home, ignore_errors=True)
for p in problems:
    print("C24 VIOLATED:", p)
sys.stdout.flush()
os._exit(1 if problems else 0)
