"""T1: source -> Lean.  Reads Python source under /repo with `ast` and writes
literal Lean transcriptions of (a) constant tables and (b) pure decision
functions of the shape if/elif/else + return over ==, !=, in (..), not in (..),
and/or/not.  Anything outside that shape raises ExtractError (the check then
records `t1: extract-failed` and relies on T2).
"""
import ast
import os


class ExtractError(Exception):
    pass


def find_func(path, qualname):
    """return the ast.FunctionDef for 'Class.method' or 'func' in file"""
    tree = ast.parse(open(path).read())
    parts = qualname.split(".")
    body = tree.body
    node = None
    for p in parts:
        node = next((n for n in body if isinstance(n, (ast.FunctionDef, ast.ClassDef)) and n.name == p), None)
        if node is None:
            raise ExtractError("%s not found in %s" % (qualname, path))
        body = node.body
    return node


def find_assign(path, name, cls=None):
    tree = ast.parse(open(path).read())
    body = tree.body
    if cls:
        c = next((n for n in body if isinstance(n, ast.ClassDef) and n.name == cls), None)
        if c is None:
            raise ExtractError("class %s not found" % cls)
        body = c.body
    for n in body:
        if isinstance(n, ast.Assign) and any(isinstance(t, ast.Name) and t.id == name for t in n.targets):
            return n.value
        if isinstance(n, ast.AnnAssign) and isinstance(n.target, ast.Name) and n.target.id == name:
            return n.value
    raise ExtractError("%s not found in %s" % (name, path))


def literal(path, name, cls=None):
    return ast.literal_eval(find_assign(path, name, cls))


class DecisionTranslator:
    """Translate a decision function to a Lean term."""

    def __init__(self, const=None, names=None, calls=None):
        self.const = const or (lambda v: repr(v))   # python constant -> lean term
        self.names = names or {}                     # python name -> lean name
        self.calls = calls or {}                     # python callee text -> lean function

    def expr(self, e):
        if isinstance(e, ast.Name):
            return self.names.get(e.id, e.id)
        if isinstance(e, ast.Constant):
            return self.const(e.value)
        if isinstance(e, ast.Tuple):
            return "(" + ", ".join(self.expr(x) for x in e.elts) + ")"
        if isinstance(e, ast.Call):
            callee = ast.unparse(e.func)
            if callee in self.calls and not e.keywords:
                return "(" + " ".join([self.calls[callee]] + [self.expr(x) for x in e.args]) + ")"
        raise ExtractError("unsupported expression: %s" % ast.unparse(e))

    def cond(self, e):
        if isinstance(e, ast.BoolOp):
            op = " ∧ " if isinstance(e.op, ast.And) else " ∨ "
            return "(" + op.join(self.cond(v) for v in e.values) + ")"
        if isinstance(e, ast.UnaryOp) and isinstance(e.op, ast.Not):
            return "(¬ " + self.cond(e.operand) + ")"
        if isinstance(e, ast.Compare) and len(e.ops) == 1:
            l, op, r = e.left, e.ops[0], e.comparators[0]
            if isinstance(op, ast.Eq):
                return "(%s = %s)" % (self.expr(l), self.expr(r))
            if isinstance(op, ast.NotEq):
                return "(%s ≠ %s)" % (self.expr(l), self.expr(r))
            if isinstance(op, (ast.In, ast.NotIn)) and isinstance(r, (ast.Tuple, ast.List, ast.Set)):
                if not r.elts:
                    s = "False"
                else:
                    s = "(" + " ∨ ".join("%s = %s" % (self.expr(l), self.expr(x)) for x in r.elts) + ")"
                return s if isinstance(op, ast.In) else "(¬ %s)" % s
            if isinstance(op, ast.Is) and isinstance(r, ast.Constant) and r.value is None:
                return "(%s = none)" % self.expr(l)
            if isinstance(op, ast.IsNot) and isinstance(r, ast.Constant) and r.value is None:
                return "(%s ≠ none)" % self.expr(l)
        if isinstance(e, ast.Name):
            return "(%s = true)" % self.names.get(e.id, e.id)
        raise ExtractError("unsupported condition: %s" % ast.unparse(e))

    def block(self, stmts, indent="  "):
        """statements -> Lean term; every path must end in return"""
        stmts = [s for s in stmts if not (isinstance(s, ast.Expr) and isinstance(s.value, ast.Constant))]
        if not stmts:
            raise ExtractError("path without return")
        s = stmts[0]
        rest = stmts[1:]
        if isinstance(s, ast.Return):
            return self.expr(s.value)
        if isinstance(s, ast.If):
            then = self.block(s.body, indent + "  ")
            if s.orelse:
                # code after an if/else whose branches all return is dead
                els = self.block(s.orelse + (rest if not _all_return(s.orelse) else []), indent + "  ")
            else:
                els = self.block(rest, indent + "  ")
            return "if %s then %s\n%selse %s" % (self.cond(s.test), then, indent, els)
        raise ExtractError("unsupported statement: %s" % ast.unparse(s)[:80])


def _all_return(stmts):
    if not stmts:
        return False
    last = stmts[-1]
    if isinstance(last, ast.Return):
        return True
    if isinstance(last, ast.If):
        return bool(last.orelse) and _all_return(last.body) and _all_return(last.orelse)
    return False


def write_if_changed(path, text):
    os.makedirs(os.path.dirname(path), exist_ok=True)
    if os.path.exists(path) and open(path).read() == text:
        return False
    tmp = path + ".tmp%d" % os.getpid()
    with open(tmp, "w") as f:
        f.write(text)
    os.replace(tmp, path)
    return True


def lean_str(s):
    out = []
    for ch in s:
        if ch == '"':
            out.append('\\"')
        elif ch == "\\":
            out.append("\\\\")
        elif ch == "\n":
            out.append("\\n")
        elif ch == "\r":
            out.append("\\r")
        elif ch == "\t":
            out.append("\\t")
        elif ord(ch) < 32 or ord(ch) == 127:
            out.append("\\x%02x" % ord(ch))
        else:
            out.append(ch)
    return '"' + "".join(out) + '"'


def lean_bytes(b):
    return "[" + ", ".join(str(x) for x in b) + "]"
