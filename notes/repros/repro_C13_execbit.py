#!/venv/bin/python
"""C13 finding `execbit-not-rolled-back`: a failed TreeTransform.apply() rolls the
renames back but not the mode change made by _set_executability.

    /venv/bin/python repro_C13_execbit.py [repo]      (default repo: /repo)

`brz revert` of "chmod +x a; mv z zz": the rename of z fails (any OSError from
os.rename: EIO, EACCES, ENOSPC ...).  apply() calls mover.rollback(): `zz` is
back, the command fails - and file `a` has lost its executable bit although
nothing else of the revert happened.  Exit status 1 = defect present.
"""
import errno, os, shutil, stat, sys, tempfile

repo = sys.argv[1] if len(sys.argv) > 1 else "/repo"
sys.path.insert(0, repo)
scratch = tempfile.mkdtemp(prefix="c13-execbit-", dir="/var/tmp")
os.environ.update(HOME=scratch, BRZ_HOME=scratch, BRZ_EMAIL="t <t@example.com>")
import breezy
breezy.initialize()
import breezy.bzr, breezy.git, breezy.bzr.bzrdir, breezy.bzr.workingtree_4, breezy.bzr.groupcompress_repo  # noqa
import breezy.ui
breezy.ui.ui_factory = breezy.ui.SilentUIFactory()
import breezy.trace
breezy.trace.be_quiet(True)
from breezy.controldir import ControlDir, format_registry
from breezy.transform import TransformRenameFailed

bad = 0
for fmt in ("2a", "git"):
    root = os.path.join(scratch, fmt)
    wt = ControlDir.create_standalone_workingtree(root, format=format_registry.make_controldir(fmt))
    for name in ("a", "z"):
        with open(os.path.join(root, name), "w") as f:
            f.write(name + "\n")
    wt.smart_add([root])
    rev1 = wt.commit("A")
    # B: a becomes executable, z is renamed
    os.chmod(os.path.join(root, "a"), 0o755)
    wt.rename_one("z", "zz")
    wt.commit("B")
    # a genuine OS failure of the second rename (zz: limbo -> z)
    real_rename, calls = os.rename, []

    def failing(src, dst, *a, **kw):
        calls.append(dst)
        if os.path.basename(dst) == "z":
            raise OSError(errno.EIO, "Input/output error", src)
        return real_rename(src, dst, *a, **kw)
    before = stat.S_IMODE(os.lstat(os.path.join(root, "a")).st_mode)
    os.rename = failing
    try:
        with wt.lock_tree_write():
            wt.revert(old_tree=wt.branch.repository.revision_tree(rev1), backups=False)
        outcome = "revert succeeded?!"
    except TransformRenameFailed as e:
        outcome = "revert failed: %s" % e.__class__.__name__
    finally:
        os.rename = real_rename
    after = stat.S_IMODE(os.lstat(os.path.join(root, "a")).st_mode)
    names = sorted(n for n in os.listdir(root) if not n.startswith("."))
    print("%-3s %s; files now %s; mode of a before %o, after the failed revert %o%s"
          % (fmt, outcome, names, before, after, "" if before == after else "   <-- NOT RESTORED"))
    bad += before != after
shutil.rmtree(scratch, ignore_errors=True)
sys.exit(1 if bad else 0)
