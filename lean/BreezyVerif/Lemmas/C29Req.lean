import BreezyVerif.Lemmas.C29CK
import BreezyVerif.Lemmas.C29Misc
/-! readv offsets, ConventionalRequestHandler on decoded events, protocol-2 client
response parsing -/
namespace BreezyVerif.C29

/-! ### `bytes.split(sep)` -/

theorem splitByte_cons (sep c : UInt8) (cs : Bytes) :
    splitByte sep (c :: cs) = if c = sep then [] :: splitByte sep cs
      else match splitByte sep cs with
        | [] => [[c]]
        | f :: fs => (c :: f) :: fs := by
  rw [splitByte]
  split
  · rfl
  · split <;> simp_all

theorem splitByte_of_notMem {sep : UInt8} {a : Bytes} (h : sep ∉ a) : splitByte sep a = [a] := by
  induction a with
  | nil => rfl
  | cons c cs ih =>
    simp only [List.mem_cons, not_or] at h
    have hc : c ≠ sep := fun e => h.1 e.symm
    rw [splitByte_cons]
    simp [hc, ih h.2]

theorem splitByte_append {sep : UInt8} {a : Bytes} (r : Bytes) (h : sep ∉ a) :
    splitByte sep (a ++ sep :: r) = a :: splitByte sep r := by
  induction a with
  | nil => rw [List.nil_append, splitByte_cons]; simp
  | cons c cs ih =>
    simp only [List.mem_cons, not_or] at h
    have hc : c ≠ sep := fun e => h.1 e.symm
    simp only [List.cons_append]
    rw [splitByte_cons]
    simp [hc, ih h.2]

/-! ### readv offsets -/

/-- one serialised pair `start,length` -/
def offsetLine (p : Nat × Nat) : Bytes := natDigits 10 p.1 ++ 44 :: natDigits 10 p.2

theorem offsetLine_no_nl (p : Nat × Nat) : (10 : UInt8) ∉ offsetLine p := by
  unfold offsetLine
  intro h
  simp only [List.mem_append, List.mem_cons] at h
  rcases h with h | h | h
  · exact natDigits_notMem (by omega) (by omega) _ 10 (Or.inl rfl) h
  · exact absurd h (by decide)
  · exact natDigits_notMem (by omega) (by omega) _ 10 (Or.inl rfl) h

theorem offsetLine_ne_nil (p : Nat × Nat) : (offsetLine p).isEmpty = false := by
  unfold offsetLine
  cases h : natDigits 10 p.1 with
  | nil => exact absurd h (natDigits_ne_nil _ _)
  | cons c cs => rfl

theorem parseOffsetLine_offsetLine (p : Nat × Nat) : parseOffsetLine (offsetLine p) = some p := by
  unfold parseOffsetLine offsetLine
  have h1 : (44 : UInt8) ∉ natDigits 10 p.1 :=
    natDigits_notMem (by omega) (by omega) _ 44 (Or.inr (Or.inr (Or.inr (Or.inl rfl))))
  have h2 : (44 : UInt8) ∉ natDigits 10 p.2 :=
    natDigits_notMem (by omega) (by omega) _ 44 (Or.inr (Or.inr (Or.inr (Or.inl rfl))))
  rw [splitByte_append _ h1, splitByte_of_notMem h2]
  simp [parseNat_natDigits (base := 10) (by omega) (by omega)]

theorem serialiseOffsets_cons_cons (p q : Nat × Nat) (rest : List (Nat × Nat)) :
    serialiseOffsets (p :: q :: rest) = offsetLine p ++ 10 :: serialiseOffsets (q :: rest) := by
  obtain ⟨s, l⟩ := p
  simp [serialiseOffsets, offsetLine]

theorem serialiseOffsets_single (p : Nat × Nat) : serialiseOffsets [p] = offsetLine p := by
  obtain ⟨s, l⟩ := p
  simp [serialiseOffsets, offsetLine]

theorem deserialiseOffsets_serialiseOffsets (l : List (Nat × Nat)) :
    deserialiseOffsets (serialiseOffsets l) = some l := by
  unfold deserialiseOffsets
  induction l with
  | nil => simp [serialiseOffsets, splitByte]
  | cons p rest ih =>
    cases rest with
    | nil =>
      rw [serialiseOffsets_single, splitByte_of_notMem (offsetLine_no_nl p)]
      simp [offsetLine_ne_nil, parseOffsetLine_offsetLine]
    | cons q rest' =>
      rw [serialiseOffsets_cons_cons, splitByte_append _ (offsetLine_no_nl p)]
      simp only [List.filter_cons, offsetLine_ne_nil, Bool.not_false, if_true, List.mapM_cons,
        parseOffsetLine_offsetLine]
      rw [ih]
      rfl

/-! ### ConventionalRequestHandler on the decoded events -/

theorem Rq.run_append (w : Bool) (r : Rq) (xs ys : List Ev) :
    r.run w (xs ++ ys) = (match r.run w xs with | .error e => .error e | .ok r' => r'.run w ys) := by
  induction xs generalizing r with
  | nil => simp [Rq.run]
  | cons e es ih =>
    simp only [List.cons_append, Rq.run]
    cases r.step w e with
    | error x => rfl
    | ok r' => exact ih r'

/-- body parts while the handler expects the body: each is handed to `accept_body`, in order -/
theorem Rq.run_bytes (w : Bool) (r : Rq) (cs : List Bytes) (h : r.expecting = .body) :
    r.run w (cs.map Ev.bytes) = .ok { r with calls := r.calls ++ cs.map RqCall.body } := by
  induction cs generalizing r with
  | nil => cases r; simp [Rq.run]
  | cons c cs ih =>
    simp only [List.map_cons, Rq.run, Rq.step, h, if_true]
    rw [ih _ rfl]
    simp [h]

/-! ### protocol-2 client response -/

theorem response2_eq : response2 = response2Line ++ [10] := by decide

theorem response2Line_no_nl : (10 : UInt8) ∉ response2Line := by decide
theorem successLine_no_nl : (10 : UInt8) ∉ successLine := by decide
theorem failedLine_no_nl : (10 : UInt8) ∉ failedLine := by decide
theorem success_ne_failed : successLine ≠ failedLine := by decide

end BreezyVerif.C29
