import BreezyVerif.Common
import BreezyVerif.Model.C45
namespace BreezyVerif.C45

/-- chunk list: comma separated hex chunks, `_` = empty chunk, `-` = no chunk -/
def parseChunks (s : String) : Option (List Bytes) :=
  (splitList s).mapM fun x => if x == "_" then some [] else
    if x == "-" then none else fromHex x

/-- the stack a path gets: key `-` = no rule matched / `eol` unset -/
def stackOf (win : Bool) (key : String) : Option (List Filter) :=
  prefStack win (if key == "-" then none else some key)

def parseChk : String → Option SizeCheck
  | "off" => some .off
  | "filtered" => some .filtered
  | "raw" => some .raw
  | _ => none

/-- `lf c` | `crlf c` | `glf c` (converters on one content) |
`out win key chunks` | `in win key content` | `rt win key content`
(read back what was written) | `stat win key disk` (`stat_and_sha1`: the
reported `st_size` and the text that is hashed) | `chg win key content`
(does a fresh checkout of `content` report a change; the hash is the identity) |
`cmp chk win key content disk` (`file_content_matches` of a revision tree that
records `content` and a working file with bytes `disk`; `chk` = `off` (the
code) | `filtered` | `raw`: the optional size shortcut; the hash is the identity);
key `-` = no `eol` preference for the path; unknown key ↦ `E:BzrError` -/
def handle : List String → String
  | ["lf", c] => match fromHex c with
    | some c => toHex (toLf c)
    | none => "bad-op"
  | ["crlf", c] => match fromHex c with
    | some c => toHex (toCrlf c)
    | none => "bad-op"
  | ["glf", c] => match fromHex c with
    | some c => toHex (toLfGuarded c)
    | none => "bad-op"
  | ["out", win, key, chunks] =>
    match parseBool win, parseChunks chunks with
    | some win, some chunks =>
      match stackOf win key with
      | some st => toHex (outputBytes chunks st).flatten
      | none => "E:BzrError"
    | _, _ => "bad-op"
  | ["in", win, key, c] =>
    match parseBool win, fromHex c with
    | some win, some c =>
      match stackOf win key with
      | some st => toHex (inputFile c st)
      | none => "E:BzrError"
    | _, _ => "bad-op"
  | ["rt", win, key, c] =>
    match parseBool win, fromHex c with
    | some win, some c =>
      match stackOf win key with
      | some st => toHex (readIn st (writeOut st c))
      | none => "E:BzrError"
    | _, _ => "bad-op"
  | ["stat", win, key, d] =>
    match parseBool win, fromHex d with
    | some win, some d =>
      match stackOf win key with
      | some st => toString (statSize st d) ++ " " ++ toHex (hashedText st d)
      | none => "E:BzrError"
    | _, _ => "bad-op"
  | ["chg", win, key, c] =>
    match parseBool win, fromHex c with
    | some win, some c =>
      match stackOf win key with
      | some st => showBool (reportsChange id st c (writeOut st c))
      | none => "E:BzrError"
    | _, _ => "bad-op"
  | ["cmp", chk, win, key, c, d] =>
    match parseChk chk, parseBool win, fromHex c, fromHex d with
    | some chk, some win, some c, some d =>
      match stackOf win key with
      | some st => showBool (contentMatches id chk st c.length c d)
      | none => "E:BzrError"
    | _, _, _, _ => "bad-op"
  | _ => "bad-op"

end BreezyVerif.C45

def main : IO Unit := BreezyVerif.runDriver BreezyVerif.C45.handle
