import BreezyVerif.Lemmas.C27
/-!
C27 — the recoverability invariant over the extended events (lost replies).
After a lost reply an attempt has no pending directory any more, so the
invariant on pending directories is weakened to "complete, or gone".
-/
namespace BreezyVerif.C27
open BreezyVerif.C26

/-- a pending directory that may be renamed into place is complete — or was already renamed into place by a
lost reply -/
def PendW (s : Sys) : Prop :=
  ∀ i, (s.lk i).pc.hasPend = true → (s.lk i).pend = okDir ⟨i, (s.lk i).nonce⟩ ∨ (s.lk i).pend = none

section
variable (id : Nat) (cfg : Nat → Cfg) (crashed : Nat → Bool) (me : Locker) (held : Option Dir)
theorem lstep_pendW (h : me.pc.hasPend = true → me.pend = okDir ⟨id, me.nonce⟩ ∨ me.pend = none) :
    (lstep id cfg crashed me held).1.pc.hasPend = true →
      (lstep id cfg crashed me held).1.pend = okDir ⟨id, (lstep id cfg crashed me held).1.nonce⟩ ∨
        (lstep id cfg crashed me held).1.pend = none := by
  revert h; lstep_cases
end

theorem lfault_pendW (k : FaultKind) (me : Locker) (id : Nat)
    (h : me.pc.hasPend = true → me.pend = okDir ⟨id, me.nonce⟩ ∨ me.pend = none) :
    (lfault k me).pc.hasPend = true →
      (lfault k me).pend = okDir ⟨id, (lfault k me).nonce⟩ ∨ (lfault k me).pend = none := by
  revert h; lfault_cases

structure RInvW (s : Sys) : Prop where
  disk : recoverable s.held = true
  pend : PendW s

/-- replacing locker `a` and `held/` by the result of one `lstep` keeps the invariant -/
theorem RInvW.of_lstep {s : Sys} (inv : RInvW s) (a : Nat) (t : Sys)
    (hlk : t.lk = upd s.lk a (lstep a s.cfg s.crashed (s.lk a) s.held).1)
    (hheld : t.held = (lstep a s.cfg s.crashed (s.lk a) s.held).2.1) : RInvW t := by
  refine ⟨?_, ?_⟩
  · rw [hheld]
    rcases lstep_held a s.cfg s.crashed (s.lk a) s.held with h | ⟨h1, _, h3, _⟩ | ⟨_, h, _⟩ |
      ⟨_, h, _⟩ | ⟨_, h, _⟩
    · rw [h]; exact inv.disk
    · rw [h3]
      rcases inv.pend a (by simp [h1, Pc.hasPend]) with hp | hp
      · rw [hp]; exact recoverable_okDir _
      · rw [hp]; rfl
    · rw [h]; rfl
    · rw [h]; rfl
    · rw [h]; rfl
  · intro j
    rw [hlk]
    by_cases hj : j = a
    · subst hj; simpa using lstep_pendW j s.cfg s.crashed (s.lk j) s.held (inv.pend j)
    · simpa [upd, hj] using inv.pend j

theorem RInvW.step {s : Sys} (inv : RInvW s) (e : Ev) : RInvW (s.step e) := by
  cases e with
  | crash i => exact ⟨inv.disk, inv.pend⟩
  | fault i k =>
    simp only [Sys.step]; split
    · exact inv
    · refine ⟨inv.disk, ?_⟩
      intro j; by_cases hj : j = i
      · subst hj; simpa using lfault_pendW k (s.lk j) j (inv.pend j)
      · simpa [upd, hj] using inv.pend j
  | start i op =>
    simp only [Sys.step]; split
    · exact inv
    · split
      · refine ⟨inv.disk, ?_⟩
        intro j; by_cases hj : j = i
        · subst hj; simp [start_hasPend]
        · simpa [upd, hj] using inv.pend j
      · exact inv
  | step i =>
    simp only [Sys.step]; split
    · exact inv
    · exact inv.of_lstep i _ rfl rfl

theorem RInvW.step27 {s : Sys} (inv : RInvW s) (fx : Bool) (e : Ev27) : RInvW (step27 fx s e) := by
  cases e with
  | base e =>
    cases e with
    | step i =>
      simp only [C27.step27]
      split
      · refine ⟨inv.disk, ?_⟩
        intro j; by_cases hj : j = i
        · subst hj
          rename_i hc
          intro _
          right
          simp only [upd_same]
          exact hc.2.2
        · simpa [upd, hj] using inv.pend j
      · split
        · refine ⟨inv.disk, ?_⟩
          intro j; by_cases hj : j = i
          · subst hj; simp [Pc.hasPend]
          · simpa [upd, hj] using inv.pend j
        · exact inv.step (.step i)
    | start i op => exact inv.step (.start i op)
    | fault i k => exact inv.step (.fault i k)
    | crash i => exact inv.step (.crash i)
  | lost i k =>
    simp only [C27.step27]
    split
    · exact inv
    · -- the four renames, by what is on disk
      have hfault : RInvW { s with lk := upd s.lk i (lfault k (s.lk i)), held := s.held } := by
        refine ⟨inv.disk, ?_⟩
        intro j; by_cases hj : j = i
        · subst hj; simpa using lfault_pendW k (s.lk j) j (inv.pend j)
        · simpa [upd, hj] using inv.pend j
      have hstep : RInvW { s with lk := upd s.lk i (lstep i s.cfg s.crashed (s.lk i) s.held).1,
                                  held := (lstep i s.cfg s.crashed (s.lk i) s.held).2.1 } :=
        inv.of_lstep i _ rfl rfl
      have idle_ok : ∀ (me' : Locker) (h' : Option Dir), me'.pc.hasPend = false → recoverable h' = true →
          RInvW { s with lk := upd s.lk i me', held := h' } := by
        intro me' h' hp hr
        refine ⟨hr, ?_⟩
        intro j; by_cases hj : j = i
        · subst hj; simp [hp]
        · simpa [upd, hj] using inv.pend j
      unfold lostReply
      cases hpc : (s.lk i).pc with
      | aRename =>
        simp only []
        cases hh : s.held with
        | none =>
          cases hp : (s.lk i).pend with
          | none =>
            simp only []
            refine ⟨by rw [hh] at *; exact inv.disk |> fun _ => rfl, ?_⟩
            intro j; by_cases hj : j = i
            · subst hj; intro _; right; simp [hp]
            · simpa [upd, hj] using inv.pend j
          | some d =>
            simp only []
            refine ⟨?_, ?_⟩
            · rcases inv.pend i (by simp [hpc, Pc.hasPend]) with h | h
              · rw [hp] at h; simp only [h]; exact recoverable_okDir _
              · rw [hp] at h; cases h
            · intro j; by_cases hj : j = i
              · subst hj; intro _; right; simp
              · simpa [upd, hj] using inv.pend j
        | some d0 =>
          cases hp : (s.lk i).pend with
          | none =>
            simp only []
            refine ⟨by simpa [hh] using inv.disk, ?_⟩
            intro j; by_cases hj : j = i
            · subst hj; intro _; right; simp [hp]
            · simpa [upd, hj] using inv.pend j
          | some d =>
            simp only []
            rw [hh] at hstep
            exact hstep
      | uRename =>
        simp only []
        cases hh : s.held with
        | none => simp only []; rw [hh] at hstep; exact hstep
        | some d => simp only []; exact idle_ok _ _ (by simp [Pc.hasPend]) rfl
      | bRename x ret =>
        simp only []
        cases hh : s.held with
        | none => simp only []; rw [hh] at hstep; exact hstep
        | some d =>
          simp only []
          exact idle_ok _ _ (by cases ret <;> simp [breakErr, Pc.hasPend, Locker.done]) rfl
      | xRename t =>
        simp only []
        cases hh : s.held with
        | none => simp only []; rw [hh] at hstep; exact hstep
        | some d => simp only []; exact idle_ok _ _ (by simp [Pc.hasPend]) rfl
      | _ => simp only []; exact hfault

theorem RInvW.run27 {s : Sys} (inv : RInvW s) (fx : Bool) (evs : List Ev27) : RInvW (run27 fx s evs) := by
  induction evs generalizing s with
  | nil => exact inv
  | cons e es ih => simp only [C27.run27, List.foldl_cons]; exact ih (inv.step27 fx e)

theorem RInvW.init (cfg : Nat → Cfg) (h0 : Option Dir) (h : recoverable h0 = true) : RInvW (Sys.init cfg h0) :=
  ⟨h, fun _ hp => by simp [Sys.init, Pc.hasPend] at hp⟩

end BreezyVerif.C27
