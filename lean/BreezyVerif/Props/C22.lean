import BreezyVerif.Lemmas.C22Main
import BreezyVerif.Lemmas.C22Remote
import BreezyVerif.Lemmas.C22Spec
/-!
C22 — theorems.  All graphs (`wf` = the revisions are numbered topologically,
which every finite DAG admits), all tips, all specifier strings; no bound on
sizes.
-/
namespace BreezyVerif.C22

/-! ## merge-sorted numbering -/

theorem mergeSort_out (g : Graph) (tip : Nat) (hw : wf g = true) (ht : tip < g.length) :
    ∃ (st : Dfs) (ms : List MS), mergeSort g tip = some ms ∧ Inv g st ∧
      (∀ x, x ∈ doneSet st ↔ Reach g tip x) ∧ ms.map (·.rev) = doneSet st ∧
      (ms.map (·.revno)).Nodup ∧ (∃ e rest, ms = e :: rest ∧ e.rev = tip ∧ e.depth = 0) := by
  obtain ⟨st, out, _, hinv, hcov, ⟨fc, rest, hhead⟩, _, hmap, hnd, hms⟩ :=
    mergeSort_spec g ((wf_iff g).mp hw) tip ht
  have h1 : out.map (·.1) = st.done.reverse.map (·.1) := by
    have := congrArg (List.map (·.1)) hmap
    simpa [List.map_map, Function.comp_def] using this
  have h2 : out.map (·.2.1) = st.done.reverse.map (·.2.1) := by
    have := congrArg (List.map (·.2)) hmap
    simpa [List.map_map, Function.comp_def] using this
  have hrev : (eomFlags g out.reverse).map (·.rev) = doneSet st := by
    rw [eomFlags_rev, List.map_reverse, h1, List.map_reverse, List.reverse_reverse]; rfl
  have hdep : (eomFlags g out.reverse).map (·.depth) = st.done.map (·.2.1) := by
    rw [eomFlags_depth, List.map_reverse, h2, List.map_reverse, List.reverse_reverse]
  refine ⟨st, _, hms, hinv, hcov, hrev, ?_, ?_⟩
  · rw [eomFlags_revno, List.map_reverse]
    exact (List.reverse_perm _).nodup_iff.mpr hnd
  · have hr := hrev
    have hd := hdep
    unfold doneSet at hr
    rw [hhead] at hr hd
    cases hl : eomFlags g out.reverse with
    | nil => rw [hl] at hr; simp at hr
    | cons e rest' =>
      rw [hl] at hr hd
      simp only [List.map_cons, List.cons.injEq] at hr hd
      exact ⟨e, rest', rfl, hr.1, hd.1⟩

/-- **`mergeSort` is total** on topologically numbered graphs (the walk never
runs out of fuel and the numbering never meets an unnumbered parent). -/
theorem mergeSort_total (g : Graph) (tip : Nat) (hw : wf g = true) (ht : tip < g.length) :
    ∃ ms, mergeSort g tip = some ms := by
  obtain ⟨_, ms, h, _⟩ := mergeSort_out g tip hw ht
  exact ⟨ms, h⟩

/-- **Coverage.**  The merge-sorted list contains exactly the revisions
reachable from the tip (its ancestry; ghosts are not revisions). -/
theorem mergeSort_covers (g : Graph) (tip : Nat) (ms : List MS) (hw : wf g = true) (ht : tip < g.length)
    (h : mergeSort g tip = some ms) (x : Nat) : x ∈ ms.map (·.rev) ↔ Reach g tip x := by
  obtain ⟨st, ms', h', _, hcov, hrev, _⟩ := mergeSort_out g tip hw ht
  rw [h] at h'; cases h'
  rw [hrev]; exact hcov x

/-- every revision is listed once -/
theorem mergeSort_nodup (g : Graph) (tip : Nat) (ms : List MS) (hw : wf g = true) (ht : tip < g.length)
    (h : mergeSort g tip = some ms) : (ms.map (·.rev)).Nodup := by
  obtain ⟨st, ms', h', hinv, _, hrev, _⟩ := mergeSort_out g tip hw ht
  rw [h] at h'; cases h'
  rw [hrev]; exact hinv.nodup

/-- **Dotted revnos are one-to-one**: no two revisions of the ancestry get the same dotted revno. -/
theorem dotted_injective (g : Graph) (tip : Nat) (ms : List MS) (hw : wf g = true) (ht : tip < g.length)
    (h : mergeSort g tip = some ms) : (ms.map (·.revno)).Nodup := by
  obtain ⟨st, ms', h', _, _, _, hnd, _⟩ := mergeSort_out g tip hw ht
  rw [h] at h'; cases h'
  exact hnd

/-- the tip comes first, at depth 0 -/
theorem mergeSort_tip_first (g : Graph) (tip : Nat) (ms : List MS) (hw : wf g = true) (ht : tip < g.length)
    (h : mergeSort g tip = some ms) : ∃ e rest, ms = e :: rest ∧ e.rev = tip ∧ e.depth = 0 := by
  obtain ⟨st, ms', h', _, _, _, _, hhead⟩ := mergeSort_out g tip hw ht
  rw [h] at h'; cases h'
  exact hhead

-- non-vacuity: a merge of a merge with a criss-cross, a ghost and a second root
example : wf [[], [0], [0], [1, 2], [2, 1], [3, 4, 9], [], [5, 6]] = true := by decide
example : mergeSort [[], [0], [0], [1, 2], [2, 1], [3, 4, 9], [], [5, 6]] 7 = some
    [⟨7, 0, [5], false⟩, ⟨6, 1, [0, 1, 1], true⟩, ⟨5, 0, [4], false⟩, ⟨4, 1, [1, 1, 2], true⟩,
     ⟨3, 0, [3], false⟩, ⟨2, 1, [1, 1, 1], true⟩, ⟨1, 0, [2], false⟩, ⟨0, 0, [1], true⟩] := by decide

/-! ## revision numbers and the left-hand history -/

/-- **Revno n names the n-th revision of the left-hand history** (oldest first). -/
theorem get_rev_id_nth (b : Branch) (n : Nat) (h1 : 1 ≤ n) (h2 : n ≤ b.lastRevno) :
    ∃ r, b.history.reverse[n - 1]? = some r ∧ b.getRevId n = .ok (.rev r) :=
  getRevId_nth b n h1 h2

/-- **Number → identifier → number** and **identifier → number → identifier**. -/
theorem revno_roundtrip (b : Branch) (hw : wf b.g = true) (k : Int) (r : Nat) :
    b.getRevId k = .ok (.rev r) ↔ b.revisionIdToRevno (.rev r) = .ok k :=
  ⟨revno_of_getRevId b ((wf_iff _).mp hw) k r, getRevId_of_revno b k r⟩

/-- revno 0 is the null revision, and only it -/
theorem revno_zero (b : Branch) : b.getRevId 0 = .ok .null ∧ b.revisionIdToRevno .null = .ok 0 :=
  ⟨rfl, rfl⟩

/-- the mainline shortcut of `before:` agrees with the graph: the revision
numbered `n - 1` is the left-hand parent of the revision numbered `n` -/
theorem get_rev_id_pred_is_left_parent (b : Branch) (n : Nat) (r : Nat) (h1 : 2 ≤ n)
    (h : b.getRevId n = .ok (.rev r)) :
    ∃ p, lpOf b.g r = some p ∧ b.getRevId ((n : Int) - 1) = .ok (.rev p) := by
  obtain ⟨n', hn', h1', h2', hget⟩ := getRevId_rev_inv b n r h
  have hnn : n' = n := by omega
  subst hnn
  have hL : b.lastRevno = b.history.length := rfl
  have hlt : b.lastRevno - n' + 1 < b.history.length := by omega
  refine ⟨b.history[b.lastRevno - n' + 1], history_next b _ r _ hget (List.getElem?_eq_getElem hlt), ?_⟩
  have : ((n' : Int) - 1) = ((n' - 1 : Nat) : Int) := by omega
  rw [this]
  apply getRevId_pos b (n' - 1) (by omega) (by omega)
  have : b.lastRevno - (n' - 1) = b.lastRevno - n' + 1 := by omega
  rw [this]
  exact List.getElem?_eq_getElem hlt

/-! ## the dotted-revno map and its inversion -/

/-- **The revno map is a bijection** between the tip's ancestry and its dotted revnos. -/
theorem revno_map_bijection (b : Branch) (t : Nat) (hw : wf b.g = true) (htip : b.tip = some t)
    (ht : t < b.g.length) :
    ∃ m, b.revnoMap = .ok m ∧ (m.map (·.1)).Nodup ∧ (m.map (·.2)).Nodup ∧
      ∀ x, x ∈ m.map (·.1) ↔ Reach b.g t x := by
  obtain ⟨st, ms, hms, hinv, hcov, hrev, hnd, _⟩ := mergeSort_out b.g t hw ht
  refine ⟨ms.map fun e => (e.rev, e.revno), ?_, ?_, ?_, ?_⟩
  · simp [Branch.revnoMap, Branch.mergeSorted, htip, hms, bind, Except.bind, pure, Except.pure]
  · simp only [List.map_map, Function.comp_def]; rw [hrev]; exact hinv.nodup
  · simp only [List.map_map, Function.comp_def]; exact hnd
  · intro x; simp only [List.map_map, Function.comp_def]; rw [hrev]; exact hcov x

/-- the two ways of numbering a revision agree: mainline revisions carry their
revno as a one-element dotted revno in the map, and nothing else does
(decidable; proved for every clean branch in `mainlineCoherent_of_clean`) -/
def mainlineCoherent (b : Branch) (m : List (Nat × List Nat)) : Bool :=
  m.all fun e =>
    match b.revisionIdToRevno (.rev e.1) with
    | .ok k => e.2.map Int.ofNat == [k]
    | .error _ => e.2.length != 1

theorem map_ofNat_inj : ∀ (l1 l2 : List Nat), l1.map Int.ofNat = l2.map Int.ofNat → l1 = l2
  | [], [], _ => rfl
  | [], _ :: _, h => by simp at h
  | _ :: _, [], h => by simp at h
  | a :: l1, c :: l2, h => by
    simp only [List.map_cons, List.cons.injEq] at h
    rw [map_ofNat_inj l1 l2 h.2, Int.ofNat.inj h.1]

theorem filter_unique : ∀ (m : List (Nat × List Nat)), (m.map (·.2)).Nodup → ∀ (r : Nat) (dr : List Nat),
    (r, dr) ∈ m → m.filter (fun e => e.2.map Int.ofNat == dr.map Int.ofNat) = [(r, dr)]
  | [], _, _, _, h => by cases h
  | (x, dx) :: m, hnd, r, dr, h => by
    rw [List.map_cons, List.nodup_cons] at hnd
    rcases List.mem_cons.mp h with h | h
    · obtain ⟨rfl, rfl⟩ := Prod.mk.inj h
      have : m.filter (fun e => e.2.map Int.ofNat == dr.map Int.ofNat) = [] := by
        rw [List.filter_eq_nil_iff]
        intro e he hc
        have := map_ofNat_inj _ _ (by simpa using hc)
        exact hnd.1 (List.mem_map.mpr ⟨e, he, this⟩)
      rw [List.filter_cons]
      simp only [beq_self_eq_true, if_true, this]
    · have hne : ¬ (dx.map Int.ofNat == dr.map Int.ofNat) = true := by
        intro hc
        have := map_ofNat_inj _ _ (by simpa using hc)
        exact hnd.1 (List.mem_map.mpr ⟨(r, dr), h, this.symm⟩)
      simp only [List.filter_cons, hne]
      exact filter_unique m hnd.2 r dr h

theorem dottedToRevId_of_not_single (b : Branch) (d : List Int) (hd : d.length ≠ 1)
    (m : List (Nat × List Nat)) (hm : b.revnoMap = .ok m) :
    b.dottedToRevId d = pickOne (m.filter (fun e => e.2.map Int.ofNat == d)) := by
  unfold Branch.dottedToRevId
  match d, hd with
  | [], _ => simp only [hm, bind, Except.bind]
  | [_], hd => simp at hd
  | _ :: _ :: _, _ => simp only [hm, bind, Except.bind]

/-- identifier → dotted number → identifier, from the coherence of the map
(`mainlineCoherent`, proved below from `mainline_revno`) -/
theorem dotted_roundtrip_of_coherent (b : Branch) (t : Nat) (hw : wf b.g = true) (htip : b.tip = some t)
    (ht : t < b.g.length) (m : List (Nat × List Nat)) (hm : b.revnoMap = .ok m)
    (hc : mainlineCoherent b m = true) (r : Nat) (d : List Int)
    (h : b.revIdToDotted (.rev r) = .ok d) : b.dottedToRevId d = .ok (.rev r) := by
  obtain ⟨m', hm', hk, hv, _⟩ := revno_map_bijection b t hw htip ht
  rw [hm] at hm'; cases hm'
  unfold Branch.revIdToDotted at h
  split at h
  · rename_i n hn
    cases h
    exact getRevId_of_revno b n r hn
  · rename_i e he
    simp only [hm, bind, Except.bind, pure, Except.pure] at h
    split at h
    · rename_i dr hdr
      cases h
      have hmem := mem_of_lookup m r dr hdr
      have hcoh := (List.all_eq_true.mp hc) (r, dr) hmem
      simp only [he] at hcoh
      have hlen : (dr.map Int.ofNat).length ≠ 1 := by simpa using hcoh
      rw [dottedToRevId_of_not_single b _ hlen m hm, filter_unique m hv r dr hmem]
      rfl
    · cases h

/-- dotted number → identifier → dotted number, from the coherence of the map -/
theorem dotted_roundtrip_inv_of_coherent (b : Branch) (t : Nat) (hw : wf b.g = true) (htip : b.tip = some t)
    (ht : t < b.g.length) (m : List (Nat × List Nat)) (hm : b.revnoMap = .ok m)
    (hc : mainlineCoherent b m = true) (r : Nat) (d : List Int)
    (h : b.dottedToRevId d = .ok (.rev r)) : b.revIdToDotted (.rev r) = .ok d := by
  obtain ⟨m', hm', hk, hv, _⟩ := revno_map_bijection b t hw htip ht
  rw [hm] at hm'; cases hm'
  by_cases hd : d.length = 1
  · match d, hd with
    | [n], _ =>
      simp only [Branch.dottedToRevId] at h
      have := revno_of_getRevId b ((wf_iff _).mp hw) n r h
      simp [Branch.revIdToDotted, this]
  · rw [dottedToRevId_of_not_single b d hd m hm] at h
    unfold pickOne at h
    split at h
    · rename_i e hf
      cases h
      have hmem : e ∈ m.filter (fun e => e.2.map Int.ofNat == d) := by rw [hf]; exact List.mem_singleton.mpr rfl
      rw [List.mem_filter] at hmem
      have hed : e.2.map Int.ofNat = d := by simpa using hmem.2
      have hcoh := (List.all_eq_true.mp hc) e hmem.1
      have hlook : lookup m e.1 = some e.2 := lookup_of_mem m e.1 e.2 hk hmem.1
      unfold Branch.revIdToDotted
      split
      · rename_i n hn
        simp only [hn] at hcoh
        have : e.2.map Int.ofNat = [n] := by simpa using hcoh
        rw [hed] at this; rw [this] at hd; simp at hd
      · simp [hm, hlook, hed, bind, Except.bind, pure, Except.pure]
    · cases h

example : mainlineCoherent { g := [[], [0], [0], [1, 2]], tip := some 3 }
    [(3, [3]), (2, [1, 1, 1]), (1, [2]), (0, [1])] = true := by decide

/-! ## the mainline in the map -/

/-- no ghost as left-most parent on the mainline (decidable; such branches are
outside the scope of the branch-level properties, see ASSUMPTIONS) -/
def mainlineClean (b : Branch) : Bool :=
  b.history.all fun x => (lpOf b.g x).isSome || (parentsD b.g x).isEmpty

/-- **The k-th revision of the left-hand history (oldest first) has the dotted
revno (k) in the map, and nothing else has a one-component revno.** -/
theorem mainline_revno (b : Branch) (t : Nat) (hw : wf b.g = true) (htip : b.tip = some t)
    (ht : t < b.g.length) (hc : mainlineClean b = true) :
    ∃ m, b.revnoMap = .ok m ∧ (m.map (·.1)).Nodup ∧
      (∀ i x, b.history.reverse[i]? = some x → (x, [i + 1]) ∈ m) ∧
      (∀ k x, (x, [k]) ∈ m → 1 ≤ k ∧ b.history.reverse[k - 1]? = some x) := by
  have hhist : b.history = lefthand b.g (t + 1) t := by unfold Branch.history; rw [htip]
  have hclean : ChainClean b.g (lefthand b.g (t + 1) t) := by
    intro x hx hl
    rw [← hhist] at hx
    have := (List.all_eq_true.mp hc) x hx
    simp only [hl, Option.isSome_none, Bool.false_or, List.isEmpty_iff] at this
    exact this
  obtain ⟨ms, hms, hfwd, hconv⟩ := mainline_spec b.g ((wf_iff _).mp hw) t ht hclean
  obtain ⟨m, hm, hk, _, _⟩ := revno_map_bijection b t hw htip ht
  have hmeq : m = ms.map fun e => (e.rev, e.revno) := by
    have : b.revnoMap = .ok (ms.map fun e => (e.rev, e.revno)) := by
      simp [Branch.revnoMap, Branch.mergeSorted, htip, hms, bind, Except.bind, pure, Except.pure]
    rw [hm] at this
    exact Except.ok.inj this
  subst hmeq
  rw [hhist]
  exact ⟨_, hm, hk, hfwd, hconv⟩

theorem mainlineCoherent_of_clean (b : Branch) (t : Nat) (hw : wf b.g = true) (htip : b.tip = some t)
    (ht : t < b.g.length) (hc : mainlineClean b = true) (m : List (Nat × List Nat))
    (hm : b.revnoMap = .ok m) : mainlineCoherent b m = true := by
  obtain ⟨m', hm', hk, hfwd, hconv⟩ := mainline_revno b t hw htip ht hc
  rw [hm] at hm'; cases hm'
  unfold mainlineCoherent
  rw [List.all_eq_true]
  intro ⟨x, d⟩ hxd
  have hL : b.lastRevno = b.history.length := rfl
  simp only [Branch.revisionIdToRevno]
  cases hidx : b.history.idxOf? x with
  | some i =>
    simp only []
    rw [List.idxOf?_eq_some_iff] at hidx
    obtain ⟨hlt, hg, _⟩ := hidx
    have hrev : b.history.reverse[b.history.length - 1 - i]? = some x := by
      rw [List.getElem?_reverse (by omega)]
      have : b.history.length - 1 - (b.history.length - 1 - i) = i := by omega
      rw [this, List.getElem?_eq_getElem hlt, hg]
    have hmem := hfwd _ x hrev
    have hd : d = [b.history.length - 1 - i + 1] := by
      have h1 := lookup_of_mem m x _ hk hmem
      have h2 := lookup_of_mem m x _ hk hxd
      rw [h1] at h2; exact (Option.some.inj h2).symm
    subst hd
    simp only [List.map_cons, List.map_nil, beq_iff_eq, List.cons.injEq, and_true]
    show ((b.history.length - 1 - i + 1 : Nat) : Int) = (b.lastRevno : Int) - (i : Int)
    omega
  | none =>
    simp only []
    rw [List.idxOf?_eq_none_iff] at hidx
    simp only [bne_iff_ne, ne_eq]
    intro hlen
    match d, hlen with
    | [k], _ =>
      obtain ⟨_, hch⟩ := hconv k x hxd
      exact hidx (List.mem_reverse.mp (List.mem_of_getElem? hch))

/-- **Identifier → dotted number → identifier.** -/
theorem dotted_roundtrip (b : Branch) (t : Nat) (hw : wf b.g = true) (htip : b.tip = some t)
    (ht : t < b.g.length) (hc : mainlineClean b = true) (r : Nat) (d : List Int)
    (h : b.revIdToDotted (.rev r) = .ok d) : b.dottedToRevId d = .ok (.rev r) := by
  obtain ⟨m, hm, _⟩ := revno_map_bijection b t hw htip ht
  exact dotted_roundtrip_of_coherent b t hw htip ht m hm (mainlineCoherent_of_clean b t hw htip ht hc m hm) r d h

/-- **Dotted number → identifier → dotted number.** -/
theorem dotted_roundtrip_inv (b : Branch) (t : Nat) (hw : wf b.g = true) (htip : b.tip = some t)
    (ht : t < b.g.length) (hc : mainlineClean b = true) (r : Nat) (d : List Int)
    (h : b.dottedToRevId d = .ok (.rev r)) : b.revIdToDotted (.rev r) = .ok d := by
  obtain ⟨m, hm, _⟩ := revno_map_bijection b t hw htip ht
  exact dotted_roundtrip_inv_of_coherent b t hw htip ht m hm (mainlineCoherent_of_clean b t hw htip ht hc m hm) r d h

example : mainlineClean { g := [[], [0], [0], [1, 2, 7]], tip := some 3 } = true := by decide

/-! ## specifiers -/

theorem classify_revid (r : List Char) : classify (pRevid ++ r) = (.revid, r) := by
  simp [classify, prefixes, stripPrefix?, pRevno, pRevid, List.findSome?]

theorem classify_tag (r : List Char) : classify (pTag ++ r) = (.tag, r) := by
  simp [classify, prefixes, stripPrefix?, pRevno, pRevid, pLast, pBefore, pTag, List.findSome?]

theorem classify_before (r : List Char) : classify (pBefore ++ r) = (.before, r) := by
  simp [classify, prefixes, stripPrefix?, pRevno, pRevid, pLast, pBefore, List.findSome?]

theorem classify_mainline (r : List Char) : classify (pMainline ++ r) = (.mainline, r) := by
  simp [classify, prefixes, stripPrefix?, pRevno, pRevid, pLast, pBefore, pTag, pAncestor, pMainline,
    List.findSome?]

theorem classify_ancestor (r : List Char) : classify (pAncestor ++ r) = (.ancestor, r) := by
  simp [classify, prefixes, stripPrefix?, pRevno, pRevid, pLast, pBefore, pTag, pAncestor, List.findSome?]

theorem takeWhile_all {α : Type} (p : α → Bool) : ∀ l : List α, (∀ a ∈ l, p a = true) → l.takeWhile p = l
  | [], _ => rfl
  | a :: l, h => by
    rw [List.takeWhile_cons_of_pos (h a (List.mem_cons_self ..)),
      takeWhile_all p l (fun x hx => h x (List.mem_cons_of_mem _ hx))]

theorem dropWhile_all {α : Type} (p : α → Bool) : ∀ l : List α, (∀ a ∈ l, p a = true) → l.dropWhile p = []
  | [], _ => rfl
  | a :: l, h => by
    rw [List.dropWhile_cons_of_pos (h a (List.mem_cons_self ..))]
    exact dropWhile_all p l (fun x hx => h x (List.mem_cons_of_mem _ hx))

/-- **Negative numbers count from the end, clamped to the first revision.** -/
theorem spec_neg (b : Branch) (s : List Char) (k : Nat) (hk : 1 ≤ k) (hL : 1 ≤ b.lastRevno)
    (hcolon : s.contains ':' = false) (hne : s ≠ []) (hp : pyInt s = some (-(k : Int))) :
    ∃ r, b.history.reverse[(if k ≥ b.lastRevno then 1 else b.lastRevno - k + 1) - 1]? = some r ∧
      b.revnoLookup s = .ok (some ((if k ≥ b.lastRevno then 1 else b.lastRevno - k + 1 : Nat) : Int), .rev r) := by
  have hno : ∀ c ∈ s, (c != ':') = true := by
    intro c hc
    simp only [bne_iff_ne, ne_eq]
    intro h; subst h
    have : s.contains ':' = true := List.contains_iff_mem.mpr hc
    rw [hcolon] at this; cases this
  have htw : s.takeWhile (· != ':') = s := takeWhile_all _ s hno
  have hdw : s.dropWhile (· != ':') = [] := dropWhile_all _ s hno
  obtain ⟨r, hr, hget⟩ := getRevId_nth b (if k ≥ b.lastRevno then 1 else b.lastRevno - k + 1)
    (by split <;> omega) (by split <;> omega)
  refine ⟨r, hr, ?_⟩
  unfold Branch.revnoLookup
  have hemp : s.isEmpty = false := by cases s with | nil => exact absurd rfl hne | cons _ _ => rfl
  simp only [htw, hdw, hemp, hcolon, hp, List.drop_nil, Bool.false_eq_true, if_false, Bool.false_and]
  have hneg : (-(k : Int) < 0) := by omega
  simp only [hneg, if_true, Int.neg_neg]
  by_cases hkl : k ≥ b.lastRevno
  · have : ((k : Int) ≥ (b.lastRevno : Int)) := by omega
    simp only [this, if_true, hkl] at hget ⊢
    rw [show ((1 : Nat) : Int) = 1 from rfl] at hget
    rw [hget]
    rfl
  · have h1 : ¬ ((k : Int) ≥ (b.lastRevno : Int)) := by omega
    simp only [h1, if_false, hkl] at hget ⊢
    have : ((b.lastRevno : Int) + -(k : Int) + 1) = ((b.lastRevno - k + 1 : Nat) : Int) := by omega
    rw [this, hget]

/-- **`last:k` is the k-th revision from the end** (and so the same revision as `-k`). -/
theorem spec_last (b : Branch) (s : List Char) (k : Nat) (hk : 1 ≤ k) (hkl : k ≤ b.lastRevno)
    (hne : s ≠ []) (hp : pyInt s = some (k : Int)) :
    ∃ r, b.history.reverse[b.lastRevno - k]? = some r ∧
      b.lastLookup s = .ok (((b.lastRevno - k + 1 : Nat) : Int), .rev r) := by
  obtain ⟨r, hr, hget⟩ := getRevId_nth b (b.lastRevno - k + 1) (by omega) (by omega)
  refine ⟨r, by simpa using hr, ?_⟩
  unfold Branch.lastLookup
  have hemp : s.isEmpty = false := by cases s with | nil => exact absurd rfl hne | cons _ _ => rfl
  have h0 : ¬ ((k : Int) ≤ 0) := by omega
  have : ((b.lastRevno : Int) - (k : Int) + 1) = ((b.lastRevno - k + 1 : Nat) : Int) := by omega
  simp only [hemp, Bool.false_eq_true, if_false, hp, h0, this, hget]

/-- **`revid:X` is X**; `in_history` additionally requires X to be in the repository. -/
theorem spec_revid (b : Branch) (fuel : Nat) (r : List Char) :
    asRevId b (fuel + 1) (pRevid ++ r) = .ok (parseRevId r) ∧
    inHist b (fuel + 2) (pRevid ++ r) =
      (if b.hasRevision (parseRevId r) then .ok (b.infoOfId (parseRevId r)) else .error .invalidRevisionSpec) := by
  constructor
  · simp [asRevId, classify_revid, pure, Except.pure]
  · simp only [inHist, classify_revid, matchOn, pure, Except.pure, bind, Except.bind, Branch.check,
      Branch.infoOfId]

/-- **`tag:T` is the revision the tag points at.** -/
theorem spec_tag (b : Branch) (fuel : Nat) (name : List Char) :
    asRevId b (fuel + 1) (pTag ++ name) = b.lookupTag name := by
  simp [asRevId, classify_tag]

/-- **`before:S` is the left-hand parent of S** (the null revision for a root;
an error for the null revision, a ghost or an unknown id). -/
theorem spec_before (b : Branch) (fuel : Nat) (s : List Char) (n : Nat) (ps : List Nat)
    (h : asRevId b fuel s = .ok (.rev n)) (hg : b.g[n]? = some ps) :
    asRevId b (fuel + 1) (pBefore ++ s) = .ok (match ps with | [] => .null | p :: _ => .rev p) := by
  simp only [asRevId, classify_before, h, bind, Except.bind, hg, pure, Except.pure]
  cases ps <;> rfl

theorem spec_before_null (b : Branch) (fuel : Nat) (s : List Char) (h : asRevId b fuel s = .ok .null) :
    asRevId b (fuel + 1) (pBefore ++ s) = .error .invalidRevisionSpec := by
  simp only [asRevId, classify_before, h, bind, Except.bind]

theorem dropWhile_head_false {α : Type} (p : α → Bool) : ∀ (l : List α) (x : α),
    (l.dropWhile p).head? = some x → p x = false
  | [], _, h => by simp at h
  | a :: l, x, h => by
    rw [List.dropWhile_cons] at h
    split at h
    · exact dropWhile_head_false p l x h
    · simp only [List.head?_cons, Option.some.injEq] at h
      subst h
      rename_i hp
      simpa using hp

/-- **`mainline:S`** is the oldest revision of the left-hand history that has
S as an ancestor: the history splits as `newer ++ r :: older` with S an
ancestor of `r` and of everything newer, and not of the next older revision. -/
theorem spec_mainline (b : Branch) (m r : Nat) (h : findLefthandMerger b (.rev m) = some (.rev r)) :
    ∃ newer older, b.history = newer ++ r :: older ∧ (∀ c ∈ newer, isAncestor b.g m c = true) ∧
      isAncestor b.g m r = true ∧ ∀ o, older.head? = some o → isAncestor b.g m o = false := by
  simp only [findLefthandMerger, Option.map_eq_some_iff, RevId.rev.injEq] at h
  obtain ⟨r', hlast, hr'⟩ := h
  subst hr'
  obtain ⟨ys, hys⟩ := List.getLast?_eq_some_iff.mp hlast
  have hsplit := List.takeWhile_append_dropWhile (p := fun c => isAncestor b.g m c) (l := b.history)
  have hall : ∀ c ∈ ys ++ [r'], isAncestor b.g m c = true := by
    intro c hc
    rw [← hys] at hc
    have := List.all_takeWhile (l := b.history) (p := fun c => isAncestor b.g m c)
    exact (List.all_eq_true.mp this) c hc
  refine ⟨ys, b.history.dropWhile (fun c => isAncestor b.g m c), ?_, ?_, ?_, ?_⟩
  · have : b.history = (ys ++ [r']) ++ b.history.dropWhile (fun c => isAncestor b.g m c) := by
      rw [← hys]; exact hsplit.symm
    rw [List.append_assoc] at this
    exact this
  · intro c hc; exact hall c (List.mem_append_left _ hc)
  · exact hall r' (List.mem_append_right _ (List.mem_singleton.mpr rfl))
  · intro o ho
    exact dropWhile_head_false _ _ _ ho

/-- **`ancestor:LOC`**: when the two tips have a single lowest common ancestor
it is the answer: an ancestor of both tips that is not an ancestor of any other
common ancestor. -/
theorem spec_ancestor (b : Branch) (a o x : Nat) (loc : List Char) (nm : String) (htip : b.tip = some a)
    (hne : loc ≠ []) (hloc : b.others.find? (fun e => e.1.toList == loc) = some (nm, some o))
    (hh : headsOf b.g (commonAncestors b.g [a, o]) = [x]) :
    b.ancestorLookup loc = .ok (.rev x) ∧ isAncestor b.g x a = true ∧ isAncestor b.g x o = true ∧
      ∀ c ∈ commonAncestors b.g [a, o], c ≠ x → isAncestor b.g x c = false := by
  have hx : x ∈ headsOf b.g (commonAncestors b.g [a, o]) := by rw [hh]; exact List.mem_singleton.mpr rfl
  unfold headsOf at hx
  rw [List.mem_filter] at hx
  obtain ⟨hxc, hxh⟩ := hx
  have hxc' := hxc
  unfold commonAncestors at hxc'
  rw [List.mem_filter] at hxc'
  have hboth := hxc'.2
  simp only [List.all_cons, List.all_nil, Bool.and_true, Bool.and_eq_true] at hboth
  refine ⟨?_, hboth.1, hboth.2, ?_⟩
  · have hemp : loc.isEmpty = false := by cases loc with | nil => exact absurd rfl hne | cons _ _ => rfl
    simp [Branch.ancestorLookup, htip, hemp, hloc, findUniqueLca, hh]
  · intro c hc hcx
    simp only [Bool.not_eq_true', List.any_eq_false, Bool.and_eq_true, bne_iff_ne, ne_eq, not_and,
      Bool.not_eq_true] at hxh
    exact hxh c hc hcx

/-! ### the helper-level specifier theorems are about what `as_revision_id` computes -/

theorem classify_revno (r : List Char) : classify (pRevno ++ r) = (.revno, r) := classify_pRevno r

theorem classify_last (r : List Char) : classify (pLast ++ r) = (.last, r) := by
  simp [classify, prefixes, stripPrefix?, pRevno, pRevid, pLast, List.findSome?]

/-- `revno:N`, `revno:-N`, `revno:a.b.c` → `spec_neg`, `get_rev_id_nth`, `dotted_roundtrip` apply to `as_revision_id` -/
theorem spec_revno_as_revision_id (b : Branch) (fuel : Nat) (r : List Char) :
    asRevId b (fuel + 1) (pRevno ++ r) = (b.revnoLookup r).bind fun v => pure v.2 := by
  rw [asRevId]; simp only [classify_revno]; rfl

/-- `last:N` → `spec_last` applies to `as_revision_id` -/
theorem spec_last_as_revision_id (b : Branch) (fuel : Nat) (r : List Char) :
    asRevId b (fuel + 1) (pLast ++ r) = (b.lastLookup r).bind fun v => pure v.2 := by
  rw [asRevId]; simp only [classify_last]; rfl

/-- `mainline:S` is `find_lefthand_merger` of what S names → `spec_mainline` applies to `as_revision_id` -/
theorem spec_mainline_as_revision_id (b : Branch) (fuel : Nat) (r : List Char) (hb : specGetBranch r = false) :
    asRevId b (fuel + 1) (pMainline ++ r) = (asRevId b fuel r).bind fun id =>
      match findLefthandMerger b id with
      | some m => pure m
      | none => .error .invalidRevisionSpec := by
  rw [asRevId_mainline b fuel _ r (classify_mainline r)]
  simp only [hb, Bool.false_eq_true, if_false]
  rfl

/-- `ancestor:LOC` → `spec_ancestor` applies to `as_revision_id` -/
theorem spec_ancestor_as_revision_id (b : Branch) (fuel : Nat) (loc : List Char) :
    asRevId b (fuel + 1) (pAncestor ++ loc) = b.ancestorLookup loc := by
  rw [asRevId]; simp only [classify_ancestor]

/-! ## the two entry points of a specifier, and the fuel of the model -/

theorem fuelFor_ge (s : List Char) : s.length + 7 ≤ fuelFor s := by unfold fuelFor; omega

theorem clean_of_mainlineClean (b : Branch) (hc : mainlineClean b = true) : ChainClean b.g b.history := by
  intro x hx hl
  have := (List.all_eq_true.mp hc) x hx
  simp only [hl, Option.isSome_none, Bool.false_or, List.isEmpty_iff] at this
  exact this

/-- **The fuel of the model never decides an answer**: from `length + 7` on (the
model runs with `3 · length + 8`) every further unit of fuel leaves
`in_history` and `as_revision_id` unchanged, for every branch and every string. -/
theorem fuel_adequate (b : Branch) (s : List Char) (k : Nat) :
    inHist b (s.length + 7 + k) s = inHist b (s.length + 7) s ∧
    asRevId b (s.length + 7 + k) s = asRevId b (s.length + 7) s := by
  obtain ⟨stA, _, stH⟩ := stable_all b s.length s (Nat.le_refl _)
  induction k with
  | zero => exact ⟨rfl, rfl⟩
  | succ k ih =>
    rw [show s.length + 7 + (k + 1) = (s.length + 7 + k) + 1 from rfl, stH _ (by omega), stA _ (by omega)]
    exact ih

/-- **`in_history` and `as_revision_id` name the same revision**, for every
specifier string (nested `before:` / `mainline:`, numbers, dotted numbers,
`last:`, `tag:`, `ancestor:`, `revid:` and the prefix-less forms): whenever
`RevisionSpec.from_string(s).in_history(b)` answers, `as_revision_id(b)` answers
the same revision id.  The interesting step is `before:`, where `in_history`
uses the mainline shortcut (revno − 1) and `as_revision_id` the left-hand parent
in the graph (`get_rev_id_pred_is_left_parent`, and the root of a clean
mainline has no parent at all). -/
theorem in_history_as_revision_id_agree (b : Branch) (hw : wf b.g = true)
    (htip : ∀ t, b.tip = some t → t < b.g.length) (hc : mainlineClean b = true) (s : String) (i : Info)
    (h : b.inHistory s = .ok i) : b.asRevisionId s = .ok i.revId :=
  ((agree_all b ((wf_iff _).mp hw) htip (clean_of_mainlineClean b hc) s.toList.length s.toList (Nat.le_refl _)
    (fuelFor s.toList) (fuelFor_ge _) i).2 h)

/-- **The revno `in_history` reports is the revno of the revision it reports**:
number → identifier gives back the identifier; and when it reports no revno the
revision is not on the mainline. -/
theorem in_history_revno_coherent (b : Branch) (s : String) (i : Info) (h : b.inHistory s = .ok i) :
    (∀ n, i.revno = some n → b.getRevId n = .ok i.revId) ∧ (i.revno = none → b.lazyRevno i.revId = none) :=
  ⟨(matchOn_inHist_coh b _ _ i).2 h, (matchOn_inHist_cohNone b _ _ i).2 h⟩

-- non-vacuity: a nested specifier on a history with a merge
example : Branch.inHistory { g := [[], [0], [0], [1, 2], [3]], tip := some 4 } "before:before:mainline:1.1.1" =
    .ok ⟨some 1, .rev 0⟩ := by decide
example : Branch.asRevisionId { g := [[], [0], [0], [1, 2], [3]], tip := some 4 } "before:before:mainline:1.1.1" =
    .ok (.rev 0) := by decide

/-! ## stacked branches served by the smart server (`Model/C22Remote.lean`) -/

theorem getElem?_takeWhile_length {α : Type} (p : α → Bool) : ∀ (l : List α) (y : α),
    l[(l.takeWhile p).length]? = some y → p y = false
  | [], _, h => by simp at h
  | a :: l, y, h => by
    by_cases ha : p a = true
    · rw [List.takeWhile_cons_of_pos ha, List.length_cons, List.getElem?_cons_succ] at h
      exact getElem?_takeWhile_length p l y h
    · rw [List.takeWhile_cons_of_neg ha] at h
      simp only [List.length_nil, List.getElem?_cons_zero, Option.some.injEq] at h
      subst h
      simpa using ha

/-- **A `history-incomplete` answer names a true (revno, revision) pair of the
same history.**  `Repository.get_rev_id_for_revno` on a repository that stores
the known revision `x` (revno `k`) but runs out of left-hand history `H` before
the wanted distance `d`: the pair it hands to the fallbacks is a revision `y`
further down the same history together with ITS revno (`k - j` for the `j`-th
ancestor), it is strictly nearer to the wanted revision, and it is the first
revision the repository does not store. -/
theorem history_incomplete_pair (g : Graph) (R : List Nat) (H : List Nat) (x : Nat) (rest : List Nat) (k : Int)
    (d : Nat) (k' : Int) (y : Nat) (hch : isLeftChain g H = true) (hH : H = x :: rest)
    (hx : stores g R x = true) (hd : d < H.length) (h : walkFor g R d x k = .incomplete k' y) :
    ∃ j, 0 < j ∧ j < d ∧ H[j]? = some y ∧ k' = k - (j : Int) ∧ stores g R y = false ∧
      ∀ i, i < j → ∃ z, H[i]? = some z ∧ stores g R z = true := by
  by_cases hle : d ≤ (H.takeWhile (stores g R)).length
  · rw [walkFor_found g R d H x rest k _ hch hH hle (List.getElem?_eq_getElem hd)] at h
    cases h
  · have hn : (H.takeWhile (stores g R)).length < d := by omega
    have hnl : (H.takeWhile (stores g R)).length < H.length := by omega
    have hy := List.getElem?_eq_getElem hnl
    rw [walkFor_incomplete g R d H x rest k _ hch hH hx hn hy] at h
    cases h
    refine ⟨(H.takeWhile (stores g R)).length, ?_, hn, hy, rfl, getElem?_takeWhile_length _ H _ hy, ?_⟩
    · subst hH
      rw [List.takeWhile_cons_of_pos hx]
      simp
    · intro i hi
      have hil : i < H.length := by omega
      refine ⟨H[i], List.getElem?_eq_getElem hil, ?_⟩
      have hpre : (H.takeWhile (stores g R))[i]? = some H[i] := by
        have h1 : (H.takeWhile (stores g R) ++ H.dropWhile (stores g R))[i]? = some H[i] := by
          rw [List.takeWhile_append_dropWhile]; exact List.getElem?_eq_getElem hil
        rwa [List.getElem?_append_left hi] at h1
      have hmem := List.mem_of_getElem? hpre
      exact (List.all_eq_true.mp (List.all_takeWhile (l := H) (p := stores g R))) _ hmem

/-- **Revno n over the smart server, as the code is.**  For a stacking chain
that holds the branch's left-hand history in consecutive non-empty segments
(`chainCovers false`), `RemoteBranch.get_rev_id` answers exactly what
`BzrBranch.get_rev_id` answers on the complete graph — for every number, in and
out of range.

PARTIAL: the hypothesis excludes chains in which a repository stores nothing of
the remaining history (a freshly stacked branch whose tip lives in the fallback
only): there the code as it is gives up with NoSuchRevision, see
`remote_get_rev_id_only_in_fallback_witness`; `remote_get_rev_id_fixed` is
the statement without that exclusion for the variant that goes on in the
fallbacks. -/
theorem remote_get_rev_id_partial (b : Branch) (chain : List (List Nat)) (revno : Int)
    (htip : ∀ t, b.tip = some t → t < b.g.length) (hc : chainCovers false b.g chain b.history = true) :
    remoteGetRevId false b chain revno = b.getRevId revno :=
  remoteGetRevId_eq false b chain revno htip hc

/-- the same for the variant that treats "the known revision is not stored here"
like `history-incomplete`: every chain that holds the history at all -/
theorem remote_get_rev_id_fixed (b : Branch) (chain : List (List Nat)) (revno : Int)
    (htip : ∀ t, b.tip = some t → t < b.g.length) (hc : chainCovers true b.g chain b.history = true) :
    remoteGetRevId true b chain revno = b.getRevId revno :=
  remoteGetRevId_eq true b chain revno htip hc

/-- **Revno n names the n-th revision of the left-hand history — over the smart
server on a stacked branch** (either variant, its covering hypothesis). -/
theorem remote_get_rev_id_nth (fx : Bool) (b : Branch) (chain : List (List Nat)) (n : Nat)
    (htip : ∀ t, b.tip = some t → t < b.g.length) (hc : chainCovers fx b.g chain b.history = true)
    (h1 : 1 ≤ n) (h2 : n ≤ b.lastRevno) :
    ∃ r, b.history.reverse[n - 1]? = some r ∧ remoteGetRevId fx b chain n = .ok (.rev r) := by
  obtain ⟨r, hr, hget⟩ := getRevId_nth b n h1 h2
  exact ⟨r, hr, by rw [remoteGetRevId_eq fx b chain n htip hc, hget]⟩

-- non-vacuity: A B D F | G J stacked at F on a branch stacked at B (merges C, E, I aside)
example : chainCovers false [[], [0], [0], [1, 2], [2], [3, 4], [5], [5, 4], [6, 7]]
    [[6, 7, 8], [2, 3, 4, 5], [0, 1]]
    (Branch.history { g := [[], [0], [0], [1, 2], [2], [3, 4], [5], [5, 4], [6, 7]], tip := some 8 }) = true := by decide
example : ([0, 1, 2, 3, 4, 5, 6, 7] : List Int).map (fun n => remoteGetRevId false
      { g := [[], [0], [0], [1, 2], [2], [3, 4], [5], [5, 4], [6, 7]], tip := some 8 }
      [[6, 7, 8], [2, 3, 4, 5], [0, 1]] n) =
    [.ok .null, .ok (.rev 0), .ok (.rev 1), .ok (.rev 3), .ok (.rev 5), .ok (.rev 6), .ok (.rev 8),
     .error .revnoOutOfBounds] := by decide

/-- three revisions in a line -/
def freshlyStacked : Branch := { g := [[], [0], [1]], tip := some 2 }

/-- **Witness (finding `remote-stacked-known-revision-only-in-fallback`).**  A
freshly stacked branch — three revisions, all of them in the fallback, none in
the stacked repository: the chain holds the whole history (`chainCovers true`),
the branch opened locally answers, the code as it is answers NoSuchRevision
over the smart server, the fixed variant answers. -/
theorem remote_get_rev_id_only_in_fallback_witness :
    chainCovers true freshlyStacked.g [[], [0, 1, 2]] freshlyStacked.history = true ∧
      chainCovers false freshlyStacked.g [[], [0, 1, 2]] freshlyStacked.history = false ∧
      freshlyStacked.getRevId 1 = .ok (.rev 0) ∧
      remoteGetRevId false freshlyStacked [[], [0, 1, 2]] 1 = .error .noSuchRevision ∧
      remoteGetRevId true freshlyStacked [[], [0, 1, 2]] 1 = .ok (.rev 0) := by decide

theorem answer_ok_inj {α : Type} {a c : α} (h : (Answer.ok a : Answer α) = .ok c) : a = c := by cases h; rfl

/-- **Identifier → dotted number over the smart server is refused or right**:
whatever repository the server looks into, an answer it gives is the answer of
the branch opened with the complete graph. -/
theorem remote_dotted_sound (b : Branch) (R : List Nat) (id : RevId) (d : List Int)
    (h : remoteRevIdToDotted b R id = .ok d) : b.revIdToDotted id = .ok d := by
  unfold remoteRevIdToDotted serverRevIdToDotted at h
  split at h
  · cases h; rfl
  · rename_i hnn
    split at h
    · rename_i i hw
      cases h
      obtain ⟨r, hr, _, hidx⟩ := serverWalk_found b.g R id b.history 0 i hw
      subst hr
      simp only [Nat.sub_zero] at hidx
      simp [Branch.revIdToDotted, Branch.revisionIdToRevno, hidx]
    · cases h
    · rename_i hw
      split at h
      · cases h
      · rename_i m hm
        split at h
        · split at h
          · rename_i r
            have hnot := serverWalk_ended b.g R (.rev r) b.history 0 hw r rfl
            have hidx : b.history.idxOf? r = none := List.idxOf?_eq_none_iff.mpr hnot
            split at h
            · rename_i dd hl
              cases h
              simp [Branch.revIdToDotted, Branch.revisionIdToRevno, hidx, hm, hl, bind, Except.bind, pure, Except.pure]
            · cases h
          · cases h
        · cases h

/-- **Identifier → revno over the smart server is refused or right.** -/
theorem remote_revno_sound (b : Branch) (t : Nat) (hw : wf b.g = true) (htip : b.tip = some t)
    (ht : t < b.g.length) (hc : mainlineClean b = true) (R : List Nat) (id : RevId) (k : Int)
    (h : remoteRevIdToRevno b R id = .ok k) : b.revisionIdToRevno id = .ok k := by
  unfold remoteRevIdToRevno at h
  split at h
  · rename_i n hs
    cases h
    have hd := remote_dotted_sound b R id [k] hs
    unfold Branch.revIdToDotted at hd
    split at hd
    · rename_i n' hn'
      cases hd
      exact hn'
    · rename_i e he
      split at hd
      · rename_i r
        obtain ⟨m, hm, _⟩ := revno_map_bijection b t hw htip ht
        have hcoh := mainlineCoherent_of_clean b t hw htip ht hc m hm
        simp only [hm, bind, Except.bind, pure, Except.pure] at hd
        split at hd
        · rename_i dr hdr
          have heq : dr.map Int.ofNat = [k] := Except.ok.inj hd
          have hmem := mem_of_lookup m r dr hdr
          have := (List.all_eq_true.mp hcoh) (r, dr) hmem
          simp only [he] at this
          have hlen : (dr.map Int.ofNat).length = 1 := by rw [heq]; rfl
          simp at this
          simp at hlen
          exact absurd hlen this
        · cases hd
      · split at hd <;> cases hd
  · cases h
  · cases h
  · cases h

/-- **… and it is not refused for the mainline revisions the stacked repository
stores itself** (contiguously from the tip): there the server answers exactly
what the local branch answers. -/
theorem remote_revno_answers_own (b : Branch) (R : List Nat) (r : Nat)
    (h : r ∈ b.history.takeWhile (stores b.g R)) :
    ∃ k, b.revisionIdToRevno (.rev r) = .ok k ∧ remoteRevIdToRevno b R (.rev r) = .ok k := by
  obtain ⟨i, hi, hwalk⟩ := serverWalk_own b.g R r b.history 0 h
  refine ⟨(b.lastRevno : Int) - i, ?_, ?_⟩
  · simp [Branch.revisionIdToRevno, hi]
  · simp [remoteRevIdToRevno, serverRevIdToDotted, hwalk]

example : remoteRevIdToRevno { g := [[], [0], [1], [2]], tip := some 3 } [2, 3] (.rev 2) = .ok 3 := by decide
example : (match remoteRevIdToRevno { g := [[], [0], [1], [2]], tip := some 3 } [2, 3] (.rev 0) with
    | .refused => true | _ => false) = true := by decide

/-! ## iteration -/

/-- **Whatever start, stop, rule and direction: the result is a sub-sequence of
the merge-sorted list** (nothing is invented, duplicated or reordered). -/
theorem iter_sublist (b : Branch) (start stop : Option RevId) (rule : StopRule) (fwd : Bool)
    (ms out : List MS) (hms : b.mergeSorted = .ok ms)
    (h : b.iterMergeSorted start stop rule fwd = .ok out) :
    List.Sublist (if fwd then out.reverse else out) ms := by
  unfold Branch.iterMergeSorted at h
  simp only [hms, bind, Except.bind, pure, Except.pure] at h
  split at h
  · cases h
  · rename_i l hl
    cases h
    have h1 := applyStop_sublist b start _ stop rule l hl
    have h2 := filterStartNonAncestors_sublist b.g l
    have h3 : List.Sublist (match start with
        | none => ms
        | some (.rev s) => skipToStart ms (some s)
        | some _ => []) ms := by
      split
      · exact List.Sublist.refl _
      · exact List.dropWhile_sublist _
      · exact List.nil_sublist _
    have := (h2.trans h1).trans h3
    cases fwd
    · simpa using this
    · simpa using this

/-- **`include` = `exclude` followed by the stop revision** (when it is met). -/
theorem iter_exclude_include (b : Branch) (start : Option RevId) (l : List MS) (stop : RevId) (e : MS)
    (hfind : l.find? (fun e => revIdIs stop e.rev) = some e) :
    ∃ ex, applyStop b start l (some stop) .exclude = .ok ex ∧
      applyStop b start l (some stop) .include = .ok (ex ++ [e]) := by
  refine ⟨l.takeWhile fun e => !revIdIs stop e.rev, rfl, ?_⟩
  simp only [applyStop]
  rw [takeThrough_eq, hfind]
  rfl

/-- **Without start and stop, iteration lists the whole ancestry of the tip,
every revision once, in merge-sorted order** (whatever rule is named). -/
theorem iter_all (b : Branch) (t : Nat) (hw : wf b.g = true) (htip : b.tip = some t) (ht : t < b.g.length)
    (rule : StopRule) :
    ∃ ms, b.iterMergeSorted none none rule false = .ok ms ∧ b.mergeSorted = .ok ms ∧
      (ms.map (·.rev)).Nodup ∧ ∀ x, x ∈ ms.map (·.rev) ↔ Reach b.g t x := by
  obtain ⟨ms, hms⟩ := mergeSort_total b.g t hw ht
  obtain ⟨e, rest, hcons, _, hdepth⟩ := mergeSort_tip_first b.g t ms hw ht hms
  have hsorted : b.mergeSorted = .ok ms := by simp [Branch.mergeSorted, htip, hms]
  refine ⟨ms, ?_, hsorted, mergeSort_nodup b.g t ms hw ht hms, mergeSort_covers b.g t ms hw ht hms⟩
  unfold Branch.iterMergeSorted
  simp only [hsorted, bind, Except.bind, applyStop, pure, Except.pure]
  rw [hcons]
  simp [filterStartNonAncestors, hdepth]

theorem filterStartNonAncestors_mem (g : Graph) (l : List MS) (e : MS) (h : e ∈ filterStartNonAncestors g l) : e ∈ l :=
  (filterStartNonAncestors_sublist g l).subset h

/-- **The `exclude` rule never lists the stop revision** (whatever start and direction). -/
theorem iter_exclude_omits_stop (b : Branch) (start : Option RevId) (stop : RevId) (fwd : Bool) (out : List MS)
    (h : b.iterMergeSorted start (some stop) .exclude fwd = .ok out) : ∀ e ∈ out, revIdIs stop e.rev = false := by
  unfold Branch.iterMergeSorted at h
  simp only [bind, Except.bind, pure, Except.pure] at h
  split at h
  · cases h
  · rename_i ms hms
    simp only [applyStop] at h
    have key : ∀ (L : List MS) (e : MS),
        e ∈ filterStartNonAncestors b.g (List.takeWhile (fun e => !revIdIs stop e.rev) L) →
        revIdIs stop e.rev = false := by
      intro L e he
      have hm := filterStartNonAncestors_mem _ _ _ he
      have := (List.all_eq_true.mp (List.all_takeWhile (p := fun e => !revIdIs stop e.rev) (l := L))) e hm
      simpa using this
    intro e he
    cases fwd
    · simp only [Bool.false_eq_true, if_false] at h
      cases h; exact key _ e he
    · simp only [if_true] at h
      cases h; exact key _ e (List.mem_reverse.mp he)

example : (match Branch.iterMergeSorted { g := [[], [0], [0], [1, 2]], tip := some 3 } none (some (.rev 1)) .include false with
    | .ok l => l.map (·.rev)
    | .error _ => []) = [3, 2, 1] := by decide

end BreezyVerif.C22
