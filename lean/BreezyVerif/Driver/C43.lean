import BreezyVerif.Common
import BreezyVerif.Model.C43
/-
C43 driver.

  up <mode inc|full> <variant A|C followed by optional S, K: renames as found / children first; S = robust symlinks; K = kind change deletes at the new path; T = deleting a missing .bzrignore / .bzrignore-upload is tolerated> <ign> <remote> <tree> <delta> <bad links>
     bad links = `,`-joined `<link path>=!` (creating the link raises InvalidURL) / `<link path>=<path>` (the link lands at the
              percent-decoded path) for the links `upload_symlink` mishandles because it does not escape (`-` = none)
     ign    = `,`-joined plain names (`-` = none)
     remote = `;`-joined entries, parents first: `<path>|f|<content hex>|<T|F>`, `<path>|l|<target>`, `<path>|d`
              (path = components joined by `/`; `-` = empty directory)
     tree   = the same encoding, in `iter_entries_by_dir` order (without the root)
     delta  = `<removed>&<renamed>&<kind-changed>&<added>&<copied>&<modified>`, each `,`-joined (`-` = none):
              removed `<path>:<k>`, renamed `<old>:<new>:<T|F changed content>`, kind-changed `<old path>:<path>:<k0>:<k1>`,
              added / copied / modified `<path>`;  k = f|d|l
  reply: `<error|~> <remote afterwards, same encoding, sorted>`

  wf <tree>                      -> `T` / `F`: `treeWF` (the hypothesis of the upload theorems on trees)
  dok <ign> <old tree> <new tree> <delta> -> `T` / `F`: `deltaOK` (the hypothesis of the upload theorems on deltas)
-/
namespace BreezyVerif.C43

def parsePath (s : String) : Option Path :=
  (s.splitOn "/").mapM fun c => if c.isEmpty then none else some c

def showPath (p : Path) : String := "/".intercalate p

def strOfHex (s : String) : Option String := do
  let b ← fromHex s
  String.fromUTF8? (ByteArray.mk b.toArray)

def hexOfStr (s : String) : String := toHex s.toUTF8.toList

def parseTEnt (s : String) : Option TEnt :=
  match s.splitOn "|" with
  | [p, "f", c, x] => do pure { path := ← parsePath p, kind := .file, content := ← strOfHex c, exec := ← parseBool x }
  | [p, "l", t] => do pure { path := ← parsePath p, kind := .symlink, target := t }
  | [p, "d"] => do pure { path := ← parsePath p, kind := .dir }
  | _ => none

def parseTree (s : String) : Option Tree :=
  if s == "-" then some [] else (s.splitOn ";").mapM parseTEnt

/-- build the remote tree from a parents-first listing -/
def buildFS (es : List TEnt) : Option Node :=
  es.foldlM (fun root e =>
    match (match e.kind with
      | .file => tPut root e.path e.content e.exec
      | .symlink => tSymlink root e.path e.target
      | .dir => tMkdir root e.path) with
    | .ok r => some r
    | .error _ => none) (Node.dir [])

partial def flatten (pre : Path) : Node → List String
  | .file c x => [s!"{showPath pre}|f|{hexOfStr c}|{showBool x}"]
  | .link t => [s!"{showPath pre}|l|{t}"]
  | .dir kids => (if pre.isEmpty then [] else [s!"{showPath pre}|d"]) ++
      kids.flatMap fun (n, k) => flatten (pre ++ [n]) k

def showFS (n : Node) : String :=
  let l := (flatten [] n).mergeSort (fun a b => decide (a ≤ b))
  if l.isEmpty then "-" else ";".intercalate l

def parseKind : String → Option Kind
  | "f" => some .file | "d" => some .dir | "l" => some .symlink | _ => none

def parseGroup {α : Type} (s : String) (f : String → Option α) : Option (List α) :=
  if s == "-" then some [] else (s.splitOn ",").mapM f

def parseDelta (s : String) : Option Delta :=
  match s.splitOn "&" with
  | [rm, rn, kc, ad, cp, md] => do
    let removed ← parseGroup rm fun x => match x.splitOn ":" with
      | [p, k] => do pure (⟨← parsePath p, ← parseKind k⟩ : Removed)
      | _ => none
    let renamed ← parseGroup rn fun x => match x.splitOn ":" with
      | [a, b, c] => do pure (⟨← parsePath a, ← parsePath b, ← parseBool c⟩ : Renamed)
      | _ => none
    let kindChanged ← parseGroup kc fun x => match x.splitOn ":" with
      | [o, p, k0, k1] => do pure (⟨← parsePath o, ← parsePath p, ← parseKind k0, ← parseKind k1⟩ : KindChanged)
      | _ => none
    let added ← parseGroup ad parsePath
    let copied ← parseGroup cp parsePath
    let modified ← parseGroup md parsePath
    pure { removed, renamed, kindChanged, added, copied, modified }
  | _ => none

/-- `<link path>=!` (InvalidURL) or `<link path>=<path the link is created at>` -/
def parseFate (s : String) : Option (Path × Option Path) :=
  match s.splitOn "=" with
  | [p, "!"] => do pure (← parsePath p, none)
  | [p, q] => do pure (← parsePath p, some (← parsePath q))
  | _ => none

def handle : List String → String
  | ["up", mode, v, ign, remote, tree, delta, bad] =>
    match (if v.toList.all (fun ch => ch == 'A' || ch == 'C' || ch == 'S' || ch == 'K' || ch == 'T') && v.length > 0
            && (v.toList.head? == some 'A' || v.toList.head? == some 'C') then
            some ({ renames := if v.toList.head? == some 'C' then .childrenFirst else .asFound,
                    robustSymlinks := v.toList.contains 'S', kindChangeAtNew := v.toList.contains 'K',
                    tolerantSpecialDelete := v.toList.contains 'T' } : Cfg)
          else none),
          (parseTree remote).bind buildFS, parseTree tree, parseDelta delta, parseGroup bad parseFate with
    | some v0, some root, some t, some d, some badLinks =>
      let v : Cfg := { v0 with badLinks := badLinks }
      let names := splitList ign
      let r := if mode == "inc" then some (uploadInc v names t d root)
               else if mode == "full" then some (uploadFull v names t root) else none
      match r with
      | some (root', err) =>
        let e := match err with | none => "~" | some e => e.toString
        s!"{e} {showFS root'}"
      | none => "bad-op"
    | _, _, _, _, _ => "bad-op"
  | ["wf", tree] =>
    match parseTree tree with
    | some t => showBool (treeWF t)
    | none => "bad-op"
  | ["dok", ign, old, new, delta] =>
    match parseTree old, parseTree new, parseDelta delta with
    | some o, some n, some d => showBool (deltaOK (splitList ign) o n d)
    | _, _, _ => "bad-op"
  | _ => "bad-op"

end BreezyVerif.C43

def main : IO Unit := BreezyVerif.runDriver BreezyVerif.C43.handle
