import BreezyVerif.Lemmas.C32W
/-
Helper lemmas for the lock-scope session model, part 6: token locks, the leave
flag and the second holder object.  `NoOrphan` (every physical lock has a holder
that will release it) is an invariant of every specification step other than
`leave_lock_in_place()`.
-/
namespace BreezyVerif.C32

/-- every physical lock has a holder that will release it: the lock is free, or held by the second holder
object, or held by the object under test in a lock scope whose last unlock releases it -/
def NoOrphan (k : LockSt) (st : St) : Prop :=
  st.lock = none ∨ (st.owner.isSome = true ∧ st.lock = st.owner) ∨ (k.mode = .w ∧ k.leave = false ∧ st.lock = k.token)

instance (k : LockSt) (st : St) : Decidable (NoOrphan k st) := by unfold NoOrphan; infer_instance

theorem specBody_frame (src : Graph) (op : SOp) (st : St) :
    (specBody src op st).2.lock = st.lock ∧ (specBody src op st).2.owner = st.owner := by
  cases op with
  | setTip n r =>
    simp only [specBody]
    split
    · exact ⟨rfl, rfl⟩
    · unfold specFetch; split <;> exact ⟨rfl, rfl⟩
  | pull ow n r stags => exact ⟨specPull_lock src ow n r stags st, specPull_owner src ow n r stags st⟩
  | _ => exact ⟨rfl, rfl⟩

/-- acquisition keeps `NoOrphan` -/
theorem acquire_noOrphan (wr : Bool) (tok : Option Nat) (k : LockSt) (st : St) (k1 : LockSt) (s1 : St)
    (h : acquire primLock true wr tok k st = .ok (k1, s1)) (hn : NoOrphan k st) :
    NoOrphan k1 s1 ∧ s1.owner = st.owner := by
  unfold acquire at h
  cases hm : k.mode with
  | unlocked =>
    simp only [hm] at h
    cases wr with
    | true =>
      simp only [if_true, primLock] at h
      cases tok with
      | none =>
        simp only [] at h
        cases hlk : st.lock with
        | some x => simp [hlk] at h
        | none =>
          simp only [hlk] at h
          injection h with h; injection h with ha hb; subst ha hb
          exact ⟨Or.inr (Or.inr ⟨rfl, rfl, rfl⟩), rfl⟩
      | some t =>
        simp only [] at h
        by_cases hlk : st.lock = some t
        · simp only [hlk, if_true] at h
          injection h with h; injection h with ha hb; subst ha hb
          refine ⟨?_, rfl⟩
          rcases hn with h1 | h2 | h3
          · rw [h1] at hlk; cases hlk
          · exact Or.inr (Or.inl h2)
          · rw [hm] at h3; cases h3.1
        · simp [hlk] at h
    | false =>
      simp only [Bool.false_eq_true, if_false] at h
      injection h with h; injection h with ha hb; subst ha hb
      refine ⟨?_, rfl⟩
      rcases hn with h1 | h2 | h3
      · exact Or.inl h1
      · exact Or.inr (Or.inl h2)
      · rw [hm] at h3; cases h3.1
  | r =>
    simp only [hm] at h
    cases wr with
    | true => simp at h
    | false =>
      simp only [Bool.false_eq_true, if_false] at h
      injection h with h; injection h with ha hb; subst ha hb
      refine ⟨?_, rfl⟩
      rcases hn with h1 | h2 | h3
      · exact Or.inl h1
      · exact Or.inr (Or.inl h2)
      · rw [hm] at h3; cases h3.1
  | w =>
    simp only [hm] at h
    have keep : ∀ c, NoOrphan { mode := .w, count := c, token := k.token, leave := k.leave } st := by
      intro c
      rcases hn with h1 | h2 | h3
      · exact Or.inl h1
      · exact Or.inr (Or.inl h2)
      · exact Or.inr (Or.inr ⟨rfl, h3.2.1, h3.2.2⟩)
    cases wr with
    | true =>
      simp only [if_true] at h
      cases tok with
      | none =>
        simp only [] at h
        injection h with h; injection h with ha hb; subst ha hb
        exact ⟨keep _, rfl⟩
      | some t =>
        simp only [] at h
        split at h
        · injection h with h; injection h with ha hb; subst ha hb
          exact ⟨keep _, rfl⟩
        · cases h
    | false =>
      simp only [Bool.false_eq_true, if_false] at h
      injection h with h; injection h with ha hb; subst ha hb
      exact ⟨keep _, rfl⟩

/-- the unlock keeps `NoOrphan`: this is where an untokened lock is released -/
theorem release_noOrphan (k : LockSt) (st : St) (hn : NoOrphan k st) :
    NoOrphan (release primRelease k st).2.1 (release primRelease k st).2.2.1
      ∧ (release primRelease k st).2.2.1.owner = st.owner := by
  unfold release
  cases hm : k.mode with
  | unlocked => exact ⟨hn, by first | rfl | trivial⟩
  | r =>
    simp only []
    have h12 : st.lock = none ∨ (st.owner.isSome = true ∧ st.lock = st.owner) := by
      rcases hn with h1 | h2 | h3
      · exact Or.inl h1
      · exact Or.inr h2
      · rw [hm] at h3; cases h3.1
    by_cases hcnt : k.count > 1
    · simp only [hcnt, if_true]
      exact ⟨h12.elim Or.inl (fun h => Or.inr (Or.inl h)), by first | rfl | trivial⟩
    · simp only [hcnt, if_false]
      exact ⟨h12.elim Or.inl (fun h => Or.inr (Or.inl h)), by first | rfl | trivial⟩
  | w =>
    simp only []
    by_cases hcnt : k.count > 1
    · simp only [hcnt, if_true]
      refine ⟨?_, by first | rfl | trivial⟩
      rcases hn with h1 | h2 | h3
      · exact Or.inl h1
      · exact Or.inr (Or.inl h2)
      · exact Or.inr (Or.inr ⟨rfl, h3.2.1, h3.2.2⟩)
    · simp only [hcnt, if_false]
      cases htk : k.token with
      | none =>
        refine ⟨?_, by first | rfl | trivial⟩
        rcases hn with h1 | h2 | h3
        · exact Or.inl h1
        · exact Or.inr (Or.inl h2)
        · left; rw [h3.2.2, htk]
      | some t =>
        simp only []
        cases hlv : k.leave with
        | true =>
          simp only [if_true]
          refine ⟨?_, by first | rfl | trivial⟩
          rcases hn with h1 | h2 | h3
          · exact Or.inl h1
          · exact Or.inr (Or.inl h2)
          · rw [hlv] at h3; cases h3.2.1
        | false =>
          simp only [Bool.false_eq_true, if_false, primRelease]
          by_cases hl : st.lock = some t
          · simp only [hl, if_true]
            exact ⟨Or.inl rfl, by first | rfl | trivial⟩
          · simp only [hl, if_false]
            refine ⟨?_, by first | rfl | trivial⟩
            rcases hn with h1 | h2 | h3
            · exact Or.inl h1
            · exact Or.inr (Or.inl h2)
            · exfalso; apply hl; rw [h3.2.2, htk]


/-- the script never calls `leave_lock_in_place()` (which deliberately orphans the lock) -/
def NoLeave : SOp → Prop
  | .leave => False
  | _ => True

instance (op : SOp) : Decidable (NoLeave op) := by cases op <;> unfold NoLeave <;> infer_instance

theorem withLkS_noOrphan (wr : Bool) (k : LockSt) (st : St) (body : St → Res × St)
    (hb : ∀ s, (body s).2.lock = s.lock ∧ (body s).2.owner = s.owner) (hn : NoOrphan k st) :
    NoOrphan (withLkS wr k st body).2.1 (withLkS wr k st body).2.2 := by
  unfold withLkS
  cases ha : acquire primLock true wr none k st with
  | error e => exact hn
  | ok p =>
    obtain ⟨k1, s1⟩ := p
    simp only []
    have h1 := (acquire_noOrphan wr none k st k1 s1 ha hn).1
    have h2 : NoOrphan k1 (body s1).2 := by
      obtain ⟨bl, bo⟩ := hb s1
      unfold NoOrphan at h1 ⊢
      rw [bl, bo]
      exact h1
    exact (release_noOrphan k1 (body s1).2 h2).1

theorem ownerStep_noOrphan (lock : Bool) (k : LockSt) (st : St) (hn : NoOrphan k st) :
    NoOrphan k (ownerStep lock k st).2 := by
  unfold ownerStep
  cases lock with
  | true =>
    simp only [if_true]
    cases st.owner with
    | some x => exact hn
    | none =>
      simp only [primLock]
      cases hlk : st.lock with
      | some x => simpa [hlk] using hn
      | none => exact Or.inr (Or.inl ⟨rfl, rfl⟩)
  | false =>
    simp only [Bool.false_eq_true, if_false]
    cases hown : st.owner with
    | none => exact hn
    | some ht =>
      simp only []
      split
      · exact hn
      · split
        · exact Or.inl rfl
        · rename_i hlk
          rcases hn with h1 | h2 | h3
          · exact Or.inl h1
          · exfalso; apply hlk; rw [h2.2, hown]
          · exact Or.inr (Or.inr h3)

/-- **no orphaned lock, one step of the specification** -/
theorem specStep_noOrphan (src : Graph) (k : LockSt) (st : St) (op : SOp) (hop : NoLeave op) (hn : NoOrphan k st) :
    NoOrphan (specStep src k st op).2.1 (specStep src k st op).2.2 := by
  cases op with
  | leave => exact absurd hop (by simp [NoLeave])
  | lockW =>
    simp only [specStep]
    cases ha : acquire primLock true true none k st with
    | error e => exact hn
    | ok p =>
      obtain ⟨k1, s1⟩ := p
      exact (acquire_noOrphan true none k st k1 s1 ha hn).1
  | lockTok good =>
    simp only [specStep]
    cases ha : acquire primLock true true (sessTok st good) k st with
    | error e => exact hn
    | ok p =>
      obtain ⟨k1, s1⟩ := p
      exact (acquire_noOrphan true _ k st k1 s1 ha hn).1
  | lockR =>
    simp only [specStep]
    cases ha : acquire primLock true false none k st with
    | error e => exact hn
    | ok p =>
      obtain ⟨k1, s1⟩ := p
      exact (acquire_noOrphan false none k st k1 s1 ha hn).1
  | unlock => exact (release_noOrphan k st hn).1
  | dontLeave =>
    simp only [specStep, setLeave]
    by_cases hm : k.mode = .w
    · simp only [hm, if_true]
      rcases hn with h1 | h2 | h3
      · exact Or.inl h1
      · exact Or.inr (Or.inl h2)
      · exact Or.inr (Or.inr ⟨rfl, rfl, h3.2.2⟩)
    · simp only [hm, if_false]
      exact hn
  | ownerLock => exact ownerStep_noOrphan true k st hn
  | ownerUnlock => exact ownerStep_noOrphan false k st hn
  | tip => exact withLkS_noOrphan _ k st (specBody src .tip) (specBody_frame src .tip) hn
  | setTip n r => exact withLkS_noOrphan _ k st (specBody src (.setTip n r)) (specBody_frame src (.setTip n r)) hn
  | pull ow n r stags => exact withLkS_noOrphan _ k st (specBody src (.pull ow n r stags)) (specBody_frame src (.pull ow n r stags)) hn
  | tagSet name r => exact withLkS_noOrphan _ k st (specBody src (.tagSet name r)) (specBody_frame src (.tagSet name r)) hn
  | tagDict => exact withLkS_noOrphan _ k st (specBody src .tagDict) (specBody_frame src .tagDict) hn

theorem runSpec_noOrphan (src : Graph) :
    ∀ (ops : List SOp) (k : LockSt) (st : St), (∀ op ∈ ops, NoLeave op) → NoOrphan k st →
      NoOrphan (runSpec src k st ops).2.1 (runSpec src k st ops).2.2
  | [], _, _, _, hn => hn
  | op :: ops, k, st, hops, hn => by
    simp only [runSpec]
    exact runSpec_noOrphan src ops _ _ (fun o ho => hops o (List.mem_cons_of_mem _ ho))
      (specStep_noOrphan src k st op (hops op (by simp)) hn)

/-- data of `stale_leave_flag_witness` -/
def leaveScript : List SOp := [.ownerLock, .lockTok true, .unlock, .ownerUnlock, .lockW, .unlock, .ownerLock]

end BreezyVerif.C32
