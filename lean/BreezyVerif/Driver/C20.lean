import BreezyVerif.Common
import BreezyVerif.Model.C20
/-
C20 driver.  A text is the lowercase hex of its UTF-8 encoding, `.` when empty,
`~` for Python `None`.  A conflict is `TYPE/PATH/FILEID/CPATH/ACTION/CFILEID`
with TYPE = index into `CType.all`; lists are `,`-separated, `-` when empty.

* `write CONFLICTS` → hex of the conflicts file | `E:TypeError`
* `read FILE` (FILE = hex | `~` no file) → `ok CONFLICTS` | `E:Format` | `E:ValueError` | `E:KeyError` | `E:TypeError` | `E:Utf8`
* `select RECURSE PATHS TREE CONFLICTS` (TREE = `PATH/ID,…`) → `NOTSELECTED;SELECTED`
* `resolve RECURSE PATHS|~ TREE FILE` → hex of the new conflicts file | error
* `resolveauto RECURSE PATHS|~ TREE FILE UNHANDLED` → same for `action="auto"`; UNHANDLED = the paths for which
  `TextConflict.action_auto` raises NotImplementedError (not a regular file / conflict markers)
* `mmwrite TREE3 HASHES` (TREE3 = `PATH/ID/SHA,…` with SHA = `~` when `get_file_sha1` gives None, HASHES = `PATH/SHA,…`) → hex of the merge-hashes file
* `mmread TREE3 FILE` → `ok PATH/SHA,…` | error
* `inside DIR FNAME` → `T`/`F`
-/
namespace BreezyVerif.C20

def pText (s : String) : Option Str :=
  if s == "." then some []
  else if s.isEmpty then none
  else do
    let b ← fromHexChars s.toList
    let str ← String.fromUTF8? (ByteArray.mk b.toArray)
    pure str.toList

def sText (t : Str) : String :=
  if t.isEmpty then "." else
  String.ofList ((String.ofList t).toUTF8.toList.flatMap fun x => [hexDigit (x.toNat / 16), hexDigit (x.toNat % 16)])

def pOpt (s : String) : Option (Option Str) :=
  if s == "~" then some none else (pText s).map some

def sOpt : Option Str → String
  | none => "~"
  | some t => sText t

def pList {α : Type} (f : String → Option α) (s : String) : Option (List α) :=
  if s == "-" then some [] else (s.splitOn ",").mapM f

def sList (l : List String) : String := if l.isEmpty then "-" else ",".intercalate l

def pConflict (s : String) : Option Conflict :=
  match s.splitOn "/" with
  | [t, p, f, cp, a, cf] => do
    let ti ← t.toNat?
    let ct ← CType.all[ti]?
    let p ← pText p
    let f ← pOpt f
    let cp ← pOpt cp
    let a ← pOpt a
    let cf ← pOpt cf
    pure ⟨ct, p, f, cp, a, cf⟩
  | _ => none

def sConflict (c : Conflict) : String :=
  "/".intercalate [toString (CType.all.idxOf c.ctype), sText c.path, sOpt c.fileId, sOpt c.conflictPath,
    sOpt c.action, sOpt c.conflictFileId]

def sConflicts (cs : List Conflict) : String := sList (cs.map sConflict)

def pPair (s : String) : Option (Str × Str) :=
  match s.splitOn "/" with
  | [a, b] => do
    let a ← pText a
    let b ← pText b
    pure (a, b)
  | _ => none

def pTFile (s : String) : Option TFile :=
  match s.splitOn "/" with
  | [a, b, c] => do
    let a ← pText a
    let b ← pText b
    let c ← pOpt c
    pure ⟨a, b, c⟩
  | _ => none

def sErr : Err → String
  | .format => "E:Format"
  | .value => "E:ValueError"
  | .key => "E:KeyError"
  | .type => "E:TypeError"

/-- a file argument: `~` no file, hex of valid UTF-8, or `bad-utf8` -/
inductive FileArg where
  | bad
  | invalidUtf8 (headerOk : Bool)
  | file (f : Option Str)

def pFile (header : Str) (s : String) : FileArg :=
  if s == "~" then .file none
  else if s == "." then .file (some [])
  else
    match fromHexChars s.toList with
    | none => .bad
    | some b =>
      match String.fromUTF8? (ByteArray.mk b.toArray) with
      | some str => .file (some str.toList)
      | none =>
        let h := (String.ofList header).toUTF8.toList ++ [10]
        .invalidUtf8 (h.isPrefixOf b)

def withFile (header : Str) (s : String) (k : Option Str → String) : String :=
  match pFile header s with
  | .bad => "bad-op"
  | .invalidUtf8 true => "E:Utf8"
  | .invalidUtf8 false => "E:Format"
  | .file f => k f

def handle : List String → String
  | ["write", cs] =>
    match pList pConflict cs with
    | some cs =>
      match setConflicts cs with
      | some t => sText t
      | none => "E:TypeError"
    | none => "bad-op"
  | ["read", f] =>
    withFile conflictHeader f fun f =>
      match getConflicts f with
      | .ok cs => "ok " ++ sConflicts cs
      | .error e => sErr e
  | ["select", rec, paths, tree, cs] =>
    match parseBool rec, pList pText paths, pList pPair tree, pList pConflict cs with
    | some rec, some paths, some tree, some cs =>
      let r := selectConflicts tree paths rec cs
      sConflicts r.1 ++ ";" ++ sConflicts r.2
    | _, _, _, _ => "bad-op"
  | ["resolve", rec, paths, tree, f] =>
    let ps : Option (Option (List Str)) := if paths == "~" then some none else (pList pText paths).map some
    match parseBool rec, ps, pList pPair tree with
    | some rec, some ps, some tree =>
      withFile conflictHeader f fun f =>
        match resolveDone tree ps rec f with
        | .ok (some t) => sText t
        | .ok none => "E:TypeError"
        | .error e => sErr e
    | _, _, _ => "bad-op"
  | ["resolveauto", rec, paths, tree, f, unh] =>
    let ps : Option (Option (List Str)) := if paths == "~" then some none else (pList pText paths).map some
    match parseBool rec, ps, pList pPair tree, pList pText unh with
    | some rec, some ps, some tree, some unh =>
      withFile conflictHeader f fun f =>
        match resolveWith (handlesAuto fun p => !unh.contains p) tree ps rec f with
        | .ok (some t) => sText t
        | .ok none => "E:TypeError"
        | .error e => sErr e
    | _, _, _, _ => "bad-op"
  | ["mmwrite", tree, hashes] =>
    match pList pTFile tree, pList pPair hashes with
    | some tree, some hashes => sText (setMergeModified tree hashes)
    | _, _ => "bad-op"
  | ["mmread", tree, f] =>
    match pList pTFile tree with
    | some tree =>
      withFile mergeHeader f fun f =>
        match getMergeModified tree f with
        | .ok d => "ok " ++ sList (d.map fun p => sText p.1 ++ "/" ++ sText p.2)
        | .error .key => "E:BadStanza"
        | .error e => sErr e
    | none => "bad-op"
  | ["inside", d, f] =>
    match pText d, pText f with
    | some d, some f => showBool (isInside d f)
    | _, _ => "bad-op"
  | _ => "bad-op"

end BreezyVerif.C20

def main : IO Unit := BreezyVerif.runDriver BreezyVerif.C20.handle
