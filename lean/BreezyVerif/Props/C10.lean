import BreezyVerif.Model.C10
import BreezyVerif.Lemmas.C10
import BreezyVerif.Lemmas.C10Loop
/-!
C10 — theorems.  All trees (association lists of any size, no well-formedness
needed unless stated), all filters.
-/
namespace BreezyVerif.C10

/-- **Applying the reported changes to the source yields the target** (every
pair of trees; extensional equality of the id ↦ entry maps).  The records carry
no content: content comes from the target only where `changed_content` is set,
from the source otherwise. -/
theorem apply_changes (src tgt : Tree) :
    ∃ t', applyChanges src tgt (changesOf src tgt) = some t' ∧ ∀ i, get t' i = get tgt i := by
  obtain ⟨t', h1, h2⟩ := applyList_true (src := src) (tgt := tgt) (changesOf src tgt)
    (fun c hc => (changesOf_true hc).1) src
  refine ⟨t', h1, ?_⟩
  intro i
  rw [h2 i]
  by_cases ha : (changesOf src tgt).any (fun c => c.id == i) = true
  · simp [ha]
  · simp only [ha, Bool.false_eq_true, if_false]
    cases hc : change src tgt i with
    | none =>
      obtain ⟨a, b⟩ := change_none_iff.mp hc
      rw [a, b]
    | some c =>
      by_cases hch : c.isChanged = true
      · exfalso
        apply ha
        rw [List.any_eq_true]
        exact ⟨c, mem_changesOf hc hch, by simp [change_id hc]⟩
      · exact unchanged_noop' hc (by simpa using hch)

/-- every record reported only because of `include_unchanged` is a true no-op:
the id has literally the same entry in both trees -/
theorem unchanged_noop (src tgt : Tree) (c : Change) (h : c ∈ allRecords src tgt)
    (hc : c.isChanged = false) : get src c.id = get tgt c.id ∧ c.id ∈ ids tgt := by
  unfold allRecords at h
  rw [List.mem_filterMap] at h
  obtain ⟨i, _, hi⟩ := h
  have hid := change_id hi
  rw [hid]
  have heq := unchanged_noop' hi hc
  refine ⟨heq, ?_⟩
  cases ht : get tgt i with
  | some e => exact mem_ids_of_get ht
  | none =>
    have := removed_isChanged hi ht
    rw [hc] at this; cases this

/-- **`include_unchanged` partitions**: without a filter the result with
`include_unchanged` is the result without it plus no-op records, nothing is
lost or invented, and every id of the target has a record. -/
theorem include_unchanged_partition (src tgt : Tree) (reqv : Bool) :
    iterChanges .generic src tgt none true reqv = .ok (allRecords src tgt) ∧
    iterChanges .generic src tgt none false reqv = .ok ((allRecords src tgt).filter (·.isChanged)) ∧
    ((allRecords src tgt).filter (·.isChanged) ++ (allRecords src tgt).filter (fun c => !c.isChanged)).Perm
      (allRecords src tgt) ∧
    (∀ i ∈ ids tgt, ∃ c ∈ allRecords src tgt, c.id = i) := by
  refine ⟨rfl, rfl, List.filter_append_perm _ _, ?_⟩
  intro i hi
  have hs := get_isSome_of_mem hi
  cases ht : get tgt i with
  | none => rw [ht] at hs; cases hs
  | some e =>
    cases hc : change src tgt i with
    | none => rw [(change_none_iff.mp hc).2] at ht; cases ht
    | some c =>
      refine ⟨c, ?_, change_id hc⟩
      unfold allRecords
      rw [List.mem_filterMap]
      exact ⟨i, mem_allIds.mpr (Or.inl hi), hc⟩

/-! ### filtered results -/

theorem baseTgt_true {src tgt : Tree} {sel : List Id} {c : Change} (h : c ∈ baseTgt src tgt sel false) :
    change src tgt c.id = some c ∧ c.isChanged = true ∧ c.id ∈ sel := by
  unfold baseTgt at h
  rw [List.mem_filterMap] at h
  obtain ⟨i, hi, hc⟩ := h
  rw [List.mem_filter] at hi
  cases hr : change src tgt i with
  | none => simp [hr] at hc
  | some r =>
    simp only [hr, Option.bind_some, Bool.or_false] at hc
    split at hc
    · rename_i hch
      cases hc
      rw [change_id hr]
      exact ⟨hr, hch, by simpa using hi.2⟩
    · cases hc

theorem baseRemoved_true {src tgt : Tree} {sel : List Id} {c : Change} (h : c ∈ baseRemoved src tgt sel) :
    change src tgt c.id = some c ∧ c.isChanged = true ∧ c.tgtParent = none := by
  unfold baseRemoved at h
  rw [List.mem_filterMap] at h
  obtain ⟨i, hi, hc⟩ := h
  rw [List.mem_filter] at hi
  have hnone : get tgt i = none := by
    have := hi.2
    simp only [Bool.and_eq_true, Option.isNone_iff_eq_none] at this
    exact this.2
  rw [change_id hc]
  refine ⟨hc, removed_isChanged hc hnone, ?_⟩
  unfold change at hc
  rw [hnone] at hc
  split at hc <;> simp_all
  all_goals (subst hc; rfl)

/-- the shape of every filtered result (`include_unchanged=False`, both
flavours): selected target entries, selected removed entries, closure -/
theorem filtered_shape (impl : Impl) (src tgt : Tree) (p : Path) (f : List Path) (reqv : Bool)
    (cs : List Change) (h : iterChanges impl src tgt (some (p :: f)) false reqv = .ok cs) :
    ∃ extra,
      preciseLoop src tgt (preciseFuel src tgt)
        { precise := tgtParents (baseTgt src tgt (selectIds src tgt (p :: f)) false),
          changed := (baseTgt src tgt (selectIds src tgt (p :: f)) false
                      ++ baseRemoved src tgt (selectIds src tgt (p :: f))).map (·.id),
          out := [] } = some extra ∧
      cs = baseTgt src tgt (selectIds src tgt (p :: f)) false
            ++ baseRemoved src tgt (selectIds src tgt (p :: f)) ++ extra := by
  unfold iterChanges at h
  simp only at h
  split at h
  · cases h
  · cases impl
    · simp only at h
      split at h
      · rename_i extra he
        refine ⟨extra, he, ?_⟩
        cases h; rfl
      · cases h
    · simp only at h
      split at h
      · rename_i extra he
        refine ⟨extra, he, ?_⟩
        simp at h; rw [← h, List.append_assoc]
      · cases h

theorem mem_tgtParents {cs : List Change} {c : Change} {p : Id} (hc : c ∈ cs) (hp : c.tgtParent = some p) :
    p ∈ tgtParents cs := by
  unfold tgtParents
  rw [mem_unionNew]
  right
  rw [List.mem_filterMap]
  exact ⟨c, hc, hp⟩

theorem filtered_inv (src tgt : Tree) (sel : List Id) :
    Inv src tgt (baseTgt src tgt sel false ++ baseRemoved src tgt sel)
      { precise := tgtParents (baseTgt src tgt sel false),
        changed := (baseTgt src tgt sel false ++ baseRemoved src tgt sel).map (·.id),
        out := [] } := by
  refine ⟨?_, ?_, by simp⟩
  · intro c hc p hp
    simp only [List.append_nil, List.mem_append] at hc
    rcases hc with hc | hc
    · exact Or.inl (mem_tgtParents hc hp)
    · rw [(baseRemoved_true hc).2.2] at hp; cases hp
  · intro i hi
    simp only [List.mem_map] at hi
    obtain ⟨c, hc, hci⟩ := hi
    exact ⟨c, by simpa using hc, hci⟩

/-- **The path-filtered result is a subset of the unfiltered one**: every
record reported with a filter is reported, identically, without it. -/
theorem filter_subset (impl : Impl) (src tgt : Tree) (filt : List Path) (reqv : Bool) (cs : List Change)
    (h : iterChanges impl src tgt (some filt) false reqv = .ok cs) :
    ∀ c ∈ cs, c ∈ changesOf src tgt := by
  cases filt with
  | nil =>
    simp [iterChanges] at h
    subst h; simp
  | cons p f =>
    obtain ⟨extra, he, hcs⟩ := filtered_shape impl src tgt p f reqv cs h
    have hinv := preciseLoop_inv src tgt _ _ _ extra (filtered_inv src tgt (selectIds src tgt (p :: f))) he
    intro c hc
    rw [hcs] at hc
    simp only [List.mem_append] at hc
    rcases hc with (hc | hc) | hc
    · exact mem_changesOf (baseTgt_true hc).1 (baseTgt_true hc).2.1
    · exact mem_changesOf (baseRemoved_true hc).1 (baseRemoved_true hc).2.1
    · exact mem_changesOf (hinv.2 c hc).2 (hinv.2 c hc).1

/-- **… and contains every change of the selected ids** (the ids at the filter
paths in either tree and everything below them in either tree). -/
theorem filter_complete (impl : Impl) (src tgt : Tree) (filt : List Path) (reqv : Bool) (cs : List Change)
    (h : iterChanges impl src tgt (some filt) false reqv = .ok cs) (i : Id) (hi : i ∈ selectIds src tgt filt)
    (c : Change) (hc : change src tgt i = some c) (hch : c.isChanged = true) : c ∈ cs := by
  cases filt with
  | nil =>
    have hnil : ∀ n, iterate (expandChildren src tgt) n [] = [] := by
      intro n
      induction n with
      | zero => rfl
      | succ n ih => simpa [iterate, expandChildren, unionNew] using ih
    simp [selectIds, unionNew, hnil] at hi
  | cons p f =>
    obtain ⟨extra, _, hcs⟩ := filtered_shape impl src tgt p f reqv cs h
    rw [hcs]
    simp only [List.mem_append]
    left
    cases ht : get tgt i with
    | some e =>
      left
      unfold baseTgt
      rw [List.mem_filterMap]
      refine ⟨i, ?_, by simp [hc, hch]⟩
      rw [List.mem_filter]
      exact ⟨mem_ids_of_get ht, by simpa using hi⟩
    | none =>
      right
      unfold baseRemoved
      rw [List.mem_filterMap]
      refine ⟨i, ?_, hc⟩
      rw [List.mem_filter]
      have hs : i ∈ ids src := by
        cases hsrc : get src i with
        | none => rw [change_none_iff.mpr ⟨hsrc, ht⟩] at hc; cases hc
        | some s => exact mem_ids_of_get hsrc
      refine ⟨hs, ?_⟩
      simp only [Bool.and_eq_true, Option.isNone_iff_eq_none]
      exact ⟨by simpa using hi, ht⟩

/-- **Parent closure of `_handle_precise_ids`**: for every reported record that
places its id under a parent `p` in the target, `p` is reported too or `p` is
not a change at all (same entry in source and target), so the applied result
never has a dangling or stale parent. -/
theorem filter_parent_closed (impl : Impl) (src tgt : Tree) (filt : List Path) (reqv : Bool)
    (cs : List Change) (h : iterChanges impl src tgt (some filt) false reqv = .ok cs) :
    ∀ c ∈ cs, ∀ p, c.tgtParent = some p →
      (∃ c' ∈ cs, c'.id = p) ∨ (∀ r, change src tgt p = some r → r.isChanged = false) := by
  cases filt with
  | nil =>
    simp [iterChanges] at h
    subst h; simp
  | cons p f =>
    obtain ⟨extra, he, hcs⟩ := filtered_shape impl src tgt p f reqv cs h
    have hinv := preciseLoop_inv src tgt _ _ _ extra (filtered_inv src tgt (selectIds src tgt (p :: f))) he
    rw [hcs]
    exact hinv.1

/-! ### non-vacuity and witnesses -/

def exSrc : Tree := [("r", ⟨none, "", .dir⟩), ("o", ⟨some "r", "d", .dir⟩), ("p", ⟨some "r", "z", .dir⟩)]
def exTgt : Tree := [("r", ⟨none, "", .dir⟩), ("o", ⟨some "r", "q", .dir⟩), ("p", ⟨some "r", "d", .dir⟩),
  ("f", ⟨some "p", "f", .file "x" false⟩)]

/-- the hypotheses of the filter theorems are satisfiable on a non-trivial pair
(two renames and an addition, well-formed trees), and the closure really adds
records (`p`, the parent of the added file, is outside the filter) -/
example : wf exSrc = true ∧ wf exTgt = true ∧
    (iterChanges .generic exSrc exTgt (some [["d", "f"]]) false false).toOption.map (fun cs => cs.map (·.id))
      = some ["f", "p", "o"] := by decide +kernel

example : "f" ∈ selectIds exSrc exTgt [["d", "f"]] := by decide +kernel

/-- **Witness (defect in `_handle_precise_ids`)**: the displaced source entries
are added to the work set *after* already-emitted ids have been removed from
it, so an id that was already reported (`o`, selected by the filter path `q`)
and that occupies the target path of a needed parent (`p` at `d`) is reported a
second time. -/
theorem precise_duplicate_witness :
    (iterChanges .generic exSrc exTgt (some [["d", "f"], ["q"]]) false false).toOption.map
      (fun cs => cs.map (·.id)) = some ["o", "f", "p", "o"] := by decide +kernel

def dSrc : Tree := [("r", ⟨none, "", .dir⟩), ("D", ⟨some "r", "d", .dir⟩), ("f", ⟨some "r", "x", .file "x" false⟩),
  ("g", ⟨some "D", "f", .file "g" false⟩)]
def dTgt : Tree := [("r", ⟨none, "", .dir⟩), ("D", ⟨some "r", "d", .dir⟩), ("f", ⟨some "D", "f", .file "x" false⟩),
  ("g", ⟨some "D", "g2", .file "g" false⟩)]

/-- **Witness (property violated by the anchored code)**: only the target
paths of *parents* are checked for a displaced source entry, not the target
path of the reported entry itself.  With the filter `x` the file `f` is
reported as moving to `d/f`, the file `g` that occupies `d/f` in the source is
not reported, and applying the result to the source yields two entries named
`d/f`: not a well-formed tree, although both inputs are. -/
theorem displaced_entry_witness :
    wf dSrc = true ∧ wf dTgt = true ∧
    (match iterChanges .generic dSrc dTgt (some [["x"]]) false false with
     | .ok cs => (cs.map (·.id), (applyChanges dSrc dTgt cs).map wf)
     | .error _ => ([], none)) = (["f"], some false) := by decide +kernel

def cSrc : Tree := [("r", ⟨none, "", .dir⟩), ("a", ⟨some "r", "a", .dir⟩), ("b", ⟨some "a", "b", .file "" false⟩)]
def cTgt : Tree := [("r", ⟨none, "", .dir⟩), ("a", ⟨some "r", "d", .dir⟩), ("b", ⟨some "a", "b", .file "" false⟩)]

/-- **Witness (`InterCHKRevisionTree`, `include_unchanged`)**: unchanged entries
are reported with `(relpath, relpath)`; below a renamed directory the source
path is wrong (`d/b` instead of `a/b`), the generic implementation reports the
true pair. -/
theorem chk_unchanged_path_witness :
    ((iterChanges .chk cSrc cTgt none true false).toOption.map
        fun cs => (cs.filter (·.id == "b")).map fun c => (c.srcPath, c.tgtPath))
      = some [(some ["d", "b"], some ["d", "b"])] ∧
    ((iterChanges .generic cSrc cTgt none true false).toOption.map
        fun cs => (cs.filter (·.id == "b")).map fun c => (c.srcPath, c.tgtPath))
      = some [(some ["a", "b"], some ["d", "b"])] := by decide +kernel

/-- **Witness (generic implementation, `include_unchanged` with a filter)**:
unchanged selected entries feed the parent closure, so `include_unchanged`
changes the set of *changes* reported (the renamed parent `a` appears only with
the flag). -/
theorem include_unchanged_widens_witness :
    ((iterChanges .generic cSrc cTgt (some [["d", "b"]]) false false).toOption.map fun cs => cs.map (·.id)) = some [] ∧
    ((iterChanges .generic cSrc cTgt (some [["d", "b"]]) true false).toOption.map
        fun cs => (cs.filter (·.isChanged)).map (·.id)) = some ["a"] := by decide +kernel

end BreezyVerif.C10
