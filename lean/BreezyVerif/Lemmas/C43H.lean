import BreezyVerif.Lemmas.C43G
/-!
C43 — helper lemmas, part 8: the main results about uploads without renames.
-/
namespace BreezyVerif.C43

theorem treeWF_facts {t : Tree} (h : treeWF t = true) :
    (∀ e ∈ t, t.find e.path = some e) ∧
    (∀ e ∈ t, e.path ≠ [] ∧ (e.path.dropLast = [] ∨ kindAt t e.path.dropLast = some .dir)
      ∧ (special e.path = true → e.kind ≠ .dir)) := by
  unfold treeWF at h
  constructor
  · have := wf_find [] t h (by intro e he; cases he)
    simpa using this
  · have := wf_parent [] t h
    simpa using this

/-- **full upload onto an empty remote** -/
theorem uploadFull_empty (c : Cfg) (ign : List String) (t : Tree) (hbad : c.badLinks = []) (hwf : treeWF t = true) :
    ∃ r', uploadFull c ign t (.dir []) = (r', none) ∧ FullInv ign t r' := by
  have hinv : FullInv ign [] ({ root := .dir [] } : State).root := by
    refine ⟨rfl, ?_⟩
    intro q hq
    cases q with
    | nil => exact absurd rfl hq
    | cons y r => simp [look, lookup_dir_cons, kget, Tree.look, Tree.find]
  obtain ⟨r', h1, h2⟩ := run_full c ign t hbad t [] { root := .dir [] } hwf (treeWF_facts hwf).1
    (by intro d hd; cases hd) hinv
  refine ⟨r', ?_, by simpa using h2⟩
  unfold uploadFull
  rw [planFull_eq, h1]

theorem FullInv.matches {ign : List String} {t : Tree} {r : Node} (h : FullInv ign t r) :
    Matches ign t r ∧ Clean ign r ∧ look r [] = some .dir := by
  refine ⟨?_, ?_, h.1⟩
  · intro p hp hig
    rw [h.2 p hp, hig]
    cases hs : special p with
    | false => left; simp
    | true => right; simp
  · intro p hig
    have hp : p ≠ [] := by
      intro h0; subst h0; simp [ignored] at hig
    rw [h.2 p hp, hig]; simp

/-- **incremental upload of a delta without renames**: it succeeds, and the
listing afterwards is given path by path -/
theorem uploadInc_look (c : Cfg) (ign : List String) (old new : Tree) (d : Delta) (remote : Node)
    (hrob : c.robustSymlinks = true) (hbad : c.badLinks = []) (hnew : treeWF new = true)
    (hd : deltaOK ign old new d = true) (hroot : look remote [] = some .dir)
    (hm : Matches ign old remote) (hig : NoIgnoredBelow ign d remote) :
    ∃ r', uploadInc c ign new d remote = (r', none) ∧
      ∀ q, look r' q =
        if q ∈ mdL ign d ∨ q ∈ adL ign d ∨ q ∈ (kcL ign d).map (·.path) then new.look q
        else if q ∈ (rmL ign d).map (·.path) then none else look remote q := by
  have F := deltaFacts hd
  obtain ⟨hnfind, hnwf⟩ := treeWF_facts hnew
  -- membership in the filtered lists means "not ignored"
  have rm_ok : ∀ r ∈ rmL ign d, ignored ign r.path = false := by
    intro r hr; simpa [rmL] using (List.mem_filter.mp hr).2
  have rm_mem : ∀ r ∈ rmL ign d, r ∈ d.removed := fun r hr => (List.mem_filter.mp hr).1
  have kc_ok : ∀ k ∈ kcL ign d, ignored ign k.path = false := by
    intro r hr; simpa [kcL] using (List.mem_filter.mp hr).2
  have kc_mem : ∀ k ∈ kcL ign d, k ∈ d.kindChanged := fun r hr => (List.mem_filter.mp hr).1
  have ad_ok : ∀ p ∈ adL ign d, ignored ign p = false := by
    intro r hr; simpa [adL] using (List.mem_filter.mp hr).2
  have md_ok : ∀ p ∈ mdL ign d, ignored ign p = false := by
    intro r hr; simpa [mdL] using (List.mem_filter.mp hr).2
  -- what the remote shows at a path of the old tree
  have old_look : ∀ p o, p ≠ [] → ignored ign p = false → special p = false → old.find p = some o →
      look remote p = some o.obs := by
    intro p o hp hi hs ho
    rcases hm p hp hi with h | h
    · rw [h, tlook_of_find ho]
    · rw [hs] at h; cases h.1
  -- remote children of a removed / kind-changed directory are all removed
  have kids : ∀ p, p ≠ [] → ignored ign p = false →
      (p ∈ (d.removed.filter fun r => r.kind == .dir).map (·.path) ∨
        p ∈ (d.kindChanged.filter fun k => k.oldKind == .dir).map (·.path)) →
      (∀ e ∈ old, isChildOf e.path p = true → ignored ign e.path = false → e.path ∈ (rmL ign d).map (·.path)) →
      ∀ x, look remote (p ++ [x]) ≠ none → p ++ [x] ∈ (rmL ign d).map (·.path) := by
    intro p hp hi hin hgone x hx
    cases hix : ignored ign (p ++ [x]) with
    | true => exact absurd (hig p hin x hix) hx
    | false =>
      rcases hm (p ++ [x]) (by simp) hix with h | h
      · rw [h] at hx
        unfold Tree.look at hx
        cases hf : Tree.find old (p ++ [x]) with
        | none => simp [hf] at hx
        | some e =>
          have := hgone e (find_mem hf) (by rw [find_path hf]; exact (isChildOf_iff _ _).mpr ⟨x, rfl⟩)
            (by rw [find_path hf]; exact hix)
          rwa [find_path hf] at this
      · rw [special_snoc p x hp] at h; cases h.1
  ------------------------------------------------------------------ removals
  have hR1 : ∀ r ∈ rmL ign d, RmOK remote r := by
    intro r hr
    obtain ⟨a, b, c', _, _⟩ := F.rm r hr
    obtain ⟨o, ho, hk⟩ := kindAt_some c'
    have hl := old_look r.path o a (rm_ok r hr) b ho
    refine ⟨a, ?_, ?_⟩
    · intro hkd; rw [hl, obs_dir (hk.trans hkd)]
    · intro hkd; exact ⟨o.obs, hl, obs_ne_dir (by rw [hk]; exact hkd)⟩
  have hR2 : ((rmL ign d).map (·.path)).Nodup := by
    unfold List.Nodup
    rw [List.pairwise_map]
    exact F.rmOrd.imp fun h => h.1
  have hR3 : (rmL ign d).Pairwise fun a b => ∀ x, a.path ≠ b.path ++ [x] := by
    refine F.rmOrd.imp ?_
    intro a b h x he
    have := (isChildOf_iff a.path b.path).mpr ⟨x, he⟩
    rw [h.2] at this; cases this
  have hR4 : ∀ r ∈ rmL ign d, r.kind = .dir → ∀ x, look remote (r.path ++ [x]) ≠ none →
      r.path ++ [x] ∈ (rmL ign d).map (·.path) := by
    intro r hr hk x hx
    obtain ⟨a, _, _, _, g⟩ := F.rm r hr
    refine kids r.path a (rm_ok r hr) (Or.inl ?_) (g hk) x hx
    exact List.mem_map.mpr ⟨r, List.mem_filter.mpr ⟨rm_mem r hr, by simp [hk]⟩, rfl⟩
  obtain ⟨r1, run1, look1⟩ := run_removal_phase c new (rmL ign d) remote hR1 hR2 hR3 hR4
  ------------------------------------------------------------------ kind changes
  have hK : ∀ k ∈ kcL ign d, KcOK new ({ root := r1 } : State).root k := by
    intro k hk
    obtain ⟨a, b, c', e, f, g, g2, i⟩ := F.kc k hk
    obtain ⟨o, ho, hok⟩ := kindAt_some e
    obtain ⟨n, hn, _⟩ := kindAt_some f
    have hl : look r1 k.path = some o.obs := by
      rw [look1]; simp only [g2, if_false]
      exact old_look k.path o b (kc_ok k hk) c' ho
    refine ⟨a, b, ⟨n, hn⟩, ?_, ?_⟩
    · intro hkd
      refine ⟨by show look r1 _ = _; rw [hl, obs_dir (hok.trans hkd)], ?_⟩
      intro x
      show look r1 _ = _
      rw [look1]
      by_cases hin : k.path ++ [x] ∈ (rmL ign d).map (·.path)
      · simp [hin]
      · simp only [hin, if_false]
        by_cases hx : look remote (k.path ++ [x]) = none
        · exact hx
        · exfalso
          apply hin
          refine kids k.path b (kc_ok k hk) (Or.inr ?_) (i hkd) x hx
          exact List.mem_map.mpr ⟨k, List.mem_filter.mpr ⟨kc_mem k hk, by simp [hkd]⟩, rfl⟩
    · intro hkd
      exact ⟨o.obs, hl, obs_ne_dir (by rw [hok]; exact hkd)⟩
  have hKn : ((kcL ign d).map (·.path)).Nodup := by
    unfold List.Nodup
    rw [List.pairwise_map]
    exact F.kcOrd
  obtain ⟨r2, run2, look2⟩ := run_kinds c new hrob hbad (kcL ign d) { root := r1 } hK hKn
  simp only at look2
  ------------------------------------------------------------------ directories of the new tree are in place
  have ad_not_kc : ∀ p ∈ adL ign d, p ∉ (kcL ign d).map (·.path) := by
    intro p hp hin
    obtain ⟨k, hk, he⟩ := List.mem_map.mp hin
    obtain ⟨_, _, _, e, _, _, g2, _⟩ := F.kc k hk
    obtain ⟨o, ho, _⟩ := kindAt_some e
    rcases (F.ad p hp).2.1 with h | h
    · rw [← he, ho] at h; cases h
    · rw [← he] at h; exact g2 h
  have dirs : ∀ par, par ≠ [] → ignored ign par = false → kindAt new par = some .dir → par ∉ adL ign d →
      look r2 par = some .dir := by
    intro par hp hi hk hnad
    obtain ⟨pe, hpe, hpk⟩ := kindAt_some hk
    have hsp : special par = false := by
      cases hs : special par with
      | false => rfl
      | true =>
        have := (hnwf pe (find_mem hpe)).2.2 (by rw [find_path hpe]; exact hs)
        exact absurd hpk this
    rcases F.newC pe (find_mem hpe) (by rw [find_path hpe]; exact hi) with h | ⟨o, ho, h⟩
    · rw [find_path hpe] at h; exact absurd h hnad
    · rw [find_path hpe] at ho h
      rcases h with ⟨_, hin⟩ | ⟨hkk, _⟩
      · rw [look2]; simp only [hin, if_true]
        rw [tlook_of_find hpe, obs_dir hpk]
      · have hnkc : par ∉ (kcL ign d).map (·.path) := by
          intro hin
          obtain ⟨k, hk', he⟩ := List.mem_map.mp hin
          obtain ⟨_, _, _, e, f, g, _, _⟩ := F.kc k hk'
          rw [he] at e f
          obtain ⟨o', ho', hok'⟩ := kindAt_some e
          obtain ⟨n', hn', hnk'⟩ := kindAt_some f
          rw [ho] at ho'; rw [hpe] at hn'
          cases ho'; cases hn'
          exact g (hok'.symm.trans (hkk.trans hnk'))
        have hnrm : par ∉ (rmL ign d).map (·.path) := by
          intro hin
          obtain ⟨r, hr, he⟩ := List.mem_map.mp hin
          obtain ⟨_, _, _, e, _⟩ := F.rm r hr
          rw [he] at e
          rcases e with e | e
          · rw [hpe] at e; cases e
          · exact hnad e
        rw [look2]; simp only [hnkc, if_false]
        rw [look1]; simp only [hnrm, if_false]
        rw [old_look par o hp hi hsp ho, obs_dir (hkk.trans hpk)]
  have root2 : look r2 [] = some .dir := by
    rw [look2]
    have h1 : ([] : Path) ∉ (kcL ign d).map (·.path) := by
      intro hin
      obtain ⟨k, hk, he⟩ := List.mem_map.mp hin
      exact (F.kc k hk).2.1 he
    have h2 : ([] : Path) ∉ (rmL ign d).map (·.path) := by
      intro hin
      obtain ⟨r, hr, he⟩ := List.mem_map.mp hin
      exact (F.rm r hr).1 he
    simp only [h1, if_false]
    rw [look1]; simp only [h2, if_false]
    exact hroot
  -- the parent of an entry of the new tree
  have parent_new : ∀ p e, new.find p = some e → ignored ign p = false →
      p.dropLast = [] ∨ (ignored ign p.dropLast = false ∧ kindAt new p.dropLast = some .dir) := by
    intro p e he hi
    obtain ⟨a, b, _⟩ := hnwf e (find_mem he)
    rw [find_path he] at a b
    rcases b with b | b
    · exact Or.inl b
    · exact Or.inr ⟨ignored_dropLast ign p a hi, b⟩
  ------------------------------------------------------------------ additions
  have hA : ∀ p ∈ adL ign d, AddOK new ({ root := r2 } : State).root (adL ign d) p := by
    intro p hp
    obtain ⟨a, b, ⟨e, he⟩⟩ := F.ad p hp
    refine ⟨a, ⟨e, he⟩, ?_, ?_⟩
    · show look r2 p = none
      rw [look2]; simp only [ad_not_kc p hp, if_false]
      rw [look1]
      by_cases hin : p ∈ (rmL ign d).map (·.path)
      · simp [hin]
      · simp only [hin, if_false]
        rcases b with b | b
        · rcases hm p a (ad_ok p hp) with h | h
          · rw [h]; simp [Tree.look, b]
          · exact h.2
        · exact absurd b hin
    · show look r2 _ = _ ∨ _
      rcases parent_new p e he (ad_ok p hp) with h | ⟨h1, h2⟩
      · left; rw [h]; exact root2
      · by_cases hin : p.dropLast ∈ adL ign d
        · exact Or.inr ⟨hin, h2⟩
        · left
          have hne : p.dropLast ≠ [] := by
            intro h0
            rw [h0] at h2
            obtain ⟨pe, hpe, _⟩ := kindAt_some h2
            exact (hnwf pe (find_mem hpe)).1 (find_path hpe)
          exact dirs _ hne h1 h2 hin
  have hAo : (adL ign d).Pairwise fun a b => a ≠ b ∧ ∀ x, a ≠ b ++ [x] := by
    refine F.adOrd.imp ?_
    intro a b h
    refine ⟨h.1, ?_⟩
    intro x he
    have := (isChildOf_iff a b).mpr ⟨x, he⟩
    rw [h.2] at this; cases this
  obtain ⟨r3, run3, look3⟩ := run_adds c new hrob hbad (adL ign d) { root := r2 } hA hAo
  simp only at look3
  ------------------------------------------------------------------ modifications
  have hM : ∀ p ∈ mdL ign d, ModOK new ({ root := r3 } : State).root p := by
    intro p hp
    obtain ⟨a, o, e, ho, he, hk, hnd⟩ := F.md p hp
    refine ⟨a, ⟨e, he, hnd⟩, ?_, ?_⟩
    · show look r3 _ = _
      rw [look3]
      rcases parent_new p e he (md_ok p hp) with h | ⟨h1, h2⟩
      · have hnin : p.dropLast ∉ adL ign d := by
          intro hin; exact (F.ad _ hin).1 h
        simp only [hnin, if_false]
        rw [h]; exact root2
      · by_cases hin : p.dropLast ∈ adL ign d
        · simp only [hin, if_true]
          obtain ⟨pe, hpe, hpk⟩ := kindAt_some h2
          rw [tlook_of_find hpe, obs_dir hpk]
        · simp only [hin, if_false]
          have hne : p.dropLast ≠ [] := by
            intro h0
            rw [h0] at h2
            obtain ⟨pe, hpe, _⟩ := kindAt_some h2
            exact (hnwf pe (find_mem hpe)).1 (find_path hpe)
          exact dirs _ hne h1 h2 hin
    · show look r3 p ≠ _
      rw [look3]
      by_cases hin : p ∈ adL ign d
      · simp only [hin, if_true]
        rw [tlook_of_find he]
        simp only [ne_eq, Option.some.injEq]
        exact obs_ne_dir hnd
      · simp only [hin, if_false]
        rw [look2]
        by_cases hin2 : p ∈ (kcL ign d).map (·.path)
        · simp only [hin2, if_true]
          rw [tlook_of_find he]
          simp only [ne_eq, Option.some.injEq]
          exact obs_ne_dir hnd
        · simp only [hin2, if_false]
          rw [look1]
          by_cases hin3 : p ∈ (rmL ign d).map (·.path)
          · simp [hin3]
          · simp only [hin3, if_false]
            rcases hm p a (md_ok p hp) with h | h
            · rw [h, tlook_of_find ho]
              simp only [ne_eq, Option.some.injEq]
              exact obs_ne_dir (by rw [hk]; exact hnd)
            · rw [h.2]; simp
  obtain ⟨r4, run4, look4⟩ := run_mods c new hrob hbad (mdL ign d) { root := r3 } hM
  simp only at look4
  ------------------------------------------------------------------ assembly
  refine ⟨r4, ?_, ?_⟩
  · unfold uploadInc
    rw [planInc_eq]
    have hren : renameSteps ign (renOrder c d) 0 = [] :=
      renameSteps_ignored ign _ 0 fun r hr => F.ren r ((renOrder_mem c d r).mp hr)
    rw [hren, List.append_nil]
    rw [run_append, run_append, run_append, run1]
    simp only
    rw [run2]
    simp only
    rw [run3]
    simp only
    rw [run4]
  · intro q
    rw [look4 q]
    by_cases h4 : q ∈ mdL ign d
    · simp [h4]
    · simp only [h4, if_false, false_or]
      rw [look3 q]
      by_cases h3 : q ∈ adL ign d
      · simp [h3]
      · simp only [h3, if_false, false_or]
        rw [look2 q]
        by_cases h2 : q ∈ (kcL ign d).map (·.path)
        · simp [h2]
        · simp only [h2, if_false]
          exact look1 q

/-- **incremental upload of a delta without renames reaches the tree** -/
theorem uploadInc_rename_free (c : Cfg) (ign : List String) (old new : Tree) (d : Delta) (remote : Node)
    (hrob : c.robustSymlinks = true) (hbad : c.badLinks = []) (hnew : treeWF new = true)
    (hd : deltaOK ign old new d = true) (hroot : look remote [] = some .dir)
    (hm : Matches ign old remote) (hig : NoIgnoredBelow ign d remote) :
    ∃ r', uploadInc c ign new d remote = (r', none) ∧ Matches ign new r' ∧
      (∀ q, ignored ign q = true → look r' q = look remote q) ∧ look r' [] = some .dir := by
  obtain ⟨r', hrun, hlook⟩ := uploadInc_look c ign old new d remote hrob hbad hnew hd hroot hm hig
  have F := deltaFacts hd
  have rm_ok : ∀ r ∈ rmL ign d, ignored ign r.path = false := by
    intro r hr; simpa [rmL] using (List.mem_filter.mp hr).2
  have kc_ok : ∀ k ∈ kcL ign d, ignored ign k.path = false := by
    intro r hr; simpa [kcL] using (List.mem_filter.mp hr).2
  have ad_ok : ∀ p ∈ adL ign d, ignored ign p = false := by
    intro r hr; simpa [adL] using (List.mem_filter.mp hr).2
  have md_ok : ∀ p ∈ mdL ign d, ignored ign p = false := by
    intro r hr; simpa [mdL] using (List.mem_filter.mp hr).2
  -- a path that no list names
  have untouched : ∀ q, (∀ p ∈ mdL ign d, p ≠ q) → (∀ p ∈ adL ign d, p ≠ q) → (∀ k ∈ kcL ign d, k.path ≠ q) →
      (∀ r ∈ rmL ign d, r.path ≠ q) → look r' q = look remote q := by
    intro q h1 h2 h3 h4
    rw [hlook q]
    have a1 : q ∉ mdL ign d := fun h => h1 q h rfl
    have a2 : q ∉ adL ign d := fun h => h2 q h rfl
    have a3 : q ∉ (kcL ign d).map (·.path) := by
      intro h; obtain ⟨k, hk, he⟩ := List.mem_map.mp h; exact h3 k hk he
    have a4 : q ∉ (rmL ign d).map (·.path) := by
      intro h; obtain ⟨k, hk, he⟩ := List.mem_map.mp h; exact h4 k hk he
    simp [a1, a2, a3, a4]
  refine ⟨r', hrun, ?_, ?_, ?_⟩
  · intro q hq hi
    rw [hlook q]
    by_cases h1 : q ∈ mdL ign d ∨ q ∈ adL ign d ∨ q ∈ (kcL ign d).map (·.path)
    · left; rw [if_pos h1]
    · simp only [h1, if_false]
      have hnad : q ∉ adL ign d := fun h => h1 (Or.inr (Or.inl h))
      have hnmd : q ∉ mdL ign d := fun h => h1 (Or.inl h)
      have hnkc : q ∉ (kcL ign d).map (·.path) := fun h => h1 (Or.inr (Or.inr h))
      by_cases h2 : q ∈ (rmL ign d).map (·.path)
      · left
        simp only [h2, if_true]
        obtain ⟨r, hr, he⟩ := List.mem_map.mp h2
        rcases (F.rm r hr).2.2.2.1 with h | h
        · rw [he] at h; simp [Tree.look, h]
        · rw [he] at h; exact absurd h hnad
      · simp only [h2, if_false]
        cases hn : Tree.find new q with
        | some e =>
          rcases F.newC e (find_mem hn) (by rw [find_path hn]; exact hi) with h | ⟨o, ho, h⟩
          · rw [find_path hn] at h; exact absurd h hnad
          · rw [find_path hn] at ho h
            rcases h with ⟨_, h⟩ | ⟨_, h | h⟩
            · exact absurd h hnkc
            · rcases hm q hq hi with g | g
              · left; rw [g, tlook_of_find ho, tlook_of_find hn, h]
              · exact Or.inr g
            · exact absurd h hnmd
        | none =>
          cases ho : Tree.find old q with
          | some o =>
            rcases F.oldC o (find_mem ho) (by rw [find_path ho]; exact hi) with ⟨e, h⟩ | h
            · rw [find_path ho, hn] at h; cases h
            · rw [find_path ho] at h; exact absurd h h2
          | none =>
            left
            rcases hm q hq hi with g | g
            · rw [g]; simp [Tree.look, ho, hn]
            · rw [g.2]; simp [Tree.look, hn]
  · intro q hi
    apply untouched
    · intro p hp he; exact absurd (he ▸ md_ok p hp) (by simp [hi])
    · intro p hp he; exact absurd (he ▸ ad_ok p hp) (by simp [hi])
    · intro k hk he; exact absurd (he ▸ kc_ok k hk) (by simp [hi])
    · intro r hr he; exact absurd (he ▸ rm_ok r hr) (by simp [hi])
  · rw [untouched]
    · exact hroot
    · intro p hp he; exact (F.md p hp).1 he
    · intro p hp he; exact (F.ad p hp).1 he
    · intro k hk he; exact (F.kc k hk).2.1 he
    · intro r hr he; exact (F.rm r hr).1 he

/-! ### sequences of uploads -/

/-- upload the trees one after the other, each with its delta from the one before -/
def uploadSeq (c : Cfg) (ign : List String) : Node → List (Tree × Delta) → Node × Option Err
  | root, [] => (root, none)
  | root, (t, d) :: rest =>
    match uploadInc c ign t d root with
    | (r, none) => uploadSeq c ign r rest
    | (r, some e) => (r, some e)

/-- every tree is well formed and every delta is a correct delta without renames from the tree before -/
def seqOK (ign : List String) : Tree → List (Tree × Delta) → Bool
  | _, [] => true
  | prev, (t, d) :: rest => treeWF t && deltaOK ign prev t d && seqOK ign t rest

def lastTree : Tree → List (Tree × Delta) → Tree
  | t, [] => t
  | _, (t, _) :: rest => lastTree t rest

theorem uploadSeq_spec (c : Cfg) (ign : List String) (hrob : c.robustSymlinks = true) (hbad : c.badLinks = [])
    (steps : List (Tree × Delta)) (prev : Tree) (root : Node) (hok : seqOK ign prev steps = true)
    (hm : Matches ign prev root) (hc : Clean ign root) (hroot : look root [] = some .dir) :
    ∃ r, uploadSeq c ign root steps = (r, none) ∧ Matches ign (lastTree prev steps) r ∧ Clean ign r := by
  induction steps generalizing prev root with
  | nil => exact ⟨root, rfl, hm, hc⟩
  | cons st rest ih =>
    obtain ⟨t, d⟩ := st
    simp only [seqOK, Bool.and_eq_true] at hok
    obtain ⟨⟨h1, h2⟩, h3⟩ := hok
    obtain ⟨r1, e1, e2, e3, e4⟩ := uploadInc_rename_free c ign prev t d root hrob hbad h1 h2 hroot hm (hc.noIgnoredBelow d)
    have hc1 : Clean ign r1 := fun q hq => by rw [e3 q hq]; exact hc q hq
    obtain ⟨r, f1, f2, f3⟩ := ih t r1 h3 e2 hc1 e4
    exact ⟨r, by simp [uploadSeq, e1, f1], f2, f3⟩

end BreezyVerif.C43
