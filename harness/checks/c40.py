"""C40 — bundles and merge directives reproduce what they carry.  (work in progress)
"""
import hashlib
import os
import random
import shutil

from vlib import env

NULL = b"null:"
ROOT_ID = b"TREE_ROOT"

# ------------------------------------------------------------------ contents
LINES = [b"alpha\n", b"beta\n", b"gamma delta\n", b"the quick brown fox\n", b"\n", b"trailing space \n",
         b"crlf line\r\n", b"tab\there\n", b"=== modified file 'x'\n", b"# Begin bundle\n", b"--- a\n", b"+++ b\n",
         b"@@ -1 +1 @@\n", b"\\ No newline at end of file\n", b"... dots\n", b"# comment: x\n", b"\xc3\xa9t\xc3\xa9\n"]
TAILS = [b"", b"", b"", b"no newline at end", b"\r", b" "]
BINARY = [b"\x00", b"\x00\x01\x02bin\x00\n", b"\xff\xfe\x00\x00", b"PNG\r\n\x1a\n\x00\x00", b"\x00" * 5 + b"\n", b"a\x00b\n"]


_uniq = [0]


def _binary(rng, nul):
    """a binary chunk.  nul = 'raw': as is; 'guarded': a never-repeated token in front, so that no
    group-compress copy instruction can end directly before a NUL (the external bzrformats defect
    gc-rabin-delta-nul-after-source-end: NULs that follow a block copied from the end of the delta
    source are stored as other bytes)."""
    b = rng.choice(BINARY)
    if nul == "guarded":
        _uniq[0] += 1
        return b"<%05d>" % _uniq[0] + b
    return b


def gen_content(rng, nul="guarded"):
    r = rng.random()
    if r < 0.07:
        return b""
    n = rng.randint(1, 6)
    parts = [rng.choice(LINES) for _ in range(n)]
    if r < 0.3 and nul:
        parts.insert(rng.randint(0, n), _binary(rng, nul))
    return b"".join(parts) + rng.choice(TAILS)


def mutate_content(rng, c, nul="guarded"):
    """a related content: keep most lines (so that deltas / diffs have context)"""
    lines = c.splitlines(True)
    if not lines or rng.random() < 0.2:
        return gen_content(rng, nul)
    for _ in range(rng.randint(1, 2)):
        i = rng.randrange(len(lines) + 1)
        r = rng.random()
        if r < 0.4 or not lines:
            new = rng.choice(LINES) if (not nul or rng.random() < 0.85) else _binary(rng, nul)
            if i < len(lines) or lines[-1].endswith(b"\n"):
                lines.insert(i, new)
            else:
                lines.insert(i - 1, new)
        elif r < 0.7 and lines:
            del lines[min(i, len(lines) - 1)]
        else:
            j = min(i, len(lines) - 1)
            lines[j] = rng.choice(LINES) if j < len(lines) - 1 else rng.choice(LINES) + rng.choice(TAILS)
    out = b"".join(lines)
    return out if out != c else c + b"more\n"


NAMES = ["a", "b", "c", "dir", "sub", "file.txt", "with space", "été", "x-y", "Makefile", "z"]
MESSAGES = ["msg", "two\nlines", "unicode é€", "", "trailing space ", " leading", "colon: here", "a\n\nb",
            "# hash", "ends with newline\n", "=== x", "tab\tmsg"]
COMMITTERS = ["Joe <joe@example.com>", "Jürgen M <j@example.com>", "noemail", "A: B <c@d>"]


# ------------------------------------------------------------------ abstract history
# tree: fid -> (parent_fid, name, kind, data, exec); data = bytes (file) | str (symlink target) | None

def tree_paths(tree):
    """fid -> path"""
    out = {}

    def path(fid):
        if fid in out:
            return out[fid]
        p, name = tree[fid][0], tree[fid][1]
        out[fid] = name if p is None else (path(p) + "/" + name if path(p) else name)
        return out[fid]
    for fid in tree:
        path(fid)
    return out


def _children(tree, fid):
    return [f for f, e in tree.items() if e[0] == fid]


def _descendants(tree, fid):
    out, todo = set(), [fid]
    while todo:
        x = todo.pop()
        for c in _children(tree, x):
            out.add(c)
            todo.append(c)
    return out


def _free_name(rng, tree, parent, i):
    used = {e[1] for e in tree.values() if e[0] == parent}
    cands = [n for n in NAMES if n not in used]
    if cands and rng.random() < 0.85:
        return rng.choice(cands)
    k = i
    while "n%d" % k in used:
        k += 1
    return "n%d" % k


def gen_history(rng, nrevs, opts=None):
    """format-independent history: list of dict(rid, parents, tree, msg, ts, tz, committer, props, tags)"""
    opts = opts or {}
    allow_nul = opts.get("nul", "guarded")
    revs, by_id = [], {}
    fidc = [0]

    def new_fid(kind):
        fidc[0] += 1
        return ("%s-%d" % (kind[0], fidc[0])).encode()

    tips = []
    for i in range(nrevs):
        rid = ("r%02d" % (i + 1)).encode()
        ops = []
        if i == 0:
            parents = []
            tree = {ROOT_ID: (None, "", "directory", None, False)}
            for k in range(rng.randint(2, 5)):
                kind = rng.choice(["file", "file", "file", "directory", "symlink"])
                _add(rng, tree, new_fid(kind), kind, i * 10 + k, allow_nul)
            ops.append("init")
        else:
            left = tips[-1] if rng.random() < 0.7 else rng.choice(revs)["rid"]
            parents = [left]
            tree = dict(by_id[left]["tree"])
            if rng.random() < opts.get("merge", 0.35) and len(revs) >= 2:
                cands = [r["rid"] for r in revs if r["rid"] != left and r["rid"] not in _anc(by_id, left)]
                if cands:
                    other = rng.choice(cands)
                    parents.append(other)
                    _take_other(rng, tree, by_id[other]["tree"], ops)
                    if rng.random() < 0.15:
                        third = [c for c in cands if c != other]
                        if third:
                            parents.append(rng.choice(third))
            if opts.get("ghost", 0.0) and rng.random() < opts["ghost"]:
                parents.append(b"ghost-%d" % i)
            for _ in range(rng.choice([0, 1, 1, 2, 3])):
                _mutate_tree(rng, tree, new_fid, i, ops, allow_nul)
        rv = dict(rid=rid, parents=parents, tree=tree, ops=ops,
                  msg=rng.choice(MESSAGES) + (" %d" % i if rng.random() < 0.5 else ""),
                  ts=float(1500000000 + i * 1000 + rng.choice([0, 0, 0.25, 0.123])),
                  tz=rng.choice([0, 3600, -18000, 19800, -12600]),
                  committer=rng.choice(COMMITTERS),
                  props=rng.choice([{}, {}, {"branch-nick": "nick %d" % i}, {"empty": ""},
                                    {"author": "Someone <s@x>", "x-prop": "v:1"}]))
        revs.append(rv)
        by_id[rid] = rv
        tips.append(rid)
    return revs


def _anc(by_id, rid):
    out, todo = set(), [rid]
    while todo:
        x = todo.pop()
        if x in out or x not in by_id:
            continue
        out.add(x)
        todo.extend(by_id[x]["parents"])
    return out


def _add(rng, tree, fid, kind, i, allow_nul="guarded", parent=None):
    dirs = [f for f, e in tree.items() if e[2] == "directory"]
    parent = parent or rng.choice(dirs)
    name = _free_name(rng, tree, parent, i)
    if kind == "file":
        tree[fid] = (parent, name, "file", gen_content(rng, allow_nul), rng.random() < 0.2)
    elif kind == "directory":
        tree[fid] = (parent, name, "directory", None, False)
    else:
        tree[fid] = (parent, name, "symlink", rng.choice(["target", "a/b", "é", "../up", "with space"]), False)


def _mutate_tree(rng, tree, new_fid, i, ops, allow_nul):
    files = sorted(f for f, e in tree.items() if e[2] == "file")
    links = sorted(f for f, e in tree.items() if e[2] == "symlink")
    dirs = sorted(f for f, e in tree.items() if e[2] == "directory")
    nonroot = sorted(f for f in tree if f != ROOT_ID)
    op = rng.choice(["modify", "modify", "add", "add", "rename", "move", "delete", "exec", "target", "swap", "kind",
                     "rename+modify", "adddir"])
    if op == "modify" and files:
        f = rng.choice(files)
        e = tree[f]
        tree[f] = (e[0], e[1], "file", mutate_content(rng, e[3], allow_nul), e[4])
    elif op in ("add", "adddir"):
        kind = "directory" if op == "adddir" else rng.choice(["file", "file", "symlink"])
        _add(rng, tree, new_fid(kind), kind, i, allow_nul)
    elif op in ("rename", "rename+modify") and nonroot:
        f = rng.choice(nonroot)
        e = tree[f]
        data = e[3]
        if op == "rename+modify" and e[2] == "file":
            data = mutate_content(rng, data, allow_nul)
        tree[f] = (e[0], _free_name(rng, tree, e[0], i), e[2], data, e[4])
    elif op == "move" and nonroot:
        f = rng.choice(nonroot)
        bad = _descendants(tree, f) | {f}
        targets = [d for d in dirs if d not in bad and d != tree[f][0]]
        if targets:
            d = rng.choice(targets)
            e = tree[f]
            name = e[1] if e[1] not in {x[1] for x in tree.values() if x[0] == d} else _free_name(rng, tree, d, i)
            tree[f] = (d, name, e[2], e[3], e[4])
    elif op == "delete" and len(nonroot) > 2:
        f = rng.choice(nonroot)
        for x in _descendants(tree, f) | {f}:
            del tree[x]
    elif op == "exec" and files:
        f = rng.choice(files)
        e = tree[f]
        tree[f] = (e[0], e[1], e[2], e[3], not e[4])
    elif op == "target" and links:
        f = rng.choice(links)
        e = tree[f]
        tree[f] = (e[0], e[1], e[2], e[3] + "2", e[4])
    elif op == "swap":
        sibs = {}
        for f in nonroot:
            sibs.setdefault(tree[f][0], []).append(f)
        pairs = [v for v in sibs.values() if len(v) >= 2]
        if pairs:
            a, b = rng.sample(rng.choice(pairs), 2)
            ea, eb = tree[a], tree[b]
            tree[a] = (ea[0], eb[1], ea[2], ea[3], ea[4])
            tree[b] = (eb[0], ea[1], eb[2], eb[3], eb[4])
    elif op == "kind" and (files or links):
        f = rng.choice(files + links)
        e = tree[f]
        if e[2] == "file":
            tree[f] = (e[0], e[1], "symlink", "was-file", False)
        else:
            tree[f] = (e[0], e[1], "file", gen_content(rng, allow_nul), False)
    ops.append(op)


def _take_other(rng, tree, other, ops):
    """merge: bring in files only the other side has, take the other side's version of some common files"""
    for f, e in sorted(other.items()):
        if f not in tree:
            if e[0] in tree and tree[e[0]][2] == "directory" and rng.random() < 0.7 \
                    and e[1] not in {x[1] for x in tree.values() if x[0] == e[0]}:
                tree[f] = e
                ops.append("merge-add")
        elif tree[f] != e and f != ROOT_ID and rng.random() < 0.5:
            mine = tree[f]
            if rng.random() < 0.6 and mine[2] == e[2]:
                tree[f] = (mine[0], mine[1], e[2], e[3], e[4])       # other's content, my name
                ops.append("merge-content")
            elif e[0] in tree and tree[e[0]][2] == "directory" and f not in _descendants(tree, f) \
                    and e[0] not in (_descendants(tree, f) | {f}) \
                    and e[1] not in {x[1] for k, x in tree.items() if x[0] == e[0] and k != f}:
                tree[f] = e                                           # other's everything
                ops.append("merge-all")


# ------------------------------------------------------------------ realisation
def make_tree(path, fmt):
    from breezy.controldir import ControlDir, format_registry
    os.makedirs(path, exist_ok=True)
    return ControlDir.create_standalone_workingtree(path, format=format_registry.make_controldir(fmt))


def _apply_state(wt, old, new):
    """transform the working tree from abstract state `old` to `new` (file ids kept)"""
    from breezy.transform import ROOT_PARENT
    tt = wt.transform()
    try:
        tid = {}
        for fid in old:
            tid[fid] = tt.trans_id_file_id(fid)
        npaths = tree_paths(new)
        for fid in sorted((f for f in new if f not in old), key=lambda f: npaths[f].count("/") if npaths[f] else -1):
            p, name, kind, data, ex = new[fid]
            ptid = ROOT_PARENT if p is None else tid[p]
            if p is None:
                tid[fid] = tt.root
                tt.version_file(tt.root, file_id=fid)
            elif kind == "directory":
                tid[fid] = tt.new_directory(name, ptid, fid)
            elif kind == "file":
                tid[fid] = tt.new_file(name, ptid, [data], fid, executable=ex)
            else:
                tid[fid] = tt.new_symlink(name, ptid, data, fid)
        for fid in old:
            if fid not in new:
                tt.unversion_file(tid[fid])
                tt.delete_contents(tid[fid])
                continue
            o, n = old[fid], new[fid]
            if (o[0], o[1]) != (n[0], n[1]):
                tt.adjust_path(n[1], tid[n[0]], tid[fid])
            if (o[2], o[3]) != (n[2], n[3]):
                tt.delete_contents(tid[fid])
                if n[2] == "file":
                    tt.create_file([n[3]], tid[fid])
                elif n[2] == "symlink":
                    tt.create_symlink(n[3], tid[fid])
                else:
                    tt.create_directory(tid[fid])
            if n[2] == "file" and (o[4] != n[4] or o[2] != "file"):
                tt.set_executability(n[4], tid[fid])
        tt.apply(no_conflicts=True)
    finally:
        tt.finalize()


class Builder:
    """realises an abstract history in one standalone working tree: the tree's content is moved from
    state to state with a TreeTransform, the parents are set explicitly, then the tree is committed"""

    def __init__(self, path, fmt="2a"):
        self.wt = make_tree(path, fmt)
        self.cur = None          # abstract state of the working tree; None = freshly initialised
        self.by_id = {}

    def commit(self, rv):
        wt = self.wt
        parents = rv["parents"]
        with wt.lock_write():
            if self.cur is None:
                root_id = wt.path2id("")
                self.cur = {root_id: (None, "", "directory", None, False)}
                if root_id != ROOT_ID:
                    wt.set_root_id(ROOT_ID)
                    self.cur = {ROOT_ID: (None, "", "directory", None, False)}
            if parents:
                wt.branch.generate_revision_history(parents[0])
            else:
                wt.branch.set_last_revision_info(0, NULL)
            wt.set_parent_ids(list(parents), allow_leftmost_as_ghost=False)
            rv["parents"] = list(wt.get_parent_ids())       # parents that are ancestors of others are dropped
            # through the root-only state: no renames inside one transform (the commit still sees them by file id)
            rootonly = {ROOT_ID: (None, "", "directory", None, False)}
            if self.cur != rootonly:
                _apply_state(wt, self.cur, rootonly)
            _apply_state(wt, rootonly, rv["tree"])
            self.cur = dict(rv["tree"])
            wt.commit(rv["msg"], rev_id=rv["rid"], timestamp=rv["ts"], timezone=rv["tz"],
                      committer=rv["committer"], revprops=dict(rv["props"]), allow_pointless=True)
        self.by_id[rv["rid"]] = rv
        return rv["rid"]


def build_history(path, revs, fmt="2a"):
    b = Builder(path, fmt)
    for rv in revs:
        b.commit(rv)
    return b.wt.branch


def real_tree_state(tree):
    """fid -> (path, kind, data, exec) of a real revision tree (root included)"""
    out = {}
    with tree.lock_read():
        for p, ie in tree.iter_entries_by_dir():
            if ie.kind == "file":
                out[ie.file_id] = (p, "file", tree.get_file_text(p), bool(ie.executable))
            elif ie.kind == "symlink":
                out[ie.file_id] = (p, "symlink", ie.symlink_target, False)
            else:
                out[ie.file_id] = (p, ie.kind, None, False)
    return out


def abstract_tree_state(tree):
    paths = tree_paths(tree)
    return {f: (paths[f], e[2], e[3], bool(e[4]) if e[2] == "file" else False) for f, e in tree.items()}
