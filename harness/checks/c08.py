"""C08 — stacked branches stay readable from their own repository plus fallbacks.

Mechanism: VersionedFileCommitBuilder._ensure_fallback_inventories (commit to a
stacked branch), VersionedFileRepository.get_missing_parent_inventories +
StreamSink / RepoFetcher (fetch and push into a stacked repository, locally and
through the smart server), GCRepositoryPackCollection._check_new_inventories
(refusal at commit_write_group).

Model: lean/BreezyVerif/Model/C08.lean on top of the repository model of C03
(a stacked repository = local store + fallback; invariant `stackable`).

T2: a generated history (merges, ghosts, renames, deletions) is built in a full
2a repository D.  For split points k (every revision in the thorough tier) a
fallback branch is sprouted at k and a branch stacked on it is sprouted from
that; then a random sequence of operations runs on the stacked branch: fetch of
a revision from D, push from a branch of D (local or with the stacked target
opened through bzr://), commits on the stacked branch (plain, merge of a
revision only the fallback has, merge of a ghost), and *sabotaged* insertions
(the stream of a fetch with one text or one inventory record removed, inserted
through the real StreamSink).  After every operation the locally stored key
sets (revisions, inventories, texts; fallbacks not consulted) are compared
with the model's prediction, as is accept / refuse of the sabotaged write
group (`checkNew`) and the value of the invariant.

Oracle (independent of the model): the stacking invariant is evaluated
directly on the locally stored keys; the branch is opened WITH its fallback and
for every locally stored revision the revision tree is read file by file and
compared with the generator's contents, the delta to every present parent is
computed, and check() is run; the tip of a pushed branch must be readable.

Pack / autopack: explicit Repository.pack() (once, twice, after a fetch), and bursts of 12 commits straight into
the stacked branch so that autopack combines packs, are part of the operation alphabet; the model's `pack` keeps
every key (theorem pack_preserves_stackable); the oracle also requires that the tip can be fetched from the stacked
repository opened WITHOUT its fallback into a mirror of the fallback.

Any history (theorems run_preserves_good / reachable_readable / push_tip_readable): `good` = stackable + topo +
invsAgree + invsHaveRevs is proved invariant under every sequence of fetch / push / commit / pack whose steps satisfy
the decidable preconditions `fetchOk` / `commitOk` in the state they are applied to.  For EVERY real fetch and commit
the driver evaluates every hypothesis (`hfetch` / `hcommit`: closed, agreeSrcSt, agreeFbSrc, srcSuppliesM,
exclusionLocal, topoSrc, noOrphanSrc, fetchOk, good, stackableW, completeFb, noOrphanFb / fresh, parentsSmaller,
commitCovers, commitOk); they are counted in the evidence (`hyp:*`) and what the theorems then promise is checked
against the model's own result.  `stackableW` (the invariant the code keeps by design: inventory local, every entry
in a local inventory of a present parent or its text local) is preserved WITHOUT srcSuppliesM
(fetch_into_stacked_preservesW) and suffices for reading (stackableW_readable).

Operation alphabet also has: find_ghosts=True fetches, the source D opened through bzr:// (mode remote-src), commits
through a bzr:// stacked branch (RemoteRepository commit builder), one forced fetch of not-yet-stored revisions and one
forced sabotaged insertion per scenario (kind rotating: inventories / texts / nothing), the pushed / fetched revision
must be present and readable afterwards, and the fixed scenario `ghostsrc`: a fetch from a source in which the
fallback's tip is a ghost.  serve_alone (tip streamed from the stacked repository opened without its fallback) runs
after operations that stored revisions through a stream, after packs and non-plain commits, and at the end of every
scenario.  Timeouts / full disks raise InfraError (exit 2), never a VIOLATION.

Finding kept as a family: `parent-inventory-not-local-when-source-lacks-it` — a fetch from a source that holds
neither the revision nor the inventory of a parent living in the fallback is accepted (no text is missing) and
leaves that parent inventory not stored locally: `stackable` as the property words it is false, `stackableW` and
readability hold (theorem srcSupplies_needed_witness is the model-level counterpart).

Landing: the operation `land` makes the FALLBACK acquire what the stacked branch holds (Branch.push of the stacked
branch onto the fallback branch, or a repository fetch of its tip into the fallback repository) — in the random
sequences and in the fixed scenarios `landpack` (commit, merge commit, land, pack, commit) and `landburst`
(3 commits, land, 8 commits so that autopack combines packs whose texts the fallback now also holds).  The stacked
repository must not change, and the invariant / read / serve-alone oracles run afterwards; a later pack / autopack
must keep every key (model: `pack` = one record per key whatever the fallback holds, theorems
pack_independent_of_fallback, stackable_fallback_change; pack_minus_fallback_witness = the fallback-subtracting
repack breaks the invariant after a landing).

Mutants this was built against:
"""
import hashlib
import os
import random
import shutil

from vlib import env
from checks import c03

THEOREMS = [
    "stackable_readable", "commit_to_stacked_preserves", "commit_refused_iff", "fetch_into_stacked_preserves",
    "check_accepts_stackable", "refusal_iff_stackable", "refusal_alone_witness",
    "pack_preserves_lookups", "pack_preserves_stackable",
    "srcSupplies_imp", "step_preserves_good", "run_preserves_good", "empty_good", "reachable_readable",
    "push_tip_readable", "stackable_weaken", "stackableW_readable", "fetch_into_stacked_preservesW",
    "srcSupplies_needed_witness", "refusal_multi_witness",
    "pack_independent_of_fallback", "stackable_fallback_change", "pack_minus_fallback_witness",
]
RULE = ("scenario = (seed, history, split point k, transport mode local / target over bzr:// / source over bzr://); case "
        "= one operation (fetch with or without find_ghosts / push / commit locally or over bzr:// / pack / sabotaged "
        "insert) on the stacked branch in its current state; non-trivial = the operation stores at least "
        "one revision locally whose parent lives only in the fallback or is a ghost, or is refused; distinct by "
        "(abstract local store, abstract fallback, operation)")
ASSUMPTIONS = [
    "2a stacked on 2a; one fallback level; sources are complete repositories (not themselves stacked)",
    "every hypothesis of the sequence theorems (fetchOk / commitOk / good) is evaluated by the model on every real "
    "fetch and commit and counted (evidence hyp:*); cases where one is false (merge of a revision only D has: the "
    "stack then has a ghost the source holds) are covered by tie and oracle only",
    "what the CHK filter drops for a revision is shared with one of that revision's own parents (entries a commit "
    "introduces carry the committing revision's id) — evaluated on every case by the model (`exclusionLocal`)",
]
TRUSTED = [
    "CHK page sharing is abstracted to 'inventory entries that differ from every parent inventory'; group "
    "compression and pack files are exercised, not modelled",
]

NULL = b"null:"


# ------------------------------------------------------------------ history
def gen_shape(rng, n):
    r = lambda i: b"r%02d" % i  # noqa: E731
    shape = [("A", [], [])]
    g = 0
    for i in range(2, n + 1):
        left = r(i - 1) if rng.random() < 0.75 else r(rng.randint(1, i - 1))
        parents, ghosts = [left], []
        if i > 2 and rng.random() < 0.3:
            o = r(rng.randint(1, i - 1))
            if o != left:
                parents.append(o)
        if rng.random() < 0.12:
            g += 1
            parents.append(b"ghost%d" % g)
            ghosts.append(b"ghost%d" % g)
        shape.append(("A", parents, ghosts))
    return shape


class World:
    pass


def local_state(path):
    """keys stored in the repository at `path` itself (opened without its fallback)"""
    return c03.read_state(path)


def stackable_direct(st, fb):
    """the stacking invariant evaluated on concrete states; returns a list of problems"""
    bad = []
    for r, (ps, _m) in st["revs"].items():
        if r not in st["invs"]:
            bad.append("inventory of %r is not stored locally" % (r,))
            continue
        pents = set()
        for p in ps:
            if p in st["revs"] or p in fb["revs"]:
                if p not in st["invs"]:
                    bad.append("inventory of parent %r of %r is not stored locally" % (p, r))
                else:
                    pents.update((fid,) + e for fid, e in st["invs"][p].items())
        for fid, e in st["invs"][r].items():
            if (fid,) + e not in pents and (fid, e[4]) not in st["texts"]:
                bad.append("text %r introduced by %r is not stored locally" % ((fid, e[4]), r))
    return bad


def read_with_fallback(W, expect):
    """open the stacked branch with its fallback; read every locally stored revision's tree, the delta to
    each present parent, run check().  Returns a list of problems."""
    from breezy.branch import Branch
    bad = []
    b = Branch.open(W.st_path)
    repo = b.repository
    st = local_state(W.st_path)
    with repo.lock_read():
        for r in sorted(st["revs"]):
            try:
                tree = repo.revision_tree(r)
                want = expect.get(r)
                for path, ie in tree.iter_entries_by_dir():
                    if ie.kind == "file":
                        got = tree.get_file_text(path)
                        if hashlib.sha1(got).hexdigest().encode() != ie.text_sha1:
                            bad.append("text of %s in %r does not match its recorded sha1" % (path, r))
                        if want is not None and path in want and want[path][2] != got:
                            bad.append("text of %s in %r differs from what was committed" % (path, r))
                if want is not None:
                    have = {p for p, ie in tree.iter_entries_by_dir() if p}
                    if have != {p for p in want if p}:
                        bad.append("paths of %r differ from what was committed: %r" % (r, sorted(have ^ {p for p in want if p})[:3]))
                for p in st["revs"][r][0]:
                    if repo.has_revision(p):
                        ptree = repo.revision_tree(p)
                        delta = tree.changes_from(ptree)
                        for ch in delta.modified + delta.added:
                            if ch.kind[1] == "file":
                                tree.get_file_text(ch.path[1])
            except Exception as e:
                bad.append("revision %r cannot be read through the stacked repository and its fallback: %s: %s"
                           % (r, type(e).__name__, str(e)[:120]))
        tip = b.last_revision()
        if tip != NULL:
            try:
                t = repo.revision_tree(tip)
                for path, ie in t.iter_entries_by_dir():
                    if ie.kind == "file":
                        t.get_file_text(path)
            except Exception as e:
                bad.append("the branch tip %r cannot be reconstructed: %s: %s" % (tip, type(e).__name__, str(e)[:120]))
        try:
            if st["revs"]:
                repo.check(sorted(st["revs"]))
        except Exception as e:
            bad.append("check() fails: %s: %s" % (type(e).__name__, str(e)[:160]))
    return bad


def enc3(st, nb, roots):
    return " ".join(c03.enc_state(st, nb, roots))


def after3(st, nb, roots):
    return " ".join(c03.canon_after(st, nb, roots))


def keep_root(states):
    """C08 keeps the root entry out of the abstract inventories like C03 does, but root *texts* are kept:
    none is filtered (empty root id set would keep them; entries never name the root)"""
    return set()


def enc_world(W, extra_states=(), extra_revs=()):
    st, fb, d = local_state(W.st_path), local_state(W.fb_path), local_state(W.d_path)
    nb = c03.numbering([st, fb, d] + list(extra_states), extra_revs=extra_revs)
    roots = {v[0] for s in (st, fb, d) + tuple(extra_states) for v in s["roots"].values()}
    return st, fb, d, nb, roots


# ------------------------------------------------------------------ operations
def _reg(W, branch):
    """remember every remote object of `branch` so that the server can be stopped without waiting for idle
    connections (the stacked branch opens its fallback through the server as well)"""
    repo = branch.repository
    W.server.opened.append(repo)
    for fbr in getattr(repo, "_fallback_repositories", []):
        if hasattr(fbr, "controldir"):
            W.server.opened.append(fbr)


def _infra(e, where):
    """timeouts / full disks are the machine, not the code: exit 2"""
    c03._reraise_infra(e, where)


FETCH_HYPS = ("closed", "agreeSrcSt", "agreeFbSrc", "srcSuppliesM", "exclusionLocal", "topoSrc", "noOrphanSrc",
              "fetchOk", "good", "stackableW", "completeFb", "noOrphanFb")
COMMIT_HYPS = ("fresh", "parentsSmaller", "commitCovers", "commitOk", "good", "stackableW", "completeFb", "noOrphanFb")


def count_hyps(ctx, kind, names, reply, case, real_ok):
    """the model evaluated every hypothesis of the theorems for this real case: count them, and check what the
    theorems then promise about the model's own result"""
    parts = reply.split(" | ")
    flags = parts[0].split() + parts[1].split()
    if len(flags) != len(names) or any(f not in ("T", "F") for f in flags):
        ctx.mismatch(case, "hypothesis flags", reply)
        return
    h = dict(zip(names, flags))
    for n, f in h.items():
        ctx.count("hyp:%s:%s=%s" % (kind, n, f))
    allok = h.get("fetchOk", h.get("commitOk")) == "T" and h["good"] == "T" and h["completeFb"] == "T" and h["noOrphanFb"] == "T"
    ctx.count("hyp:%s:all-hypotheses-hold=%s" % (kind, "T" if allok else "F"))
    if kind == "fetch" and len(parts) > 2 and parts[2] != "-":
        post = parts[2].split()
        if allok and post[:2] != ["T", "T"]:
            ctx.mismatch(case, "theorem fetch_into_stacked_preserves", "model: hypotheses hold but stackable after = %s" % post)
        if allok and real_ok and post[2:] != ["T", "T"]:
            ctx.mismatch(case, "theorem push_tip_readable", "model: hypotheses hold but tip present/readable = %s" % post[2:])
        if h["closed"] == "T" and h["agreeSrcSt"] == "T" and h["exclusionLocal"] == "T" and h["stackableW"] == "T" \
                and post[1] != "T":
            ctx.mismatch(case, "theorem fetch_into_stacked_preservesW", "model: stackableW after = %s" % post[1])


def op_fetch(ctx, W, case, rev, via, push, batch, expect, fg=False, srcvia="local", src_name="d"):
    """fetch `rev` from D into the stacked repository (repository fetch or Branch.push); `via` = how the
    stacked target is opened, `srcvia` = how the source D is opened (local / bzr://), fg = find_ghosts"""
    from breezy.branch import Branch
    from breezy import errors
    src_path = os.path.join(W.root, src_name)
    if src_name == "d":
        st0, fb, d, nb, roots = enc_world(W, extra_revs=[rev])
    else:                       # another source: the model's `src` is that repository
        st0, fb, d0, _nb, _roots = enc_world(W, extra_revs=[rev])
        d = local_state(src_path)
        nb = c03.numbering([st0, fb, d0, d], extra_revs=[rev])
        roots = {v[0] for s_ in (st0, fb, d0, d) for v in s_["roots"].values()}
    outcome = "ok"
    try:
        if via == "remote":
            tb = Branch.open(W.server.url("st"))
            _reg(W, tb)
        else:
            tb = Branch.open(W.st_path)
        if push:
            sb = Branch.open(W.server.url(src_name)) if srcvia == "remote" else Branch.open(src_path)
            if srcvia == "remote":
                _reg(W, sb)
            sb.push(tb, stop_revision=rev, overwrite=True)
        else:
            srepo = W.server.open_repo(src_name) if srcvia == "remote" else c03.open_repo(src_path)
            tb.repository.fetch(srepo, revision_id=rev, find_ghosts=fg)
    except errors.NoSuchRevision:
        outcome = "E:NoSuchRevision"
    except Exception as e:
        _infra(e, "C08 fetch")
        outcome = "E:%s:%s" % (type(e).__name__, str(e)[:200])
    st1 = local_state(W.st_path)
    new = set(st1["revs"]) - set(st0["revs"])
    ctx.count("op:%s:%s%s%s%s" % ("push" if push else "fetch", via, ":src-bzr" if srcvia == "remote" else "",
                                  ":find_ghosts" if fg else "", "" if src_name == "d" else ":from-" + src_name))
    ctx.count("stored-revisions:%d" % min(len(new), 8))
    boundary = any((p not in st1["revs"]) for r in new for p in st1["revs"][r][0])
    ctx.case(dict(case, n_local=len(st0["revs"]), n_fb=len(fb["revs"]), stored=len(new)), nontrivial=boundary)
    if outcome != "ok" and rev in d["revs"]:
        ctx.violation(case, "%s into the stacked branch failed: %s" % ("push" if push else "fetch", outcome))
    if outcome == "ok" and rev in d["revs"]:
        # push never leaves the tip unreconstructable: the requested revision is there and readable
        for bad in tip_readable(W, rev):
            ctx.violation(case, bad)
    oracle(ctx, W, case, st1, fb, expect, alone=bool(new), src=d)
    x = c03.probe_exclusion()
    args = "%s %s %d %s %s %s" % (x, "T" if fg else "F", nb.r(rev), enc3(d, nb, roots), enc3(st0, nb, roots),
                                  enc3(fb, nb, roots))
    line = "sfetch " + args
    if outcome == "ok":
        # the invariant before / after is evaluated on the REAL states (the third flag is the model-side
        # assumption `exclusionLocal`, which must hold for every generated history)
        impl = "ok %s %s %s %s T" % (",".join(str(v) for v in sorted(nb.r(r) for r in new)) or "-",
                                    after3(st1, nb, roots), "F" if stackable_direct(st0, fb) else "T",
                                    "F" if stackable_direct(st1, fb) else "T")
    else:
        impl = ":".join(outcome.split(":")[:2])
    batch.append((case, line, impl))
    W.hyps.append(("fetch", FETCH_HYPS, "hfetch " + args, case, outcome == "ok"))


def tip_readable(W, rev):
    from breezy.branch import Branch
    repo = Branch.open(W.st_path).repository
    try:
        with repo.lock_read():
            if not repo.has_revision(rev):
                return ["after a successful fetch/push of %r the stacked repository (with its fallback) does not have it" % (rev,)]
            t = repo.revision_tree(rev)
            for path, ie in t.iter_entries_by_dir():
                if ie.kind == "file":
                    t.get_file_text(path)
    except Exception as e:
        _infra(e, "C08 tip read")
        return ["the fetched/pushed revision %r cannot be reconstructed: %s: %s" % (rev, type(e).__name__, str(e)[:120])]
    return []


def op_commit(ctx, W, case, rng, kind, batch, expect, hist, via="local"):
    """commit on the stacked branch: plain / merge of a fallback-only revision / merge of a ghost;
    via="remote": the stacked branch is opened through bzr:// (RemoteRepository commit builder)"""
    from breezy.branch import Branch
    from breezy.branchbuilder import BranchBuilder
    st0, fb, d, nb0, roots0 = enc_world(W)
    if via == "remote":
        b = Branch.open(W.server.url("st"))
        _reg(W, b)
    else:
        b = Branch.open(W.st_path)
    tip = b.last_revision()
    W.ncommit += 1
    rid = b"s%02d" % W.ncommit
    parents = [tip]
    if kind == "merge-fallback":
        cands = sorted(r for r in fb["revs"] if r != tip and r not in st0["revs"])
        if cands:
            parents.append(rng.choice(cands))
    elif kind == "merge-d":
        cands = sorted(r for r in d["revs"] if r != tip and r not in st0["revs"] and r not in fb["revs"])
        if cands:
            parents.append(rng.choice(cands))          # a ghost for the stacked branch (only D has it)
    elif kind == "merge-ghost":
        parents.append(b"nowhere%d" % W.ncommit)
    base = dict(expect.get(tip) or {})
    files = sorted(p for p, v in base.items() if v[1] == "file")
    actions = []
    tree = dict(base)
    for p in rng.sample(files, min(len(files), rng.randint(1, 3))):
        c = c03.gen_content(rng) + b"%d" % W.ncommit
        actions.append(("modify", (p, c)))
        tree[p] = (tree[p][0], "file", c)
    if rng.random() < 0.4:
        p = "s%d" % W.ncommit
        c = c03.gen_content(rng)
        actions.append(("add", (p, b"sf%d" % W.ncommit, "file", c)))
        tree[p] = (b"sf%d" % W.ncommit, "file", c)
    outcome = "ok"
    try:
        bb = BranchBuilder(branch=b)
        bb.build_snapshot(parents, actions, revision_id=rid, message="stacked commit %d" % W.ncommit,
                          timestamp=1700000000 + W.ncommit, timezone=0, committer="S <s@example.com>")
    except Exception as e:
        _infra(e, "C08 commit")
        outcome = "E:%s:%s" % (type(e).__name__, str(e)[:160])
    st1 = local_state(W.st_path)
    ctx.count("op:commit:" + kind + (":bzr" if via == "remote" else ""))
    ctx.count("commit-outcome:" + ":".join(outcome.split(":")[:2]))
    ctx.case(dict(case, kind=kind, parents=[p.decode() for p in parents], outcome=outcome.split(":")[:2]),
             nontrivial=True)
    if outcome == "ok":
        expect[rid] = tree
        oracle(ctx, W, case, st1, fb, expect, alone=(kind != "plain"))
    else:
        if all(p in st0["revs"] or p in fb["revs"] for p in parents):
            ctx.violation(case, "a commit on the stacked branch whose parents are all available failed: %s" % outcome)
        # a refused commit leaves the repository as it was
        if st1["revs"] != st0["revs"] or st1["invs"] != st0["invs"] or st1["texts"] != st0["texts"]:
            ctx.violation(case, "a refused commit changed the stacked repository")
    # model line: the new revision's record, inventory and texts are read back from the result
    if outcome == "ok" and rid in st1["revs"]:
        nb = c03.numbering([st0, st1, fb, d])
        roots = {v[0] for s in (st0, st1, fb, d) for v in s["roots"].values()}
        ps, m = st1["revs"][rid]
        rec = "%d:%s" % (c03._tok(repr(m).encode()), ".".join(str(nb.r(p)) for p in ps if p != NULL) or "-")
        ents = st1["invs"].get(rid, {})
        inv = ",".join("%d.%d.%d.%d" % (nb.f(fid), c03._tok(repr(e[:4]).encode()), nb.r(e[4]), c03._tok(e[5] or b""))
                       for fid, e in sorted(ents.items())) or "-"
        newt = ";".join("%d.%d.%d" % (nb.f(fid), nb.r(rv), c03._tok(hashlib.sha1(t).hexdigest().encode()))
                        for (fid, rv), t in sorted(st1["texts"].items())
                        if (fid, rv) not in st0["texts"] and fid not in roots) or "-"
        args = "%d %s %s %s %s %s" % (nb.r(rid), rec, inv, newt, enc3(st0, nb, roots), enc3(fb, nb, roots))
        line = "scommit " + args
        impl = "ok %s T" % after3(st1, nb, roots)
        batch.append((case, line, impl))
        W.hyps.append(("commit", COMMIT_HYPS, "hcommit " + args, case, True))
    elif outcome != "ok":
        # which refusal? the model is asked with the parents the commit named and an empty inventory
        nb = c03.numbering([st0, fb, d], extra_revs=[rid] + parents)
        roots = {v[0] for s in (st0, fb, d) for v in s["roots"].values()}
        rec = "0:%s" % (".".join(str(nb.r(p)) for p in parents if p != NULL) or "-")
        line = "scommit %d %s - - %s %s" % (nb.r(rid), rec, enc3(st0, nb, roots), enc3(fb, nb, roots))
        impl = "E:CannotFillParentInventories" if "Unable to fill in parent inventories" in outcome else ":".join(outcome.split(":")[:2])
        batch.append((case, line, impl))


def op_sabotage(ctx, W, case, rng, rev, batch, expect, what=None):
    """insert the stream of a fetch of `rev` with one record removed, through the real sink"""
    from breezy.branch import Branch
    from breezy.repository import InterRepository
    st0, fb, d, nb, roots = enc_world(W, extra_revs=[rev])
    tb = Branch.open(W.st_path)
    trepo = tb.repository
    srepo = c03.open_repo(W.d_path)
    dropped = [None]
    what = what or rng.choice(["texts", "texts", "inventories", "nothing"])
    outcome = "ok"
    try:
        with srepo.lock_read(), trepo.lock_write():
            search = InterRepository.get(srepo, trepo).search_missing_revision_ids(revision_ids=[rev], find_ghosts=False)
            if search.is_empty():
                ctx.count("sabotage:nothing-to-send")
                return
            source = srepo._get_source(trepo._format)
            source._stream_self_contained_texts = True
            # choose the victim among what the stream will carry
            mat = []
            for name, sub in source.get_stream(search):      # substreams must be consumed in order
                mat.append((name, list(sub)))
            cands = [(n, r.key) for n, recs in mat if n == what for r in recs
                     if not (n == "texts" and r.key[0] in roots)]
            if cands:
                dropped[0] = rng.choice(sorted(cands))
            stream = [(n, [r for r in recs if (n, r.key) != dropped[0]]) for n, recs in mat]
            sink = trepo._get_sink()
            tokens, missing = sink.insert_stream(iter((n, iter(recs)) for n, recs in stream), srepo._format, [])
            if missing:
                stream2 = source.get_stream_for_missing_keys(missing)
                tokens, missing = sink.insert_stream(stream2, srepo._format, tokens)
            if tokens or missing:
                outcome = "E:Incomplete"
                trepo.abort_write_group() if trepo.is_in_write_group() else None
    except Exception as e:
        _infra(e, "C08 sabotage")
        outcome = "E:%s:%s" % (type(e).__name__, str(e)[:200])
    st1 = local_state(W.st_path)
    new = set(st1["revs"]) - set(st0["revs"])
    ctx.count("op:sabotage:%s" % (dropped[0][0] if dropped[0] else "nothing"))
    ctx.count("sabotage-outcome:" + ":".join(outcome.split(":")[:2]))
    ctx.case(dict(case, dropped=repr(dropped[0]), outcome=outcome.split(":")[:2]), nontrivial=dropped[0] is not None)
    refused = outcome != "ok"
    if refused and (st1["revs"] != st0["revs"]):
        ctx.violation(case, "a refused write group left revisions behind")
    # oracle: whatever was accepted must satisfy the invariant and be readable
    oracle(ctx, W, case, st1, fb, expect, alone=bool(new))
    # model: the store the write group would have produced = real fetch prediction minus the dropped record
    x = c03.probe_exclusion()
    line0 = "sfetch %s F %d %s %s %s" % (x, nb.r(rev), enc3(d, nb, roots), enc3(st0, nb, roots), enc3(fb, nb, roots))
    rep = ctx.model([line0])[0].split(" ")
    if rep[0] != "ok":
        return
    mrevs, minvs, mtexts = rep[2], rep[3], rep[4]
    if dropped[0] is not None:
        n, key = dropped[0]
        if n == "inventories":
            minvs = ",".join(i for i in minvs.split(",") if i != str(nb.r(key[0]))) or "-"
        else:
            pre = "%d.%d." % (nb.f(key[0]), nb.r(key[1]))
            mtexts = ",".join(t for t in mtexts.split(",") if not t.startswith(pre)) or "-"
    # rebuild a repository line for the model: revisions of st0 + sent, inventories / texts by id lookup in D
    sent = [r for r in rep[1].split(",") if r != "-"]
    inv_ids = set(minvs.split(",")) - {"-"}
    text_ids = set(mtexts.split(",")) - {"-"}
    dr, di, dt = c03.enc_state(d, nb, roots)
    lr, li, lt = c03.enc_state(st0, nb, roots)
    revs = [x_ for x_ in lr.split(";") if x_ != "-"] + [x_ for x_ in dr.split(";") if x_.split(":")[0] in sent]
    allinv = {x_.split(":")[0]: x_ for x_ in (di.split(";") + li.split(";")) if x_ != "-"}
    alltxt = {x_: x_ for x_ in (dt.split(";") + lt.split(";")) if x_ != "-"}
    invs = [allinv[i] for i in sorted(inv_ids, key=int) if i in allinv]
    txts = [t.replace(",", ";") for t in sorted(text_ids) if t in alltxt]
    line = "scheck %s %s %s %s %s" % (",".join(sent) or "-", ";".join(revs) or "-", ";".join(invs) or "-",
                                      ";".join(txts) or "-", enc3(fb, nb, roots))
    impl_accept = "F" if refused else "T"
    m = ctx.model([line])[0].split(" ")
    ctx.traces += 1
    if m[0] != impl_accept:
        ctx.mismatch(dict(case, dropped=repr(dropped[0])), "accepted=" + impl_accept, "checkNew=" + " ".join(m), line=line)
    if not refused and dropped[0] is not None and dropped[0][0] == "texts":
        ctx.violation(case, "a write group without the text %r was accepted by commit_write_group" % (dropped[0][1],))


def serve_alone(W):
    """the stacked repository opened WITHOUT its fallback must be able to stream its branch tip to a
    repository that holds the fallback's revisions (what a smart server serving it alone does)"""
    from breezy.branch import Branch
    from breezy.controldir import ControlDir
    tip = Branch.open(W.st_path).last_revision()
    st = local_state(W.st_path)
    if tip == NULL or tip not in st["revs"]:
        return []
    W.nmirror = getattr(W, "nmirror", 0) + 1
    mpath = os.path.join(W.root, "mirror%d" % W.nmirror)
    try:
        ControlDir.open(W.fb_path).sprout(mpath)
        mirror = c03.open_repo(mpath)
        bare = c03.open_repo(W.st_path)             # no fallback configured on a bare Repository.open
        mirror.fetch(bare, revision_id=tip)
        m = c03.open_repo(mpath)
        with m.lock_read():
            t = m.revision_tree(tip)
            for path, ie in t.iter_entries_by_dir():
                if ie.kind == "file":
                    t.get_file_text(path)
    except Exception as e:
        _infra(e, "C08 serve alone")
        return ["the tip %r cannot be fetched from the stacked repository opened without its fallback into a "
                "mirror of the fallback: %s: %s" % (tip, type(e).__name__, str(e)[:160])]
    finally:
        shutil.rmtree(mpath, ignore_errors=True)
    return []


FAMILY_UNSUPPLIED = "parent-inventory-not-local-when-source-lacks-it"


def classify_invariant_problem(msg, st, fb, src):
    """family slug for ONE broken-invariant message, or None.  `parent-inventory-not-local-when-source-lacks-it`:
    the inventory of a parent that lives in the fallback is not stored locally AND the repository the revision
    was fetched from holds neither that parent's revision nor its inventory (it could not supply it; the sink
    accepts the write group because no text is missing)."""
    if src is None or not msg.startswith("inventory of parent "):
        return None
    for r, (ps, _m) in st["revs"].items():
        for p_ in ps:
            if msg == "inventory of parent %r of %r is not stored locally" % (p_, r):
                if p_ in fb["revs"] and p_ not in src["revs"] and p_ not in src["invs"] and r in src["revs"]:
                    return FAMILY_UNSUPPLIED
    return None


def oracle(ctx, W, case, st, fb, expect, alone=True, src=None):
    """`alone`: also stream the tip from the stacked repository opened without its fallback (a sprout of the
    fallback per call: done when the operation stored revisions, after packs, and at the end of a scenario)"""
    for b in stackable_direct(st, fb)[:3]:
        ctx.violation(case, "stacking invariant broken: " + b, family=classify_invariant_problem(b, st, fb, src))
    for b in read_with_fallback(W, expect)[:3]:
        ctx.violation(case, b)
    W.alone_pending = not alone
    if alone:
        ctx.count("oracle:serve-alone")
        for b in serve_alone(W):
            ctx.violation(case, b)


def op_land(ctx, W, case, batch, expect, how="push"):
    """the FALLBACK acquires what the stacked branch holds: the feature branch is landed on the trunk it is
    stacked on (Branch.push of the stacked branch onto the fallback branch, or a repository fetch of its tip).
    The stacked repository itself must not change; the invariant and all oracles are evaluated afterwards."""
    from breezy.branch import Branch
    st0, fb0, d, nb0, roots0 = enc_world(W)
    outcome = "ok"
    try:
        sb = Branch.open(W.st_path)                      # with its fallback attached
        tip = sb.last_revision()
        if how == "push":
            sb.push(Branch.open(W.fb_path), overwrite=True)
        else:
            c03.open_repo(W.fb_path).fetch(sb.repository, revision_id=tip)
    except Exception as e:
        _infra(e, "C08 land")
        outcome = "E:%s:%s" % (type(e).__name__, str(e)[:160])
    st1 = local_state(W.st_path)
    fb1 = local_state(W.fb_path)
    shared = set(st1["texts"]) & set(fb1["texts"])
    landed = set(fb1["revs"]) - set(fb0["revs"])
    ctx.count("op:land:%s" % how)
    ctx.count("landed-revisions:%d" % min(len(landed), 8))
    ctx.case(dict(case, n_local=len(st0["revs"]), landed=len(landed), shared_texts=len(shared)), nontrivial=bool(landed))
    if outcome != "ok":
        ctx.violation(case, "landing the stacked branch on its fallback failed: %s" % outcome)
    for kind in ("revs", "invs", "texts"):
        if set(st0[kind]) != set(st1[kind]):
            ctx.violation(case, "landing the stacked branch on its fallback changed the %s stored in the stacked "
                          "repository: %r" % (kind, sorted(set(st0[kind]) ^ set(st1[kind]))[:4]))
    oracle(ctx, W, case, st1, fb1, expect, alone=bool(landed))
    nb = c03.numbering([st1, fb1, d])
    roots = {v[0] for s_ in (st1, fb1, d) for v in s_["roots"].values()}
    batch.append((case, "sinv %s %s" % (enc3(st1, nb, roots), enc3(fb1, nb, roots)),
                  "F" if stackable_direct(st1, fb1) else "T"))


def op_pack(ctx, W, case, batch, expect, times=1):
    """Repository.pack() on the stacked repository (once or twice): no key may disappear"""
    from breezy.branch import Branch
    st0, fb, d, nb, roots = enc_world(W)
    outcome = "ok"
    try:
        for _ in range(times):
            repo = Branch.open(W.st_path).repository
            repo.pack()
    except Exception as e:
        _infra(e, "C08 pack")
        outcome = "E:%s:%s" % (type(e).__name__, str(e)[:160])
    st1 = local_state(W.st_path)
    ctx.count("op:pack x%d" % times)
    ctx.count("packs-before:%d" % min(len(st0["packs"] or []), 12))
    ctx.case(dict(case, n_local=len(st0["revs"]), n_invs=len(st0["invs"]), packs=len(st0["packs"] or [])),
             nontrivial=len(st0["invs"]) > len(st0["revs"]))
    if outcome != "ok":
        ctx.violation(case, "pack of the stacked repository failed: %s" % outcome)
    for kind in ("revs", "invs", "texts"):
        gone = sorted(set(st0[kind]) - set(st1[kind]))
        if gone:
            ctx.violation(case, "pack dropped %s %r from the stacked repository" % (kind, gone[:4]))
    oracle(ctx, W, case, st1, fb, expect)
    line = "spack %s %s" % (enc3(st0, nb, roots), enc3(fb, nb, roots))
    impl = "ok %s T" % after3(st1, nb, roots) if outcome == "ok" else ":".join(outcome.split(":")[:2])
    batch.append((case, line, impl))


def op_burst(ctx, W, case_of, rng, n, batch, expect, hist):
    """n plain commits in a row straight into the stacked branch (autopack fires at the 10th pack)"""
    for _ in range(n):
        op_commit(ctx, W, case_of("commit", kind="plain", burst=True), rng, "plain", batch, expect, hist)
        if len(ctx.violations) > W_viol0(W, ctx):
            return


# ------------------------------------------------------------------ scenarios
def run_scenario(ctx, key, stop_at=None):
    """key = (seed, idx, split, mode[, kind]); kind: random | packseq (commit, commit, pack, pack) |
    burst (12 commits so that autopack combines packs) | fetchpack (fetch, pack, commit, pack) |
    ghostsrc (fetch from a source in which the fallback's tip is a ghost, then a commit) |
    landpack (commit, merge commit, LAND the stacked branch on its fallback, pack, commit) |
    landburst (3 commits, land, 8 commits: autopack combines packs whose texts the fallback now holds too)"""
    seed, idx, split, mode = key[:4]
    kind = key[4] if len(key) > 4 else "random"
    rng = random.Random(repr(("C08", seed, idx)))
    c03.NUL_FAMILY[0] = False
    W = World()
    W.root = env.fresh_dir("c08")
    W.server = None
    W.ncommit = 0
    W.hyps = []
    batch = []
    try:
        from breezy.branchbuilder import BranchBuilder
        from breezy.controldir import format_registry
        from breezy import transport as _mod_transport
        n = rng.randint(5, 8)
        shape = gen_shape(rng, n)
        revs = c03.gen_history(rng, n, rng.randint(4, 7), shape=shape)
        fmt = format_registry.make_controldir("2a")
        W.d_path, W.fb_path, W.st_path = (os.path.join(W.root, x) for x in ("d", "fb", "st"))
        os.mkdir(W.d_path)
        bb = BranchBuilder(_mod_transport.get_transport(W.d_path), format=fmt)
        expect = {}
        for rv in revs:
            bb.build_snapshot(rv.parents, rv.actions, message=rv.msg, timestamp=rv.ts, timezone=rv.tz,
                              committer=rv.committer, revision_id=rv.rid)
            expect[rv.rid] = rv.tree
        dbranch = bb.get_branch()
        if kind == "random":
            split = split % (len(revs) - 1)        # at least one revision is left to fetch
        k = revs[split % len(revs)].rid
        ctx.count("split-at:%d/%d" % (split % len(revs) + 1, len(revs)))
        dbranch.controldir.sprout(W.fb_path, revision_id=k)
        from breezy.controldir import ControlDir
        ControlDir.open(W.fb_path).sprout(W.st_path, revision_id=k, stacked=True)
        if mode in ("remote", "remote-src"):
            W.server = c03.Server(W.root)
        step = [0]

        def case_of(op, **kw):
            step[0] += 1
            return dict(key=list(key), step=step[0], op=op, **kw)

        later = [rv.rid for rv in revs[split % len(revs) + 1:]] or [k]
        if kind != "random":
            if kind == "packseq":
                op_commit(ctx, W, case_of("commit", kind="plain"), rng, "plain", batch, expect, revs)
                op_commit(ctx, W, case_of("commit", kind="merge-fallback"), rng, "merge-fallback", batch, expect, revs)
                op_pack(ctx, W, case_of("pack", times=1), batch, expect, 1)
                op_pack(ctx, W, case_of("pack", times=1), batch, expect, 1)
            elif kind == "burst":
                op_burst(ctx, W, case_of, rng, 12, batch, expect, revs)
            elif kind == "landpack":
                # commit on the stacked branch, land it on the trunk, repack the stacked repository
                op_commit(ctx, W, case_of("commit", kind="plain"), rng, "plain", batch, expect, revs)
                op_commit(ctx, W, case_of("commit", kind="merge-fallback"), rng, "merge-fallback", batch, expect, revs)
                how = "push" if idx % 2 == 0 else "fetch"
                op_land(ctx, W, case_of("land", how=how), batch, expect, how)
                op_pack(ctx, W, case_of("pack", times=1), batch, expect, 1)
                op_commit(ctx, W, case_of("commit", kind="plain"), rng, "plain", batch, expect, revs)
            elif kind == "landburst":
                # three commits, landed on the trunk, then commits until autopack combines the packs
                for _ in range(3):
                    op_commit(ctx, W, case_of("commit", kind="plain", burst=True), rng, "plain", batch, expect, revs)
                op_land(ctx, W, case_of("land", how="push"), batch, expect, "push")
                op_burst(ctx, W, case_of, rng, 8, batch, expect, revs)
            elif kind == "ghostsrc":
                # a source in which the fallback's tip k is a GHOST: it holds one revision whose leftmost parent is k
                # and nothing of k; it cannot supply k's inventory
                gpath = os.path.join(W.root, "g")
                os.mkdir(gpath)
                gb = BranchBuilder(_mod_transport.get_transport(gpath), format=fmt)
                gtree = {"": (b"g-root", "directory", None)}
                gacts = [("add", ("", b"g-root", "directory", None))]
                for i_ in range(rng.randint(1, 3)):
                    c_ = c03.gen_content(rng)
                    gacts.append(("add", ("gf%d" % i_, b"gf%d" % i_, "file", c_)))
                    gtree["gf%d" % i_] = (b"gf%d" % i_, "file", c_)
                gb.build_snapshot([k], gacts, revision_id=b"t01", message="child of a ghost", timestamp=1700001000,
                                  timezone=0, committer="G <g@example.com>", allow_leftmost_as_ghost=True)
                expect[b"t01"] = gtree
                via_ = "local"
                op_fetch(ctx, W, case_of("fetch", rev="t01", via=via_, src="g"), b"t01", via_, False, batch, expect,
                         src_name="g")
                op_commit(ctx, W, case_of("commit", kind="plain"), rng, "plain", batch, expect, revs)
            elif kind == "fetchpack":
                rev = rng.choice(later)
                op_fetch(ctx, W, case_of("fetch", rev=rev.decode(), via="local"), rev, "local", False, batch, expect)
                op_pack(ctx, W, case_of("pack", times=1), batch, expect, 1)
                op_commit(ctx, W, case_of("commit", kind="plain"), rng, "plain", batch, expect, revs)
                op_pack(ctx, W, case_of("pack", times=2), batch, expect, 2)
            return batch
        nops = rng.randint(4, 7)
        # every scenario has at least one fetch that stores revisions and one sabotaged insertion whose kind
        # rotates with the scenario (texts / inventories / nothing dropped)
        forced_sab, forced_fetch = sorted(rng.sample(range(1, nops), 2))   # sabotage while there is something to send
        sab_kind = ["inventories", "texts", "nothing"][(2 * idx + ((key[2] - seed - 3 * idx) % 8) // 4) % 3]

        def unfetched():
            have = set(local_state(W.st_path)["revs"])
            return [r_ for r_ in later if r_ not in have and r_ != k]

        for j in range(nops):
            r = rng.random()
            if j == 0:
                # the first operation alternates: a commit directly on the fallback's tip / a fetch into the empty stack
                r = 0.5 if random.Random(repr(("first", seed, idx, split))).random() < 0.5 else 0.1
            if j == forced_fetch:
                r = 0.1
            elif j == forced_sab:
                r = 0.9
            if r < 0.4:
                cands = unfetched()
                rev = rng.choice(cands) if cands and (j == forced_fetch or rng.random() < 0.7) else rng.choice(later)
                via = "remote" if (mode == "remote" and rng.random() < 0.7) else "local"
                srcvia = "remote" if (mode == "remote-src" and rng.random() < 0.8) else "local"
                push = rng.random() < 0.4
                fg = (not push) and rng.random() < 0.35
                op_fetch(ctx, W, case_of("push" if push else "fetch", rev=rev.decode(), via=via, srcvia=srcvia, fg=fg),
                         rev, via, push, batch, expect, fg=fg, srcvia=srcvia)
            elif r < 0.7:
                ckind = rng.choice(["plain", "plain", "merge-fallback", "merge-d", "merge-ghost"])
                cvia = "remote" if (mode == "remote" and rng.random() < 0.5) else "local"
                op_commit(ctx, W, case_of("commit", kind=ckind, via=cvia), rng, ckind, batch, expect, revs, via=cvia)
            elif r < 0.77 and local_state(W.st_path)["revs"]:
                how = rng.choice(["push", "fetch"])
                op_land(ctx, W, case_of("land", how=how), batch, expect, how)
            elif r < 0.88:
                t_ = rng.choice([1, 1, 2])
                op_pack(ctx, W, case_of("pack", times=t_), batch, expect, t_)
            else:
                cands = unfetched()
                rev = rng.choice(cands) if cands else rng.choice(later)
                what = sab_kind if j == forced_sab else None
                op_sabotage(ctx, W, case_of("sabotage", rev=rev.decode(), what=what), rng, rev, batch, expect, what=what)
            if stop_at is not None and step[0] >= stop_at:
                break
            if len(ctx.violations) > W_viol0(W, ctx):
                ctx.count("scenario-stopped:violation-reported")
                break
        return batch
    except env.InfraError:
        raise
    except Exception as e:
        c03._reraise_infra(e, "C08 scenario")
        import traceback
        tb = traceback.extract_tb(e.__traceback__)
        where = next(("%s:%s" % (os.path.basename(f.filename), f.name) for f in reversed(tb) if "/breezy/" in f.filename), "?")
        ctx.violation(dict(key=list(key), step=None), "scenario could not be executed on the real code: %s: %s (in %s)"
                      % (type(e).__name__, str(e)[:300], where))
        return batch
    finally:
        try:
            if getattr(W, "alone_pending", False) and os.path.isdir(getattr(W, "st_path", "")):
                ctx.count("oracle:serve-alone")
                for b_ in serve_alone(W):
                    ctx.violation(dict(key=list(key), step="end"), b_)
        except env.InfraError:
            raise
        except Exception:
            pass
        _HYPS.extend(W.hyps)
        if W.server is not None:
            W.server.stop()
        shutil.rmtree(W.root, ignore_errors=True)


_HYPS = []


def W_viol0(W, ctx):
    if not hasattr(W, "_v0"):
        W._v0 = len(ctx.violations)
    return W._v0


def scenario_keys(ctx):
    keys = []
    nh = ctx.pick(5, 10)
    i = 0
    for h in range(nh):
        splits = range(8) if ctx.thorough() else [(ctx.seed + h * 3) % 8, (ctx.seed + h * 3 + 4) % 8]
        for sp in splits:
            keys.append((ctx.seed, h, sp, ["remote", "local", "remote-src", "local"][(i + ctx.seed) % 4]))
            i += 1
    # pack / autopack sequences on the stacked repository
    for j, kind in enumerate(["packseq", "landburst", "fetchpack", "ghostsrc", "landpack"] * ctx.pick(1, 3)):
        keys.append((ctx.seed, 100 + j, (ctx.seed + 2 * j + 1) % 8, "local", kind))
    return keys


def _flush(ctx, batch):
    if batch and ctx.model_available:
        outs = ctx.model([b[1] for b in batch])
        for (case, line, impl), m in zip(batch, outs):
            ctx.traces += 1
            if impl != m:
                ctx.mismatch(case, impl, m, line=line)
    if _HYPS and ctx.model_available:
        outs = ctx.model([h[2] for h in _HYPS])
        for (kind, names, _line, case, real_ok), m in zip(_HYPS, outs):
            count_hyps(ctx, kind, names, m, case, real_ok)
    del _HYPS[:]
    if os.environ.get("VERIF_DEBUG"):
        for m in ctx.mismatches:
            if m:
                print("MISMATCH", m["case"], "\n  impl ", str(m["impl"])[-200:], "\n  model", str(m["model"])[-200:])


def run(ctx):
    batch = []
    corpus = os.path.join(env.VERIF, "corpus", "C08")
    if os.path.isdir(corpus):
        import json
        for fn in sorted(os.listdir(corpus)):
            if fn.endswith(".json"):
                batch += run_scenario(ctx, tuple(json.load(open(os.path.join(corpus, fn)))["key"]))
    for key in scenario_keys(ctx):
        batch += run_scenario(ctx, key)
    _flush(ctx, batch)


def replay(ctx, case):
    step = case.get("step")
    batch = run_scenario(ctx, tuple(case["key"]), stop_at=step if isinstance(step, int) else None)
    _flush(ctx, [])
    out = dict(case=case, oracle_failures=[v["what"] for v in ctx.violations])
    last = [b for b in batch if b[0].get("step") == case.get("step")]
    if last:
        out["impl"] = last[0][2]
        out["model"] = ctx.model([last[0][1]])[0]
        out["agree"] = out["impl"] == out["model"]
    return out
