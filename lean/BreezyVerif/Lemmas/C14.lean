import BreezyVerif.Model.C14
/-! Helper lemmas for C14. -/
namespace BreezyVerif.C14

theorem filterMap_congr' {α β : Type} {f g : α → Option β} {l : List α} (h : ∀ a ∈ l, f a = g a) :
    l.filterMap f = l.filterMap g := by
  induction l with
  | nil => rfl
  | cons a rest ih =>
    have ha := h a (by simp)
    have hr := ih (fun b hb => h b (by simp [hb]))
    simp only [List.filterMap_cons, ha, hr]

theorem alookup_aerase_self {β : Type} (l : List (Tid × β)) (k : Tid) : alookup (aerase l k) k = none := by
  unfold alookup aerase
  have : (List.filter (fun e => e.1 != k) l).find? (fun e => e.1 == k) = none := by
    rw [List.find?_eq_none]
    intro x hx
    have := (List.mem_filter.mp hx).2
    simp_all
  simp [this]

theorem ahas_aerase_self {β : Type} (l : List (Tid × β)) (k : Tid) : ahas (aerase l k) k = false := by
  unfold ahas aerase
  rw [List.any_eq_false]
  intro x hx
  have := (List.mem_filter.mp hx).2
  simp_all

theorem alookup_append_new {β : Type} (l : List (Tid × β)) (k : Tid) (v : β) (h : ahas l k = false) :
    alookup (l ++ [(k, v)]) k = some v := by
  unfold alookup
  unfold ahas at h
  rw [List.any_eq_false] at h
  have : l.find? (fun e => e.1 == k) = none := by
    rw [List.find?_eq_none]; intro x hx; exact h x hx
  simp [List.find?_append, this]

theorem alookup_aset_self {β : Type} (l : List (Tid × β)) (k : Tid) (v : β) : alookup (aset l k v) k = some v := by
  induction l with
  | nil => simp [aset, alookup]
  | cons e rest ih =>
    obtain ⟨k', v'⟩ := e
    unfold aset
    split
    · simp [alookup]
    · rename_i h
      unfold alookup at ih ⊢
      rw [List.find?_cons]
      simp only [h]
      exact ih

theorem sadd_contains (l : List Tid) (k : Tid) : (sadd l k).contains k = true := by
  unfold sadd
  split
  · assumption
  · simp

/-- the disk after the three phases, per trans-id -/
theorem applyDisk_get (tt : TT) (t : Tid) (h : t < tt.next) :
    tt.applyDisk[t]? = some (tt.chmodStep t (tt.insertionStep t (tt.removalStep t (tt.baseInode t)))) := by
  simp [TT.applyDisk, TT.applyInsertions, TT.applyRemovals, TT.baseDisk, TT.ids, h]

/-- `applyDelta` processes items left to right: the last item about `f` decides -/
theorem applyDelta_put_last (inv : Inv) (pre post : List DeltaItem) (f : String) (e : InvEntry)
    (hpost : ∀ x ∈ post, (match x with | .remove g => g | .put g _ => g) ≠ f) :
    ((applyDelta inv (pre ++ [.put f e] ++ post)).find? (fun x => x.1 == f)).map (·.2) = some e := by
  have key : ∀ (post : List DeltaItem) (inv : Inv),
      (∀ x ∈ post, (match x with | .remove g => g | .put g _ => g) ≠ f) →
      ((inv.find? (fun x => x.1 == f)).map (·.2) = some e) →
      ((applyDelta inv post).find? (fun x => x.1 == f)).map (·.2) = some e := by
    intro post
    induction post with
    | nil => intro inv _ h; simpa [applyDelta] using h
    | cons x rest ih =>
      intro inv hp h
      have hx := hp x (by simp)
      have hrest : ∀ y ∈ rest, (match y with | .remove g => g | .put g _ => g) ≠ f :=
        fun y hy => hp y (by simp [hy])
      cases x with
      | remove g =>
        simp only [applyDelta]
        apply ih _ hrest
        have hg : g ≠ f := hx
        have : (inv.filter (fun e => e.1 != g)).find? (fun x => x.1 == f) = inv.find? (fun x => x.1 == f) := by
          rw [List.find?_filter]
          congr 1
          funext a
          by_cases ha : a.1 = f
          · subst ha; simp; exact fun h => hg h.symm
          · simp [ha]
        rw [this]; exact h
      | put g e' =>
        simp only [applyDelta]
        apply ih _ hrest
        have hg : g ≠ f := hx
        have h1 : (inv.filter (fun e => e.1 != g)).find? (fun x => x.1 == f) = inv.find? (fun x => x.1 == f) := by
          rw [List.find?_filter]
          congr 1
          funext a
          by_cases ha : a.1 = f
          · subst ha; simp; exact fun h => hg h.symm
          · simp [ha]
        rw [List.find?_append, h1]
        cases hfind : inv.find? (fun x => x.1 == f) with
        | none => simp [hfind] at h
        | some v => simpa [hfind] using h
  have split : ∀ (pre : List DeltaItem) (inv : Inv),
      applyDelta inv (pre ++ [.put f e] ++ post) = applyDelta (applyDelta inv pre) ([.put f e] ++ post) := by
    intro pre
    induction pre with
    | nil => intro inv; rfl
    | cons x rest ih =>
      intro inv
      cases x with
      | remove g => exact ih _
      | put g e' => exact ih _
  rw [split]
  simp only [List.singleton_append, applyDelta]
  apply key post _ hpost
  rw [List.find?_append]
  have : (List.filter (fun x => x.1 != f) (applyDelta inv pre)).find? (fun x => x.1 == f) = none := by
    rw [List.find?_eq_none]
    intro x hx
    have := (List.mem_filter.mp hx).2
    simp_all
  simp [this]

end BreezyVerif.C14
