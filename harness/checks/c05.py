"""C05 — concurrent pack writers and packers never lose committed data.

Mechanism (breezy/bzr/pack_repo.py): _diff_pack_names / _save_pack_names (three-way
merge of pack-names under the names lock), reload_pack_names /
_syncronize_pack_names_from_disk_nodes (memory resynchronisation), _restart_autopack /
_restart_pack_operations with RetryAutopack / RetryPackOperations (retry on vanished
packs), AggregateIndex / _DirectPackAccess reload_func (a reader's reload on a missing
pack), _execute_pack_operations / _obsolete_packs (obsolete strictly after the save),
_clear_obsolete_packs(preserve) and the final _clear_obsolete_packs() of
pack(clean_obsolete_packs=True).

T2: two or three real Repository objects are opened on the same directory in this
    process, one thread each, each running a short program (fetch k revisions = a
    write group | pack() | pack(clean_obsolete_packs=True) | read everything).  The
    phase boundaries — every read of pack-names that is not protected by the names
    lock (ensure_loaded / reload_pack_names), GCPack.finish, the acquisition of the
    names lock in _save_pack_names, _obsolete_packs and the final
    _clear_obsolete_packs — block on a baton: exactly one
    thread runs at a time and the harness decides who runs next, so the real code
    executes exactly the schedule under test.  Cases marked `fine` have additional
    gates that change no state but let the others run: before a packer reads its
    sources (after the plan), after a reader's lock and between its listing and its
    reads, at the start of a write group — so that a stale plan / a stale reader
    really meets packs that were obsoleted meanwhile (RetryPackOperations,
    RetryAutopack, reload on a missing pack; counted as retry:* / reload:* in the
    evidence).  Every phase the real code performs is logged as an action of the Lean
    model (reload | finish revs | repack packs | save clear | obsolete | clearAll)
    and compared with the model (`execX`): after every action pack-names, the listings
    of packs/ indices/ obsolete_packs/ and every process' in-memory _names and
    _packs_at_load; for every pack written the revisions its revision index really
    lists (for a packer: must be the union of its sources); at the end the revisions
    a fresh open lists against the model's visible set.  Pack names are content
    hashes: when two processes write byte-identical packs (cases with `sources`: both
    fetch the same revisions; two packers combining the same packs) the model is told
    the reused name (`finishAs` / `repackAs`) — these schedules are compared like all
    others.  ALL schedules of several 2-actor program pairs are enumerated (stateless
    depth-first search over the baton choices, `exhaustive`), one of them with the
    fine gates; the other programs are sampled by seed (enumerated up to a limit in
    the thorough tier).  corpus/C05 holds minimised failing schedules, run first.
Oracle (independent of the model): no operation may fail; no livelock (a schedule
    needing more than MAX_DECISIONS phases); a reader must see every revision whose
    write group had committed before the reader started and nothing that was never
    committed, with every text readable (reload-and-retry inside the real code); at
    the end of every schedule a fresh Repository.open must list exactly the initial
    revisions plus those of every completed fetch, all trees and texts readable and
    equal to the source of truth, check() clean, every listed pack's files present.
A thread that does not reach its next gate within the wall-clock limit, or a crashed
worker, is an infrastructure failure (exit 2), never a verdict.

Finding made with this check (family `same-pack-name-relisted-while-obsoleted`,
theorems same_name_relisted_witness / same_name_obsoleted_before_save_witness,
corpus/C05): two processes that fetch the SAME revisions write packs with the same
content-hash name X.  When one of them (or a third) lists X, repacks it and obsoletes
it while the other has finished X but saves later (or saves between the packer's
save and its _obsolete_packs), pack-names ends up listing X whose files are in
obsolete_packs/: the repository cannot be opened any more (NoSuchFile, reload does
not help).  Every other violation keeps family None.

Mutants this was built against (scratch worktrees):
 A  _diff_pack_names: disk_nodes = set(current_nodes) (plain overwrite, no merge)       -> oracle: a concurrent commit is lost (schedule [0,1,1,0,0,0,1,1] of fetch||fetch)
 B  _save_pack_names: _packs_at_load not updated after the save                          -> T2 only (in-memory state; healed by the reload at the next lock)
 C  reload_pack_names: _packs_at_load = disk_nodes (pending names counted as loaded)     -> oracle: the save after an autopack retry drops the process' own new pack
 D  _execute_pack_operations: _obsolete_packs before _save_pack_names                    -> oracle: a concurrent fetch finds listed packs gone (NoSuchFile)
 E  _restart_autopack/_restart_pack_operations: retry signal dropped (reload; raise)     -> oracle: autopack fails when another process obsoleted its sources
 F  _syncronize_pack_names_from_disk_nodes: removed packs kept in memory                 -> T2 + oracle (autopack retry sees "nothing changed" and fails)
 G  _clear_obsolete_packs: `preserve` ignored                                            -> T2 only (listing of obsolete_packs/; not observable by readers)
 H  _restart_pack_operations only: `raise` instead of RetryPackOperations                -> oracle: pack() of a stale plan fails (needs the `plan` gate)
 I  AggregateIndex built without reload_func (readers never reload)                      -> oracle: a reader that listed before a pack+obsolete fails with NoSuchFile (needs the `read` gates)
 J  GCCHKPacker._copy_revision_texts copies only the first source's revisions           -> T2 (revisions of the pack written) + oracle (committed revisions no longer listed)
 L  reload_pack_names always answers "changed"                                           -> harmless on healthy directories; a read of a directory that lists a missing pack is reported as livelock
 S  (seeded, /var/tmp/seed-C05b) _save_pack_names reads pack-names and merges BEFORE lock_names -> oracle: a commit saved between the read and the lock is lost (fetch||fetch [0,1,1,1,1,0,0,0,0,1]); needs the gate AT lock_names
 harmless: set comprehensions / set algebra in _diff_pack_names, renamed locals -> clean.
"""
import os
import shutil
import sys
import threading

from vlib import env
from checks import c04

THEOREMS = [
    "save_is_threeway_merge", "save_synchronises", "committed_data_kept", "listed_data_kept",
    "listed_pack_findable", "reload_finds_data", "committed_readable", "mem_run_deletes",
    "clear_preserves_just_obsoleted", "save_skips_already_obsolete", "overwrite_loses_witness",
    "fine_committed_readable", "fine_listed_pack_findable", "fine_reload_finds_data", "exec_refines_fine",
    "execX_base", "same_name_relisted_witness", "same_name_obsoleted_before_save_witness",
]
RULE = ("case = (initial collection: chunk sizes, programs of 2 or 3 actors out of fetch k | pack | packc | read, options "
        "fine = extra read/plan/write-group gates, sources = which actors fetch the same revisions, one complete "
        "schedule = the sequence of baton choices); all schedules of the exhaustive 2-actor program pairs are enumerated, "
        "the others are sampled; non-trivial = at least two decision points had an alternative; distinct by (initial "
        "collection, programs, options, schedule)")
ASSUMPTIONS = [
    "interleaving granularity of the real runs is the phase (reload, finish, save, obsolete, clear) plus the read / "
    "plan / write-group gates; read + merge + put_file of _save_pack_names is atomic because it runs under the names "
    "lock (LockDir, property C26); the deletes of _clear_obsolete_packs and the renames of _obsolete_packs are "
    "interleaved one by one in the model only (theorems fine_*)",
    "the positive theorems assume that packs written by different processes get different names (different content); "
    "byte-identical packs written twice are covered by the witness theorems, the T2 comparison and the oracle "
    "(finding same-pack-name-relisted-while-obsoleted)",
]
TRUSTED = [
    "threads of one process stand for separate processes (each has its own Repository object, transports and pack "
    "collection; nothing is shared but the directory)",
    "the control flow between phases (which phase comes next, retries) is taken from the real execution; the model "
    "checks the state effect of every phase and the theorems cover every phase sequence",
]

FMT = "2a"
_tls = threading.local()


class Abort(BaseException):
    pass


# --------------------------------------------------------------------------
# the world: one execution of one schedule

class World:
    def __init__(self, path, nactors):
        self.path = path
        self.repo_dir = os.path.join(path, ".bzr", "repository")
        self.actors = []
        self.cv = threading.Condition()
        self.running = None          # the actor allowed to run
        self.actions = []            # (actor, kind, arg)   in global order
        self.states = []             # real state after each action
        self.pending = None          # an action whose post-state has not been captured yet
        self.names_seen = {}
        self.aborted = False
        self.fine = False            # extra gates: before a packer reads its sources, after a reader's /
        #                              a write group's lock (so that reload-and-retry really happens)
        self.events = []             # retry:* / reload:* / already-obsolete (evidence counters)

    # ---- state capture ---------------------------------------------------
    def disk_names(self):
        from bzrformats import btree_index
        from breezy import transport as _t
        t = _t.get_transport_from_path(self.repo_dir)
        idx = btree_index.BTreeGraphIndex(t, "pack-names", None)
        return sorted(k[0].decode("ascii") for (_i, k, _v) in idx.iter_all_entries())

    def capture(self):
        names = self.disk_names()
        lst = [e for e in c04.listing(self.path) if e[0] != "u"]
        procs = []
        for a in self.actors:
            pc = a.repo._pack_collection if a.repo is not None else None
            if pc is None or pc._names is None or (a.gate == "read-names" and not pc._names and not pc._packs_at_load):
                # (an actor waiting inside ensure_loaded has an empty dict already: not loaded yet)
                procs.append((False, [], []))
            else:
                procs.append((True, sorted(pc._names.keys()), sorted(n for (n, _v) in (pc._packs_at_load or ()))))
        return (names, lst, procs)

    def flush(self):
        """capture the post-state of the last logged action (called by the running actor before it logs
        the next action, before it blocks at a gate, and when it finishes)"""
        if self.pending is not None:
            self.states.append(self.capture())
            self.pending = None

    def log(self, actor, kind, arg=None):
        self.flush()
        self.actions.append((actor.idx, kind, arg))
        self.pending = True


class Actor(threading.Thread):
    def __init__(self, world, idx, program, src):
        super().__init__(daemon=True)
        self.world, self.idx, self.program, self.src = world, idx, program, src
        self.repo = None
        self.gate = None             # where the actor is blocked; None = running / not there yet; "done" = finished
        self.error = None
        self.results = []            # per command
        self.upto = -1
        self.packer = None
        self.in_reload = 0
        self.in_save = False
        self.save_logged = False
        self.committed_revs = []     # revisions of completed fetches
        self.steps = 0

    # ---- baton -------------------------------------------------------------
    def wait_turn(self, kind):
        w = self.world
        with w.cv:
            self.gate = kind         # (before the capture: an actor waiting inside ensure_loaded is not loaded yet)
            if kind != "start":
                w.flush()
            if w.running is self:    # (an actor arriving at its `start` gate never held the baton)
                w.running = None
            w.cv.notify_all()
            while w.running is not self and not w.aborted:
                w.cv.wait()
            if w.aborted:
                raise Abort()
            self.gate = None
            self.steps += 1

    def run(self):
        _tls.actor = self
        from breezy.repository import Repository
        w = self.world
        try:
            self.wait_turn("start")
            self.repo = Repository.open(w.path)
            for cmd in self.program:
                self.run_command(cmd)
        except Abort:
            pass
        except BaseException as e:       # noqa: an operation failed under this schedule
            import traceback
            self.error = "%s: %s | %s" % (type(e).__name__, str(e)[:160],
                                          " <- ".join(l.strip().split("\n")[0][-60:] for l in traceback.format_tb(e.__traceback__)[-4:]))
        finally:
            with w.cv:
                try:
                    w.flush()
                except Exception as e:
                    self.error = (self.error or "") + " capture failed: %r" % (e,)
                self.gate = "done"
                w.running = None
                w.cv.notify_all()
            _tls.actor = None

    def run_command(self, cmd):
        from breezy.repository import Repository
        w = self.world
        if cmd[0] == "fetch":
            s = Repository.open(self.src["root"])
            upto = self.upto + cmd[1]
            self.repo.fetch(s, revision_id=self.src["ids"][upto])
            self.committed_revs += self.src["ids"][self.upto + 1: upto + 1]
            self.upto = upto
            self.results.append(("fetch", cmd[1]))
        elif cmd[0] == "pack":
            self.repo.pack()
            self.results.append(("pack",))
        elif cmd[0] == "packc":
            self.repo.pack(clean_obsolete_packs=True)
            self.results.append(("packc",))
        elif cmd[0] == "read":
            must = set(w.committed_now())
            with self.repo.lock_read():
                if w.fine:
                    # the reader holds its (soon stale) list; others may now pack and obsolete what it lists
                    self.wait_turn("read")
                ids = sorted(self.repo.all_revision_ids())
                if w.fine:
                    self.wait_turn("read2")
                dg = c04.digest_all(self.repo, ids)
            self.results.append(("read", ids, sorted(must), dg))
        else:
            raise ValueError("unknown command %r" % (cmd,))


def _world_committed_now(self):
    out = list(self.initial_revs)
    for a in self.actors:
        out += a.committed_revs
    return out


World.committed_now = _world_committed_now


# --------------------------------------------------------------------------
# gates: wrappers around the phase boundaries of the real code

_installed = False
_free_reloads = [0]
MAX_FREE_RELOADS = 200


def _actor_of(coll):
    """the running actor, if `coll` is the pack collection of ITS repository object (an actor also
    opens its own source repository, whose phases are not part of the schedule)"""
    a = getattr(_tls, "actor", None)
    if a is None or a.repo is None or coll is not a.repo._pack_collection:
        return None
    return a


def _names_lock_held(coll):
    """this process holds the names mutex (control_files write-locked; a reader's lock_read only counts)"""
    return getattr(coll.repo.control_files, "_lock_mode", None) == "w"


def install():
    global _installed
    if _installed:
        return
    from breezy.bzr import pack_repo, groupcompress_repo
    RPC = pack_repo.RepositoryPackCollection

    o_reload = RPC.reload_pack_names

    def reload_pack_names(self):
        a = _actor_of(self)
        if a is None:
            # the oracle's own reads (fresh Repository.open at the end of a schedule): a read that keeps
            # reloading for ever is a livelock of the real code, reported as such instead of hanging the run
            _free_reloads[0] += 1
            if _free_reloads[0] > MAX_FREE_RELOADS:
                raise RuntimeError("livelock: reload_pack_names called more than %d times by one read" % MAX_FREE_RELOADS)
            return o_reload(self)
        caller = sys._getframe(1).f_code.co_name
        a.world.events.append("reload:" + {"_refresh_data": "at-lock", "_restart_autopack": "packer-retry",
                                           "_restart_pack_operations": "packer-retry"}.get(caller, "on-missing-pack"))
        # the gate and the action `r` are at the disk read inside (see _iter_disk_pack_index below)
        a.in_reload += 1
        try:
            return o_reload(self)
        finally:
            a.in_reload -= 1
    RPC.reload_pack_names = reload_pack_names

    # Every read of pack-names that is NOT protected by the names lock is a point where the others may
    # run (what is read may be stale by the time it is used).  In the code as it is those are the reads of
    # ensure_loaded / reload_pack_names (the phase `reload`: the process' memory is synchronised with what
    # was read); the read of _save_pack_names happens under the lock and is not a gate.
    o_iter = RPC._iter_disk_pack_index

    def _iter_disk_pack_index(self):
        a = _actor_of(self)
        if a is None or _names_lock_held(self):
            return o_iter(self)
        a.wait_turn("read-names")
        if not a.in_save:
            a.world.log(a, "r")
        return list(o_iter(self))
    RPC._iter_disk_pack_index = _iter_disk_pack_index

    # ... and the names lock is taken when the harness says so: whatever _save_pack_names did before
    # (nothing, in the code as it is) is separated from what it does under the lock
    o_lock = RPC.lock_names

    def lock_names(self):
        a = _actor_of(self)
        if a is not None:
            a.wait_turn("save" if a.in_save else "lock")
        return o_lock(self)
    RPC.lock_names = lock_names

    def count_retry(name, exc_name, label):
        orig = getattr(RPC, name)

        def restart(self):
            a = _actor_of(self)
            try:
                return orig(self)
            except BaseException as e:
                if a is not None:
                    a.world.events.append("retry:%s%s" % (label, "" if type(e).__name__ == exc_name else "-unhelped"))
                raise
        setattr(RPC, name, restart)
    count_retry("_restart_autopack", "RetryAutopack", "autopack")
    count_retry("_restart_pack_operations", "RetryPackOperations", "pack")

    o_swg = RPC._start_write_group

    def _start_write_group(self):
        a = _actor_of(self)
        if a is not None and a.world.fine:
            # the write group's process holds its list; what it reads from now on (basis inventories,
            # _check_new_inventories) may have been packed away by others
            a.wait_turn("wg")
        return o_swg(self)
    RPC._start_write_group = _start_write_group

    o_finish = groupcompress_repo.GCPack.finish

    def finish(self, *args, **kw):
        a = _actor_of(getattr(self, "_pack_collection", None))
        if a is None or kw.get("suspend") or (args and args[0]):
            return o_finish(self, *args, **kw)
        a.wait_turn("finish")
        return o_finish(self, *args, **kw)
    groupcompress_repo.GCPack.finish = finish

    o_allocate = RPC.allocate

    def allocate(self, a_new_pack):
        a = _actor_of(self)
        try:
            return o_allocate(self, a_new_pack)
        finally:
            # logged also when allocate raises "Pack ... already exists": the files are written by then
            if a is not None:
                revs = sorted(k[0] for (_i, k, _v, _r) in a_new_pack.revision_index.iter_all_entries())
                if a.packer is not None:
                    a.world.log(a, "k", (a_new_pack.name, [p.name for p in a.packer.packs], revs))
                else:
                    a.world.log(a, "f", (a_new_pack.name, revs))
    RPC.allocate = allocate

    o_pack = pack_repo.Packer.pack

    def pack(self, pb=None):
        a = _actor_of(self._pack_collection)
        if a is None:
            return o_pack(self, pb)
        a.packer = self
        try:
            if a.world.fine:
                # the plan is made (self.packs); the sources are read after this point
                a.wait_turn("plan")
            return o_pack(self, pb)
        finally:
            a.packer = None
    pack_repo.Packer.pack = pack

    o_clear = RPC._clear_obsolete_packs

    def _clear_obsolete_packs(self, preserve=None):
        a = _actor_of(self)
        if a is None:
            return o_clear(self, preserve)
        if a.in_save:
            found = o_clear(self, preserve)
            if preserve and set(found) & set(preserve):
                a.world.events.append("already-obsolete")
            return found
        # the final cleanup of pack(clean_obsolete_packs=True)
        a.wait_turn("clear")
        a.world.log(a, "c")
        return o_clear(self, preserve)
    RPC._clear_obsolete_packs = _clear_obsolete_packs

    o_save = RPC._save_pack_names

    def _save_pack_names(self, clear_obsolete_packs=False, obsolete_packs=None):
        a = _actor_of(self)
        if a is None:
            return o_save(self, clear_obsolete_packs, obsolete_packs)
        # (the gate is at lock_names inside)
        a.in_save, a.save_logged, a.save_clear = True, False, bool(clear_obsolete_packs)
        try:
            r = o_save(self, clear_obsolete_packs, obsolete_packs)
        finally:
            a.in_save = False
        if not a.save_logged:
            a.world.log(a, "s", a.save_clear)
            a.save_logged = True
        return r
    RPC._save_pack_names = _save_pack_names

    o_obs = RPC._obsolete_packs

    def _obsolete_packs(self, packs):
        a = _actor_of(self)
        if a is None:
            return o_obs(self, packs)
        if a.in_save and not a.save_logged:
            a.world.log(a, "s", a.save_clear)
            a.save_logged = True
        if not _names_lock_held(self):
            # (a variant of the code that obsoletes while it still holds the names lock cannot be
            # interleaved here: the others would wait for the lock)
            a.wait_turn("obsolete")
        a.world.log(a, "o")
        return o_obs(self, packs)
    RPC._obsolete_packs = _obsolete_packs
    _installed = True


# --------------------------------------------------------------------------
# running one schedule

_sources = {}


def actor_source(i):
    """an own linear history per actor (disjoint revision ids and file contents)"""
    if i in _sources:
        return _sources[i]
    wt = env.make_tree(FMT)
    root = wt.basedir
    ids = []
    for k in range(14):
        fn = "a%d_%d" % (i, k % 2)
        new = not os.path.exists(os.path.join(root, fn))
        with open(os.path.join(root, fn), "a") as f:
            f.write("actor %d line %d\n" % (i, k))
        if new:
            wt.add([fn])
        ids.append(wt.commit("actor %d rev %d" % (i, k), rev_id=("a%d-r%02d" % (i, k)).encode()))
    repo = wt.branch.repository
    with repo.lock_read():
        truth = c04.digest_all(repo, ids)
    _sources[i] = dict(root=root, ids=ids, truth=truth)
    return _sources[i]


_bases = {}


def base_repo(chunks):
    """the initial repository: the base history fetched in the given chunks (one pack each)"""
    key = tuple(chunks)
    if key in _bases:
        return _bases[key]
    src = actor_source(99)
    from breezy.controldir import ControlDir, format_registry
    from breezy.repository import Repository
    path = env.fresh_dir("c05b")
    cd = ControlDir.create(path, format=format_registry.make_controldir(FMT))
    cd.create_repository()
    upto = -1
    for k in chunks:
        upto += k
        Repository.open(path).fetch(Repository.open(src["root"]), revision_id=src["ids"][upto])
    # no leftovers of the preparation in obsolete_packs/ (autopack while building)
    _bases[key] = (path, src["ids"][: upto + 1])
    return _bases[key]


MAX_DECISIONS = 400     # no program of the check needs more than ~60 baton passes


class Stalled(Exception):
    """a thread did not reach its next gate within the wall-clock limit: infrastructure, not a verdict"""


def run_schedule(case, choices, timeout=300):
    """execute `case` (chunks, programs[, fine, sources]) following the baton choices; when the choices
    are used up the lowest runnable actor is taken.  Returns a dict with the decision trace and everything
    observed.  A schedule that needs more than MAX_DECISIONS baton passes is a livelock of the real code
    (`livelock`); a thread that does not come back within `timeout` seconds of wall time raises Stalled."""
    install()
    _free_reloads[0] = 0
    chunks, programs = case["chunks"], case["programs"]
    sources = case.get("sources") or list(range(len(programs)))
    base, init_revs = base_repo(chunks)
    path = env.fresh_dir("c05w")
    os.rmdir(path)
    shutil.copytree(base, path)
    w = World(path, len(programs))
    w.fine = bool(case.get("fine"))
    w.initial_revs = list(init_revs)
    for i, prog in enumerate(programs):
        w.actors.append(Actor(w, i, prog, actor_source(sources[i])))
    init_state = w.capture()
    for a in w.actors:
        a.start()
    decisions = []      # (chosen, runnable list)
    k = 0
    ok = True
    livelock = False
    with w.cv:
        # every thread must have arrived at its `start` gate before the first baton is handed out (a thread
        # that starts late on a loaded machine must not find somebody else already running)
        while any(a.gate is None for a in w.actors):
            if not w.cv.wait(timeout):
                ok = False
                break
        while ok:
            # wait until nobody runs
            while w.running is not None:
                if not w.cv.wait(timeout):
                    ok = False
                    break
            if not ok:
                break
            runnable = [a.idx for a in w.actors if a.gate not in (None, "done")]
            if not runnable:
                break
            if k >= MAX_DECISIONS:
                livelock = True
                break
            if k < len(choices) and choices[k] in runnable:
                ch = choices[k]
            else:
                ch = runnable[0]
            decisions.append((ch, runnable))
            k += 1
            w.running = w.actors[ch]
            w.cv.notify_all()
        if not ok or livelock:
            w.aborted = True
            w.cv.notify_all()
    for a in w.actors:
        a.join(5 if not ok else timeout)
    if not ok:
        shutil.rmtree(path, ignore_errors=True)
        raise Stalled("no actor reached a gate within %d s of wall time (case %r, decisions %r)"
                      % (timeout, {k_: v for k_, v in case.items() if k_ != "_content"}, [d[0] for d in decisions]))
    res = dict(case=case, decisions=decisions, hung=livelock, events=list(w.events),
               errors=[(a.idx, a.error) for a in w.actors if a.error],
               actions=w.actions, states=w.states, init_state=init_state,
               results=[a.results for a in w.actors], steps=[a.steps for a in w.actors])
    # ---- final oracle ---------------------------------------------------------
    expected = set(init_revs)
    truth = dict(actor_source(99)["truth"])
    for a in w.actors:
        expected |= set(a.committed_revs)
        truth.update(a.src["truth"])
    _free_reloads[0] = 0
    fin = c04.inspect(path, truth)
    res["final"] = dict(revs=fin["revs"], problems=fin["problems"], names=fin["names"])
    res["expected"] = sorted(expected)
    # every listed pack has its files
    missing = []
    have = {(ch, st, ex) for (ch, st, ex) in c04.listing(path)}
    for n in fin["names"] or []:
        for ch, ex in (("p", "pack"), ("i", "rix"), ("i", "iix"), ("i", "tix"), ("i", "six"), ("i", "cix")):
            if (ch, n, ex) not in have:
                missing.append("%s.%s" % (n, ex))
    res["missing_files"] = missing
    res["all_truth_keys"] = None
    shutil.rmtree(path, ignore_errors=True)
    return res


# --------------------------------------------------------------------------
# canonicalisation and the model line

def model_io(res):
    """-> (request line, implementation string) for the Lean driver"""
    names0, lst0, _p = res["init_state"]
    num = {}
    for n in names0:
        num[n] = len(num)
    for (_c, st, _e) in sorted(lst0):
        if st not in num:
            num[st] = len(num)
    nxt = len(num) + 5
    revnum = {}

    def rn(r):
        if r not in revnum:
            revnum[r] = len(revnum)
        return revnum[r]

    def dots(nums):
        return ".".join(str(x) for x in nums) or "-"
    # content of the initial packs: read from the base repository
    content = res["case"].get("_content") or {}
    cont = ";".join("%d:%s" % (num[n], ".".join(str(rn(r)) for r in revs))
                    for n, revs in sorted(content.items()) if n in num) or "-"
    sched = []
    written = []
    k = 0
    dup = set()
    for (idx, kind, arg) in res["actions"]:
        if kind == "r":
            sched.append("%d:r" % idx)
        elif kind in ("f", "k"):
            name = arg[0]
            revs = arg[-1]
            if kind == "f":
                body = dots(rn(r) for r in revs)
            else:
                body = dots(num.get(s, 9999) for s in arg[1])
            if name in num:
                # a pack with this content hash exists already (written by another process, or listed):
                # the model is told the name (content-addressed names, `finishAs` / `repackAs`)
                dup.add(name)
                sched.append("%d:%sa:%d:%s" % (idx, kind, num[name], body))
            else:
                num[name] = nxt + 2 * k + 1
                sched.append("%d:%s:%s" % (idx, kind, body))
            k += 1
            # what the real new pack's revision index lists (for a packer: the union of its sources?)
            written.append("%d=%s" % (num[name], ",".join(map(str, sorted(set(rn(r) for r in revs)))) or "-"))
        elif kind == "s":
            sched.append("%d:s:%s" % (idx, "T" if arg else "F"))
        elif kind == "o":
            sched.append("%d:o" % idx)
        elif kind == "c":
            sched.append("%d:c" % idx)
    res["same_name_twice"] = bool(dup)
    res["dup_names"] = sorted(dup)

    def tok(e):
        ch, st, ex = e
        return "%s%d.%s" % (ch, num.get(st, 9998), ex)

    def fmt_state(st):
        names, lst, procs = st
        s = "%s|%s" % (",".join(map(str, sorted(num.get(n, 9997) for n in names))) or "-",
                       ",".join(sorted(tok(e) for e in lst)) or "-")
        for (loaded, ns, al) in procs:
            s += "#%s~%s~%s" % ("L" if loaded else "N",
                                ",".join(map(str, sorted(num.get(n, 9996) for n in ns))) or "-",
                                ",".join(map(str, sorted(num.get(n, 9996) for n in al))) or "-")
        return s
    files0 = ",".join(sorted(tok(e) for e in lst0)) or "-"
    line = "exec T %s %s %s %d %d %s" % (",".join(map(str, sorted(num[n] for n in names0))) or "-", files0, cont,
                                         nxt, len(res["case"]["programs"]), ";".join(sched) or "-")
    fin = res.get("final") or {}
    if fin.get("revs") is None:
        vis = "?"
    else:
        vis = ",".join(map(str, sorted(set(rn(r) for r in fin["revs"])))) or "-"
    impl = "%s %s %s" % ("/".join(fmt_state(s) for s in [res["init_state"]] + res["states"]),
                         ";".join(written) or "-", vis)
    return line, impl


def canon_model_reply(m, nprocs):
    """drop what is not observable on the real side: upload files, torn list, lock flag, toObsolete"""
    states, written, vis = m.split(" ")
    out = []
    for st in states.split("/"):
        parts = st.split("#")
        d = parts[0].split("|")
        files = [t for t in d[1].split(",") if t != "-" and not t.startswith("u")]
        s = "%s|%s" % (d[0], ",".join(files) or "-")
        for p in parts[1:]:
            f = p.split("~")
            s += "#%s~%s~%s" % (f[0] if f[1] != "-" or f[2] != "-" or f[0] == "L" else "N", f[1], f[2])
        out.append(s)
    return "%s %s %s" % ("/".join(out), written, vis)


def pack_content(chunks):
    """{pack name: [revision ids]} of the base repository"""
    from breezy.repository import Repository
    base, _revs = base_repo(chunks)
    _free_reloads[0] = 0
    r = Repository.open(base)
    out = {}
    with r.lock_read():
        for p in r._pack_collection.all_packs():
            out[p.name] = sorted(k[0] for (_i, k, _v, _r) in p.revision_index.iter_all_entries())
    return out


# --------------------------------------------------------------------------
# exploring schedules

def explore(case, limit, root=()):
    """depth-first enumeration of all baton choice sequences that start with `root` (stateless: every
    schedule is executed from a fresh copy); returns (list of results, complete?)"""
    results = []
    stack = [list(root)]
    seen = 0
    while stack and seen < limit:
        prefix = stack.pop()
        res = run_schedule(case, prefix)
        results.append(res)
        seen += 1
        dec = res["decisions"]
        # branch on every later decision point that had an alternative
        for j in range(len(dec) - 1, len(prefix) - 1, -1):
            ch, runnable = dec[j]
            for alt in runnable:
                if alt != ch and alt > ch:
                    stack.append([d[0] for d in dec[:j]] + [alt])
    return results, not stack


def sample(case, n, seed):
    """n random schedules (random baton choices; duplicates dropped)"""
    import random
    rng = random.Random(repr(seed))
    na = len(case["programs"])
    results, seen = [], set()
    for _ in range(n):
        # a random preference list; biased towards runs of the same actor so that both long and
        # fine-grained interleavings occur
        choices, cur = [], rng.randrange(na)
        sw = rng.choice([0.15, 0.35, 0.6])
        for _k in range(48):
            if rng.random() < sw:
                cur = rng.randrange(na)
            choices.append(cur)
        res = run_schedule(case, choices)
        key = tuple(d[0] for d in res["decisions"])
        if key in seen:
            continue
        seen.add(key)
        results.append(res)
    return results, False


def case_key(case):
    """the JSON-able canonical form of a case (what is counted, recorded and replayed)"""
    out = dict(chunks=list(case["chunks"]), programs=[[list(x) for x in prog] for prog in case["programs"]])
    if case.get("fine"):
        out["fine"] = True
    if case.get("sources"):
        out["sources"] = list(case["sources"])
    return out


def slim_result(case, r):
    line, impl = model_io(r)
    return dict(case=case_key(case),
                schedule=[d[0] for d in r["decisions"]], branching=sum(1 for d in r["decisions"] if len(d[1]) > 1),
                hung=r["hung"], errors=r["errors"], final=r["final"], expected=r["expected"],
                missing_files=r["missing_files"], line=line, impl=impl, events=r["events"],
                reads=[(i, c[1], c[2], [k.decode() for k, v in c[3].items()])
                       for i, rs in enumerate(r["results"]) for c in rs if c[0] == "read"],
                nactions=len(r["actions"]), kinds="".join(a[1] for a in r["actions"]),
                same_name_twice=r["same_name_twice"], dup_names=r["dup_names"])


def explore_task(task):
    case, limit, root = task
    env.boot()
    try:
        case = dict(case, _content=pack_content(case["chunks"]))
        if isinstance(root, tuple) and root and root[0] == "sample":
            results, complete = sample(case, limit, root[1])
        elif isinstance(root, tuple) and root and root[0] == "one":
            results, complete = [run_schedule(case, list(root[1]))], True
        else:
            results, complete = explore(case, limit, root)
        return dict(results=[slim_result(case, r) for r in results], complete=complete, error=None)
    except Stalled as e:
        return dict(results=[], complete=False, error="STALLED: %s" % e)
    except Exception as e:
        import traceback
        return dict(results=[], complete=False, error="%s: %s\n%s" % (type(e).__name__, e, traceback.format_exc()[-1200:]))


# (chunks of the initial collection, programs[, options])
PAIRS = [          # every schedule is enumerated in both tiers
    ([2, 1], [[("fetch", 1)], [("fetch", 1)]]),
    ([2, 1], [[("fetch", 1)], [("pack",)]]),
    ([2, 1], [[("pack",)], [("read",)]]),
    ([1, 1], [[("fetch", 2)], [("read",), ("read",)]]),
    # with the additional gates (see below): every way a reader with a stale list and a packer can interleave
    ([2, 1], [[("pack",)], [("read",)]], dict(fine=True)),
]
BIG_PAIRS = [      # sampled in the quick tier, enumerated in the thorough tier
    ([1, 1, 1], [[("pack",)], [("pack",)]]),                         # two packers writing the same pack name
    ([3, 1, 1, 1, 1, 1, 1], [[("fetch", 1)], [("fetch", 1)]]),      # 9 revisions in 7 packs: the 10th triggers autopack
    ([3, 1, 1, 1, 1, 1, 1], [[("fetch", 1)], [("pack",)]]),
    ([2, 1], [[("fetch", 1), ("pack",)], [("fetch", 1)]]),
    # pack(clean_obsolete_packs=True): the final _clear_obsolete_packs() against a packer and a writer
    ([2, 1], [[("packc",)], [("fetch", 1), ("pack",)]]),
    # `fine`: additional gates before a packer reads its sources, after a reader's lock and between its
    # listing and its reads, at the start of a write group: stale plans and stale readers (RetryPackOperations,
    # RetryAutopack, reload on a missing pack)
    ([1, 1, 1], [[("pack",)], [("pack",)]], dict(fine=True)),
    ([2, 1], [[("pack",)], [("fetch", 1), ("pack",)]], dict(fine=True)),
    ([3, 1, 1, 1, 1, 1, 1], [[("fetch", 1)], [("pack",)]], dict(fine=True)),
    ([2, 1], [[("fetch", 1), ("fetch", 1)], [("packc",)]], dict(fine=True)),
    # `sources`: both actors fetch the SAME revisions (two pushes of one branch): byte-identical packs,
    # one content-hash name written by two processes
    ([2, 1], [[("fetch", 1)], [("fetch", 1)]], dict(sources=[0, 0])),
    ([2, 1], [[("fetch", 1), ("pack",)], [("fetch", 1)]], dict(sources=[0, 0])),
]
TRIPLES = [
    ([2, 1], [[("fetch", 1)], [("pack",)], [("read",)]]),
    ([1, 1, 1], [[("pack",)], [("pack",)], [("fetch", 1)]]),
    ([3, 1, 1, 1, 1, 1, 1], [[("fetch", 1)], [("fetch", 1)], [("pack",)]]),
    ([2, 1], [[("fetch", 1)], [("pack",)], [("read",)]], dict(fine=True)),
    ([2, 1], [[("fetch", 1), ("pack",)], [("fetch", 1)], [("read",)]], dict(sources=[0, 0, 2], fine=True)),
]


DIRECTED = [       # one fixed schedule each, run in both tiers: the stale party waits at its extra gate while the
    #                other actor packs and obsoletes everything, then continues (expected event in the evidence)
    (([1, 1, 1], [[("pack",)], [("pack",)]], dict(fine=True)), [0, 0] + [1] * 12, "retry:pack"),
    (([3, 1, 1, 1, 1, 1, 1], [[("fetch", 1)], [("pack",)]], dict(fine=True)), [0, 0, 0, 0] + [1] * 12, "retry:autopack"),
    (([2, 1], [[("fetch", 1), ("fetch", 1)], [("packc",)]], dict(fine=True)), [0] * 6 + [1] * 12, "reload:on-missing-pack"),
    (([2, 1], [[("pack",)], [("read",)]], dict(fine=True)), [1, 1] + [0] * 12, "reload:on-missing-pack"),
    (([2, 1], [[("pack",)], [("read",)]], dict(fine=True)), [1, 1, 1] + [0] * 12, "reload:on-missing-pack"),
]


def mk_case(entry):
    c, p = entry[0], entry[1]
    out = dict(chunks=list(c), programs=[[list(x) for x in prog] for prog in p])
    if len(entry) > 2:
        out.update(entry[2])
    return out


def _txt(x):
    return x.decode() if isinstance(x, bytes) else x


def classify(r, what):
    """family of a violation, computed from the concrete failing schedule: the only classified family is
    `same-pack-name-relisted-while-obsoleted` = a pack name (content hash) was written by two processes
    (or written again while listed) in this schedule AND every complaint of the oracle is about the
    files of exactly such a name being absent"""
    dup = set(r.get("dup_names") or [])
    if not dup:
        return None
    stems = {m.split(".")[0] for m in r["missing_files"]}
    if stems and not stems <= dup:
        return None
    blob = " ".join([what] + [e or "" for (_i, e) in r["errors"]] + list(r["final"]["problems"] or []))
    if "NoSuchFile" not in blob and not stems:
        return None
    import re
    mentioned = set(re.findall(r"[0-9a-f]{32}", blob))
    if not mentioned and not stems:
        return None
    if not mentioned <= dup:
        return None
    if any(k in blob for k in ("no longer listed", "never committed", "did not see", "livelock")):
        return None
    return "same-pack-name-relisted-while-obsoleted"


def judge(ctx, r):
    case = dict(r["case"], schedule=r["schedule"])
    ctx.case(case, nontrivial=r["branching"] >= 2)
    ctx.count("actions:%d" % (5 * (r["nactions"] // 5)))
    for ch in set(r["kinds"]):
        ctx.count("phase:" + dict(r="reload", f="finish", k="repack", s="save", o="obsolete", c="clear-all").get(ch, ch),
                  r["kinds"].count(ch))
    for ev in r["events"]:
        ctx.count(ev)
    if r["same_name_twice"]:
        ctx.count("same-pack-name-written-twice")

    def viol(what):
        ctx.violation(case, what, family=classify(r, what))
    if r["hung"]:
        viol("livelock: the schedule needs more than %d phases (an actor retries for ever)" % MAX_DECISIONS)
    for (i, e) in r["errors"]:
        viol("operation of actor %d failed: %s" % (i, e))
    fin = r["final"]
    if fin["revs"] is None:
        viol("final repository cannot be opened: %s" % "; ".join(fin["problems"][:2]))
    else:
        exp = [_txt(e) for e in r["expected"]]
        got = [_txt(e) for e in fin["revs"]]
        lost = sorted(set(exp) - set(got))
        extra = sorted(set(got) - set(exp))
        if lost and not r["errors"]:
            viol("committed revisions are no longer listed: %s" % ",".join(lost[:4]))
        if extra and not r["errors"]:
            viol("revisions listed that no completed write group committed: %s" % ",".join(extra[:4]))
        if fin["problems"]:
            viol("final repository: %s" % "; ".join(fin["problems"][:3]))
    if r["missing_files"]:
        viol("listed packs without their files: %s" % ",".join(r["missing_files"][:4]))
    for (i, ids, must, read_ok) in r["reads"]:
        ids_s = {_txt(x) for x in ids}
        must_s = {_txt(x) for x in must}
        if not must_s <= ids_s:
            viol("reader %d did not see committed revisions %s" % (i, ",".join(sorted(must_s - ids_s)[:4])))
        if set(read_ok) != ids_s:
            viol("reader %d could not read every listed revision" % i)


def compare(ctx, case, line, impl, m):
    ctx.traces += 1
    if m == "bad-op":
        ctx.mismatch(case, impl[:300], m, line=line[:600])
        return
    mm = canon_model_reply(m, len(case["programs"]))
    si, wi, vi = impl.split(" ")
    sm, wm, vm = mm.split(" ")
    if vi == "?":
        vm = "?"         # the final repository could not be listed (reported by the oracle)
    if si != sm:
        a, b = si.split("/"), sm.split("/")
        j = next((k for k in range(max(len(a), len(b))) if k >= len(a) or k >= len(b) or a[k] != b[k]), 0)
        ctx.mismatch(case, "after action %d: impl=%s" % (j, a[j] if j < len(a) else None),
                     "model=%s" % (b[j] if j < len(b) else None), line=line[:600])
    elif wi != wm:
        ctx.mismatch(case, "revisions of the packs written: impl=%s" % wi, "model=%s" % wm, line=line[:600])
    elif vi != vm:
        ctx.mismatch(case, "visible at the end: impl=%s" % vi, "model=%s" % vm, line=line[:600])
    return si == sm and wi == wm and vi == vm


def run(ctx, limit=None):
    install()
    lim_big = limit or ctx.pick(20, 600)
    lim3 = limit or ctx.pick(8, 300)
    try:
        for i in (0, 1, 2, 99):
            actor_source(i)
        for e in PAIRS + BIG_PAIRS + TRIPLES:
            base_repo(e[0])
    except Exception as e:
        from breezy import errors as _errors
        if not isinstance(e, _errors.BzrError):
            raise
        # single-process commits / fetches (with their autopacks) of the preparation already fail or lose data
        import traceback
        ctx.violation(dict(preparation="14 commits per source history, base history fetched in chunks"),
                      "building the histories failed: %s: %s | %s" % (
                          type(e).__name__, str(e)[:200],
                          " <- ".join(l.strip().split("\n")[0][-60:] for l in traceback.format_tb(e.__traceback__)[-4:])))
        return
    tasks = []
    # minimised past failures first
    cdir = os.path.join(env.VERIF, "corpus", "C05")
    for fn in sorted(os.listdir(cdir)) if os.path.isdir(cdir) else []:
        if fn.endswith(".json"):
            import json
            cc = json.load(open(os.path.join(cdir, fn)))["case"]
            e = (cc["chunks"], cc["programs"], {k: cc[k] for k in ("fine", "sources") if cc.get(k)})
            base_repo(e[0])
            tasks.append((mk_case(e), 1, ("one", tuple(cc["schedule"])), "corpus"))
    for (e, sched, _ev) in DIRECTED:
        base_repo(e[0])
        tasks.append((mk_case(e), 1, ("one", tuple(sched)), "directed"))
    for e in PAIRS:
        tasks += [(mk_case(e), 100000, [0], "all"), (mk_case(e), 100000, [1], "all")]
    for j, e in enumerate(BIG_PAIRS):
        if ctx.tier == "thorough" and limit is None:
            tasks += [(mk_case(e), lim_big // 2, [0], "big"), (mk_case(e), lim_big // 2, [1], "big"),
                      (mk_case(e), 60, ("sample", (ctx.seed, j, 0)), "big")]
        else:
            tasks += [(mk_case(e), lim_big, ("sample", (ctx.seed, j, 0)), "big")]
    for j, e in enumerate(TRIPLES):
        tasks += [(mk_case(e), lim3, ("sample", (ctx.seed, "t", j)), "3")]
    # the long tasks first (the pool hands them out one at a time)
    order = sorted(range(len(tasks)), key=lambda i: 0 if tasks[i][3] == "all" else 1)
    tasks = [tasks[i] for i in order]
    outs = ctx.pmap(explore_task, [t[:3] for t in tasks], chunksize=1)
    complete = True
    cases, lines, impls = [], [], []
    failed = []
    for (task, out) in zip(tasks, outs):
        if out["error"]:
            failed.append(out["error"])
            continue
        if task[3] == "all" and not out["complete"]:
            complete = False
        kind = dict(all="2-actors-exhaustive", big="2-actors-long", corpus="corpus", directed="directed",
                    **{"3": "3-actors"})[task[3]]
        if task[3] == "directed":
            want = next(ev for (e, sc, ev) in DIRECTED if mk_case(e) == task[0] and tuple(sc) == task[2][1])
            got = [ev for r in out["results"] for ev in r["events"]]
            ctx.extra.setdefault("directed", []).append(dict(case=task[0], schedule=list(task[2][1]), expected_event=want,
                                                             happened=want in got))
            if want not in got:
                ctx.count("directed-schedule-without-its-event")
        ctx.count("schedules:%s" % kind, len(out["results"]))
        if task[0].get("fine"):
            ctx.count("schedules:with-read-and-plan-gates", len(out["results"]))
        if task[0].get("sources"):
            ctx.count("schedules:identical-fetches", len(out["results"]))
        for r in out["results"]:
            judge(ctx, r)
            cases.append(dict(r["case"], schedule=r["schedule"]))
            lines.append(r["line"])
            impls.append(r["impl"])
    # violations of no classified family first (the first one is what the verdict line shows)
    ctx.violations.sort(key=lambda v: v["family"] is not None)
    if failed:
        # a worker crashed or a thread did not come back in time: no verdict from this run
        raise env.InfraError("C05: %d schedule task(s) did not complete: %s" % (len(failed), failed[0][:600]))
    ctx.exhaustive = complete
    ctx.extra["exhaustive_pairs"] = [mk_case(e) for e in PAIRS]
    if lines and ctx.model_available:
        outs = ctx.model(lines)
        for c, l, i, m in zip(cases, lines, impls, outs):
            compare(ctx, c, l, i, m)


def widen(ctx):
    run(ctx, limit=100)


def replay(ctx, case):
    install()
    for i in (0, 1, 2, 99):
        actor_source(i)
    c = mk_case((case["chunks"], case["programs"], {k: case[k] for k in ("fine", "sources") if case.get(k)}))
    full = dict(c, _content=pack_content(c["chunks"]))
    r = run_schedule(full, case.get("schedule", []))
    slim = slim_result(c, r)
    slim["branching"] = 2
    judge(ctx, slim)
    m = ctx.model([slim["line"]])[0]
    agree = compare(ctx, dict(c, schedule=slim["schedule"]), slim["line"], slim["impl"], m)
    return dict(case=case, actions=[(a[0], a[1]) for a in r["actions"]], agree=bool(agree), events=r["events"],
                oracle_failures=[(v["what"], v["family"]) for v in ctx.violations], final=str(r["final"])[:400])
