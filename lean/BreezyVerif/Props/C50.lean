import BreezyVerif.Lemmas.C50
import BreezyVerif.Lemmas.C50M
import BreezyVerif.Lemmas.C50W
import BreezyVerif.Lemmas.C50X
/-!
C50 — theorems about the model of `breezy/cmdline.py`.

All statements are for every command line / argument list over *all* Unicode
scalar values (no length bound) and both values of `single_quotes_allowed`.
-/
namespace BreezyVerif.C50

/-- **Mixed command lines, as callers write them.**  A command line is a
sequence of arguments, each preceded by whitespace `p.1` (any characters of the
Unicode whitespace table; non-empty except possibly before the first argument)
and optionally followed by trailing whitespace.  Each argument `p.2` is a
non-empty run of segments written without whitespace between them: `Seg.q a`
is ANY text `a` (empty, with whitespace, quotes, backslashes) quoted by the
documented rules, `Seg.w s` is a non-empty unquoted text of ordinary characters
and backslashes.  Hypothesis `itemOk`: an unquoted segment that is directly
followed by another segment does not end in a backslash (`x\"a"` is the text
`x"a"`, not `x\` + `a`); before whitespace or the end a trailing backslash is
fine (`C:\dir\ "a"`).  Then splitting yields exactly one token per argument:
the concatenation of the segment texts, reported as quoted iff the argument
starts with a quoted segment.  `foo "a b" --opt="x y" bar` is the instance
`[w foo], [q "a b"], [w --opt=, q "x y"], [w bar]`. -/
theorem tokens_mixed_line (sq : Bool) (items : List (Str × List Seg)) (trail : Str)
    (hitems : ∀ p ∈ items, p.1.all isWs = true ∧ p.2 ≠ [] ∧ itemOk sq p.2 = true)
    (hsep : ∀ p ∈ items.tail, p.1 ≠ [])
    (htrail : trail.all isWs = true) :
    tokens sq (layout sq items ++ trail) = items.map (fun p => (itemQuoted p.2, itemVal p.2)) :=
  tokens_layout sq trail htrail items hitems hsep

/-- `cmdline.split` on a mixed command line gives the argument values -/
theorem split_mixed_line (sq : Bool) (items : List (Str × List Seg)) (trail : Str)
    (hitems : ∀ p ∈ items, p.1.all isWs = true ∧ p.2 ≠ [] ∧ itemOk sq p.2 = true)
    (hsep : ∀ p ∈ items.tail, p.1 ≠ [])
    (htrail : trail.all isWs = true) :
    split sq (layout sq items ++ trail) = items.map (fun p => itemVal p.2) := by
  simp [split, tokens_mixed_line sq items trail hitems hsep htrail, Function.comp_def]

/-- non-vacuity of the hypotheses, and what the layout looks like:
`<TAB>--using="my \"tool\"\\" <U+3000>C:\dir\ ""<NBSP><LF>"a b"c\d"'"<CR>`
(single quotes off: `'` is an ordinary character) -/
example :
    let items : List (Str × List Seg) :=
      [(['\t'], [.w "--using=".toList, .q "my \"tool\"\\".toList]),
       (" \u3000".toList, [.w "C:\\dir\\".toList]),
       ([' '], [.q []]),
       ("\u00a0\n".toList, [.q "a b".toList, .w "c\\d".toList, .q ['\'']])]
    (∀ p ∈ items, p.1.all isWs = true ∧ p.2 ≠ [] ∧ itemOk false p.2 = true)
      ∧ (∀ p ∈ items.tail, p.1 ≠ []) ∧ ['\r'].all isWs = true
      ∧ layout false items ++ ['\r']
        = "\t--using=\"my \\\"tool\\\"\\\\\" \u3000C:\\dir\\ \"\"\u00a0\n\"a b\"c\\d\"'\"\r".toList
      ∧ tokens false (layout false items ++ ['\r'])
        = [(false, "--using=my \"tool\"\\".toList), (false, "C:\\dir\\".toList), (true, []),
           (true, "a bc\\d'".toList)] := by decide

/-- the hypothesis on unquoted segments is needed: `x\` directly followed by
`"a"` is read as the single text `x"a"` with an unterminated quote -/
example : itemOk true [.w "x\\".toList, .q ['a']] = false
    ∧ tokens true (layout true [([], [.w "x\\".toList, .q ['a']])]) = [(false, "x\"a".toList)] := by
  decide

/-- **Arguments and plain words** (the special case with one segment per
argument): every item is either `quote a` for an arbitrary `a` or a non-empty
word of ordinary characters / backslashes, items are separated by arbitrary
non-empty whitespace; splitting yields `a` (quoted) resp. the word (unquoted). -/
theorem tokens_args_and_words (sq : Bool) (items : List (Str × Seg)) (trail : Str)
    (hitems : ∀ p ∈ items, p.1.all isWs = true ∧ itemOk sq [p.2] = true)
    (hsep : ∀ p ∈ items.tail, p.1 ≠ [])
    (htrail : trail.all isWs = true) :
    tokens sq (layout sq (items.map fun p => (p.1, [p.2])) ++ trail)
      = items.map (fun p => match p.2 with
          | .q a => (true, a)
          | .w s => (false, s)) := by
  rw [tokens_layout sq trail htrail]
  · rw [List.map_map]
    apply List.map_congr_left
    intro p _
    cases h : p.2 <;> simp [h, itemQuoted, itemVal, Seg.val]
  · intro p hp
    simp only [List.mem_map] at hp
    obtain ⟨q, hq, rfl⟩ := hp
    exact ⟨(hitems q hq).1, by simp, (hitems q hq).2⟩
  · intro p hp
    rw [← List.map_tail, List.mem_map] at hp
    obtain ⟨q, hq, rfl⟩ := hp
    exact hsep q hq

/-- non-vacuity: `foo "a b"<TAB>\\host\x<U+3000>""` -/
example :
    let items : List (Str × Seg) :=
      [([], .w "foo".toList), ([' '], .q "a b".toList), (['\t'], .w "\\\\host\\x".toList),
       (['\u3000'], .q [])]
    (∀ p ∈ items, p.1.all isWs = true ∧ itemOk true [p.2] = true)
      ∧ (∀ p ∈ items.tail, p.1 ≠ [])
      ∧ layout true (items.map fun p => (p.1, [p.2]))
        = "foo \"a b\"\t\\\\host\\x\u3000\"\"".toList := by decide

/-- **Round trip with arbitrary whitespace.**  Every list of arguments (any
characters, including the empty argument), each quoted by the documented rules
and preceded by arbitrary whitespace (non-empty between arguments; optional
before the first and after the last), is split back into exactly the same
list; every token is reported as quoted. -/
theorem tokens_join_quote_ws (sq : Bool) (items : List (Str × Str)) (trail : Str)
    (hws : ∀ p ∈ items, p.1.all isWs = true)
    (hsep : ∀ p ∈ items.tail, p.1 ≠ [])
    (htrail : trail.all isWs = true) :
    tokens sq (layout sq (items.map fun p => (p.1, [Seg.q p.2])) ++ trail)
      = items.map (fun p => (true, p.2)) := by
  have h := tokens_args_and_words sq (items.map fun p => (p.1, Seg.q p.2)) trail
    (by
      intro p hp
      simp only [List.mem_map] at hp
      obtain ⟨q, hq, rfl⟩ := hp
      exact ⟨hws q hq, by simp [itemOk]⟩)
    (by
      intro p hp
      rw [← List.map_tail, List.mem_map] at hp
      obtain ⟨q, hq, rfl⟩ := hp
      exact hsep q hq)
    htrail
  simpa [List.map_map, Function.comp_def] using h

theorem split_join_quote_ws (sq : Bool) (items : List (Str × Str)) (trail : Str)
    (hws : ∀ p ∈ items, p.1.all isWs = true)
    (hsep : ∀ p ∈ items.tail, p.1 ≠ [])
    (htrail : trail.all isWs = true) :
    split sq (layout sq (items.map fun p => (p.1, [Seg.q p.2])) ++ trail) = items.map (·.2) := by
  simp [split, tokens_join_quote_ws sq items trail hws hsep htrail, Function.comp_def]

/-- non-vacuity: `<LF>"a b"<TAB><NBSP>""<U+2003>"\\"<U+3000>` -/
example :
    let items : List (Str × Str) := [(['\n'], "a b".toList), ("\t\u00a0".toList, []), (['\u2003'], ['\\'])]
    (∀ p ∈ items, p.1.all isWs = true) ∧ (∀ p ∈ items.tail, p.1 ≠ []) ∧ ['\u3000'].all isWs = true
      ∧ layout true (items.map fun p => (p.1, [Seg.q p.2])) ++ ['\u3000']
        = "\n\"a b\"\t\u00a0\"\"\u2003\"\\\\\"\u3000".toList := by decide

/-- **Round trip** (the property as stated: joined with single spaces).  Every
list of arguments (any characters, including whitespace, quotes, backslashes
and the empty argument), each quoted by the documented rules and joined with
single spaces, is split back into exactly the same list; every token is
reported as quoted.  Instance of `tokens_mixed_line` (`joinSp_layout`). -/
theorem tokens_join_quote (sq : Bool) (args : List Str) :
    tokens sq (joinSp (args.map (quote sq))) = args.map (fun a => (true, a)) := by
  have h := tokens_layout sq [] rfl (spItems args)
    (by
      intro p hp
      cases args with
      | nil => simp [spItems] at hp
      | cons a r =>
        simp only [spItems, List.mem_cons, List.mem_map] at hp
        rcases hp with rfl | ⟨b, _, rfl⟩ <;> simp [itemOk])
    (by
      intro p hp
      cases args with
      | nil => simp [spItems] at hp
      | cons a r =>
        simp only [spItems, List.tail_cons, List.mem_map] at hp
        obtain ⟨b, _, rfl⟩ := hp
        simp)
  rw [joinSp_layout, ← List.append_nil (layout sq (spItems args)), h]
  cases args <;> simp [spItems, itemQuoted, itemVal, Seg.val, Function.comp_def]

/-- `cmdline.split(" ".join(quote(a) for a in args)) == args` -/
theorem split_join_quote (sq : Bool) (args : List Str) :
    split sq (joinSp (args.map (quote sq))) = args := by
  simp [split, tokens_join_quote, Function.comp_def]

/-- non-vacuity: an argument list with every special character and an empty
argument really is quoted into something non-trivial and comes back -/
example : joinSp (["a b".toList, [], "\\\"'\\".toList].map (quote true))
      = "\"a b\" \"\" \"\\\\\\\"'\\\\\"".toList
    ∧ split true (joinSp (["a b".toList, [], "\\\"'\\".toList].map (quote true)))
      = ["a b".toList, [], "\\\"'\\".toList] := by decide

/-- **Unquoted words.**  Non-empty words made of characters outside the quoting
syntax and of backslashes (literal when no quote follows), separated by
arbitrary non-empty whitespace (any Unicode whitespace), with optional leading
and trailing whitespace, are split into exactly these words, none reported as
quoted.  `items` are (separator-before, word) pairs. -/
theorem split_unquoted_words (sq : Bool) (items : List (Str × Str)) (trail : Str)
    (hitems : ∀ p ∈ items, p.1.all isWs = true ∧ p.2 ≠ [] ∧ p.2.all (wordChar sq) = true)
    (hsep : ∀ p ∈ items.tail, p.1 ≠ [])
    (htrail : trail.all isWs = true) :
    tokens sq (wsJoin items ++ trail) = items.map (fun p => (false, p.2)) :=
  tokens_wsJoin sq trail htrail items hitems hsep

/-- non-vacuity of the hypotheses: `\tfoo\\  \u3000\\\\host\\x\n` -/
example :
    let items : List (Str × Str) := [(['\t'], "foo\\".toList), ("  \u3000".toList, "\\\\host\\x".toList)]
    (∀ p ∈ items, p.1.all isWs = true ∧ p.2 ≠ [] ∧ p.2.all (wordChar true) = true)
      ∧ (∀ p ∈ items.tail, p.1 ≠ []) ∧ ['\n'].all isWs = true
      ∧ wsJoin items ++ ['\n'] = "\tfoo\\  \u3000\\\\host\\x\n".toList := by decide

/-- **Nothing invented.**  The concatenation of the tokens is a subsequence of
the command line. -/
theorem split_sublist (sq : Bool) (s : Str) : (split sq s).flatten.Sublist s := by
  have h := run_sublist sq s (.at (.plain .ws)) {}
  simpa [split, tokens, flat, pend] using h

/-- **Nothing lost outside the quoting syntax.**  The characters that are not
whitespace, allowed quote characters or backslashes survive, in order. -/
theorem split_keeps_plain (sq : Bool) (s : Str) :
    (split sq s).flatten.filter (plain sq) = s.filter (plain sq) := by
  have h := run_plain sq s (.at (.plain .ws)) {} (inv_start sq)
  simpa [split, tokens, flat] using h

/-- an unquoted token is never empty (`result` / StopIteration rule) -/
theorem tokens_unquoted_nonempty (sq : Bool) (s : Str) :
    ∀ t ∈ tokens sq s, t.1 = true ∨ t.2 ≠ [] := by
  have emit_ok : ∀ (x : Ctx) (rest : List (Bool × Str)),
      (∀ t ∈ rest, t.1 = true ∨ t.2 ≠ []) → ∀ t ∈ emit x rest, t.1 = true ∨ t.2 ≠ [] := by
    intro x rest hr t ht
    unfold emit at ht
    cases hres : result x with
    | none => simp [hres] at ht
    | some u =>
      simp only [hres, List.mem_cons] at ht
      rcases ht with rfl | ht
      · unfold result at hres
        split at hres
        · simp at hres
        · rename_i hc
          simp only [Option.some.injEq] at hres; subst hres
          cases hq : x.quoted
          · right
            simp only [hq, Bool.not_false, Bool.true_and, List.isEmpty_iff] at hc
            exact hc
          · left; rfl
      · exact hr t ht
  have gen : ∀ (s : Str) (st : State) (x : Ctx), ∀ t ∈ run sq st x s, t.1 = true ∨ t.2 ≠ [] := by
    intro s
    induction s with
    | nil => intro st x; rw [run_nil]; exact emit_ok _ _ (by simp)
    | cons c cs ih =>
      intro st x
      rw [run_cons]
      generalize step1 sq st x c = r
      obtain ⟨o, x'⟩ := r
      cases o with
      | some st' => exact ih st' x'
      | none => exact emit_ok _ _ (ih _ _)
  exact gen s _ _

/-- **Totality of the literal machine.**  The transcription of the Python
classes with the explicit push-back stack, the token as a list of appended
pieces and the `for next_char in self.seq` loop (fuel `2·len + 2`) never runs
out of fuel and computes exactly `tokens`; hence all theorems above hold for
it. -/
theorem split_total (sq : Bool) (s : Str) : splitM sq s = some (split sq s) := by
  simp [splitM, split, mTokens_eq sq s]

end BreezyVerif.C50

namespace BreezyVerif.C50

/-- the round trip, stated for the literal machine -/
theorem splitM_join_quote (sq : Bool) (args : List Str) :
    splitM sq (joinSp (args.map (quote sq))) = some args := by
  rw [split_total, split_join_quote]

/-- mixed command lines, stated for the literal machine -/
theorem splitM_mixed_line (sq : Bool) (items : List (Str × List Seg)) (trail : Str)
    (hitems : ∀ p ∈ items, p.1.all isWs = true ∧ p.2 ≠ [] ∧ itemOk sq p.2 = true)
    (hsep : ∀ p ∈ items.tail, p.1 ≠ [])
    (htrail : trail.all isWs = true) :
    splitM sq (layout sq items ++ trail) = some (items.map (fun p => itemVal p.2)) := by
  rw [split_total, split_mixed_line sq items trail hitems hsep htrail]

/-- the whitespace-general round trip, stated for the literal machine -/
theorem splitM_join_quote_ws (sq : Bool) (items : List (Str × Str)) (trail : Str)
    (hws : ∀ p ∈ items, p.1.all isWs = true)
    (hsep : ∀ p ∈ items.tail, p.1 ≠ [])
    (htrail : trail.all isWs = true) :
    splitM sq (layout sq (items.map fun p => (p.1, [Seg.q p.2])) ++ trail) = some (items.map (·.2)) := by
  rw [split_total, split_join_quote_ws sq items trail hws hsep htrail]

/-- examples from `test_cmdline.py` evaluated in the model (both machines) -/
example : tokens false "\"\\\\\\\\\" *.py".toList = [(true, "\\\\".toList), (false, "*.py".toList)]
    ∧ mTokens false "\\\\\\\\\\\" *.py".toList = some [(false, "\\\\\"".toList), (false, "*.py".toList)]
    ∧ tokens true "a '' c".toList = [(false, ['a']), (true, []), (false, ['c'])]
    ∧ tokens false "''".toList = [(false, "''".toList)] := by decide

end BreezyVerif.C50
