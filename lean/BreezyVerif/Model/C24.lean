import BreezyVerif.Common
/-
C24 — tag transfer and tag-dictionary persistence.

Part 1: literal model of `breezy/tag.py: _reconcile_tags`, `InterTags._merge_to`
and `InterTags.merge` over Python dicts, which are modelled as insertion-ordered
association lists (`dget` = first match, `dset` = replace in place or append:
exactly the observable behaviour of `d.get(k)`, `d[k] = v` and `d.items()`).

Part 2: byte-level model of `breezy/bzr/tag.py: BasicTags._serialize_tag_dict /
_deserialize_tag_dict`: bencode of a flat dict of byte strings (the only shape
the serialiser produces).  A Python `str` tag name is represented by its UTF-8
encoding, so `k.encode("utf-8")` is the identity and `k.decode("utf-8")` is the
validity check `validUTF8`.
-/
namespace BreezyVerif.C24

/-! ## Python dicts -/

abbrev Dict (κ ν : Type) := List (κ × ν)

section dict
variable {κ ν : Type} [DecidableEq κ]

/-- `d.get(n)` -/
def dget : Dict κ ν → κ → Option ν
  | [], _ => none
  | (k, v) :: r, n => if k = n then some v else dget r n

/-- `d[n] = x` (an existing key keeps its position) -/
def dset : Dict κ ν → κ → ν → Dict κ ν
  | [], n, x => [(n, x)]
  | (k, v) :: r, n, x => if k = n then (k, x) :: r else (k, v) :: dset r n x

def dkeys (d : Dict κ ν) : List κ := d.map Prod.fst

/-- `a.update(b)` -/
def dupdate (a b : Dict κ ν) : Dict κ ν := b.foldl (fun acc e => dset acc e.1 e.2) a

end dict

/-! ## `_reconcile_tags` -/

/-- which branch of the loop body is taken -/
inductive Kind where
  | skip | same | take | conflict
  deriving DecidableEq, Repr

/-- The branch structure of the loop body of `_reconcile_tags`:
```
if selector and not selector(name): continue
if result.get(name) == target: pass
elif name not in result or overwrite: updates[name] = target; result[name] = target
else: conflicts.append((name, target, result[name]))
```
-/
def stepKind (hasSel selOk same present overwrite : Bool) : Kind :=
  if hasSel && !selOk then .skip
  else if same then .same
  else if !present || overwrite then .take
  else .conflict

structure Rec (κ ν : Type) where
  result : Dict κ ν
  updates : Dict κ ν
  conflicts : List (κ × ν × ν)

section reconcile
variable {κ ν : Type} [DecidableEq κ] [DecidableEq ν]

/-- `selector(name)` for an optional selector (`None` selects everything) -/
def selected (sel : Option (κ → Bool)) (n : κ) : Bool :=
  match sel with
  | none => true
  | some f => f n

def step (ow : Bool) (sel : Option (κ → Bool)) (st : Rec κ ν) (e : κ × ν) : Rec κ ν :=
  let cur := dget st.result e.1
  match stepKind sel.isSome (selected sel e.1) (cur == some e.2) cur.isSome ow with
  | .skip => st
  | .same => st
  | .take => { st with result := dset st.result e.1 e.2, updates := dset st.updates e.1 e.2 }
  | .conflict =>
    match cur with
    | some d => { st with conflicts := st.conflicts ++ [(e.1, e.2, d)] }
    | none => st   -- unreachable (`conflict` needs `present`); Python would raise KeyError

/-- `_reconcile_tags(source_dict, dest_dict, overwrite, selector)` -/
def reconcile (src dst : Dict κ ν) (ow : Bool) (sel : Option (κ → Bool)) : Rec κ ν :=
  src.foldl (step ow sel) ⟨dst, [], []⟩

/-- Python `a != b` on dicts (order-insensitive); keys of both are unique -/
def dictNe (a b : Dict κ ν) : Bool :=
  !(a.length == b.length && a.all fun e => dget b e.1 == some e.2)

/-- `InterTags._merge_to`: returns (stored dict, updates, conflicts) -/
def mergeTo (dst src : Dict κ ν) (ow : Bool) (sel : Option (κ → Bool)) :
    Dict κ ν × Dict κ ν × List (κ × ν × ν) :=
  let r := reconcile src dst ow sel
  ((if dictNe r.result dst then r.result else dst), r.updates, r.conflicts)

structure MergeOut (κ ν : Type) where
  target : Dict κ ν
  master : Option (Dict κ ν)
  updates : Dict κ ν
  /-- `set(conflicts)`: duplicates removed (order is not observable) -/
  conflicts : List (κ × ν × ν)

/-- `InterTags.merge`.  `sameBranch`: source.branch == target.branch;
`supports`: source.branch.supports_tags(); `master`: tag dict of the target's
master branch if it has one. -/
def merge (sameBranch supports : Bool) (src tgt : Dict κ ν) (master : Option (Dict κ ν))
    (ow ignoreMaster : Bool) (sel : Option (κ → Bool)) : MergeOut κ ν :=
  if sameBranch || !supports || src.isEmpty then ⟨tgt, master, [], []⟩
  else
    let (t', u1, c1) := mergeTo tgt src ow sel
    match (if ignoreMaster then none else master) with
    | none => ⟨t', master, u1, c1.eraseDups⟩
    | some m =>
      let (m', u2, c2) := mergeTo m src ow sel
      ⟨t', some m', dupdate u1 u2, (c1 ++ c2).eraseDups⟩

end reconcile

/-! ## local git tag stores (`breezy/git/branch.py`)

A local git repository stores a tag as the ref `refs/tags/<name>` holding a sha;
`git-v1:<sha>` ↔ sha is a bijection, so the raw refs are modelled as a `Dict`
from tag names to revision ids.  Only lightweight tags are modelled. -/

/-- how the destination git repository sees a revision id -/
inductive RevClass where
  /-- the revision id of a commit that is in the repository -/
  | commit
  /-- not a git revision id: `lookup_bzr_revision_id` raises `NoSuchRevision`,
  `LocalGitTagDict.set_tag` raises `GhostTagsNotSupported` -/
  | ghost
  /-- a well-formed git revision id whose object is not in the repository -/
  | absent
  deriving DecidableEq, Repr

def RevClass.isCommit : RevClass → Bool
  | .commit => true
  | _ => false

/-- does `LocalGitTagDict._set_tag_dict` write the ref of one tag (`true`) or
skip the tag (`false`: `set_tag` raised `GhostTagsNotSupported`, suppressed)?
`strict` = revisions that are absent from the repository are refused as well
(what `set_tag`'s docstring promises).  The code is probed on every run to
select the variant it implements. -/
def setTagWrites (strict : Bool) : RevClass → Bool
  | .commit => true
  | .ghost => false
  | .absent => !strict

section git
variable {κ ν : Type} [DecidableEq κ] [DecidableEq ν]

/-- `del d[k]` -/
def ddel (d : Dict κ ν) (k : κ) : Dict κ ν := d.filter fun e => !(e.1 == k)

/-- `GitTags.get_tag_dict`: a tag ref whose object is missing is skipped
(`LocalGitBranch._iter_tag_refs`: `KeyError` → warning, `continue`) -/
def gitRead (cls : ν → RevClass) (refs : Dict κ ν) : Dict κ ν :=
  refs.filter fun e => (cls e.2).isCommit

/-- loop body of `LocalGitTagDict._set_tag_dict`; state = (refs, extra):
```
name = tag_name_to_ref(k)
if name in extra: extra.remove(name)
with contextlib.suppress(errors.GhostTagsNotSupported): self.set_tag(k, revid)
```
The `suppress` is per tag: a ghost skips that tag only. -/
def gitSetStep (strict : Bool) (cls : ν → RevClass) (st : Dict κ ν × List κ) (e : κ × ν) :
    Dict κ ν × List κ :=
  (if setTagWrites strict (cls e.2) then dset st.1 e.1 e.2 else st.1,
   st.2.filter fun x => !(x == e.1))

/-- `LocalGitTagDict._set_tag_dict(to_dict)`: write every tag that can be
written, then delete the tag refs that are not named in `to_dict` -/
def gitSetTagDict (strict : Bool) (cls : ν → RevClass) (refs to : Dict κ ν) : Dict κ ν :=
  let st := to.foldl (gitSetStep strict cls) (refs, dkeys refs)
  st.2.foldl ddel st.1

/-- `MemoryTags.merge_to` / `InterTags._merge_to` onto a local git store:
returns (raw refs afterwards, updates, conflicts) -/
def gitMergeTo (strict : Bool) (cls : ν → RevClass) (refs src : Dict κ ν) (ow : Bool)
    (sel : Option (κ → Bool)) : Dict κ ν × Dict κ ν × List (κ × ν × ν) :=
  let dest := gitRead cls refs
  let r := reconcile src dest ow sel
  ((if dictNe r.result dest then gitSetTagDict strict cls refs r.result else refs),
   r.updates, r.conflicts)

structure G2G (κ ν : Type) where
  refs : Dict κ ν
  updates : Dict κ ν
  conflicts : List (κ × ν × ν)

/-- loop body of `InterTagsFromGitToLocalGit.merge` (lightweight tags):
```
if selector and not selector(tag_name): continue
if target_repo._git.refs.get(ref_name) == unpeeled: pass
elif overwrite or ref_name not in target_repo._git.refs:
    try: updates[tag_name] = target_repo.lookup_foreign_revision_id(peeled)
    except KeyError: continue            # commit not in the target repository
    target_repo._git.refs[ref_name] = unpeeled or peeled
else:
    try: target_revid = target_repo.lookup_foreign_revision_id(target_repo._git.refs[ref_name])
    except KeyError: continue            # the target's ref is broken
    conflicts.append((tag_name, source_revid, target_revid))
```
`cls` classifies with respect to the *target* repository. -/
def g2gStep (cls : ν → RevClass) (ow : Bool) (sel : Option (κ → Bool)) (st : G2G κ ν) (e : κ × ν) :
    G2G κ ν :=
  if !selected sel e.1 then st
  else
    let take : G2G κ ν :=
      if (cls e.2).isCommit then
        { st with refs := dset st.refs e.1 e.2, updates := dset st.updates e.1 e.2 }
      else st
    match dget st.refs e.1 with
    | none => take
    | some w =>
      if w = e.2 then st
      else if ow then take
      else if (cls w).isCommit then { st with conflicts := st.conflicts ++ [(e.1, e.2, w)] }
      else st

/-- `InterTagsFromGitToLocalGit.merge`: `src` = the source's readable tags,
`refs` = the target's raw tag refs -/
def gitToGit (cls : ν → RevClass) (refs src : Dict κ ν) (ow : Bool) (sel : Option (κ → Bool)) :
    G2G κ ν :=
  src.foldl (g2gStep cls ow sel) ⟨refs, [], []⟩

end git

/-! ## bencode of a flat byte-string dict -/

/-- digits of `n`, least significant first (`fuel > n` suffices) -/
def digitsRev : Nat → Nat → List Nat
  | 0, _ => []
  | f + 1, n => if n < 10 then [n] else (n % 10) :: digitsRev f (n / 10)

/-- `b"%d" % n` -/
def dec (n : Nat) : Bytes := (digitsRev (n + 1) n).reverse.map fun d => UInt8.ofNat (48 + d)

def isDigit (b : UInt8) : Bool := 48 ≤ b.toNat && b.toNat ≤ 57

/-- value of a most-significant-first digit string -/
def digitsVal (ds : Bytes) : Nat := ds.foldl (fun a d => a * 10 + (d.toNat - 48)) 0

/-- `<decimal length>:`; no sign, no blanks, no leading zeros -/
def parseLen (inp : Bytes) : Option (Nat × Bytes) :=
  let ds := inp.takeWhile isDigit
  match inp.dropWhile isDigit with
  | 58 :: rest =>
    match ds with
    | [] => none
    | [_] => some (digitsVal ds, rest)
    | d :: _ :: _ => if d = 48 then none else some (digitsVal ds, rest)
  | _ => none

def encStr (b : Bytes) : Bytes := dec b.length ++ 58 :: b

def decStr (inp : Bytes) : Option (Bytes × Bytes) :=
  match parseLen inp with
  | none => none
  | some (n, rest) => if rest.length < n then none else some (rest.take n, rest.drop n)

/-- Python `a < b` on `bytes` -/
def bytesLt : Bytes → Bytes → Bool
  | [], [] => false
  | [], _ :: _ => true
  | _ :: _, [] => false
  | a :: as, b :: bs => if a.toNat < b.toNat then true else if a = b then bytesLt as bs else false

def insertKV (e : Bytes × Bytes) : Dict Bytes Bytes → Dict Bytes Bytes
  | [] => [e]
  | x :: r => if bytesLt e.1 x.1 then e :: x :: r else x :: insertKV e r

/-- `sorted(d.items())` (keys are unique) -/
def sortKV (d : Dict Bytes Bytes) : Dict Bytes Bytes := d.foldr insertKV []

def encItems (d : Dict Bytes Bytes) : Bytes := d.flatMap fun e => encStr e.1 ++ encStr e.2

/-- `bencode.bencode({k: v, ...})` -/
def encDict (d : Dict Bytes Bytes) : Bytes := 100 :: (encItems (sortKV d) ++ [101])

inductive DecErr where
  /-- `ValueError` -/
  | malformed
  /-- well-formed-so-far bencode outside the modelled fragment (a value that is
  an int, a list or a dict; a top-level value that is not a dict) -/
  | unsupported
  deriving DecidableEq, Repr

/-- items of a dict up to and including the closing `e` -/
def decItems : Nat → Option Bytes → Bytes → Except DecErr (Dict Bytes Bytes × Bytes)
  | 0, _, _ => .error .malformed
  | f + 1, last, inp =>
    match inp with
    | [] => .error .malformed
    | c0 :: rest0 =>
      if c0 = 101 then .ok ([], rest0)
      else
        match decStr inp with
        | none => .error .malformed
        | some (k, r1) =>
          if (match last with | some l => !bytesLt l k | none => false) then .error .malformed
          else
            match r1 with
            | [] => .error .malformed
            | c :: _ =>
              if c = 105 || c = 108 || c = 100 then .error .unsupported
              else
                match decStr r1 with
                | none => .error .malformed
                | some (v, r2) =>
                  match decItems f (some k) r2 with
                  | .error e => .error e
                  | .ok (items, rest) => .ok ((k, v) :: items, rest)

/-- `bencode.bdecode(inp)` restricted to flat byte-string dicts -/
def decode (inp : Bytes) : Except DecErr (Dict Bytes Bytes) :=
  match inp with
  | [] => .error .malformed
  | 100 :: rest =>
    match decItems (rest.length + 1) none rest with
    | .error e => .error e
    | .ok (items, []) => .ok items
    | .ok (_, _ :: _) => .error .malformed
  | c :: _ => if isDigit c || c = 105 || c = 108 then .error .unsupported else .error .malformed

/-- strict UTF-8 validity (no overlong forms, no surrogates, ≤ U+10FFFF) -/
def validUTF8 : Bytes → Bool
  | [] => true
  | b0 :: rest =>
    let cont (b : UInt8) : Bool := 0x80 ≤ b.toNat && b.toNat ≤ 0xBF
    let n0 := b0.toNat
    if n0 ≤ 0x7F then validUTF8 rest
    else match rest with
      | [] => false
      | b1 :: rest1 =>
        let n1 := b1.toNat
        if 0xC2 ≤ n0 && n0 ≤ 0xDF then cont b1 && validUTF8 rest1
        else match rest1 with
          | [] => false
          | b2 :: rest2 =>
            if n0 = 0xE0 then (0xA0 ≤ n1 && n1 ≤ 0xBF) && cont b2 && validUTF8 rest2
            else if n0 = 0xED then (0x80 ≤ n1 && n1 ≤ 0x9F) && cont b2 && validUTF8 rest2
            else if 0xE1 ≤ n0 && n0 ≤ 0xEF then cont b1 && cont b2 && validUTF8 rest2
            else match rest2 with
              | [] => false
              | b3 :: rest3 =>
                if n0 = 0xF0 then (0x90 ≤ n1 && n1 ≤ 0xBF) && cont b2 && cont b3 && validUTF8 rest3
                else if 0xF1 ≤ n0 && n0 ≤ 0xF3 then cont b1 && cont b2 && cont b3 && validUTF8 rest3
                else if n0 = 0xF4 then (0x80 ≤ n1 && n1 ≤ 0x8F) && cont b2 && cont b3 && validUTF8 rest3
                else false

/-- `BasicTags._serialize_tag_dict` (names given by their UTF-8 encoding) -/
def serialize (d : Dict Bytes Bytes) : Bytes := encDict d

/-- `BasicTags._deserialize_tag_dict` -/
def deserialize (content : Bytes) : Except DecErr (Dict Bytes Bytes) :=
  if content.isEmpty then .ok []
  else
    match decode content with
    | .error e => .error e
    | .ok items => if items.all (fun e => validUTF8 e.1) then .ok items else .error .malformed

end BreezyVerif.C24
