import BreezyVerif.Common
import BreezyVerif.Model.C37
namespace BreezyVerif.C37

/-! Line protocol.  A store is two fields: loose entries `name:S<sha>` or
`name:R<target>` and packed entries `name:<sha>`, comma separated (`-` empty).
Replies list the entries sorted by name. -/

def pVal (s : String) : Option Val :=
  match s.toList with
  | 'S' :: r => (String.ofList r).toNat?.map Val.sha
  | 'R' :: r => (String.ofList r).toNat?.map Val.sym
  | _ => none

def pLoose (s : String) : Option (List (Nat × Val)) :=
  (splitList s).mapM fun e =>
    match e.splitOn ":" with
    | [k, v] => match k.toNat?, pVal v with
      | some k, some v => some (k, v)
      | _, _ => none
    | _ => none

def pPacked (s : String) : Option (List (Nat × Nat)) :=
  (splitList s).mapM fun e =>
    match e.splitOn ":" with
    | [k, v] => match k.toNat?, v.toNat? with
      | some k, some v => some (k, v)
      | _, _ => none
    | _ => none

def pStore (l p : String) : Option Store :=
  match pLoose l, pPacked p with
  | some l, some p => some ⟨l, p⟩
  | _, _ => none

def insSorted {β : Type} (e : Nat × β) : List (Nat × β) → List (Nat × β)
  | [] => [e]
  | x :: xs => if e.1 ≤ x.1 then e :: x :: xs else x :: insSorted e xs

def sortK {β : Type} (l : List (Nat × β)) : List (Nat × β) := l.foldr insSorted []

def sVal : Val → String
  | .sha x => "S" ++ toString x
  | .sym t => "R" ++ toString t

def sStore (s : Store) : String :=
  joinList ((sortK s.loose).map fun e => toString e.1 ++ ":" ++ sVal e.2) ++ " " ++
  joinList ((sortK s.packed).map fun e => toString e.1 ++ ":" ++ toString e.2)

def sRes (r : Bool × Store) : String := showBool r.1 ++ " " ++ sStore r.2

def pUpd (s : String) : Option Upd :=
  match parseNatList s with
  | some [n, o, w] => some ⟨.set, n, o, w⟩
  | some [0, n, o, w] => some ⟨.set, n, o, w⟩
  | some [1, n, o, w] => some ⟨.add, n, o, w⟩
  | some [2, n, o, w] => some ⟨.rm, n, o, w⟩
  | _ => none

def sPhase : Phase → String
  | .idle => "idle"
  | .willWrite r => "will:" ++ toString r
  | .willDel n => "del:" ++ toString n
  | .done b => "done:" ++ showBool b
  | .raised => "raised"

def pSched (s : String) : Option (List Bool) :=
  if s == "-" then some [] else s.toList.mapM fun c => if c == 'A' then some false else if c == 'B' then some true else none

/-- a packed-refs cache: `~` = not loaded, else a packed field -/
def pCache (s : String) : Option Cache :=
  if s == "~" then some none else (pPacked s).map some

def sCache : Cache → String
  | none => "~"
  | some p => joinList ((sortK p).map fun e => toString e.1 ++ ":" ++ toString e.2)

/-- one operation: `s:n:old:new`, `r:n:old`, `a:n:v`, `p:n` (`old` = `~` for None) -/
def pOp (s : String) : Option Op :=
  match s.splitOn ":" with
  | ["s", n, old, new] =>
    match n.toNat?, optNat old, new.toNat? with
    | some n, some old, some new => some (.set n old new)
    | _, _, _ => none
  | ["r", n, old] =>
    match n.toNat?, optNat old with
    | some n, some old => some (.rm n old)
    | _, _ => none
  | ["a", n, v] =>
    match n.toNat?, v.toNat? with
    | some n, some v => some (.add n v)
    | _, _ => none
  | ["p", n] => n.toNat?.map Op.pack
  | _ => none

def sResC : Res → String
  | .ok b => showBool b
  | .loop => "E:Loop"

/-- `A<op>` / `B<op>` items separated by `;` -/
def pActs (s : String) : Option (List (Bool × Op)) :=
  if s == "-" then some [] else
  (s.splitOn ";").mapM fun e =>
    match e.toList with
    | 'A' :: r => (pOp (String.ofList r)).map fun o => (false, o)
    | 'B' :: r => (pOp (String.ofList r)).map fun o => (true, o)
    | _ => none

def sStep (r : Res × Store × Cache) : String := sResC r.1 ++ " " ++ sStore r.2.1 ++ " " ++ sCache r.2.2

def handle : List String → String
  | ["set", l, p, n, old, new] =>
    match pStore l p, n.toNat?, optNat old, new.toNat? with
    | some s, some n, some old, some new => sRes (setIfEquals s n old new)
    | _, _, _, _ => "bad-op"
  | ["setL", l, p, n, old, new] =>
    match pStore l p, n.toNat?, optNat old, new.toNat? with
    | some s, some n, some old, some new => sRes (setIfEqualsLegacy s n old new)
    | _, _, _, _ => "bad-op"
  | ["rm", l, p, n, old] =>
    match pStore l p, n.toNat?, optNat old with
    | some s, some n, some old => sRes (removeIfEquals s n old)
    | _, _, _ => "bad-op"
  | ["rmL", c, l, p, n, old] =>
    match parseBool c, pStore l p, n.toNat?, optNat old with
    | some c, some s, some n, some old => sRes (removeIfEqualsLegacy c s n old)
    | _, _, _, _ => "bad-op"
  | ["add", l, p, n, v] =>
    match pStore l p, n.toNat?, v.toNat? with
    | some s, some n, some v => (match addIfNew s n v with | some r => sRes r | none => "E:Loop")
    | _, _, _ => "bad-op"
  | ["follow", l, p, n] =>
    match pStore l p, n.toNat? with
    | some s, some n =>
      (match follow s n with
       | some (names, r) => joinList (names.map toString) ++ " " ++ showOptNat r
       | none => "E:Loop")
    | _, _ => "bad-op"
  | ["sched", l, p, a, b, sch] =>
    match pStore l p, pUpd a, pUpd b, pSched sch with
    | some s, some a, some b, some sch =>
      let r := runSched a b sch (s, .idle, .idle)
      sStore r.1 ++ " " ++ sPhase r.2.1 ++ " " ++ sPhase r.2.2
    | _, _, _, _ => "bad-op"
  | ["stepc", c, l, p, op] =>
    match pCache c, pStore l p, pOp op with
    | some c, some s, some op => sStep (stepC c s op)
    | _, _, _ => "bad-op"
  | ["stepf", c, l, p, op] =>
    match pCache c, pStore l p, pOp op with
    | some c, some s, some op => sStep (stepF c s op)
    | _, _, _ => "bad-op"
  | ["runcc", variant, ca, cb, l, p, acts] =>
    match pCache ca, pCache cb, pStore l p, pActs acts with
    | some ca, some cb, some s, some acts =>
      if variant != "c" && variant != "f" then "bad-op" else
      let r := runCC (if variant == "c" then stepC else stepF) acts (s, ca, cb)
      let sp := runSpec (acts.map Prod.snd) s
      joinList (r.1.map sResC) ++ " " ++ sStore r.2.1 ++ " " ++ sCache r.2.2.1 ++ " " ++ sCache r.2.2.2 ++
        " coh=" ++ showBool (cohRun acts (s, ca, cb)) ++ " " ++ joinList (sp.1.map sResC) ++ " " ++ sStore sp.2
    | _, _, _, _ => "bad-op"
  | _ => "bad-op"

end BreezyVerif.C37

def main : IO Unit := BreezyVerif.runDriver BreezyVerif.C37.handle
