import BreezyVerif.Common
import BreezyVerif.Model.C34
/-!
C34 driver.  Byte strings as hex (`-` empty), `~` = None, lists comma-separated.

* `rt STRICT id tree parents author atime atz aneg committer ctime ctz cneg enc mergetags extra gpgsig message`
  extra = `k:v` pairs.  Reply: `I:<err>` (import refused) | `X:<err> <props>` (export raised) |
  `ok <commit fields> <revid> <codec> <committer> <message> <props>` where props is the rendered property dict and commit fields is the
  exported commit in the request's field order.
* `fix text` → `fix_person_identifier` (`E:Value` on ValueError)
-/
namespace BreezyVerif.C34

def optBytes (s : String) : Option (Option Bytes) :=
  if s == "~" then some none else (fromHex s).map some

def showOpt : Option Bytes → String
  | none => "~"
  | some b => toHex b

def decPair (s : String) : Option (Bytes × Bytes) :=
  match s.splitOn ":" with
  | [k, v] => do pure ((← fromHex k), (← fromHex v))
  | _ => none

def showErr : Err → String
  | .unicodeDecode => "UnicodeDecode" | .unknownEncoding => "UnknownEncoding"
  | .unknownHgExtra => "UnknownHgExtra" | .unknownExtra => "UnknownExtra" | .value => "Value"
  | .lookup => "Lookup" | .codecMismatch => "CodecMismatch" | .index => "Index"
  | .attr => "Attr" | .assert => "Assert"

def showPStr (s : PStr) : String := toHex s.bytes

def showCodec : Codec → String
  | .utf8 => "utf-8" | .latin1 => "latin1" | .ascii => "ascii" | .se => "se"

/-- the property dict, sorted by key, values as hex of their bytes (ints in decimal) -/
def showProps (p : Props) : String :=
  let items : List (String × String) :=
    (match p.author with | some a => [("author", showPStr a)] | none => []) ++
    (match p.authorTimestamp with | some t => [("author-timestamp", toString t)] | none => []) ++
    (match p.authorTimezone with | some t => [("author-timezone", toString t)] | none => []) ++
    (if p.authorNegUtc then [("author-timezone-neg-utc", "-")] else []) ++
    (if p.commitNegUtc then [("commit-timezone-neg-utc", "-")] else []) ++
    (match p.explicitEncoding with | some e => [("git-explicit-encoding", toHex e)] | none => []) ++
    (match p.gitExtra with | some e => [("git-extra", showPStr e)] | none => []) ++
    (match p.gpgsig with | some e => [("git-gpg-signature", showPStr e)] | none => []) ++
    (match p.implicitEncoding with | some e => [("git-implicit-encoding", toHex e)] | none => []) ++
    (p.mergetags.zipIdx.map fun (t, i) => ("git-mergetag-" ++ toString i, showPStr t)) ++
    (if p.missingMessage then [("git-missing-message", toHex (bs "true"))] else [])
  joinList (items.map fun (k, v) => k ++ "=" ++ v)

def showCommit (c : Commit) : String :=
  " ".intercalate
    [toHex c.tree, joinList (c.parents.map toHex), toHex c.author, toString c.authorTime,
     toString c.authorTz, showBool c.authorNegUtc, toHex c.committer, toString c.commitTime,
     toString c.commitTz, showBool c.commitNegUtc, showOpt c.encoding,
     joinList (c.mergetags.map toHex),
     joinList (c.extra.map fun (k, v) => toHex k ++ ":" ++ toHex v), showOpt c.gpgsig,
     showOpt c.message]

def handle : List String → String
  | ["rt", strict, id, tree, parents, author, atime, atz, aneg, committer, ctime, ctz, cneg, enc,
      mergetags, extra, gpgsig, message] =>
    match parseBool strict, fromHex id, fromHex tree, (splitList parents).mapM fromHex, fromHex author,
      atime.toInt?, atz.toInt?, parseBool aneg, fromHex committer, ctime.toInt?, ctz.toInt?,
      parseBool cneg, optBytes enc, (splitList mergetags).mapM fromHex, (splitList extra).mapM decPair,
      optBytes gpgsig, optBytes message with
    | some strict, some id, some tree, some parents, some author, some atime, some atz, some aneg,
      some committer, some ctime, some ctz, some cneg, some enc, some mergetags, some extra,
      some gpgsig, some message =>
      let c : Commit :=
        { tree := tree, parents := parents, author := author, authorTime := atime, authorTz := atz,
          authorNegUtc := aneg, committer := committer, commitTime := ctime, commitTz := ctz,
          commitNegUtc := cneg, encoding := enc, mergetags := mergetags, extra := extra,
          gpgsig := gpgsig, message := message }
      match importCommit strict id c with
      | .error e => "I:" ++ showErr e
      | .ok rev =>
        let tail := toHex rev.revisionId ++ " " ++ showCodec rev.committer.codec ++ " " ++
          showPStr rev.committer ++ " " ++
          showPStr rev.message ++ " " ++ showProps rev.props
        match exportCommit rev c.tree with
        | .error e => "X:" ++ showErr e ++ " " ++ tail
        | .ok c2 => "ok " ++ showCommit c2 ++ " " ++ tail
    | _, _, _, _, _, _, _, _, _, _, _, _, _, _, _, _, _ => "bad-op"
  | ["fix", t] =>
    match fromHex t with
    | some t =>
      match fixPerson t with
      | some r => toHex r
      | none => "E:Value"
    | none => "bad-op"
  | _ => "bad-op"

end BreezyVerif.C34

def main : IO Unit := BreezyVerif.runDriver BreezyVerif.C34.handle
