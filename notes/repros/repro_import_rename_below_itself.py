"""C44 finding: fast-import does not terminate (and allocates without bound) on `R sub sub/d/f`:
a file renamed to a path BELOW ITS OWN OLD PATH (its name is taken by a new directory in the same commit).
fast-export in the default plain format emits exactly this for `mkdir tmp; mv sub tmp/f; mv tmp sub` style
commits (the directory itself is not exported).  The importer creates the parent directories `sub`, `sub/d`
while the old file `sub` is still in the basis inventory; CHKInventory.create_by_apply_delta then loops.
Run:  cd /verif && [VERIF_REPO=<tree>] /venv/bin/python /var/tmp/imp-C43C44/c44/repro_import_rename_below_itself.py
(the import runs in a child with a CPU limit of 20 s and an address-space limit of 2 GB; exit 1 = defect present)"""
import os, sys, resource
STREAM = b"""commit refs/heads/master
mark :1
committer a <a@b> 1 +0000
data 1
m
M 644 inline sub
data 1
x

commit refs/heads/master
mark :2
committer a <a@b> 2 +0000
data 1
m
from :1
R sub sub/d/f

"""
pid = os.fork()
if pid == 0:
    resource.setrlimit(resource.RLIMIT_CPU, (20, 20))
    resource.setrlimit(resource.RLIMIT_AS, (2 << 30, 2 << 30))
    sys.path.insert(0, "/verif/harness")
    from vlib import env
    env.boot()
    from checks import c44
    try:
        d, proc = c44.do_import(STREAM)
    except BaseException as e:
        print("import raised %s: %s" % (type(e).__name__, str(e)[:200]))
        os._exit(3)
    from breezy.branch import Branch
    b = Branch.open(os.path.join(d, "trunk"))
    t = b.basis_tree()
    with t.lock_read():
        print("imported tree:", [(p, ie.kind) for p, ie in t.iter_entries_by_dir() if p])
    os._exit(0)
_, status = os.waitpid(pid, 0)
if os.WIFSIGNALED(status):
    print("the import was killed by signal %d (SIGXCPU=24: CPU limit; SIGABRT/SIGKILL/SIGSEGV: memory limit): it does not terminate" % os.WTERMSIG(status))
    sys.exit(1)
code = os.WEXITSTATUS(status)
print("import exit code", code)
sys.exit(0 if code == 0 else 1)
