import BreezyVerif.Lemmas.C32B
/-
C32 — operations through a smart server match local operations.

`remote_step_refines_local`: for EVERY state, every source graph, every set of
extra revisions the server chooses to add to a get_parent_map answer and every
modelled operation, the remote step (verb calls through the wire codecs, the
server executing them on the stored state) returns the same result and leaves
the same state as the local step.  Hypotheses: the revision ids that travel in
the line-oriented get_parent_map response are wire-safe (`RevOK`: non-empty, no
blank, no newline, not starting with "missing:") — for the stored graph, the
server's extras and the requested keys.
-/
namespace BreezyVerif.C32

open BreezyVerif.C33 (toDec parseDec parseDec_toDec)

/-- **refinement, fixed client**: every modelled operation through the smart
server = the same operation locally (result and state) -/
theorem remote_step_refines_local (src : Graph) (ex : List RevId) (st : St) (op : Op)
    (hg : GraphOK st.revs) (hex : ∀ k ∈ ex, RevOK k) (hop : OpOK op) :
    remoteStep true src ex st op = localStep src st op := by
  cases op with
  | tipSet n r =>
    simp only [remoteStep, localStep]
    rw [rLocked_eq src st ex _ (fun s => { s with tip := (n, r) })]
    · rfl
    · intro t s hl
      simp only [serve]
      rw [withToken_held hl]
      simp [parseDec_toDec]
  | confSet name v =>
    simp only [remoteStep, localStep]
    rw [rLocked_eq src st ex _ (fun s => { s with conf := dset s.conf name v })]
    · rfl
    · intro t s hl
      simp only [serve]
      rw [withToken_held hl]
  | tagSet name r =>
    simp only [remoteStep, localStep, rLock_eq]
    cases h : primLock st none with
    | error e => rfl
    | ok p =>
      obtain ⟨t, s1⟩ := p
      have hl := primLock_none_ok h
      simp only [serve, withToken_held hl, rUnlock_eq, if_true]
  | tagDel name =>
    simp only [remoteStep, localStep, rLock_eq]
    cases h : primLock st none with
    | error e => rfl
    | ok p =>
      obtain ⟨t, s1⟩ := p
      have hl := primLock_none_ok h
      simp only [serve]
      cases hlk : lookup name s1.tags with
      | none =>
        simp only [rUnlock_eq]
      | some v =>
        simp only [withToken_held hl, rUnlock_eq, if_true]
  | tagDict => simp [remoteStep, localStep, serve]
  | confGet name =>
    simp only [remoteStep, localStep, serve]
    cases lookup name st.conf <;> rfl
  | lockLeave =>
    simp only [remoteStep, localStep, rLock_eq]
  | relockRelease good =>
    simp only [remoteStep, localStep, rLock_eq, rUnlock_eq]
  | tipSetTok good n r =>
    simp only [remoteStep, localStep, rLock_eq]
    cases h : primLock st (some ((presented st good).getD st.nextTok)) with
    | error e => rfl
    | ok p =>
      obtain ⟨t, s1⟩ := p
      obtain ⟨hl, _, _⟩ := primLock_some_ok h
      simp [serve, withToken_held hl, parseDec_toDec]
  | parentMap keys =>
    simp only [remoteStep, localStep]
    rw [remoteParentMap_eq src st ex keys hg hex hop]
  | tip =>
    simp [remoteStep, localStep, serve, parseDec_toDec]
  | fetch r =>
    simp only [remoteStep, localStep, serve]

/-- **as found** (`RemoteRepository._get_parent_map_rpc` drops the null: entry):
refinement holds for every operation except get_parent_map requests naming
null: together with another key.  PARTIAL — see `parent_map_null_dropped_witness`. -/
theorem remote_step_refines_local_partial (src : Graph) (ex : List RevId) (st : St) (op : Op)
    (hg : GraphOK st.revs) (hex : ∀ k ∈ ex, RevOK k) (hop : OpOK op) (hn : NullAlone op) :
    remoteStep false src ex st op = localStep src st op := by
  rw [← remote_step_refines_local src ex st op hg hex hop]
  cases op with
  | parentMap keys =>
    simp only [remoteStep]
    rw [remoteParentMap_as_found src st ex keys hn]
  | _ => rfl

/-- the failing input: with revision a1 stored, get_parent_map([a1, null:]) is
{a1: (null:,), null: ()} locally and {a1: (null:,)} through the server -/
theorem parent_map_null_dropped_witness :
    let st : St := { St.init with revs := [([97, 49], [])] }
    let op := Op.parentMap [[97, 49], nullRev]
    (localStep [] st op).1 = .pmap [([97, 49], [nullRev]), (nullRev, [])]
      ∧ (remoteStep false [] [] st op).1 = .pmap [([97, 49], [nullRev])]
      ∧ (remoteStep true [] [] st op).1 = .pmap [([97, 49], [nullRev]), (nullRev, [])] := by
  decide

/-! ### whole scripts -/

/-- **refinement for whole scripts**: any sequence of modelled operations gives
the same list of results and the same final state through the smart server as
locally -/
theorem remote_run_refines_local (src : Graph) (ex : List RevId) (hs : GraphOK src)
    (hex : ∀ k ∈ ex, RevOK k) :
    ∀ (ops : List Op) (st : St), GraphOK st.revs → (∀ op ∈ ops, OpOK op) →
      runWith (remoteStep true src ex) st ops = runWith (localStep src) st ops
  | [], st, _, _ => rfl
  | op :: ops, st, hg, hops => by
    simp only [runWith]
    rw [remote_step_refines_local src ex st op hg hex (hops op (by simp))]
    rw [remote_run_refines_local src ex hs hex ops (localStep src st op).2
      (localStep_graphOK src hs st op hg) (fun o ho => hops o (List.mem_cons_of_mem _ ho))]

/-- non-vacuity: a wire-safe graph, a wire-safe request, and a run that exercises locks and tokens -/
example : GraphOK [([97, 49], []), ([114, 50], [[97, 49]])] := by
  intro e he
  simp only [List.mem_cons, List.mem_nil_iff, or_false] at he
  rcases he with rfl | rfl
  · exact ⟨⟨by decide, by decide, by decide, by decide⟩, by simp⟩
  · refine ⟨⟨by decide, by decide, by decide, by decide⟩, ?_⟩
    intro p hp
    simp only [List.mem_singleton] at hp
    subst hp
    exact ⟨by decide, by decide, by decide, by decide⟩

example : OpOK (.parentMap [[97, 49], nullRev]) := by
  intro k hk
  simp only [List.mem_cons, List.mem_nil_iff, or_false] at hk
  rcases hk with rfl | rfl
  · exact ⟨by decide, by decide, by decide, by decide⟩
  · exact nullRev_ok

example :
    (runWith (localStep [([97, 49], [])]) St.init
      [.fetch [97, 49], .lockLeave, .tipSet 1 [97, 49], .tipSetTok true 1 [97, 49], .relockRelease true, .tip]).1
    = [.ok, .token, .err .lockContention, .ok, .ok, .info 1 [97, 49]] := by decide

end BreezyVerif.C32
