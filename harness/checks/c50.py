"""C50 — command-line splitting inverts shell-style quoting
(breezy/cmdline.py: Splitter, _Whitespace, _Quotes, _Backslash, _Word,
_PushbackSequence, split).

Model: lean/BreezyVerif/Model/C50.lean — `tokens`/`split` (structural) and the
literal push-back machine `mTokens`/`splitM`; theorems in Props/C50.lean.

T2 (every run):
 * every string over {a, space, ", ', \\} up to length L (quick 7, thorough 8),
   both `single_quotes_allowed` values: list(Splitter(s, sq)) — tokens *and*
   quoted flags — against `tok` (structural model) and `mtok` (literal machine);
 * random strings over a wide alphabet (Unicode whitespace, look-alikes that
   are not whitespace, astral characters, long backslash runs);
 * random argument lists: the reference quoting (`py_quote`, the documented
   rules) against the model's `quote`/`joinSp`, and Splitter on the result;
 * the whitespace predicate on every code point 0..0x10FFFF against
   `_whitespace_match`.
There is no rejection path (every str is accepted); the "malformed" stream is
unterminated quotes / trailing backslash runs, compared in full.

Oracle (independent of the model, on the real code): for every argument list
`split(" ".join(quote(a) for a in args), sq) == args`; non-empty words without
quotes/whitespace (backslashes allowed) separated by arbitrary Unicode
whitespace come back unchanged and unquoted; for every input string
the concatenated tokens are a subsequence of the input, the characters outside
the quoting syntax (not whitespace / allowed quote / backslash) survive in
order, no unquoted token is empty, and split() == [t for _, t in Splitter].

Mutants this was built against (scratch worktree; each reported as VIOLATION
with the concrete input shown, found by the oracle, except M8):
 M1 _Backslash: `self.count // 2` -> `(self.count + 1) // 2`      args=['"']
 M2 _Backslash: odd/even test swapped (`% 2 == 1` -> `% 2 == 0`)   args=['\\\\\\']
 M3 _Backslash.finish dropped (trailing backslashes lost)          words=['\\']
 M4 _Quotes: closing quote no longer appends ""                    args=['', '']
 M5 _Whitespace: `context.quoted = True` dropped                   "a '' c" loses c
 M6 _Word: whitespace test replaced by `next_char == " "`          <TAB>b<TAB>a<TAB>
 M7 _Backslash non-quote branch: pushback dropped                  '"\\\'"' (sq off)
 M8 _Word: `_Quotes(next_char, self)` -> exit to `_Whitespace()`: split() is
    unchanged, only the `quoted` flag of `a` + three double quotes differs — reported by T2
    (model vs Splitter) as no-failing-input-found
 M9 _Backslash: `in context.allowed_quote_chars` -> `== '"'`        args=["\\'"] (sq on)
 M11 _Whitespace: whitespace never ends a token                    args=['', '']
 H1 harmless: `_Word.process` rewritten with early returns and `token += [c]`
 H2 harmless: push-back `pop()` -> `pop(0)` (at most one element) — both clean.
"""
import itertools

THEOREMS = [
    "tokens_join_quote", "split_join_quote", "split_unquoted_words", "split_sublist",
    "split_keeps_plain", "tokens_unquoted_nonempty", "split_total", "splitM_join_quote",
]
RULE = ("case = (single_quotes_allowed, input string) or (sq, argument list); exhaustive over "
        "{a,space,\",',\\}^<=L plus random wide-alphabet strings and random argument lists; "
        "non-trivial = the input contains a quote or a backslash (the state machine leaves the "
        "plain word/whitespace states)")
ASSUMPTIONS = ["Python str is modelled as a list of Unicode scalar values (no lone surrogates)"]
TRUSTED = [
    "re's \\s on one character is modelled by the explicit table isWs, compared with _whitespace_match on all 0x110000 code points on every run",
    "the reference quoting function py_quote in this module is the reading of 'the documented rules'; it is compared with the Lean `quote` on every generated argument",
]

BS = "\\"
EXH_ALPHA = "a \"'\\"
WS_CHARS = " \t\n\r\x0b\x0c\x1c\x1f\x85\xa0\u1680\u2000\u2003\u200a\u2028\u2029\u202f\u205f\u3000"
NOT_WS = "\x00\x08\x0e\x1b\x7f\u200b\u2060\ufeff\u180e"
WIDE_ALPHA = ("ab-/.*\xb5\u1234\U0001f600" + NOT_WS)


def enc(s):
    return ".".join("%x" % ord(c) for c in s) or "_"


def enc_toks(toks):
    return ",".join(("T:" if q else "F:") + enc(t) for q, t in toks) or "-"


def _impl():
    from breezy import cmdline
    return cmdline


def py_quote(a, sq):
    """the documented rules: surround by double quotes; a run of backslashes
    followed by an allowed quote character or by the end of the argument is
    doubled; a double quote gets one more backslash."""
    allowed = '"\'' if sq else '"'
    out = ['"']
    i, n = 0, len(a)
    while i < n:
        if a[i] == BS:
            j = i
            while j < n and a[j] == BS:
                j += 1
            k = j - i
            if j == n or a[j] in allowed:
                out.append(BS * (2 * k))
            else:
                out.append(BS * k)
            i = j
        elif a[i] == '"':
            out.append(BS + '"')
            i += 1
        else:
            out.append(a[i])
            i += 1
    out.append('"')
    return "".join(out)


def _is_subseq(small, big):
    it = iter(big)
    return all(c in it for c in small)


def _string_oracle(ctx, cm, sq, s, toks):
    """the part of the statement about arbitrary input strings"""
    case = dict(kind="str", sq=sq, s=enc(s))
    cat = "".join(t for _, t in toks)
    if not _is_subseq(cat, s):
        ctx.violation(case, "split invents characters: tokens %r are not a subsequence of %r" % ([t for _, t in toks], s))
    allowed = '"\'' if sq else '"'

    def plain(c):
        return not cm._whitespace_match(c) and c not in allowed and c != BS
    if [c for c in cat if plain(c)] != [c for c in s if plain(c)]:
        ctx.violation(case, "split loses plain characters: %r -> %r" % (s, [t for _, t in toks]))
    if any((not q) and t == "" for q, t in toks):
        ctx.violation(case, "empty unquoted token from %r" % s)
    sp = cm.split(s, single_quotes_allowed=sq)
    if sp != [t for _, t in toks]:
        ctx.violation(case, "split() differs from Splitter on %r" % s)


def _args_oracle(ctx, cm, sq, args):
    line = " ".join(py_quote(a, sq) for a in args)
    got = cm.split(line, single_quotes_allowed=sq)
    if got != args:
        ctx.violation(dict(kind="args", sq=sq, args=[enc(a) for a in args]),
                      "split(join(quote(args))) != args: args=%r line=%r split=%r" % (args, line, got))
    return line


def _words_oracle(ctx, cm, sq, items, trail):
    """unquoted words separated by arbitrary whitespace come back unchanged"""
    line = "".join(sep + w for sep, w in items) + trail
    words = [w for _, w in items]
    got = list(cm.Splitter(line, single_quotes_allowed=sq))
    if got != [(False, w) for w in words]:
        ctx.violation(dict(kind="words", sq=sq, items=[[enc(a), enc(b)] for a, b in items], trail=enc(trail)),
                      "unquoted words are not split back: line=%r words=%r tokens=%r" % (line, words, got))
    return line


def _rand_words(rng, sq):
    alpha = WIDE_ALPHA + ("" if sq else "'")
    items = []
    for i in range(rng.choice((0, 1, 2, 2, 3, 4))):
        w = []
        for _ in range(rng.randint(1, 6)):
            w.append(BS * rng.choice((1, 1, 2, 3)) if rng.random() < 0.3 else rng.choice(alpha))
        sep = "".join(rng.choice(WS_CHARS) for _ in range(rng.randint(0 if i == 0 else 1, 3)))
        items.append((sep, "".join(w)))
    trail = "".join(rng.choice(WS_CHARS) for _ in range(rng.choice((0, 0, 1, 2))))
    return items, trail


def _run_strings(ctx, cm, items, tag):
    """items: list of (sq, s).  impl vs both models + string oracle."""
    cases, lines, outs = [], [], []
    for sq, s in items:
        toks = list(cm.Splitter(s, single_quotes_allowed=sq))
        _string_oracle(ctx, cm, sq, s, toks)
        special = any(c in "\"'\\" for c in s)
        case = [tag, sq, enc(s)]
        ctx.case(case, nontrivial=special)
        ctx.count("len:%d" % min(len(s), 12))
        ctx.count("ntok:%d" % min(len(toks), 6))
        if any(q for q, _ in toks):
            ctx.count("has-quoted-token")
        out = enc_toks(toks)
        flag = "T" if sq else "F"
        for op in ("tok", "mtok"):
            cases.append(case + [op])
            lines.append("%s %s %s" % (op, flag, enc(s)))
            outs.append(out)
    ctx.diff(cases, lines, outs)


def _rand_string(rng, maxlen):
    n = rng.randint(0, maxlen)
    out = []
    while len(out) < n:
        r = rng.random()
        if r < 0.22:
            out.append(BS * rng.choice((1, 1, 2, 2, 3, 4, 5)))
        elif r < 0.42:
            out.append(rng.choice("\"\"'"))
        elif r < 0.60:
            out.append(rng.choice(WS_CHARS))
        elif r < 0.70:
            out.append(rng.choice(NOT_WS))
        else:
            out.append(rng.choice(WIDE_ALPHA))
    return "".join(out)


def _rand_arg(rng):
    r = rng.random()
    if r < 0.08:
        return ""
    if r < 0.16:
        return BS * rng.randint(1, 4)
    return _rand_string(rng, rng.choice((2, 4, 8, 14)))


def _check_ws(ctx, cm):
    """the whitespace table, all code points"""
    real = [i for i in range(0x110000) if cm._whitespace_match(chr(i))]
    if any(0xd800 <= i <= 0xdfff for i in real):
        ctx.mismatch(["ws", "surrogate"], "whitespace surrogate", "not modelled")
    got = []
    step = 0x20000
    lines = ["wsrange %x %x" % (lo, min(lo + step - 1, 0x10ffff)) for lo in range(0, 0x110000, step)]
    for rep in ctx.model(lines):
        if rep != "-":
            got += [int(x, 16) for x in rep.split(",")]
    ctx.traces += 0x110000 - 0x800
    ctx.case(["ws-table", len(real)], nontrivial=True, n=0x110000)
    if got != real:
        diff = sorted(set(got) ^ set(real))
        ctx.mismatch(["ws", ["%x" % d for d in diff[:10]]], "impl-ws=%d" % len(real), "model-ws=%d" % len(got))
    ctx.extra["whitespace_code_points"] = len(real)


def run(ctx, L=None, nrand=None, nargs=None):
    cm = _impl()
    L = L or ctx.pick(7, 8)
    nrand = nrand or ctx.pick(6000, 60000)
    nargs = nargs or ctx.pick(6000, 60000)
    _check_ws(ctx, cm)

    # fixed corner cases first (also the cases of test_cmdline)
    corner = ['"\\\\\\\\" *.py', '"\\\\\\\\\\" *.py"', '\\\\\\\\" *.py"', '\\\\\\\\\\" *.py', '"\\\\',
              "a '' c", "''", '""', 'a"" b', '"a"b', "\\", "\\ ", ' \\" ', '"\\\'"', "a\u3000b", "a\u200bb"]
    _run_strings(ctx, cm, [(sq, s) for s in corner for sq in (True, False)], "corner")

    # exhaustive small strings
    items = []
    for n in range(L + 1):
        for t in itertools.product(EXH_ALPHA, repeat=n):
            s = "".join(t)
            items.append((True, s))
            items.append((False, s))
    for i in range(0, len(items), 100000):
        _run_strings(ctx, cm, items[i:i + 100000], "exh")
    ctx.exhaustive = True
    ctx.extra["exhaustive_domain"] = dict(alphabet=list(EXH_ALPHA), max_len=L, strings=len(items))

    # random wide-alphabet strings ("malformed" = unterminated quote / trailing backslash: counted)
    rng = ctx.rng
    items = []
    for _ in range(nrand):
        s = _rand_string(rng, rng.choice((6, 12, 24, 40)))
        if rng.random() < 0.1:
            s += rng.choice(['"', "'", BS, BS * 2, '"' + BS, BS + '"'])
            ctx.count("malformed-tail")
        items.append((rng.random() < 0.5, s))
    _run_strings(ctx, cm, items, "rand")

    # argument lists through quote -> join -> split: all small ones first
    # (so that a failure is reported on a small input), then random ones
    small = ["".join(t) for n in range(4) for t in itertools.product(EXH_ALPHA, repeat=n)]
    arglists = [(sq, [a]) for a in small for sq in (True, False)]
    arglists += [(sq, [a, b]) for a in small[:31] for b in small[:31] for sq in (True, False)]
    for _ in range(nargs):
        arglists.append((rng.random() < 0.5, [_rand_arg(rng) for _ in range(rng.choice((0, 1, 1, 2, 3, 5)))]))
    cases, lines, outs = [], [], []
    str_items = []
    for sq, args in arglists:
        line = _args_oracle(ctx, cm, sq, args)
        case = ["args", sq, [enc(a) for a in args]]
        ctx.case(case, nontrivial=any(c in "\"'\\" for a in args for c in a))
        ctx.count("nargs:%d" % len(args))
        if "" in args:
            ctx.count("empty-arg")
        cases.append(case)
        lines.append("qjoin %s %s" % ("T" if sq else "F", ",".join(enc(a) for a in args) or "-"))
        outs.append(enc(line))
        str_items.append((sq, line))
    ctx.diff(cases, lines, outs)
    _run_strings(ctx, cm, str_items, "quoted-line")

    # unquoted words separated by arbitrary (Unicode) whitespace
    str_items = []
    wordlists = []
    smallw = ["".join(t) for n in range(1, 4) for t in itertools.product("a\\'", repeat=n)]
    for sep in (" ", "\t", "\u3000", "\x1f\n"):
        for w in smallw:
            wordlists.append((False, [("", w)], ""))
            wordlists.append((False, [(sep, "b"), (sep, w)], sep))
            if "'" not in w:
                wordlists.append((True, [("", w), (sep, "b")], ""))
    for _ in range(nargs // 2):
        sq = rng.random() < 0.5
        wordlists.append((sq,) + _rand_words(rng, sq))
    for sq, items, trail in wordlists:
        line = _words_oracle(ctx, cm, sq, items, trail)
        ctx.case(["words", sq, [[enc(a), enc(b)] for a, b in items], enc(trail)],
                 nontrivial=any(BS in w for _, w in items))
        ctx.count("nwords:%d" % len(items))
        str_items.append((sq, line))
    _run_strings(ctx, cm, str_items, "word-line")


def widen(ctx):
    run(ctx, L=8, nrand=60000, nargs=60000)


def replay(ctx, case):
    cm = _impl()

    def dec(e):
        return "" if e == "_" else "".join(chr(int(x, 16)) for x in e.split("."))
    if isinstance(case, dict) and case.get("kind") == "words":
        sq = case["sq"]
        items = [(dec(a), dec(b)) for a, b in case["items"]]
        line = _words_oracle(ctx, cm, sq, items, dec(case["trail"]))
        toks = list(cm.Splitter(line, single_quotes_allowed=sq))
        m = ctx.model(["tok %s %s" % ("T" if sq else "F", enc(line))])
        return dict(case=case, line=line, impl=enc_toks(toks), impl_tokens=toks, model=m[0],
                    oracle_failures=[v["what"] for v in ctx.violations])
    if isinstance(case, dict) and case.get("kind") == "args":
        sq = case["sq"]
        args = [dec(a) for a in case["args"]]
        line = _args_oracle(ctx, cm, sq, args)
        impl = cm.split(line, single_quotes_allowed=sq)
        m = ctx.model(["qjoin %s %s" % ("T" if sq else "F", ",".join(enc(a) for a in args) or "-"),
                       "tok %s %s" % ("T" if sq else "F", enc(line))])
        return dict(case=case, args=args, line=line, impl=impl, model_line=m[0], model=m[1],
                    oracle_failures=[v["what"] for v in ctx.violations])
    if isinstance(case, dict):
        sq, s = case["sq"], dec(case["s"])
    else:
        sq, s = case[1], dec(case[2])
    toks = list(cm.Splitter(s, single_quotes_allowed=sq))
    _string_oracle(ctx, cm, sq, s, toks)
    m = ctx.model(["tok %s %s" % ("T" if sq else "F", enc(s)), "mtok %s %s" % ("T" if sq else "F", enc(s))])
    return dict(case=case, input=s, impl=enc_toks(toks), impl_tokens=toks, model=m[0], machine=m[1],
                oracle_failures=[v["what"] for v in ctx.violations])
