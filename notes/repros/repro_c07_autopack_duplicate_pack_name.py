#!/venv/bin/python
"""Repro: 2a autopack fails with BzrError "Pack ... already exists" when the
result of a planned combination is byte-identical to one of the packs being
combined (the same revisions are present in two packs).

Two writers insert overlapping revisions into the same 2a repository: writer A
streams r28; before A commits its write group, writer B fetches r28..r29.
The repository then holds packs with [18, 9, 2, 1] revision-index entries
(key_count() = 30 = sum, 29 distinct revisions).  The next write group (fetch
of r30..r39) runs autopack: 5 packs > digit sum(40) = 4, the plan is "combine the
2-entry pack {r28, r29} with the 1-entry pack {r28}".  The combined pack holds
exactly {r28, r29}; GCCHKPacker writes it byte-identically to the existing
2-entry pack, so it gets the same (md5-of-content) name:
GCCHKPacker._create_pack_from_packs calls new_pack.finish() (renaming the new
pack and its indices ONTO the live pack's files) and
RepositoryPackCollection.allocate raises BzrError.  The fetch fails, and so
does every later write group (the same plan is made every time).

(KnitPacker got a guard for the same situation in 24f6bb3; GCCHKPacker only
handles `len(self.packs) == 1`.)

usage: repro_c07_autopack_duplicate_pack_name.py [2a|pack-0.92]   exit 1 = defect reproduced
"""
import os, sys, tempfile, shutil
_hs = os.environ.get("REPRO_HASHSEED", "0")
if os.environ.get("PYTHONHASHSEED") != _hs:       # record order in a pack follows set iteration order
    os.environ["PYTHONHASHSEED"] = _hs
    os.execv(sys.executable, [sys.executable] + sys.argv)
REPO = os.environ.get("VERIF_REPO", "/repo")
sys.path.insert(0, REPO)
home = tempfile.mkdtemp(prefix="c07-repro-", dir=os.environ.get("REPRO_SCRATCH", "/var/tmp"))
os.environ.update(HOME=home, BRZ_HOME=home, BRZ_EMAIL="t <t@example.com>")
import breezy; breezy.initialize()
from breezy import ui, trace; ui.ui_factory = ui.SilentUIFactory(); trace.be_quiet(True)
import breezy.bzr, breezy.bzr.bzrdir, breezy.bzr.workingtree_4, breezy.bzr.groupcompress_repo, breezy.bzr.knitpack_repo
from breezy.controldir import ControlDir, format_registry
from breezy.repository import Repository, InterRepository

fmt = sys.argv[1] if len(sys.argv) > 1 else "2a"
rc = 0
try:
    src = ControlDir.create_standalone_workingtree(os.path.join(home, "src"), format=format_registry.make_controldir(fmt))
    open(os.path.join(home, "src", "f"), "w").write("x\n"); src.add(["f"], ids=[b"f-id"])
    src.set_root_id(b"root-id") if hasattr(src, "set_root_id") else None
    revs = []
    def commit(i):
        open(os.path.join(home, "src", "f"), "a").write("l%d\n" % i)
        revs.append(src.commit("r%d" % i, rev_id=b"r%02d" % i, timestamp=1000000000.0 + i, timezone=0, committer="t <t@example.com>"))
    for i in range(1, 41):          # source packs after its own autopacks: [10, 10, 10, 10]
        commit(i)
    srcrepo = src.branch.repository
    tgt_dir = os.path.join(home, "tgt"); os.mkdir(tgt_dir)
    format_registry.make_controldir(fmt).initialize(tgt_dir).create_repository()

    def packs():
        r = Repository.open(tgt_dir); r.lock_read()
        try:
            pc = r._pack_collection; pc.ensure_loaded()
            return dict(entries_per_pack=sorted((p.get_revision_count() for p in pc.all_packs()), reverse=True),
                        key_count=pc.revision_index.combined_index.key_count(), distinct_revisions=len(r.all_revision_ids()))
        finally:
            r.unlock()

    Repository.open(tgt_dir).fetch(srcrepo, revision_id=b"r18")
    Repository.open(tgt_dir).fetch(srcrepo, revision_id=b"r27")
    print("two fetches:", packs())
    a = Repository.open(tgt_dir); b = Repository.open(tgt_dir)
    a.lock_write(); srcrepo.lock_read()
    try:
        search = InterRepository.get(srcrepo, a).search_missing_revision_ids(revision_ids=[b"r28"], find_ghosts=False)
        stream = srcrepo._get_source(a._format).get_stream(search)
        def interleaved():
            yield from stream
            b.fetch(srcrepo, revision_id=b"r29")       # writer B commits r28..r29 before A commits r28
        a._get_sink().insert_stream(interleaved(), srcrepo._format, [])
    finally:
        srcrepo.unlock(); a.unlock()
    print("after the two overlapping writers:", packs())
    for n in (39, 39):
        try:
            Repository.open(tgt_dir).fetch(srcrepo, revision_id=b"r%02d" % n)
            print("fetch of r%d succeeds:" % n, packs())
        except Exception as e:
            print("fetch of r%d FAILS: %s: %s" % (n, type(e).__name__, str(e)[:100]))
            rc = 1
    r = Repository.open(tgt_dir)
    with r.lock_read():
        print("tip in target:", r.has_revision(b"r39"), packs())
finally:
    shutil.rmtree(home, ignore_errors=True)
sys.exit(rc)
