"""C36 — git identifier mappings round-trip.

Anchors: breezy/git/mapping.py (escape_file_id, unescape_file_id,
generate_file_id, parse_file_id, decode/encode_git_path,
revision_id_foreign_to_bzr / revision_id_bzr_to_foreign, the mapping registry),
breezy/git/refs.py (branch/tag name <-> ref), breezy/git/urls.py
(git_url_to_bzr_url), crates/git/src/lib.rs (bzr_url_to_git_url, rebuilt from the
working tree on every run), breezy/git/branch.py (GitBranch.set_parent /
_get_parent_location).

T2: every function is run in-process on generated inputs and compared with the
Lean model (lean/BreezyVerif/Model/C36.lean) through the driver; the constants
the model uses (prefixes, ZERO_SHA, NULL_REVISION, KNOWN_GIT_SCHEMES, ...) are
compared with the real ones on every run.  Small spaces are enumerated
completely (file-id strings over the escape alphabet up to length 4, all 1- and
2-byte sequences for the UTF-8/surrogateescape decoder).
Oracle: the round-trip laws of the statement evaluated on the real functions
only (no model involved).

Between set_parent and get_parent lies dulwich's ConfigFile: the model has its
value codec (`cfgFormat` = _format_string, `cfgParse` = _parse_string,
`cfgReread` = write_to_file + from_file, `subsecEscape`) and the theorems
cfg_value_roundtrip / cfg_file_roundtrip / parent_location_roundtrip_file say
for which values the stored configuration is read back unchanged
(`cfgValueSafe`: no CR; and no `;`, no VT/FF at either end unless the value is
quoted anyway).  T2 `sec_cfg`: the codec against the real dulwich functions and
a real write + read; the parent stream compares the stored configuration with
`setpf` (set_parent followed by the model's re-read).

Open finding families of the unchanged /repo (found in the improvement round,
recorded in known_findings.json: reported as KNOWN-FINDING, exit 0; repro
scripts in /var/tmp/imp-C35C36/c36/).  These three are the ONLY family slugs
this check ever assigns:
  parent-unnamed-branch-drops-ref      a branch without a name (detached HEAD) has no [branch "<name>"] section:
                                       set_parent(url,branch=foo) is followed by get_parent() == url
                                       (theorems parent_location_unnamed, parent_location_unnamed_witness)
  parent-config-value-semicolon        dulwich writes a value containing `;` unquoted and reads it back cut at the
                                       `;`: a parent branch `a;b` comes back as `a` (cfg_value_witness,
                                       parent_location_semicolon_witness); -cr / -stripped are the same for a CR
                                       and for VT/FF at the ends (not generated: not legal in refs)
  parent-config-section-quote-comment  branch name with `"` followed by `#`/`;` (q"#x): the section header dulwich
                                       writes cannot be parsed again, the whole config file becomes unreadable

Findings fixed in /repo (DESIGN §7 F1, F14, F15; fixes 5b3d902, eb9cca4, ef03ad7):
the model's `bzrUrlToGitUrl` / `getParentLocation` are the inverse the theorems
are about; the code as found earlier is modelled by `...Legacy` (witness
theorems only).  No difference between code and model is tolerated any more: a
regression to the legacy behaviour is a T2 mismatch AND a plain VIOLATION; the
old slugs below are only counted in the evidence (`*:legacy-*`), never assigned
as a family — only the three open families above are, and
parent-config-value-* only when the damage is exactly what `cfgReread` predicts
(real file content == model's re-read, getter agrees, every changed value
contains the character).  Old slugs (verified by reverting each fix):
  url-ref-param-dropped       ref=... parameter written by git_url_to_bzr_url is not read back
  url-branch-left-escaped     branch name that needs %-escaping comes back escaped
  parent-merge-section        set_parent writes [branch "<name>"] merge, get_parent reads [branch "<remote>"]
  parent-merge-escaped        set_parent stores the still-escaped branch name as merge ref (consequence of F1)
  non-url-location-drops-ref  git_url_to_bzr_url returns a location that is neither a URL nor rsync-style (a
                              local path, as stored for a file: parent) early, without the branch/ref (F15)
URL theorems added: url_roundtrip_rev (breezy -> git -> breezy is the identity on
canonical URLs), the comma hypothesis weakened to the LAST path segment
(`lastSegCommaFree`; url_trailing_comma_witness for the rest; the generator now
puts commas into inner segments), url_refOk_witness (refs/heads/refs/x and
refs/heads/ at URL level; the real behaviour is compared with the model on
these inputs).

Mutants this check was built against (applied to the tree with the proposed
fixes, all caught with a concrete input unless noted):
  mapping.py  escape_file_id: ' ' replaced before '_'; unescape_file_id: "_c" -> \\x0b;
              generate_file_id: ROOT_ID case dropped (caught by T2 only: the round trip survives);
              revision_id_foreign_to_bzr: ZERO_SHA case dropped; registry: split -> rsplit;
              parse_file_id: off-by-one prefix strip; decode_git_path: errors="replace"
  refs.py     branch_name_to_ref: startswith("refs"); ref_to_branch_name: HEAD -> "HEAD";
              ref_to_tag_name strips one byte too many
  urls.py     escape(branch) with the default safe set; quote_from_bytes(ref) keeping '/';
              ref kept after it was converted to a branch name
  lib.rs      "ref" read but not percent-decoded; "branch" not unescaped
  branch.py   set_parent writes the merge ref under the remote's name; no-branch case leaves the old
              merge entry; get_parent default ref refs/heads/master when there is no merge entry
              (caught by the getter-only stream, T2)
Harmless rewrites that stay clean: KNOWN_GIT_SCHEMES reordered; branch_name_to_ref
restructured; escape_file_id as a single pass over a table.
Improvement round (seed 0; /var/tmp/imp-C35C36/dev/m*.py; violations beyond the three new families):
  revert 5b3d902 (Rust: `ref` not read, branch left escaped) — 2037 + 1711 + 229 family violations, 2459 mismatches;
  revert eb9cca4 (merge ref read from [branch "<remote>"]) — violations + 235 mismatches;
  revert ef03ad7 (non-URL location returned early) — 169 violations, 196 mismatches;
  urls.py: parameters dropped when the location has a comma anywhere — oracle, through inner-segment commas (new);
  branch.py: merge ref `.strip()`ped when read — oracle, through refs with a trailing blank (new generator);
  branch.py: set_parent writes [branch ""] for an unnamed branch — T2 (11 mismatches);
  harmless: url / fetch written in the other order — stays as /repo.
"""
import itertools
import os

from vlib import env

RUST = ("git-py",)

THEOREMS = [
    "unescape_escape", "escape_image", "escape_injective",
    "encode_decode_surrogateescape", "encode_decode_surrogateescape_bytes", "decode_encode_strict",
    "encode_decode_strict",
    "parse_generate_path", "parse_generate_path_bytes", "parse_generate_str", "parse_generate_str_witness",
    "revid_roundtrip", "revid_roundtrip_rev", "revid_zero_witness",
    "branch_ref_roundtrip", "ref_branch_roundtrip", "branch_ref_refs_witness",
    "tag_ref_roundtrip", "ref_tag_roundtrip",
    "pct_decode_encode", "addRefParams_roundtrip", "url_roundtrip", "effRef_normBR", "url_roundtrip_eff",
    "url_roundtrip_legacy_witness",
    "parent_location_roundtrip", "normBR_renorm", "parent_location_roundtrip_url", "parent_location_legacy_witness",
    "normBR_idem", "normBR_one_none", "url_roundtrip_rev", "url_trailing_comma_witness", "url_refOk_witness",
    "parent_location_unnamed", "parent_location_unnamed_witness",
    "cfg_value_roundtrip", "cfg_value_witness", "cfg_file_roundtrip", "subsection_roundtrip",
    "parent_location_roundtrip_file", "parent_location_semicolon_witness",
]

RULE = ("inputs are drawn from alphabets that contain every delimiter/escape the code looks at "
        "(file ids: '_', ' ', '\\x0c', 's', 'c'; paths: every class of UTF-8 lead/continuation byte; "
        "names: '/', 'refs/', '%', ',', '=', ' ', non-ASCII; URLs: known/unknown schemes, rsync style, "
        "existing segment parameters, trailing slash); a case is non-trivial when the conversion is not "
        "the identity on it (an escape, a prefix, a non-ASCII or ill-formed byte, a parameter or a "
        "normalisation is involved) or it takes an error branch")
ASSUMPTIONS = [
    "Python bytes/str are modelled as lists of naturals (< 256 for bytes, code points for str)",
    "ssh:// URLs are re-serialised by str(URL) as the identity apart from the scheme (grammar without empty ports and without percent-escapes that str(URL) normalises)",
    "set_parent: target URLs are not relative to the branch's own URL (relative_url is the identity); file: URL parents are covered by the oracle only",
    "ConfigFile: section headers `[branch \"<name>\"]` / `[remote \"<name>\"]` are read back as written (subsection_roundtrip covers the escaping; "
    "the header-line scanner with its comment stripping is not modelled: names with a quote followed by # or ; are the reported family "
    "parent-config-section-quote-comment); values never end in an odd number of backslashes after escaping, so no line continuation arises",
    "get_config (local file) vs get_config_stack (global + local) are not distinguished: the run uses an isolated HOME without a global git config",
]
TRUSTED = [
    "dromedary.urlutils (escape, unescape, split/join_segment_parameters, URL), urllib.parse.quote_from_bytes, "
    "dulwich parse_rsync_url, CPython's UTF-8 codec are modelled and compared per case, not verified; dulwich ConfigFile's value "
    "codec (_format_string/_parse_string/_escape_subsection) is modelled literally and tied per case (private functions of dulwich 1.2)",
]

# --------------------------------------------------------------------------
# encodings shared with the driver


def hx(b):
    return b.hex() if b else "-"


def cps(s):
    return ",".join(str(ord(c)) for c in s) if s else "-"


def ocps(s):
    return "~" if s is None else cps(s)


def ohx(b):
    return "~" if b is None else hx(b)


def uncps(t):
    return "" if t == "-" else "".join(chr(int(x)) for x in t.split(","))


def jb(b):
    """JSON form of bytes"""
    return None if b is None else "hex:" + b.hex()


def js(s):
    """JSON form of a str that may contain lone surrogates"""
    return None if s is None else [ord(c) for c in s]


def unjb(j):
    return None if j is None else bytes.fromhex(j[4:])


def unjs(j):
    return None if j is None else "".join(chr(x) for x in j)


def exc_kind(e):
    from breezy import errors
    from breezy import urlutils
    if isinstance(e, UnicodeEncodeError):
        return "E:UnicodeEncode"
    if isinstance(e, UnicodeDecodeError):
        return "E:UnicodeDecode"
    if isinstance(e, errors.InvalidRevisionId):
        return "E:InvalidRevisionId"
    if isinstance(e, KeyError):
        return "E:Key"
    if isinstance(e, (ValueError, urlutils.InvalidURL)):
        return "E:Value"
    return "E:Other:" + type(e).__name__


def call(f, *a, **kw):
    """(ok, value) or (False, error kind)"""
    try:
        return True, f(*a, **kw)
    except Exception as e:  # noqa: BLE001 - every exception class is part of the observation
        return False, exc_kind(e)


class Batch:
    """cases whose implementation output is compared literally with the model"""

    def __init__(self, ctx):
        self.ctx = ctx
        self.cases, self.lines, self.outs = [], [], []

    def add(self, case, line, impl_out):
        self.cases.append(case)
        self.lines.append(line)
        self.outs.append(impl_out)

    def flush(self):
        if self.lines:
            self.ctx.diff(self.cases, self.lines, self.outs)
        self.cases, self.lines, self.outs = [], [], []


# --------------------------------------------------------------------------
# the real functions


class Impl:
    def __init__(self):
        from breezy.git import mapping, refs, urls
        from breezy import urlutils
        self.mapping = mapping
        self.refs = refs
        self.urls = urls
        self.urlutils = urlutils
        self.m1 = mapping.BzrGitMappingv1()
        self.mx = mapping.BzrGitMappingExperimental()
        self.registry = mapping.mapping_registry

    def mapping_for(self, pfx):
        return {self.m1.revid_prefix: self.m1, self.mx.revid_prefix: self.mx}[pfx]


# --------------------------------------------------------------------------
# 0. constants


def check_consts(ctx, I):
    from dulwich.protocol import ZERO_SHA
    from dulwich.refs import LOCAL_BRANCH_PREFIX, LOCAL_TAG_PREFIX
    from breezy.revision import NULL_REVISION

    def sset(items):
        return ";".join(sorted(items))
    impl = " ".join([
        hx(I.mapping.ROOT_ID), hx(I.mapping.FILE_ID_PREFIX), hx(NULL_REVISION), hx(ZERO_SHA), hx(b"HEAD"),
        hx(LOCAL_BRANCH_PREFIX), hx(LOCAL_TAG_PREFIX),
        sset(hx(k) for k in I.registry.keys()),
        sset(hx(s.encode()) for s in I.urls.KNOWN_GIT_SCHEMES), hx(b"branch"), hx(b"ref")])
    f = ctx.model(["consts"])[0].split(" ")
    if len(f) == 11:
        f[7] = sset(f[7].split(";"))      # sets: order is not observable
        f[8] = sset(f[8].split(";"))
    model = " ".join(f)
    ctx.traces += 1
    if impl != model:
        ctx.mismatch(dict(kind="consts"), impl, model, line="consts", tie="T2 constants")
    if I.urls.SCHEME_REPLACEMENT != {"ssh": "git+ssh"}:
        ctx.mismatch(dict(kind="consts"), repr(I.urls.SCHEME_REPLACEMENT), "{'ssh': 'git+ssh'}", tie="T2 constants")


# --------------------------------------------------------------------------
# 1. file-id escaping

ESC_ALPHA = [b"_", b" ", b"\x0c", b"s", b"c", b"x"]
ESC_WIDE = ESC_ALPHA + [b"/", b"\x00", b"\xff", b"\x0b", b"S", b"__", b"_s", b"_c", b"a b", b".git"]


def gen_bytes(rng, alpha, maxlen):
    return b"".join(rng.choice(alpha) for _ in range(rng.randint(0, maxlen)))


def oracle_escape(ctx, I, b):
    esc = I.mapping.escape_file_id(b)
    ok, back = call(I.mapping.unescape_file_id, esc)
    if not ok or back != b:
        ctx.violation(dict(kind="esc", b=jb(b)), "unescape_file_id(escape_file_id(%r)) = %r" % (b, back))


def oracle_unescape(ctx, I, y):
    ok, x = call(I.mapping.unescape_file_id, y)
    if ok and b" " not in y and b"\x0c" not in y:
        if I.mapping.escape_file_id(x) != y:
            ctx.violation(dict(kind="unesc", b=jb(y)),
                          "escape_file_id(unescape_file_id(%r)) = %r" % (y, I.mapping.escape_file_id(x)))


def sec_escape(ctx, I):
    B = Batch(ctx)

    def one(b, exhaustive=False):
        ok, r = call(I.mapping.escape_file_id, b)
        B.add(dict(kind="esc", b=jb(b)), "esc " + hx(b), hx(r) if ok else r)
        oracle_escape(ctx, I, b)
        ok, r = call(I.mapping.unescape_file_id, b)
        B.add(dict(kind="unesc", b=jb(b)), "unesc " + hx(b), hx(r) if ok else r)
        oracle_unescape(ctx, I, b)
        ctx.case(["esc", b.hex()], nontrivial=any(c in b for c in b"_ \x0c"))
        ctx.count("esc:" + ("unescape-error" if not ok else "ok"))
        ctx.count("esc:len%d" % min(len(b), 9))

    L = ctx.pick(4, 5)
    for n in range(L + 1):
        for t in itertools.product(ESC_ALPHA, repeat=n):
            one(b"".join(t), True)
    for _ in range(ctx.pick(1500, 20000)):
        one(gen_bytes(ctx.rng, ESC_WIDE, 12))
    B.flush()
    ctx.extra["escape_exhaustive_len"] = L


# --------------------------------------------------------------------------
# 2. UTF-8 / surrogateescape

U8_BYTES = [0x00, 0x41, 0x7f, 0x80, 0x8f, 0x90, 0x9f, 0xa0, 0xbf, 0xc0, 0xc1, 0xc2, 0xdf, 0xe0, 0xe1, 0xec, 0xed,
            0xee, 0xef, 0xf0, 0xf1, 0xf3, 0xf4, 0xf5, 0xff, 0x2f, 0x5f, 0x20]
U8_CPS = [0x00, 0x41, 0x7f, 0x80, 0x7ff, 0x800, 0xfff, 0x1000, 0xd7ff, 0xd800, 0xdbff, 0xdc00, 0xdc7f, 0xdc80,
          0xdcc3, 0xdca9, 0xdcff, 0xdd00, 0xdfff, 0xe000, 0xfffd, 0xffff, 0x10000, 0x3ffff, 0x40000, 0xfffff,
          0x100000, 0x10ffff, 0xe9, 0x20ac, 0x1f600, 0x2f, 0x5f]


def gen_u8_bytes(rng, maxlen=8):
    out = bytearray()
    for _ in range(rng.randint(0, maxlen)):
        r = rng.random()
        if r < 0.35:
            out += rng.choice(["a", "é", "€", "😀", "\u07ff", "\u0800", "\ud7ff", "\ue000", "\U00010000",
                               "\U0010ffff", "_", " ", "/"]).encode("utf-8")
        else:
            out.append(rng.choice(U8_BYTES))
    return bytes(out)


def gen_str(rng, maxlen=6):
    return "".join(chr(rng.choice(U8_CPS)) for _ in range(rng.randint(0, maxlen)))


def sec_utf8(ctx, I):
    B = Batch(ctx)
    dec, enc = I.mapping.decode_git_path, I.mapping.encode_git_path

    def one_bytes(b):
        s = dec(b)
        B.add(dict(kind="decse", b=jb(b)), "decse " + hx(b), cps(s))
        ok, r = call(b.decode, "utf-8")
        B.add(dict(kind="decst", b=jb(b)), "decst " + hx(b), cps(r) if ok else r)
        back = enc(s)
        if back != b:
            ctx.violation(dict(kind="decse", b=jb(b)), "encode_git_path(decode_git_path(%r)) = %r" % (b, back))
        if ok and r.encode("utf-8") != b:
            ctx.violation(dict(kind="decst", b=jb(b)), "strict UTF-8 round trip fails for %r" % (b,))
        ctx.case(["u8", b.hex()], nontrivial=any(c >= 0x80 for c in b))
        ctx.count("utf8:" + ("well-formed" if ok else "ill-formed"))

    def one_str(s):
        for se, label in ((True, "T"), (False, "F")):
            ok, r = call(s.encode, "utf-8", "surrogateescape" if se else "strict")
            B.add(dict(kind="enc", se=se, s=js(s)), "enc %s %s" % (label, cps(s)), hx(r) if ok else r)
            if ok and not se and r.decode("utf-8") != s:
                ctx.violation(dict(kind="enc", se=se, s=js(s)), "strict decode(encode(s)) != s")
            ctx.count("enc:" + ("ok" if ok else "error"))
        ctx.case(["str", js(s)], nontrivial=any(ord(c) >= 0x80 for c in s))

    for a in range(256):
        one_bytes(bytes([a]))
    for a in range(0x80, 256):          # every lead/continuation byte followed by every byte
        for b in range(256):
            one_bytes(bytes([a, b]))
    for lead in (0xe0, 0xe1, 0xed, 0xee, 0xef, 0xf0, 0xf1, 0xf4):
        for b1 in (0x7f, 0x80, 0x8f, 0x90, 0x9f, 0xa0, 0xbf, 0xc0):
            for b2 in (0x7f, 0x80, 0xbf, 0xc0):
                one_bytes(bytes([lead, b1, b2]))
                one_bytes(bytes([lead, b1, b2, 0x80]))
                one_bytes(bytes([lead, b1, b2, 0xbf, 0x41]))
    for _ in range(ctx.pick(3000, 40000)):
        one_bytes(gen_u8_bytes(ctx.rng))
    for c in U8_CPS:
        one_str(chr(c))
    for _ in range(ctx.pick(2000, 30000)):
        one_str(gen_str(ctx.rng))
    B.flush()


# --------------------------------------------------------------------------
# 3. file ids


def gen_path(rng):
    r = rng.random()
    if r < 0.05:
        return b""
    if r < 0.5:
        return gen_bytes(rng, ESC_WIDE + [b"dir/", b"\xc3\xa9", b"\xe2\x82"], 8)
    return gen_u8_bytes(rng, 8)


def oracle_fileid(ctx, I, p):
    m = I.m1
    fid = m.generate_file_id(p)
    ok, s = call(m.parse_file_id, fid)
    if not ok:
        ctx.violation(dict(kind="fileid", b=jb(p)), "parse_file_id(generate_file_id(%r)) raises %s" % (p, s))
        return
    if I.mapping.encode_git_path(s) != p:
        ctx.violation(dict(kind="fileid", b=jb(p)),
                      "parse_file_id(generate_file_id(%r)) = %r, a different path" % (p, s))
    # the str form of the same path (what breezy-git hands around)
    s0 = I.mapping.decode_git_path(p)
    ok2, s2 = call(lambda: m.parse_file_id(m.generate_file_id(s0)))
    if not ok2 or s2 != s0:
        ctx.violation(dict(kind="fileid", b=jb(p)), "str path %r does not survive generate/parse: %r" % (s0, s2))


def sec_fileid(ctx, I):
    B = Batch(ctx)
    m = I.m1

    def one(p):
        fid = m.generate_file_id(p)
        B.add(dict(kind="genb", b=jb(p)), "genb " + hx(p), hx(fid))
        ok, s = call(m.parse_file_id, fid)
        B.add(dict(kind="parse", b=jb(fid)), "parse " + hx(fid), cps(s) if ok else s)
        oracle_fileid(ctx, I, p)
        ctx.case(["fileid", p.hex()], nontrivial=(p == b"" or any(c in b"_ \x0c" or c >= 0x80 for c in p)))
        ctx.count("fileid:" + ("root" if p == b"" else "ill-formed-utf8" if I.mapping.decode_git_path(p).encode(
            "utf-8", "replace") != p else "plain"))

    def one_str(s):
        ok, fid = call(m.generate_file_id, s)
        B.add(dict(kind="gens", s=js(s)), "gens " + cps(s), hx(fid) if ok else fid)
        ctx.case(["fileid-str", js(s)])
        ctx.count("fileid-str:" + ("ok" if ok else "error"))

    def one_id(fid):       # malformed stream: accept/reject + error kind, value when accepted
        ok, s = call(m.parse_file_id, fid)
        B.add(dict(kind="parse", b=jb(fid)), "parse " + hx(fid), cps(s) if ok else s)
        ctx.case(["parse", fid.hex()])
        ctx.count("parse:" + ("ok" if ok else s))

    for p in (b"", b"TREE_ROOT", b"git:", b"a b", b"_", b"\x0c", b"\xff", b"\xc3\xa9", b"\xed\xa0\x80"):
        one(p)
    for _ in range(ctx.pick(2500, 30000)):
        one(gen_path(ctx.rng))
    # str paths outside the image of decode_git_path (excluded family): correspondence only
    for s in ("\udcc3\udca9", "\ud800", "a\udcff", "", "é"):
        one_str(s)
    for _ in range(ctx.pick(500, 5000)):
        one_str(gen_str(ctx.rng))
    for fid in (b"TREE_ROOT", b"TREE_ROOT2", b"git:", b"git", b"gi", b"", b"git:_", b"git:_x", b"git:a_", b"bzr:a",
                b"git:a b", b"GIT:a"):
        one_id(fid)
    for _ in range(ctx.pick(400, 4000)):
        one_id(ctx.rng.choice([b"git:", b"git:", b"git", b"TREE_ROOT", b""]) + gen_bytes(ctx.rng, ESC_WIDE, 6))
    B.flush()


# --------------------------------------------------------------------------
# 4. revision ids


def gen_sha(rng):
    from dulwich.protocol import ZERO_SHA
    r = rng.random()
    if r < 0.1:
        return ZERO_SHA
    if r < 0.6:
        return ("%040x" % rng.getrandbits(160)).encode()
    if r < 0.7:
        return ZERO_SHA[:-1] + rng.choice([b"", b"1", b"00"])
    return gen_bytes(rng, [b"0", b"a", b":", b"git-v1", b"-", b"\xff", b"null:", b" "], 6)


def oracle_revid(ctx, I, pfx, sha):
    from dulwich.protocol import ZERO_SHA
    m = I.mapping_for(pfx)
    revid = m.revision_id_foreign_to_bzr(sha)
    ok, r = call(I.registry.revision_id_bzr_to_foreign, revid)
    exp_map = None if sha == ZERO_SHA else pfx
    if not ok or r[0] != sha or (None if r[1] is None else r[1].revid_prefix) != exp_map:
        ctx.violation(dict(kind="revid", pfx=jb(pfx), sha=jb(sha)),
                      "registry.revision_id_bzr_to_foreign(foreign_to_bzr(%r)) = %r" % (sha, r))
    if sha != ZERO_SHA:
        ok, r = call(m.revision_id_bzr_to_foreign, revid)
        if not ok or r[0] != sha or m.revision_id_foreign_to_bzr(r[0]) != revid:
            ctx.violation(dict(kind="revid", pfx=jb(pfx), sha=jb(sha)),
                          "mapping.revision_id_bzr_to_foreign(%r) = %r" % (revid, r))


def sec_revid(ctx, I):
    B = Batch(ctx)

    def reg_line(revid):
        ok, r = call(I.registry.revision_id_bzr_to_foreign, revid)
        out = (hx(r[0]) + " " + ("~" if r[1] is None else hx(r[1].revid_prefix))) if ok else r
        B.add(dict(kind="reg", b=jb(revid)), "reg " + hx(revid), out)
        ctx.count("reg:" + ("ok" if ok else r))
        return ok

    def one(pfx, sha):
        m = I.mapping_for(pfx)
        revid = m.revision_id_foreign_to_bzr(sha)
        B.add(dict(kind="f2b", pfx=jb(pfx), sha=jb(sha)), "f2b %s %s" % (hx(pfx), hx(sha)), hx(revid))
        ok, r = call(m.revision_id_bzr_to_foreign, revid)
        B.add(dict(kind="b2f", pfx=jb(pfx), b=jb(revid)), "b2f %s %s" % (hx(pfx), hx(revid)), hx(r[0]) if ok else r)
        reg_line(revid)
        oracle_revid(ctx, I, pfx, sha)
        ctx.case(["revid", pfx.hex(), sha.hex()])

    def one_revid(revid):  # malformed stream
        for pfx in (I.m1.revid_prefix, I.mx.revid_prefix):
            ok, r = call(I.mapping_for(pfx).revision_id_bzr_to_foreign, revid)
            B.add(dict(kind="b2f", pfx=jb(pfx), b=jb(revid)), "b2f %s %s" % (hx(pfx), hx(revid)),
                  hx(r[0]) if ok else r)
        reg_line(revid)
        ctx.case(["revid-raw", revid.hex()])

    pf = [I.m1.revid_prefix, I.mx.revid_prefix]
    for _ in range(ctx.pick(1500, 15000)):
        one(ctx.rng.choice(pf), gen_sha(ctx.rng))
    from dulwich.protocol import ZERO_SHA
    fixed = [b"null:", b"git-v1", b"git-v1:", b"git-v1:" + ZERO_SHA, b"git-foo:abc", b"bzr:abc", b"", b"git-",
             b"git-:x", b"git-experimental:abc", b"git-v1:a:b", b"git-v10:a", b"GIT-v1:a", b"null:x", b"git-v1abc"]
    for r in fixed:
        one_revid(r)
    for _ in range(ctx.pick(500, 5000)):
        one_revid(gen_bytes(ctx.rng, [b"git-", b"v1", b"git-v1", b"git-experimental", b":", b"a", b"0", b"null:"], 5))
    B.flush()


# --------------------------------------------------------------------------
# 5. ref names

NAME_TOK = ["a", "b", "/", "refs/", "heads/", "tags/", "refs", "é", "😀", " ", "%", ",", "=", "HEAD", "~", "_",
            "\x0c", "master", "\u07ff", "\u0800"]


NAME_TOK_NOWS = [t for t in NAME_TOK if t not in (" ", "\x0c")]


def gen_name(rng, surrogates=True, maxtok=4, ws=True):
    toks = [rng.choice(NAME_TOK if ws else NAME_TOK_NOWS) for _ in range(rng.randint(0, maxtok))]
    if surrogates and rng.random() < 0.06:
        toks.insert(rng.randint(0, len(toks)), rng.choice(["\ud800", "\udc80", "\udfff"]))
    return "".join(toks)


def gen_ref(rng, ws=True):
    r = rng.random()
    if r < 0.08:
        return b"HEAD"
    pre = rng.choice([b"refs/heads/", b"refs/heads/", b"refs/tags/", b"refs/tags/", b"refs/remotes/origin/", b"refs/",
                      b"", b"refs/heads", b"HEAD/"])
    if rng.random() < 0.15:
        body = gen_u8_bytes(rng, 4)
        if not ws:
            body = bytes(c for c in body if c not in (0x20, 0x00))
    else:
        body = gen_name(rng, False, ws=ws).encode("utf-8")
    return pre + body


def oracle_refs(ctx, I, name=None, ref=None):
    R = I.refs
    if name is not None:
        ok, r = call(R.branch_name_to_ref, name)
        if ok and not name.startswith("refs/"):
            ok2, n2 = call(R.ref_to_branch_name, r)
            if not ok2 or n2 != name:
                ctx.violation(dict(kind="b2r", s=js(name)), "ref_to_branch_name(branch_name_to_ref(%r)) = %r" % (name, n2))
        ok, r = call(R.tag_name_to_ref, name)
        if ok:
            ok2, n2 = call(R.ref_to_tag_name, r)
            if not ok2 or n2 != name:
                ctx.violation(dict(kind="t2r", s=js(name)), "ref_to_tag_name(tag_name_to_ref(%r)) = %r" % (name, n2))
    if ref is not None:
        ok, n = call(R.ref_to_branch_name, ref)
        if ok and (n != "" or ref == b"HEAD") and not n.startswith("refs/"):
            ok2, r2 = call(R.branch_name_to_ref, n)
            if not ok2 or r2 != ref:
                ctx.violation(dict(kind="r2b", b=jb(ref)), "branch_name_to_ref(ref_to_branch_name(%r)) = %r" % (ref, r2))
        ok, n = call(R.ref_to_tag_name, ref)
        if ok:
            ok2, r2 = call(R.tag_name_to_ref, n)
            if not ok2 or r2 != ref:
                ctx.violation(dict(kind="r2t", b=jb(ref)), "tag_name_to_ref(ref_to_tag_name(%r)) = %r" % (ref, r2))


def sec_refs(ctx, I):
    B = Batch(ctx)
    R = I.refs

    def one_name(name):
        ok, r = call(R.branch_name_to_ref, name)
        B.add(dict(kind="b2r", s=js(name)), "b2r " + cps(name), hx(r) if ok else r)
        ctx.count("b2r:" + ("ok" if ok else r))
        ok, r = call(R.tag_name_to_ref, name)
        B.add(dict(kind="t2r", s=js(name)), "t2r " + cps(name), hx(r) if ok else r)
        oracle_refs(ctx, I, name=name)
        ctx.case(["name", js(name)])

    def one_ref(ref):
        ok, r = call(R.ref_to_branch_name, ref)
        B.add(dict(kind="r2b", b=jb(ref)), "r2b " + ohx(ref), ocps(r) if ok else r)
        ctx.count("r2b:" + ("ok" if ok else r))
        if ref is not None:
            ok, r = call(R.ref_to_tag_name, ref)
            B.add(dict(kind="r2t", b=jb(ref)), "r2t " + hx(ref), cps(r) if ok else r)
            ctx.count("r2t:" + ("ok" if ok else r))
            oracle_refs(ctx, I, ref=ref)
        ctx.case(["ref", jb(ref)])

    for n in ("", "master", "refs/tags/v1", "refs/heads/x", "refs", "refs/", "HEAD", "a/b", "é", "\ud800", "ref/x"):
        one_name(n)
    for r in (None, b"HEAD", b"refs/heads/", b"refs/heads/refs/x", b"refs/heads/\xff", b"refs/tags/", b"refs/tags/\xc3",
              b"refs/heads/HEAD", b"", b"refs/heads", b"refs/tags/v1", b"refs/heads/a/b"):
        one_ref(r)
    for _ in range(ctx.pick(2500, 30000)):
        one_name(gen_name(ctx.rng))
    for _ in range(ctx.pick(2500, 30000)):
        one_ref(gen_ref(ctx.rng))
    B.flush()


# --------------------------------------------------------------------------
# 6. URLs

HOSTS = ["h", "example.com", "git.example.org", "10.0.0.1", "host-1"]
SEGS = ["r", "repo.git", "~u", "a-b", "proj", "x_y", "UP"]


def gen_url_loc(rng, remote_only=False):
    """a location of the bounded grammar; returns (location, class)"""
    r = rng.random()
    if r < 0.62 or remote_only:
        scheme = rng.choice(["git+ssh", "git", "http", "https", "ftp", "ssh", "ssh", "chroot-7"]
                            if not remote_only else ["git+ssh", "git", "http", "https", "ssh"])
        # (str(URL) drops a password when it re-serialises ssh:// URLs: outside the grammar)
        user = rng.choice(["", "", "u@", "git@"] + ([] if scheme == "ssh" else ["u:pw@"])) if scheme != "chroot-7" else ""
        host = rng.choice(HOSTS) if scheme != "chroot-7" else ""
        port = rng.choice(["", "", ":22", ":8080"]) if scheme != "chroot-7" else ""
        segs = [rng.choice(SEGS) for _ in range(rng.randint(0, 3))]
        if len(segs) >= 2 and rng.random() < 0.12:
            # a comma in a segment that is not the last one is an ordinary character
            segs[rng.randrange(len(segs) - 1)] += rng.choice([",x", ",k=v", ","])
        path = "".join("/" + s for s in segs)
        if rng.random() < 0.2:
            path += "/"
        if segs and rng.random() < (0.0 if remote_only else 0.15):
            path += rng.choice([",x=1", ",branch=old", ",ref=old", ", k = v ", ",zz=9,aa=1"])
        return scheme + "://" + user + host + port + path, "known"
    if r < 0.8:
        user = rng.choice(["", "u@", "git@", "a@b@"])
        host = rng.choice(HOSTS + ["h"])
        path = rng.choice(["", "/"]) + "/".join(
            rng.choice(SEGS + ["a b", "c,d", "é", "p%q", "x=y", "a:b", "#f"]) for _ in range(rng.randint(1, 3)))
        return user + host + ":" + path, "rsync"
    if r < 0.9:
        return rng.choice(["file:///srv/r", "bzr://h/r", "HTTPS://h/r", "lp:proj", "svn+ssh://h/r", "x://h/r,a=b"]), "unknown"
    return rng.choice(["/srv/git/r", "rel/path", "r", ".", "/srv/r,branch=x", "C:\\x"][:5]), "path"


def gen_branch(rng, ws=True):
    r = rng.random()
    if r < 0.08:
        return ""
    return gen_name(rng, surrogates=False, maxtok=3, ws=ws) or "b"


def gen_git_ref(rng, ws=True):
    r = rng.random()
    if r < 0.12:
        return b"HEAD"
    if r < 0.16:
        return b""
    if r < 0.2:
        return b"refs/heads/"
    return gen_ref(rng, ws=ws)


def eff(I, branch, ref):
    """the git ref a (branch, ref) pair designates"""
    if branch:
        return I.refs.branch_name_to_ref(branch)
    if ref:
        return ref
    return b"HEAD"


def b2g_canon(t):
    """canonical output of bzr_url_to_git_url (correct shape: ref is bytes)"""
    url, branch, ref = t
    if isinstance(ref, str):
        return "%s %s S:%s" % (cps(url), ocps(branch), cps(ref))
    return "%s %s %s" % (cps(url), ocps(branch), ohx(ref))


def b2g_canon_legacy(t):
    url, branch, ref = t
    if isinstance(ref, bytes):
        return "%s %s B:%s" % (cps(url), ocps(branch), hx(ref))
    return "%s %s %s" % (cps(url), ocps(branch), ocps(ref))


def b2g_family(I, u):
    """classify a bzr URL on which bzr_url_to_git_url behaves like the legacy model"""
    try:
        _, params = I.urlutils.split_segment_parameters(u)
    except Exception:  # noqa: BLE001
        return None
    if "ref" in params or "revno" in params:
        return "url-ref-param-dropped"        # the wrong parameter name is read
    b = params.get("branch")
    if b is not None:
        try:
            if I.urlutils.unescape(b) != b:
                return "url-branch-left-escaped"
        except Exception:  # noqa: BLE001  (not ASCII: unescape rejects it, the legacy code passes it on)
            return "url-branch-left-escaped"
    return None


def b2g_compare(ctx, I, case, u, pending):
    """queue bzr_url_to_git_url(u) for comparison with the model and the legacy model"""
    ok, t = call(I.urls.bzr_url_to_git_url, u)
    pending.append((case, u, b2g_canon(t) if ok else t, b2g_canon_legacy(t) if ok else t))


def b2g_flush(ctx, I, pending):
    if not pending:
        return
    lines = []
    for _, u, _, _ in pending:
        lines.append("b2g " + cps(u))
        lines.append("b2gL " + cps(u))
    rep = ctx.model(lines)
    for i, (case, u, impl, impl_legacy) in enumerate(pending):
        model, legacy = rep[2 * i], rep[2 * i + 1]
        ctx.traces += 1
        if impl == model:
            ctx.count("b2g:agrees")
            continue
        # (the fixes 5b3d902 / ef03ad7 are in: a difference is never tolerated; when the code behaves like
        # the legacy model again the regression is also reported as a violation with its family)
        # (the slugs of the repaired defects are only counted, never assigned as a family: a regression is plain)
        fam = b2g_family(I, u)
        if impl_legacy == legacy and fam is not None:
            ctx.count("b2g:legacy-behaviour:" + fam)
            ctx.violation(case, "bzr_url_to_git_url(%r) gives %s, the inverse of git_url_to_bzr_url gives %s"
                          % (u, show_b2g(impl_legacy, True), show_b2g(model)), family=None)
        ctx.mismatch(case, impl, model, line="b2g " + cps(u))
    del pending[:]


def show_b2g(canon, legacy=False):
    """human-readable form of a canonical bzr_url_to_git_url result"""
    if canon.startswith("E:"):
        return canon
    url, branch, ref = canon.split(" ")

    def dref(x):
        if x == "~":
            return None
        if x.startswith("S:"):
            return uncps(x[2:])
        if x.startswith("B:"):
            return unhx(x[2:])
        return uncps(x) if legacy else unhx(x)
    return repr((uncps(url), None if branch == "~" else uncps(branch), dref(ref)))


def unhx(x):
    return b"" if x == "-" else bytes.fromhex(x)


def safe_unescape(I, x):
    try:
        return I.urlutils.unescape(x)
    except Exception:  # noqa: BLE001
        return None


def is_plain_path(loc):
    """a location without ':' (not a URL, not rsync-style), e.g. a local path"""
    return ":" not in loc


def last_seg_has_comma(u):
    """split_segment_parameters only looks at the last path segment (before and after
    strip_trailing_slash); commas elsewhere in a URL are ordinary characters"""
    return "," in u.rsplit("/", 1)[-1] or "," in u.rstrip("/").rsplit("/", 1)[-1]


def oracle_url(ctx, I, loc, branch, ref, out):
    """bzr_url_to_git_url(git_url_to_bzr_url(loc, branch, ref)) designates the same location and ref;
    git_url_to_bzr_url of that triple gives the same URL again"""
    case = dict(kind="url", loc=js(loc), branch=js(branch), ref=jb(ref))
    base = I.urls.git_url_to_bzr_url(loc)
    if last_seg_has_comma(base):
        return  # the last path segment already carries segment parameters: correspondence only
    if ref is not None and (ref == b"refs/heads/" or ref.startswith(b"refs/heads/refs/")):
        # degenerate refs (empty branch name / branch name that is itself a ref path): excluded by `refOk`,
        # behaviour pinned by the witness theorem url_refOk_witness and compared with the model (T2)
        ctx.count("url:refOk-excluded")
        return
    ok, t = call(I.urls.bzr_url_to_git_url, out)
    if not ok:
        ctx.violation(case, "bzr_url_to_git_url(%r) raises %s" % (out, t))
        return
    url2, b2, r2 = t
    fam = None
    want = eff(I, branch, ref)
    try:
        got = eff(I, b2, r2.encode("utf-8") if isinstance(r2, str) else r2)
    except Exception as e:  # noqa: BLE001
        got = repr(e)
    if url2 != base or got != want:
        if url2 == base and b2 is None and r2 is None and ",ref=" in out:
            fam = "url-ref-param-dropped"
        elif url2 == base and r2 is None and b2 is not None and safe_unescape(I, b2) not in (None, b2) and \
                eff(I, safe_unescape(I, b2), None) == want:
            fam = "url-branch-left-escaped"
        elif out == loc and is_plain_path(loc):
            # neither a URL nor rsync-style: returned early, the branch/ref is not recorded at all
            fam = "non-url-location-drops-ref"
        ctx.violation(case, "git_url_to_bzr_url(%r, branch=%r, ref=%r) = %r; bzr_url_to_git_url of it = %r: "
                      "designates %r, expected (%r, %r)" % (loc, branch, ref, out, t, got, base, want), family=None)
        if fam is not None:
            ctx.count("url:legacy-behaviour:" + fam)
        return
    ok, again = call(I.urls.git_url_to_bzr_url, url2, branch=b2, ref=r2)
    if not ok or again != out:
        ctx.violation(case, "git_url_to_bzr_url(*bzr_url_to_git_url(%r)) = %r" % (out, again))


def sec_urls(ctx, I):
    B = Batch(ctx)
    pending = []
    g2b_pending = []

    def one(loc, branch, ref):
        try:
            out = I.urls.git_url_to_bzr_url(loc, branch=branch, ref=ref)
            ok = True
        except Exception as e:  # noqa: BLE001
            ok = False
            out = "E:UnicodeEncode" if isinstance(e, (UnicodeEncodeError, TypeError)) else exc_kind(e)
        case = dict(kind="url", loc=js(loc), branch=js(branch), ref=jb(ref))
        g2b_pending.append((case, loc, "%s %s %s" % (cps(loc), ocps(branch), ohx(ref)), cps(out) if ok else out))
        ctx.count("g2b:" + ("ok" if ok else out))
        if ok:
            ctx.count("g2b:param:" + ("ref" if ",ref=" in out and out != loc else "branch" if ",branch=" in out and out != loc else "none"))
            b2g_compare(ctx, I, dict(kind="b2g", u=js(out)), out, pending)
            oracle_url(ctx, I, loc, branch, ref, out)
        ctx.case(["url", js(loc), js(branch), jb(ref)],
                 nontrivial=(not ok) or out != loc)

    def one_bzr(u):
        b2g_compare(ctx, I, dict(kind="b2g", u=js(u)), u, pending)
        ctx.case(["bzr-url", js(u)])

    for loc, br, rf in [("https://h/r", None, b"refs/tags/v1"), ("https://h/r", "a/b", None),
                        ("https://h/r", "foo", None), ("git://h/r", None, b"refs/heads/foo"),
                        ("ssh://u@h:22/p", None, b"HEAD"), ("u@h:p q", "", None), ("h:/abs", "x", b"HEAD"),
                        ("https://h/r/", "é,=%", None), ("/srv/r", "x", None), ("https://h/r,a=b", "x", None),
                        ("https://h/r", None, b"refs/heads/\xff"), ("https://h/r", None, b"refs/x/\xff%"),
                        # the inputs of url_refOk_witness / url_trailing_comma_witness / the weakened comma hypothesis
                        ("https://h/r", None, b"refs/heads/refs/x"), ("https://h/r", None, b"refs/heads/"),
                        ("https://h/r,a=b", "x", None), ("https://h/a,b/r", "x,y", None),
                        ("https://h/a,b/r/", None, b"refs/tags/v,1")]:
        one(loc, br, rf)
    for _ in range(ctx.pick(3000, 40000)):
        loc, cls = gen_url_loc(ctx.rng)
        r = ctx.rng.random()
        if r < 0.1:
            br, rf = None, None
        elif r < 0.5:
            br, rf = gen_branch(ctx.rng), None
        elif r < 0.95:
            br, rf = None, gen_git_ref(ctx.rng)
        else:
            br, rf = gen_branch(ctx.rng), gen_git_ref(ctx.rng)
        ctx.count("url:loc:" + cls)
        one(loc, br, rf)
    # hand-built bzr URLs (not necessarily in canonical form): correspondence
    tails = ["", ",branch=x", ",branch=a%2Fb", ",branch=a%2fb", ",ref=refs%2Ftags%2Fv1", ",ref=%ff%FE", ",revno=3",
             ",branch", ",=x", ",branch=a=b", ",branch=a,branch=b", ", branch = x ", ",branch=%ZZ", ",branch=%e9",
             ",branch=%C3%A9", ",branch=é", ",ref=é", ",branch=x,ref=refs%2Fy", ",ref=", ",branch=", ",x=1/", "/",
             ",branch=x/", ",branch=a%25b", ",ref=a%2", ",ref=%"]
    for base in ("https://h/r", "git+ssh://u@h/p/q", "http://h", "http://h/", "h", "/srv/r", "https://h/a,b=c/r"):
        for t in tails:
            one_bzr(base + t)
    for _ in range(ctx.pick(1500, 15000)):
        base, _ = gen_url_loc(ctx.rng)
        one_bzr(base + "".join(ctx.rng.choice(tails) for _ in range(ctx.rng.randint(0, 2))))
    B.flush()
    b2g_flush(ctx, I, pending)
    rep = ctx.model([x for _, _, a, _ in g2b_pending for x in ("g2b " + a, "g2bL " + a)])
    for i, (case, loc, a, impl) in enumerate(g2b_pending):
        model, legacy = rep[2 * i], rep[2 * i + 1]
        ctx.traces += 1
        if impl == model:
            continue
        if impl == legacy and is_plain_path(loc):
            ctx.count("g2b:legacy-behaviour:non-url-location-drops-ref")  # also reported by the oracle
        ctx.mismatch(case, impl, model, line="g2b " + a)
    # helper functions of the model, directly
    B = Batch(ctx)
    for _ in range(ctx.pick(800, 8000)):
        n = gen_name(ctx.rng, False)
        ok, r = call(I.urlutils.escape, n, safe="")
        B.add(dict(kind="escs", s=js(n)), "escs " + cps(n), cps(r) if ok else r)
        if ok:
            ok2, r2 = call(I.urlutils.unescape, r)
            B.add(dict(kind="unescs", s=js(r)), "unescs " + cps(r), cps(r2) if ok2 else r2)
        b = gen_u8_bytes(ctx.rng, 5)
        q = I.urlutils.quote_from_bytes(b, safe="")
        B.add(dict(kind="quoteb", b=jb(b)), "quoteb " + hx(b), cps(q))
        B.add(dict(kind="unquoteb", s=js(q)), "unquoteb " + cps(q), hx(I.urlutils.unquote_to_bytes(q)))
        ctx.case(["pct", js(n), jb(b)])
    B.flush()


# --------------------------------------------------------------------------
# 6c. dulwich ConfigFile: value format / parse (what lies between set_parent and get_parent)

CFGV_ALPHA = [b" ", b"\t", b"#", b";", b'"', b"\\", b"\n", b"\r", b"\x0b", b"\x0c", b"a", b"n", b"t", b"b", b"r", b"=",
              b"\x08", b"\xff", b"refs/heads/", b"]", b"["]


def sec_cfg(ctx, I):
    """T2 of the model's cfgFormat / cfgParse / cfgReread / cfgValueSafe / subsecEscape against dulwich's
    _format_string / _parse_string / a real write_to_file + from_file / _escape_subsection.  (No oracle here: a
    value dulwich does not read back is dulwich's business until a parent location is lost through it — that is
    what the parent stream's oracle reports.)"""
    from io import BytesIO
    from dulwich.config import ConfigFile, _format_string, _parse_string, _escape_subsection, _unescape_subsection
    B = Batch(ctx)
    safe_lines, safe_meta = [], []

    def one(v):
        B.add(dict(kind="cfgfmt", b=jb(v)), "cfgfmt " + hx(v), hx(_format_string(v)))
        ok, r = call(_parse_string, v)
        B.add(dict(kind="cfgparse", b=jb(v)), "cfgparse " + hx(v), hx(r) if ok else r)
        cf = ConfigFile()
        cf.set((b"branch", b"x"), b"merge", v)
        f = BytesIO()
        cf.write_to_file(f)
        ok, r = call(lambda: ConfigFile.from_file(BytesIO(f.getvalue())).get((b"branch", b"x"), b"merge"))
        B.add(dict(kind="cfgreread", b=jb(v)), "cfgreread " + hx(v), hx(r) if ok else r)
        safe_lines.append("cfgsafe " + hx(v))
        safe_meta.append((v, ok and r == v))
        if b"\n" not in v and b"\0" not in v:
            B.add(dict(kind="subesc", b=jb(v)), "subesc " + hx(v), hx(_escape_subsection(v)))
        B.add(dict(kind="subunesc", b=jb(v)), "subunesc " + hx(v), hx(_unescape_subsection(v)))
        ctx.case(["cfgv", v.hex()], nontrivial=any(c in v for c in b' \t#;"\\\n\r\x0b\x0c'))
        ctx.count("cfgv:" + ("reread-same" if ok and r == v else "reread-differs"))

    for v in (b"", b"a;b", b"a#b", b" a", b"a ", b"a\rb", b"\x0ca", b'a"b', b"a\\", b"a b", b"refs/heads/a;b#c", b'"', b"\\"):
        one(v)
    for _ in range(ctx.pick(1500, 20000)):
        one(gen_bytes(ctx.rng, CFGV_ALPHA, 7))
    B.flush()
    # the hypothesis of cfg_value_roundtrip on the real code: every value the model calls safe is read back
    # unchanged by dulwich (and how often an unsafe one is, too: the predicate is meant to be exact)
    for (v, same), rep in zip(safe_meta, ctx.model(safe_lines)):
        ctx.traces += 1
        if rep == "T" and not same:
            ctx.mismatch(dict(kind="cfgsafe", b=jb(v)), "dulwich does not read %r back" % (v,), "cfgValueSafe = true",
                         line="cfgsafe " + hx(v))
        elif rep == "F" and same:
            ctx.count("cfgv:unsafe-but-read-back")
        ctx.count("cfgv:safe" if rep == "T" else "cfgv:unsafe")


# --------------------------------------------------------------------------
# 7. parent location

_PARENT = {}


# branch names whose section header `[branch "<name>"]` needs the quoting / escaping of dulwich's ConfigFile
PARENT_NAMES = ["master", "feat/x", "origin", "é-b", "a;b", "a#b", 'a"b', "x]y"]
UNNAMED = ""            # the branch of a detached HEAD: no name, ref HEAD
QUOTE_COMMENT_NAME = 'q"#x'   # only used by one fixed case: its section header cannot be read back by dulwich


def parent_env(name="master"):
    """scratch git trees: one with a few named branches, one with a detached HEAD (its branch has no
    name); the config file is reset before every case"""
    key = "detached" if name == UNNAMED else "named"
    if key in _PARENT:
        return _PARENT[key]
    wt = env.make_tree("git")
    wt.commit("x")
    g = wt.branch.repository._git
    head = g.refs[b"refs/heads/master"]
    if key == "named":
        for n in PARENT_NAMES[1:] + [QUOTE_COMMENT_NAME]:
            g.refs[b"refs/heads/" + n.encode("utf-8")] = head
    else:
        with open(os.path.join(wt.basedir, ".git", "HEAD"), "wb") as f:
            f.write(head + b"\n")
        from breezy.controldir import ControlDir
        br = ControlDir.open(wt.basedir).open_branch(name=UNNAMED)
        if br.name != "" or br.ref != b"HEAD":
            raise env.InfraError("C36: cannot build an unnamed git branch (got name %r ref %r)" % (br.name, br.ref))
    cfgpath = os.path.join(wt.basedir, ".git", "config")
    _PARENT[key] = dict(wt=wt, names=PARENT_NAMES, cfgpath=cfgpath, initial=open(cfgpath, "rb").read(),
                        basedir=wt.basedir)
    return _PARENT[key]


def open_parent_branch(P, name):
    from breezy.controldir import ControlDir
    return ControlDir.open(P["basedir"]).open_branch(name=name)


UNREADABLE = [(b"E", b"Value", b"config-unreadable", b"")]


def read_cfg(path):
    from dulwich.config import ConfigFile
    try:
        cf = ConfigFile.from_path(path)
    except ValueError:
        return list(UNREADABLE)
    out = []
    for sec in cf.sections():
        if sec[0] in (b"remote", b"branch") and len(sec) == 2:
            for k, v in cf.items(sec):
                out.append((sec[0], sec[1], k, v))
    return sorted(out)


def cfg_str(entries):
    return ";".join("%s.%s.%s=%s" % (hx(a), hx(b), hx(c), hx(v)) for a, b, c, v in entries) or "-"


def canon_cfg_reply(rep):
    if rep.startswith("E:") or rep == "-":
        return rep
    return ";".join(sorted(rep.split(";"), key=lambda e: tuple(bytes.fromhex(x.replace("-", "")) for x in
                                                               e.replace("=", ".").split("."))))


def run_parent_case(name, preremote, locs, preseed=()):
    """set_parent(loc) for each loc in turn on branch `name`; returns observations
    (with no `locs`: one observation of the getter on the pre-seeded config)"""
    P = parent_env(name)
    from dulwich.config import ConfigFile
    with open(P["cfgpath"], "wb") as f:
        f.write(P["initial"])
    if preremote is not None or preseed:
        cf = ConfigFile.from_path(P["cfgpath"])
        if preremote is not None:
            cf.set((b"branch", name.encode("utf-8")), b"remote", preremote)
        for a, b, k, v in preseed:
            cf.set((a, b), k, v)
        cf.write_to_path(P["cfgpath"])
    obs = []
    if not locs:
        after = read_cfg(P["cfgpath"])
        br = open_parent_branch(P, name)
        ok2, got = call(br._get_parent_location)
        ok3, full = call(br.get_parent)
        return [dict(before=after, set="ok", after=after, get=got, get_ok=ok2, full=full, full_ok=ok3)]
    for loc in locs:
        before = read_cfg(P["cfgpath"])
        br = open_parent_branch(P, name)
        ok, r = call(br.set_parent, loc)
        after = read_cfg(P["cfgpath"])
        if after == UNREADABLE:
            obs.append(dict(before=before, set=("ok" if ok else r), after=after, get="E:Value", get_ok=False,
                            full="E:Value", full_ok=False))
            with open(P["cfgpath"], "wb") as f:      # the next location of this run starts from a readable file
                f.write(P["initial"])
            continue
        br = open_parent_branch(P, name)
        ok2, got = call(br._get_parent_location)
        ok3, full = call(br.get_parent)
        obs.append(dict(before=before, set=("ok" if ok else r), after=after,
                        get=(got if ok2 else r_err(got)), get_ok=ok2, full=(full if ok3 else r_err(full)), full_ok=ok3))
    return obs


def r_err(x):
    return x


def parent_family(I, name, remote, loc, obs):
    """classify a failed parent round trip from the concrete input and the stored config"""
    try:
        _, params = I.urlutils.split_segment_parameters(loc)
    except Exception:  # noqa: BLE001
        return None
    merge = dict(((a, b, c), v) for a, b, c, v in obs["after"]).get((b"branch", name.encode("utf-8"), b"merge"))
    want = None
    if "branch" in params and safe_unescape(I, params["branch"]) is not None:
        want = I.refs.branch_name_to_ref(safe_unescape(I, params["branch"]))
    elif "ref" in params:
        want = I.urlutils.unquote_to_bytes(params["ref"])
    if "revno" in params and "branch" not in params and merge == params["revno"].encode("utf-8"):
        return "url-ref-param-dropped"
    if want is None or not obs["get_ok"]:
        return None
    if merge != want:
        if "ref" in params and merge == b"HEAD":
            return "url-ref-param-dropped"
        if "branch" in params and merge == I.refs.branch_name_to_ref(params["branch"]):
            return "parent-merge-escaped"
        return None
    # the right ref was stored under [branch "<name>"]; it is lost when reading
    if name.encode("utf-8") != remote and obs["get"] is not None and "," not in obs["get"]:
        return "parent-merge-section"
    return None


def dulwich_reread(v):
    """what ConfigFile.from_file reads for a value ConfigFile.write_to_file wrote"""
    from dulwich.config import _format_string, _parse_string
    try:
        return _parse_string(b" " + _format_string(v) + b"\n")
    except ValueError:
        return None


def header_quote_comment(nm):
    """a `#` or `;` after an odd number of `"` in a section name: dulwich's _strip_comments (which does not know
    about `\\"`) cuts the header line `[branch "<name>"]` there and the file can no longer be parsed"""
    q = 0
    for c in nm:
        if c == 0x22:
            q += 1
        elif c in (0x23, 0x3b) and q % 2 == 1:
            return True
    return False


def parent_new_family(I, name, loc, o, model_setp, model_setpf=None, impl_set=None, model_get=None, impl_get=None):
    """classify a failed parent round trip into one of the OPEN finding families, from the concrete input: the branch
    name, the URL, the values set_parent has to store for it (the model's `setp` reply) and what the configuration
    file really held afterwards.  Anything that is not exactly one of these shapes is unclassified (plain
    VIOLATION)."""
    designates = None
    try:
        _, b, r = I.urls.bzr_url_to_git_url(loc)
        designates = eff(I, b, r.encode("utf-8") if isinstance(r, str) else r)
    except Exception:  # noqa: BLE001
        pass
    if name == UNNAMED and designates not in (None, b"HEAD"):
        return "parent-unnamed-branch-drops-ref"
    if o["after"] == UNREADABLE and header_quote_comment(name.encode("utf-8")):
        return "parent-config-section-quote-comment"
    if not model_setp or model_setp.startswith("E:") or model_setp == "-":
        return None
    # dulwich's value codec: the damage must be exactly what the model of write_to_file + from_file (`cfgReread`)
    # predicts — the real file content equals the model's re-read of what set_parent stores, the getter agrees with
    # the model on that content — and every value that changed on the way contains the character in question
    if model_setpf is not None:
        if canon_cfg_reply(model_setpf) != impl_set or model_get != impl_get:
            return None
    changed = []
    for e in model_setp.split(";"):
        v = unhx(e.split("=")[1])
        if dulwich_reread(v) != v:
            changed.append(v)
    if not changed:
        return None
    if all(b";" in v and b"\r" not in v for v in changed):
        return "parent-config-value-semicolon"
    if all(b"\r" in v for v in changed):
        return "parent-config-value-cr"
    if all(b";" not in v and b"\r" not in v for v in changed):
        return "parent-config-value-stripped"
    return None


def degenerate_ref(I, loc):
    """the URL designates `refs/heads/` (an empty branch name spelled as a ref): excluded"""
    try:
        _, b, r = I.urls.bzr_url_to_git_url(loc)
        return eff(I, b, r.encode("utf-8") if isinstance(r, str) else r) == b"refs/heads/"
    except Exception:  # noqa: BLE001
        return False


def comma_free_base(I, loc):
    ok, r = call(lambda: I.urls.git_url_to_bzr_url(I.urlutils.split_segment_parameters(loc)[0]))
    return ok and not last_seg_has_comma(r)


def equivalent_urls(I, a, b):
    """same location and same git ref designated (branch X == ref refs/heads/X, no parameter == HEAD)"""
    if a == b:
        return True
    if a is None or b is None:
        return False
    try:
        ua, ba, ra = I.urls.bzr_url_to_git_url(a)
        ub, bb, rb = I.urls.bzr_url_to_git_url(b)
        fix = lambda r: r.encode("utf-8") if isinstance(r, str) else r  # noqa: E731
        return ua == ub and eff(I, ba, fix(ra)) == eff(I, bb, fix(rb))
    except Exception:  # noqa: BLE001
        return False


CFG_TOK = [" ", "#", '"', "\\", "=", "[", "]", "\t"]


def gen_cfg_name(rng):
    """a branch name / ref tail with the characters dulwich's ConfigFile treats specially: blanks at either end or
    inside, `#`, `"`, `\\` (and, rarely, `;` — the family dulwich does not write back correctly)"""
    toks = [rng.choice(NAME_TOK_NOWS + CFG_TOK + CFG_TOK) for _ in range(rng.randint(1, 4))]
    if rng.random() < 0.05:
        toks.insert(rng.randint(0, len(toks)), ";")
    return "".join(toks) or "b"


def sec_parent(ctx, I):
    P = parent_env()
    runs = []

    def mk(name, preremote, specs):
        """specs: list of (u, branch, ref) from which canonical bzr URLs are built, or raw strings"""
        locs, canon = [], []
        for s in specs:
            if isinstance(s, str):
                locs.append(s)
                canon.append(False)
            else:
                u, b, r = s
                locs.append(I.urls.git_url_to_bzr_url(u, branch=b, ref=r))
                canon.append(True)
        runs.append((name, preremote, locs, canon))

    mk("master", None, [("https://h/r", "foo", None)])
    mk("master", None, [("https://h/r", None, b"refs/tags/v1")])
    mk("master", None, [("https://h/r", "a/b", None)])
    mk("origin", None, [("https://h/r", "foo", None)])
    mk("feat/x", b"upstream", [("git://h/r", "foo", None), ("git://h/r", None, None)])
    mk("master", None, ["https://h/r,branch"])
    # what dulwich's ConfigFile has to quote / escape on the way to the file and back
    mk("master", None, [("https://h/r", "a b", None), ("https://h/r", " lead", None), ("https://h/r", "trail ", None)])
    mk("master", None, [("https://h/r", "a#b", None), ("https://h/r", 'q"r\\s', None), ("https://h/a,b/r", "x", None)])
    mk('a"b', None, [("https://h/r", "foo", None)])
    mk("a#b", b"up;stream", [("https://h/r", None, b"refs/tags/v1")])
    mk("x]y", None, [("git://h/r", "foo", None)])
    # the families the round trip does not hold for (each reported with its own family)
    mk(UNNAMED, None, [("https://h/r", "foo", None)])                     # parent_location_unnamed_witness
    mk(UNNAMED, None, [("https://h/r", None, None)])                      # nothing to lose: holds
    mk("master", None, [("https://h/r", "a;b", None)])                    # parent_location_semicolon_witness
    mk(QUOTE_COMMENT_NAME, None, [("https://h/r", "foo", None)])          # section header dulwich cannot re-read
    for _ in range(ctx.pick(220, 1800)):
        name = ctx.rng.choice(P["names"] + ([UNNAMED] if ctx.rng.random() < 0.4 else []))
        pre = ctx.rng.choice([None, None, None, b"upstream", b"origin", b"up stream", b"up#s", b'u"p'])
        if name == UNNAMED:
            pre = None      # `[branch ""]` is not a section git or dulwich can write
        specs = []
        for _ in range(ctx.rng.choice([1, 1, 2])):
            if ctx.rng.random() < 0.12:
                base, _ = gen_url_loc(ctx.rng, remote_only=True)
                specs.append(base + ctx.rng.choice([",branch=a%2fb", ", branch = x ", ",branch=x,ref=refs%2Fy", ",branch",
                                                    ",ref=%ff", ",revno=3", ",branch=%e9"]))
            else:
                u, _ = gen_url_loc(ctx.rng, remote_only=True)
                r = ctx.rng.random()
                if r < 0.15:
                    specs.append((u, None, None))
                elif r < 0.6:
                    specs.append((u, gen_cfg_name(ctx.rng), None))
                else:
                    rf = gen_git_ref(ctx.rng, ws=False)
                    if ctx.rng.random() < 0.3:
                        rf = rf + gen_cfg_name(ctx.rng).encode("utf-8")
                    specs.append((u, None, rf))
        mk(name, pre, specs)

    lines, meta = [], []
    for name, pre, locs, canon in runs:
        obs = run_parent_case(name, pre, locs)
        remote = pre if pre is not None else b"origin"
        for loc, is_canon, o in zip(locs, canon, obs):
            case = dict(kind="parent", name=js(name), preremote=jb(pre), locs=[js(x) for x in locs])
            cfg = cfg_str(o["before"])
            # `setpf`: set_parent followed by write_to_file + from_file, which is what `after` was read through
            lines += ["setp %s %s %s" % (cfg, cps(name), cps(loc)),
                      "setpf %s %s %s" % (cfg, cps(name), cps(loc)),
                      "getp %s %s" % (cfg_str(o["after"]), cps(name)),
                      "getpL %s %s" % (cfg_str(o["after"]), cps(name))]
            meta.append((case, name, remote, loc, is_canon, o))
            ctx.case(["parent", js(name), jb(pre), js(loc)], nontrivial=("," in loc) or pre is not None)
            ctx.count("parent:set:" + o["set"])
            ctx.count("parent:branch-name:" + ("unnamed" if name == UNNAMED else
                                               "eq-remote" if name.encode("utf-8") == remote else "other"))
    rep = ctx.model(lines)
    for i, (case, name, remote, loc, is_canon, o) in enumerate(meta):
        m_setp, m_set, m_get, m_getL = rep[4 * i], canon_cfg_reply(rep[4 * i + 1]), rep[4 * i + 2], rep[4 * i + 3]
        ctx.traces += 1
        unreadable = o["after"] == UNREADABLE
        impl_set = cfg_str(o["after"]) if o["set"] == "ok" else o["set"]
        impl_get = ocps(o["get"]) if o["get_ok"] else o["get"]
        # only the families of the OPEN findings are ever assigned; the slugs of the repaired defects (F1/F14/F15)
        # are counted for information and a regression to them is a plain VIOLATION
        legacy = parent_family(I, name, remote, loc, o) if not unreadable else None
        fam = parent_new_family(I, name, loc, o, m_setp, rep[4 * i + 1], impl_set, m_get, impl_get)
        if fam is not None:
            ctx.count("parent:family:" + fam)
        elif legacy is not None:
            ctx.count("parent:legacy-shape:" + legacy)
        if m_setp != rep[4 * i + 1] and not m_setp.startswith("E:"):
            ctx.count("parent:stored-value-changed-by-reread")
        # --- oracle: a canonical URL is read back as an equivalent URL
        if is_canon and o["set"] == "ok" and comma_free_base(I, loc):
            if degenerate_ref(I, loc):
                ctx.count("parent:degenerate-ref")
            elif not o["full_ok"] or not equivalent_urls(I, o["full"], loc):
                ctx.violation(case, "branch %r: set_parent(%r) then get_parent() = %r" % (name, loc, o["full"]),
                              family=fam)
        # --- T2 (no difference is tolerated; behaviour of the legacy models is also reported with its family)
        if unreadable:
            # the section header dulwich wrote cannot be parsed again (not modelled): oracle only, and only for
            # the one family known to do that
            if not header_quote_comment(name.encode("utf-8")) and not header_quote_comment(remote):
                ctx.mismatch(case, "config unreadable after set_parent", m_set, line=lines[4 * i + 1])
            elif not is_canon:
                ctx.violation(case, "branch %r: set_parent(%r) leaves a configuration file that cannot be read"
                              % (name, loc), family=fam)
            continue
        if impl_set != m_set:
            if legacy in ("url-ref-param-dropped", "parent-merge-escaped"):
                ctx.count("parent:set:legacy:" + legacy)
                ctx.violation(case, "set_parent(%r) stores %s, expected %s" % (loc, impl_set, m_set), family=None)
            ctx.mismatch(case, impl_set, m_set, line=lines[4 * i + 1])
        if impl_get != m_get:
            if impl_get == m_getL and name.encode("utf-8") != remote:
                ctx.count("parent:get:legacy")
                ctx.violation(case, "_get_parent_location() = %s, expected %s (merge ref read from "
                              "[branch \"%s\"])" % (impl_get, m_get, remote.decode()), family=None)
            ctx.mismatch(case, impl_get, m_get, line=lines[4 * i + 2])
    # --- getter alone, on hand-written configs (entries set_parent never leaves behind)
    go_lines, go_meta = [], []
    for _ in range(ctx.pick(60, 600)):
        name = ctx.rng.choice(P["names"])
        nm = name.encode("utf-8")
        remote = ctx.rng.choice([b"origin", b"origin", b"upstream"])
        entries = []
        if remote != b"origin" or ctx.rng.random() < 0.3:
            entries.append((b"branch", nm, b"remote", remote))
        if ctx.rng.random() < 0.85:
            u, _ = gen_url_loc(ctx.rng, remote_only=True)
            entries.append((b"remote", remote, b"url", u.encode("utf-8")))
        for sec in (nm, remote, b"other"):
            if ctx.rng.random() < 0.4:
                entries.append((b"branch", sec, b"merge",
                                ctx.rng.choice([b"HEAD", b"refs/heads/foo", b"refs/tags/v1", b"refs/heads/a/b",
                                                b"refs/heads/" + "é".encode("utf-8")])))
        o = run_parent_case(name, None, [], preseed=entries)[0]
        cfg = cfg_str(o["after"])
        go_lines += ["getp %s %s" % (cfg, cps(name)), "getpL %s %s" % (cfg, cps(name))]
        go_meta.append((dict(kind="parent-get", name=js(name), entries=[[jb(x) for x in e] for e in entries]),
                        name, remote, o))
        ctx.case(["parent-get", js(name), [[jb(x) for x in e] for e in entries]])
        ctx.count("parent:get-only:" + ("none" if o["get"] is None else "url"))
    rep = ctx.model(go_lines)
    for i, (case, name, remote, o) in enumerate(go_meta):
        m_get, m_getL = rep[2 * i], rep[2 * i + 1]
        ctx.traces += 1
        impl_get = ocps(o["get"]) if o["get_ok"] else o["get"]
        if impl_get != m_get:
            if impl_get == m_getL and name.encode("utf-8") != remote:
                ctx.count("parent:get:legacy")
                ctx.violation(case, "_get_parent_location() = %s, expected %s: merge ref read from [branch \"%s\"] "
                              "instead of [branch \"%s\"]" % (impl_get if impl_get.startswith(("E:", "~")) else
                                                               uncps(impl_get), m_get if m_get.startswith(("E:", "~"))
                                                               else uncps(m_get), remote.decode(), name),
                              family=None)
            ctx.mismatch(case, impl_get, m_get, line=go_lines[2 * i])
    # --- oracle only: parents given as file: URLs (relative_url is not the identity)
    other = env.fresh_dir("parent")
    for name in ("master", "feat/x", "é-b", 'a"b'):
        for br_, rf in ((None, None), ("foo", None), (None, b"refs/tags/v1"), ("a b#c", None), (None, "refs/heads/é".encode("utf-8"))):
            loc = I.urls.git_url_to_bzr_url  # noqa: F841  (file: URLs are not git URLs; build by hand)
            u = I.urlutils.local_path_to_url(other)
            params = {}
            if br_:
                params["branch"] = I.urlutils.escape(br_, safe="")
            if rf:
                params["ref"] = I.urlutils.quote_from_bytes(rf, safe="")
            full = I.urlutils.join_segment_parameters(u, params) if params else u
            o = run_parent_case(name, None, [full])[0]
            ctx.case(["parent-file", js(name), js(br_), jb(rf)])
            ctx.count("parent:file-url:" + ("same" if o["full_ok"] and o["full"] == full else "differs"))
            if o["set"] == "ok" and (not o["full_ok"] or not equivalent_urls(I, o["full"], full)):
                stored = dict(((a, b, c), v) for a, b, c, v in o["after"])
                url = stored.get((b"remote", b"origin", b"url"), b"")
                merge = stored.get((b"branch", name.encode("utf-8"), b"merge"))
                fam = None
                if b":" not in url and merge == eff(I, br_, rf) and o["full_ok"] and o["full"] == u:
                    # stored correctly as a relative path + merge ref; git_url_to_bzr_url returns a
                    # location that is neither a URL nor rsync-style without appending the parameters
                    fam = "non-url-location-drops-ref"
                ctx.violation(dict(kind="parent-file", name=js(name), branch=js(br_), ref=jb(rf)),
                              "branch %r: set_parent(%r) then get_parent() = %r (remote.origin.url = %r, merge = %r)"
                              % (name, full.replace(other, "<dir>"), str(o["full"]).replace(other, "<dir>"),
                                 url, merge), family=None)
            ctx.extra.setdefault("parent_file_url_observations", []).append(
                dict(name=name, set=full.replace(other, "<dir>"), got=str(o["full"]).replace(other, "<dir>")))


# --------------------------------------------------------------------------


def corpus_cases():
    d = os.path.join(env.VERIF, "corpus", "C36")
    out = []
    if os.path.isdir(d):
        import json
        for fn in sorted(os.listdir(d)):
            if fn.endswith(".json"):
                out.append(json.load(open(os.path.join(d, fn))))
    return out


def run(ctx):
    I = Impl()
    for rec in corpus_cases():
        replay(ctx, rec["case"] if "case" in rec else rec)
        ctx.count("corpus")
    check_consts(ctx, I)
    sec_escape(ctx, I)
    sec_utf8(ctx, I)
    sec_fileid(ctx, I)
    sec_revid(ctx, I)
    sec_refs(ctx, I)
    sec_urls(ctx, I)
    sec_cfg(ctx, I)
    sec_parent(ctx, I)


def replay(ctx, case):
    """re-run one recorded case: implementation output, model output, oracle verdict"""
    I = Impl()
    k = case["kind"]
    n0 = len(ctx.violations)
    impl = model = None
    if k in ("esc", "unesc"):
        b = unjb(case["b"])
        ok, r = call(I.mapping.escape_file_id if k == "esc" else I.mapping.unescape_file_id, b)
        impl = hx(r) if ok else r
        model = ctx.model(["%s %s" % (k, hx(b))])[0]
        oracle_escape(ctx, I, b)
        oracle_unescape(ctx, I, b)
    elif k in ("decse", "decst"):
        b = unjb(case["b"])
        impl = cps(I.mapping.decode_git_path(b))
        model = ctx.model(["decse " + hx(b)])[0]
        if I.mapping.encode_git_path(I.mapping.decode_git_path(b)) != b:
            ctx.violation(case, "encode_git_path(decode_git_path(%r)) differs" % (b,))
    elif k == "enc":
        s = unjs(case["s"])
        ok, r = call(s.encode, "utf-8", "surrogateescape" if case["se"] else "strict")
        impl = hx(r) if ok else r
        model = ctx.model(["enc %s %s" % ("T" if case["se"] else "F", cps(s))])[0]
    elif k in ("fileid", "genb"):
        p = unjb(case["b"])
        impl = hx(I.m1.generate_file_id(p))
        model = ctx.model(["genb " + hx(p)])[0]
        oracle_fileid(ctx, I, p)
    elif k == "gens":
        s = unjs(case["s"])
        ok, r = call(I.m1.generate_file_id, s)
        impl = hx(r) if ok else r
        model = ctx.model(["gens " + cps(s)])[0]
    elif k == "parse":
        b = unjb(case["b"])
        ok, r = call(I.m1.parse_file_id, b)
        impl = cps(r) if ok else r
        model = ctx.model(["parse " + hx(b)])[0]
    elif k in ("revid", "f2b"):
        pfx, sha = unjb(case["pfx"]), unjb(case["sha"])
        impl = hx(I.mapping_for(pfx).revision_id_foreign_to_bzr(sha))
        model = ctx.model(["f2b %s %s" % (hx(pfx), hx(sha))])[0]
        oracle_revid(ctx, I, pfx, sha)
    elif k in ("reg", "b2f"):
        b = unjb(case["b"])
        ok, r = call(I.registry.revision_id_bzr_to_foreign, b)
        impl = (hx(r[0]) + " " + ("~" if r[1] is None else hx(r[1].revid_prefix))) if ok else r
        model = ctx.model(["reg " + hx(b)])[0]
    elif k in ("b2r", "t2r"):
        s = unjs(case["s"])
        ok, r = call(I.refs.branch_name_to_ref if k == "b2r" else I.refs.tag_name_to_ref, s)
        impl = hx(r) if ok else r
        model = ctx.model(["%s %s" % (k, cps(s))])[0]
        oracle_refs(ctx, I, name=s)
    elif k in ("r2b", "r2t"):
        b = unjb(case["b"])
        ok, r = call(I.refs.ref_to_branch_name if k == "r2b" else I.refs.ref_to_tag_name, b)
        impl = (ocps(r) if ok else r)
        model = ctx.model(["%s %s" % (k, ohx(b))])[0]
        if b is not None:
            oracle_refs(ctx, I, ref=b)
    elif k == "url":
        loc, br, rf = unjs(case["loc"]), unjs(case["branch"]), unjb(case["ref"])
        ok, out = call(I.urls.git_url_to_bzr_url, loc, branch=br, ref=rf)
        impl = dict(git_url_to_bzr_url=out)
        m = ctx.model(["g2b %s %s %s" % (cps(loc), ocps(br), ohx(rf))])[0]
        model = dict(g2b=m if m.startswith("E:") else uncps(m))
        if ok:
            ok2, t = call(I.urls.bzr_url_to_git_url, out)
            impl["bzr_url_to_git_url"] = repr(t)
            model["b2g"] = show_b2g(ctx.model(["b2g " + cps(out)])[0])
            oracle_url(ctx, I, loc, br, rf, out)
    elif k == "b2g":
        u = unjs(case["u"])
        ok, t = call(I.urls.bzr_url_to_git_url, u)
        impl = repr(t)
        model = show_b2g(ctx.model(["b2g " + cps(u)])[0])
        pending = []
        b2g_compare(ctx, I, case, u, pending)
        b2g_flush(ctx, I, pending)
    elif k == "parent":
        name, pre, locs = unjs(case["name"]), unjb(case["preremote"]), [unjs(x) for x in case["locs"]]
        obs = run_parent_case(name, pre, locs)
        impl = [dict(set=o["set"], config=[tuple(x.decode("utf-8", "replace") for x in e) for e in o["after"]],
                     get_parent=o["full"]) for o in obs]
        model = []
        for loc, o in zip(locs, obs):
            rep = ctx.model(["setp %s %s %s" % (cfg_str(o["before"]), cps(name), cps(loc)),
                             "getp %s %s" % (cfg_str(o["after"]), cps(name))])
            model.append(dict(setp=rep[0], getp=rep[1] if rep[1].startswith(("E:", "~")) else uncps(rep[1])))
            if o["set"] == "ok" and (not o["full_ok"] or not equivalent_urls(I, o["full"], loc)):
                rep2 = ctx.model(["setpf %s %s %s" % (cfg_str(o["before"]), cps(name), cps(loc))])
                fam = parent_new_family(I, name, loc, o, rep[0], rep2[0],
                                        cfg_str(o["after"]) if o["set"] == "ok" else o["set"], rep[1],
                                        ocps(o["get"]) if o["get_ok"] else o["get"])
                ctx.violation(case, "branch %r: set_parent(%r) then get_parent() = %r" % (name, loc, o["full"]),
                              family=fam)
    elif k == "parent-get":
        name = unjs(case["name"])
        entries = [tuple(unjb(x) for x in e) for e in case["entries"]]
        o = run_parent_case(name, None, [], preseed=entries)[0]
        impl = dict(config=[tuple(x.decode("utf-8", "replace") for x in e) for e in o["after"]], get_parent=o["get"])
        m = ctx.model(["getp %s %s" % (cfg_str(o["after"]), cps(name))])[0]
        model = m if m.startswith(("E:", "~")) else uncps(m)
        if (ocps(o["get"]) if o["get_ok"] else o["get"]) != m:
            ctx.violation(case, "_get_parent_location() = %r, expected %r" % (o["get"], model), family=None)
    elif k == "parent-file":
        name, br_, rf = unjs(case["name"]), unjs(case["branch"]), unjb(case["ref"])
        other = env.fresh_dir("parent")
        u = I.urlutils.local_path_to_url(other)
        params = {}
        if br_:
            params["branch"] = I.urlutils.escape(br_, safe="")
        if rf:
            params["ref"] = I.urlutils.quote_from_bytes(rf, safe="")
        full = I.urlutils.join_segment_parameters(u, params) if params else u
        o = run_parent_case(name, None, [full])[0]
        impl = dict(set_parent=full.replace(other, "<dir>"), get_parent=str(o["full"]).replace(other, "<dir>"),
                    config=[tuple(x.decode("utf-8", "replace") for x in e) for e in o["after"]])
        model = "(relative parents are outside the model; oracle only)"
        if o["set"] == "ok" and (not o["full_ok"] or not equivalent_urls(I, o["full"], full)):
            ctx.violation(case, "branch %r: set_parent(%r) then get_parent() = %r" % (name, impl["set_parent"],
                          impl["get_parent"]), family=None)
    else:
        raise ValueError("unknown case kind %r" % (k,))
    return dict(case=case, impl=impl, model=model,
                oracle_failures=[v["what"] for v in ctx.violations[n0:]])
