"""C31 — smart server clients cannot reach files outside the served directory.

Mechanism: breezy/bzr/smart/request.py (SmartServerRequest.translate_client_path,
transport_from_client_path, _pre_open_hook / setup_jail), breezy/bzr/smart/vfs.py
(VfsRequest.translate_client_path), breezy/bzr/smart/server.py
(BzrServerFactory._make_backing_transport, _expand_userdirs) composed with the
external dromedary pieces (urlutils.joinpath/escape/unescape, PathFiltering /
Chroot transports — reached by clone AND built from a URL —, LocalTransport),
which are specified in Model/C31.lean and compared per case.

World: a scratch directory W with the served directory W/root (files whose content is
their own relpath, a real branch at root/a, literal '~', '~user', 'é', '%2E%2E', '..%2Fevil',
'a b', 'ab' … names) and, OUTSIDE of it, marker files, directories named like the tokens, a
home directory and (in world A) branches at W, W/a, W/evil.  World B has the same inside
and a different outside.  Servers (root client paths "/", "/srv/", "a"; a chroot-only
configuration; five user tables with non-canonical home directories) are built with the
real BzrServerFactory._make_backing_transport (chroot + userdir filter; the real
os.path.expanduser with pwd.getpwnam pinned for "/", table expanders for the others)
over a tracing local transport.  A byte-identical copy of each world is kept; an inotify
watch on every directory (control directories included; stat fingerprints as a fallback)
tells after EVERY verb what changed, and it is put back from the copy.

T2 (model vs code, per (root client path, client path)):
  tr    SmartServerRequest.translate_client_path       result / error kind
  vfs   VfsRequest.translate_client_path               result / error kind
        (compared with the FIXED model variant, unescape first; the harness also
        probes the variant of the tree and records a tie failure if it is not the
        fixed one)
  clone transport_from_client_path(...).base           path part
  loc   what the chroot/userdir stack hands to the local transport (traced) and
        what a read through it returns, against the model's backing relpath /
        OS path / resolved location (the expected content is read by the
        harness from the model's OS path); through every clone with SEVERAL canonical
        relpaths (f, .bzr/branch-format, a%20b, %25, a/f, x/%C3%A9, a%20b/%25), not only "f"
  jurl  a transport built from a URL <prefix>p (all strings of <= 2 tokens over 17 tokens,
        a hand-picked list, random longer ones; two configurations): its .base, what the real
        _pre_open_hook says for four jail roots (backing transport, a, a/a, a%20b), the relpath
        a read hands to the local transport and what it returns — against urlBase /
        jailAllows / urlBackingRel / urlLocate; and the model's own statement
        "normal form => inside" on every case
  jp/esc/unesc  the dromedary functions on their own
  xu    _expand_userdirs;  jail  _pre_open_hook
  corpus/C31/*.json (pinned past failures) run first, through the stack and every verb class;
  a DIRECTED stream composes [raw non-ASCII segment + cancelling '..'] with every encoded
  traversal we generate (prefix / suffix / infix, all configurations; traced read for all, every
  verb class for a sample); paths the implementation accepts although the model rejects them
  are re-run under the two-worlds oracle;
  client paths: all strings of <= N tokens over
  {/ . .. %2F %2E %2e%2e ~ ~user a é %00} (exhaustive), a random stream of
  longer strings over a wider alphabet, and ~10 % non-UTF-8 byte strings
  (compared on accept/reject + error kind only).
Oracle (independent of the model), through the real SmartServerRequestHandler in BOTH worlds:
  * CORE_VERBS (every vfs.*Request class except move: has get stat list_dir iter_files_recursive
    readv put mkdir append put_non_atomic rename delete rmdir; BzrDir.open_2.1 / open_branchV3 /
    find_repositoryV3 / get_branches, Branch.last_revision_info / get_config_file,
    Repository.is_shared, BzrDirFormat.initialize) for every generated client path, and EVERY entry
    of request.request_handlers that takes a client path (enumerated from the registry by the
    parameter names of do() and of the helper its *args goes to: 91 verbs; hello and
    Transport.is_readonly have no path and are listed as skipped in the evidence) for a hostile
    set + samples — the hostile path in EVERY client-path position (rename / move: source, target,
    both); a sample also through a real socket medium pair;
  * non-interference: the response in world A equals the response in world B
    (nothing outside the served directory was read; lock tokens, temp names, addresses masked);
  * after every verb the outside of both worlds is what it was (existence, kind, content, mode of
    every entry an inotify event names);  a name that came and went (the temporary file of an atomic
    put on the served directory itself, which LocalTransport creates NEXT TO its target) is counted,
    not reported;
  * no response contains an outside marker;
  * a read through a transport built from a URL that the real jail hook admits returns a file
    below the jail root (every inside file carries its relpath);
  * a BzrDir opened during a request at a location outside the jail fails
    (a request class that opens a given URL is dispatched through the real
    handler, so setup_jail / the pre_open hook are the real ones).

Findings: the VFS breakout ('..%2Fcanary', '%%32E%%32E/canary') found by this check was
fixed by `fix:` commit 3cca92d; it has no family any more and is a plain VIOLATION if it
returns.  The jail-url-* families (external dromedary chroot defects, see `_family`; kernel-checked
as jail_unnormalised_*_witness) are committed known findings.  The breakout through a home
directory whose NAME carries a percent-escape decoding to '..' (found by this check, theorem
userdir_percent_home_witness for the former code) was fixed by `fix:` commit 489056d (the model variant
expandUserdirsFx is selected by a probe); it has no family any more either.

Two connections (SmartTCPServer serves every connection in its own thread; request.jail_info is a
threading.local): `jail_concurrency_cases` runs deterministic schedules over two socket-pair connections,
each served by its own SmartServerSocketStreamMedium thread: request A (initialize_ex_1.16 stacked on an
outside file:// URL, a test verb opening several inside / outside URLs, open_branchV3) is parked just
before the jail check of its k-th control-directory open (pre_open hooks around breezy's own jail hook)
while connection B runs 0-2 ordinary requests to completion (their setup_jail / teardown_jail run on the
other thread), for every k.  Oracle: every open that passes the jail hook during a request is on/below
the jail root, and A's reply equals its reply when served alone.  T2: the verdicts of all opens of the
observed trace against the per-thread model (jtrace tl).  Theorems jail_other_threads_never_change_mine,
jail_verdicts_are_per_connection, jail_holds_during_request (all traces, any number of threads),
jail_shared_state_witness (one shared slot: B's teardown unjails A).  Gate timeouts raise InfraError (exit 2).

Mutants this was built against (scratch worktrees; all semantic ones caught):
  M1 translate_client_path without the joinpath normalisation      -> T2 (10140 mismatches; the chroot
     clamps the '..', so containment itself still holds: tie verdict)
  M2 root-client-path prefix test replaced by True                 -> T2 (E:NotChild expected)
  M3 escape dropped from translate_client_path                     -> oracle: non-VFS verbs reach outside
     content for '..%2F...' paths (violations without a known family) + T2
  M4 VfsRequest unescapes twice                                    -> oracle ('..%252Fcanary' read) + T2
  M5 _expand_userdirs ignores the base-path test                   -> oracle (4352 results that are neither
     the path nor the remainder below the base path) + T2
  M6 _pre_open_hook accepts on PathNotChild (swapped branches)     -> oracle: file:// URL outside the jail
     opened during a request + T2
  M7 setup_jail installs no jail                                   -> oracle: outside control directory opened
  S1 (seeded) VfsRequest falls back to unescape-last when unescape() refuses raw non-ASCII
     -> oracle: 'é/../..%2Fcanary' reads / writes outside (directed stream + corpus)
  M8 RenameRequest does not translate rel_to                       -> oracle: rename with '/é/../..%2Fsecret' as
     rel_to created 'secret' OUTSIDE (plain VIOLATION)
  M9 DeleteRequest uses the untranslated path                      -> oracle: delete '/é/../..%2Fcanary' removed
     'canary' OUTSIDE (plain VIOLATION)
  M10 _pre_open_hook: startswith(base.rstrip('/')), no '/' boundary -> oracle: jail rooted at 'a' admits 'ab/' and
     'a%20b%2F', the read returns 'I:a b/f' (plain VIOLATION) + 196 T2 mismatches
  M13 BzrDir.create_repository (registry sweep only) clones the untranslated path
                                                                   -> oracle: response depends on the outside for
     '..%2Fevil' (plain VIOLATION)
  M15 MoveRequest (registry sweep only) does not translate rel_from -> oracle: move '..%2Fcanary' removed 'canary'
     OUTSIDE (plain VIOLATION)
  H1 slicing rewritten with str.removeprefix (harmless)            -> clean (same result as the unchanged tree)
  H2 RenameRequest translates rel_to first, DeleteRequest inlined (harmless) -> clean
  M16 request.jail_info a plain object instead of threading.local (stored seed C31b)  -> oracle: two connections,
      A = initialize_ex_1.16 stacked on file://<W>/evil/ parked before its open #1 while B runs BzrDir.open_2.1 to
      completion: the outside control directory passes the jail check
  M17 _pre_open_hook prefers a module-level "most recently set" jail (setup_jail writes it, teardown_jail clears it only
      if it is its own) -> oracle, only in a CROSSED schedule with B's connection served below home/: A's reply
      ('jailbreak' for the inside branch) differs from its reply when served alone
  M18 teardown_jail clears the slots of all threads -> oracle (as M16)
  H3 _pre_open_hook reads the thread-local slot through `jail_info.__dict__.get` (harmless) -> clean
  with the proposed fix applied (unescape first) the vfs-* families disappear and T2 selects model variant fx.
"""
import contextlib
import errno
import inspect
import itertools
import os
import posixpath
import re
import shutil
import socket
import sys
import threading

from vlib import env

THEOREMS = [
    "joinpath_clean", "translate_shape", "translate_canon", "locate_canon_inside",
    "translate_inside", "vfs_translate_then_chroot_inside",
    "vfs_as_found_inside_partial", "vfs_as_found_escape_witness",
    "chroot_double_decode_witness", "userdir_inside_or_untouched",
    "userdir_filter_canon", "expanduser_canon", "jail_rejects_outside",
    "jail_segment_boundary",
    # home directories that are not canonical escaped strings
    "userdir_filter_mild", "userdir_locate_inside", "translate_userdir_inside", "userdir_percent_home_witness",
    "userdir_untouched_without_tilde", "userdir_fixed_canon", "userdir_fixed_locate_inside",
    # from the URL the jail admits to the location that is opened
    "jail_default_allows_all", "jail_url_inside_served", "jail_allows_inside",
    "jail_unnormalised_encoded_slash_witness", "jail_unnormalised_double_encoded_witness",
    "jail_unnormalised_dotdot_witness", "jail_invalid_utf8_sibling_witness",
    # the jail state is per connection-handler thread
    "jail_other_threads_never_change_mine", "jail_verdicts_are_per_connection", "jail_holds_during_request",
    "jail_shared_state_witness",
]
RULE = ("case = (root client path, client path bytes); client paths are all strings of <= N tokens over the "
        "11-token alphabet of the property (enumerated completely, deduplicated as byte strings), plus random "
        "longer strings over a 33-token alphabet and ~10% non-UTF-8 strings; each case is run through the "
        "translate functions, the clone, traced reads (several canonical relpaths) through the real chroot/userdir "
        "stack and (for the verb subset) every core verb / every registered verb, the path in every client-path "
        "argument position, in two worlds; jail cases = (URL path built from 17 tokens, jail root, relpath); "
        "non-trivial = the path contains '..', '%', '~', a NUL, a non-ASCII byte or a doubled/leading '/'")
ASSUMPTIONS = [
    "directories inside the served directory are real directories (no symlinks pointing outside): out of scope of the statement",
    "root_client_path=None (no translation at all) is not part of the property",
    "the operating system resolves '..' lexically for existing directories; NUL is refused by the OS layer",
    "home directories (password database / userdir_expander) are server-side configuration, not client input: "
    "containment is proved for every home directory in which each '%' starts an upper-case escape of a byte outside "
    "A-Za-z0-9-._~/ (in particular every home without '%'); other home directory names are a reported finding family",
    "the jail root of every real request is the backing transport itself (SmartServerRequestHandler jail_root=None); "
    "sub-directory jail roots are covered by jail_allows_inside under its stated hypotheses",
]
TRUSTED = [
    "dromedary (joinpath/escape/unescape, PathFiltering/Chroot/Local transports, Transport.relpath) is compiled Rust: "
    "modelled in Model/C31.lean from observation and compared on every generated case, not verified",
]

TOKENS = ["/", ".", "..", "%2F", "%2E", "%2e%2e", "~", "~user", "a", "\u00e9", "%00"]
EXT_TOKENS = TOKENS + ["%ff", "\x00", "%25", "%5C", "\\", "%7E", "%41", " ", "%", "%2", "f", "srv", "%2f",
                       "%%32E", "home", "u", "canary", "%C3%A9", "%30", "%2D", "%5f", "root"]
ROOTS = ["/", "/srv/", "a"]
MARK_OUT = b"OUTSIDE-MARKER"
# hand-picked client paths run first on every run (and through every verb class)
SEEDS = [b"inside", b"a/f", b"a", b"a/a", b"a/a/f", b"~/f", b"~user/f", b"~user/a/f", b"\xc3\xa9/f", b"%C3%A9/f",
         b"canary", b"../canary", b"a/../../canary", b"%2E%2E/canary", b"%2e%2e/%2e%2e/canary", b"..%2Fcanary",
         b"%2E%2E%2Fcanary", b"a/..%2F..%2Fcanary", b"a%2F..%2F..%2Fcanary", b"%%32E%%32E/canary", b"..%5Ccanary",
         b"..%252Fcanary", b"%252E%252E/canary", b"~/..%2F..%2F..%2Fcanary", b"~%2F..%2F..%2Fcanary", b"..%2F", b"%2F..",
         b"..%2Fa", b"..%2Fevil", b"..%2Fa/f", b"//canary", b"/../canary", b"a//../../canary", b"%2F/f", b"%00/f", b"a\x00",
         b"~", b"~/", b"~user", b"~/../..", b"..%2Froot2/h/f", b"home/u/f", b"2/h/f", b"..%2F..%2F..%2F..%2F..%2Fetc%2Fpasswd",
         b"%2e%2e%2fcanary%ff", b"..%2fnew-file", b"a/..%2f..%2fnew-dir"]


# client paths pushed through EVERY registered verb (the whole registry, every client-path position)
REGISTRY_PATHS = [b"..%2Fcanary", b"a", b"..%2Fa", b"%2E%2E/canary", b"../canary", b"a/..%2F..%2Fevil", b"..%2Fevil",
                  b"%%32E%%32E/canary", b"~/..%2F..%2F..%2Fcanary", b"..%252Fcanary", b"..%2Fnew-dir", b"/../a",
                  b"\xc3\xa9/../..%2Fa", b"..%2F", b"%2F..%2Fa", b"a/a/..%2F..%2F..%2Fa"]


def hexb(b):
    return b.hex() if b else "-"


# --------------------------------------------------------------------------
# worlds

class World:
    pass


def _w(path, data):
    os.makedirs(os.path.dirname(path), exist_ok=True)
    with open(path, "wb") as f:
        f.write(data)


# canonical (escape-image) relpaths read through every transport_from_client_path(...) clone: what the
# theorems quantify over as `Canon rel` (multi-segment, control files, %20, %25, non-ASCII)
CLONE_RELS = [b"f", b".bzr/branch-format", b"a%20b", b"%25", b"a/f", b"x/%C3%A9", b"a%20b/%25"]

INSIDE_FILES = [
    "inside", "canary", "f", "a/f", "a/a/f", "a/a/a/f", "a/canary", "\u00e9/f", "~/f", "~user/f", "home/u/f",
    "home/user/f", "%2E%2E/f", "%2e%2e/f", "%2F/f", "%2E/f", "..%2Fcanary", "%2E%2E%2Fcanary", "%00/f",
    "a/~/f", "a/\u00e9/f", "~/a/f", "~user/a/f", "home/u/a/f", "home/user/a/f", "2/h/f", "srv/f", "a/..%2Ff",
    "%", "a/%", "x/\u00e9", "a/x/\u00e9", "a b/%", "a/a b/%", "home/u/a b", "home/my user/f",
    "home/my user/a/f", "..%2Fevil/f", "%%32E%%32E/f", "%41/f", "ab/f", "a b/f",
]


def make_world(tag):
    from breezy.controldir import ControlDir, format_registry
    w = World()
    w.tag = tag
    w.W = env.fresh_dir("c31w" + tag)
    w.root = os.path.join(w.W, "root")
    os.makedirs(w.root)
    for rel in INSIDE_FILES:
        _w(os.path.join(w.root, rel), ("I:" + rel).encode("utf-8"))
    # a real branch inside
    ControlDir.create_branch_convenience(os.path.join(w.root, "a"), format=format_registry.make_controldir("2a"))
    # the outside differs between the two worlds
    out = MARK_OUT + b":" + tag.encode()
    for rel in ["canary", "f", "a/f", "a/canary", "evil/f", "evil/a/f", "root2/h/f", "root2/h/a/f", "\u00e9/f", "~/f",
                "~user/f", "home/u/f", "srv/f", "inside"]:
        _w(os.path.join(w.W, rel), out + b":" + rel.encode("utf-8"))
    if tag == "A":
        ControlDir.create_branch_convenience(w.W, format=format_registry.make_controldir("2a"))
        ControlDir.create_branch_convenience(os.path.join(w.W, "a"), format=format_registry.make_controldir("2a"))
        ControlDir.create_branch_convenience(os.path.join(w.W, "evil"), format=format_registry.make_controldir("2a"))
    w.servers = {}
    # a byte-identical copy next to the world: whatever a verb changes is put back from it
    w.copy = w.W + ".pristine"
    shutil.copytree(w.W, w.copy, symlinks=True)
    w.clean = fingerprint(w)
    w.watch = Watcher(w)
    ctx_detector[0] = "inotify" if w.watch.fd is not None else "stat-fingerprint"
    return w


ctx_detector = [None]


def fingerprint(w):
    """cheap change detector for the whole world (control directories included): relpath ->
    (mode, size, mtime_ns, inode).  Directories carry their mtime only (it moves when an entry is
    added, removed or renamed)."""
    out = {}
    top = os.fsencode(w.W)
    n = len(top) + 1
    stack = [top]
    while stack:
        d = stack.pop()
        with os.scandir(d) as it:
            for e in it:
                st = e.stat(follow_symlinks=False)
                if e.is_dir(follow_symlinks=False):
                    out[e.path[n:]] = (st.st_mode, 0, st.st_mtime_ns, st.st_ino)
                    stack.append(e.path)
                else:
                    out[e.path[n:]] = (st.st_mode, st.st_size, st.st_mtime_ns, st.st_ino)
    return out


class Watcher:
    """inotify watch on every directory of a world (control directories included).  `changed()` returns
    the relpaths (relative to the world) that were created, removed, renamed, written or chmod-ed since the
    last call — one read() per check instead of a stat of every entry.  Falls back to comparing stat
    fingerprints when inotify is unavailable or its queue overflowed."""
    MASK = 0x2 | 0x4 | 0x40 | 0x80 | 0x100 | 0x200 | 0x400 | 0x800   # MODIFY ATTRIB MOVED_FROM MOVED_TO CREATE DELETE DELETE_SELF MOVE_SELF

    def __init__(self, w):
        self.w = w
        self.fd = None
        self.libc = None
        self.arm()

    def arm(self):
        import ctypes
        self.close()
        self.wd = {}
        try:
            self.libc = ctypes.CDLL(None, use_errno=True)
            fd = self.libc.inotify_init1(0o4000 | 0o2000000)       # IN_NONBLOCK | IN_CLOEXEC
            if fd < 0:
                raise OSError(ctypes.get_errno(), "inotify_init1")
            self.fd = fd
            self.add_tree(b"")
        except (OSError, AttributeError):
            self.close()

    def add_tree(self, rel):
        """watch the directory `rel` (relative to the world) and everything below it"""
        if self.fd is None:
            return
        top = os.fsencode(self.w.W)
        stack = [rel]
        while stack:
            r = stack.pop()
            d = os.path.join(top, r) if r else top
            wd = self.libc.inotify_add_watch(self.fd, d, self.MASK)
            if wd < 0:
                raise OSError("inotify_add_watch")
            self.wd[wd] = r
            with os.scandir(d) as it:
                stack.extend((r + b"/" + e.name) if r else e.name for e in it if e.is_dir(follow_symlinks=False))

    def close(self):
        if self.fd is not None:
            os.close(self.fd)
            self.fd = None

    def drain(self):
        self.changed()

    def changed(self):
        """set of changed relpaths, or None = unknown (compare fingerprints)"""
        import struct
        if self.fd is None:
            return None
        out, overflow = set(), False
        while True:
            try:
                buf = os.read(self.fd, 1 << 16)
            except BlockingIOError:
                break
            if not buf:
                break
            i = 0
            while i + 16 <= len(buf):
                wd, mask, _cookie, n = struct.unpack_from("iIII", buf, i)
                name = buf[i + 16:i + 16 + n].split(b"\0", 1)[0]
                i += 16 + n
                if mask & 0x4000:            # IN_Q_OVERFLOW
                    overflow = True
                    continue
                if mask & 0x8000:            # IN_IGNORED (watch removed with its directory)
                    self.wd.pop(wd, None)
                    continue
                d = self.wd.get(wd)
                if d is None:
                    continue
                if mask & (0x400 | 0x800) and not name:      # DELETE_SELF / MOVE_SELF: reported by the parent too
                    out.add(d) if d else None
                    continue
                out.add((d + b"/" + name) if d else name)
        return None if overflow else out


def fp_changed(before, after):
    """relpaths (bytes, relative to the world) that were created, removed or modified"""
    ch = [p for p in after if before.get(p) != after[p]] + [p for p in before if p not in after]
    return sorted(set(ch))


def is_inside(rel):
    return rel == b"root" or rel.startswith(b"root/")


def put_back(w, changed):
    """undo what a verb did: every changed relpath is put back from the pristine copy (or removed when the
    pristine world does not have it)"""
    W, C = os.fsencode(w.W), os.fsencode(w.copy)
    done = []
    for rel in sorted(changed, key=len):
        if any(rel.startswith(d + b"/") for d in done):
            continue
        dst, src = os.path.join(W, rel), os.path.join(C, rel)
        src_dir = os.path.isdir(src) and not os.path.islink(src)
        dst_dir = os.path.isdir(dst) and not os.path.islink(dst)
        if src_dir and dst_dir:
            continue                    # the directory is still there; its entries have events of their own
        if dst_dir:
            shutil.rmtree(dst)
        elif os.path.lexists(dst):
            os.unlink(dst)
        if src_dir:
            shutil.copytree(src, dst, symlinks=True)
            done.append(rel)
            w.watch.add_tree(rel)
        elif os.path.lexists(src):
            shutil.copy2(src, dst, follow_symlinks=False)
        else:
            done.append(rel)
    if w.watch.fd is None:
        w.clean = fingerprint(w)
    else:
        w.watch.drain()


def differs_from_pristine(w, rel):
    """the entry `rel` of the world is not what it was when the world was made (existence, kind, content)"""
    dst, src = os.path.join(os.fsencode(w.W), rel), os.path.join(os.fsencode(w.copy), rel)
    if os.path.lexists(dst) != os.path.lexists(src):
        return True
    if not os.path.lexists(dst):
        return False                      # a temporary name that came and went
    if os.path.islink(dst) or os.path.islink(src):
        return not (os.path.islink(dst) and os.path.islink(src) and os.readlink(dst) == os.readlink(src))
    if os.path.isdir(dst) != os.path.isdir(src):
        return True
    if os.path.isdir(dst):
        return False                      # entries of a directory are reported on their own
    with open(dst, "rb") as f, open(src, "rb") as g:
        return f.read() != g.read() or os.stat(dst).st_mode != os.stat(src).st_mode


def world_changes(w):
    """relpaths changed since the last call (inotify; stat fingerprints as a fallback)"""
    ch = w.watch.changed()
    if ch is None:
        after = fingerprint(w)
        ch = set(fp_changed(w.clean, after))
        if w.watch.fd is not None:      # queue overflow: start again from a known state
            w.clean = after
    return ch


def _table_expander(table):
    def expander(p):
        i = p.find("/")
        if i < 0:
            i = len(p)
        name = p[1:i]
        if name not in table:
            return p
        return (table[name].rstrip("/") + p[i:]) or "/"
    return expander


def _pinned_getpwnam(name):
    """the password database of a host without any of the accounts the generator names: what the real
    pwd.getpwnam does there (ValueError for an embedded NUL, KeyError otherwise).  A host account called
    `user`, `a` or `home` must not change what `~user` expands to relative to the model's table."""
    if "\x00" in name:
        raise ValueError("embedded null byte")
    raise KeyError("getpwnam(): name not found: %r" % (name,))


def _real_expander(home):
    """the real os.path.expanduser (the factory's default expander) with $HOME inside the served directory
    and the password database pinned for the duration of the call"""
    def expander(p):
        import pwd
        old, old_nam = os.environ.get("HOME"), pwd.getpwnam
        os.environ["HOME"] = home
        pwd.getpwnam = _pinned_getpwnam
        try:
            return posixpath.expanduser(p)
        finally:
            pwd.getpwnam = old_nam
            if old is None:
                os.environ.pop("HOME", None)
            else:
                os.environ["HOME"] = old
    return expander


class Server:
    pass


# (root client path, userdir configuration)
CONFIGS = [("/", "real"), ("/srv/", "table"), ("a", "twin"), ("/", "plain")]


# user tables whose home directories are NOT canonical escaped strings ({} is replaced by the served directory).
# `mild` (every '%' starts an upper-case escape of a byte outside A-Za-z0-9-._~/; theorem userdir_locate_inside)
# or not (witness userdir_percent_home_witness)
HOME_TABLES = [
    ("space", {"": "{}/home/my user"}),                       # mild: a space
    ("unicode+space", {"": "{}/home/u", "user": "{}/a b"}),    # mild
    ("pct-slash-dotdot", {"": "{}/..%2Fevil"}),               # a directory literally named "..%2Fevil"
    ("double-pct-dotdot", {"": "{}/%%32E%%32E"}),             # a directory literally named "%%32E%%32E"
    ("pct-unreserved", {"": "{}/%41"}),                       # a directory literally named "%41"
]
HOME_PATHS = [b"~/f", b"~", b"~/", b"~/a/f", b"~/../f", b"~/..%2Ff", b"~user/f", b"~/%2E%2E/f", b"~/secret", b"~/a%20b"]


def make_server(w, rcp, kind=None, table=None):
    """the real BzrServerFactory stack over a tracing local transport"""
    kind = kind or {"/": "real", "/srv/": "table", "a": "twin"}[rcp]
    from breezy import transport as T
    from breezy.bzr.smart import server as S
    s = Server()
    s.world = w
    s.rcp = rcp
    s.tt = T.get_transport_from_url("trace+file://" + w.root + "/")
    real_base = S._local_path_for_transport(T.get_transport_from_path(w.root))
    s.kind = kind
    if kind == "real":
        # the default expander: the real os.path.expanduser, $HOME inside the served directory
        s.table = {"": w.root + "/home/u"}
        s.base = real_base
        exp = _real_expander(w.root + "/home/u")
    elif kind == "table":
        # the current user's home is OUTSIDE the served directory, ~user is inside
        s.table = {"": w.W + "/evil", "user": w.root + "/home/user"}
        s.base = real_base
        exp = _table_expander(s.table)
    elif kind == "twin":
        s.table = {"": w.W + "/root2/h/", "user": w.root + "/home/user/"}
        s.base = w.root          # no trailing slash: sibling-prefix expansion
        exp = _table_expander(s.table)
    elif kind.startswith("homes:"):
        s.table = {k: v.format(w.root) for k, v in (table or dict(HOME_TABLES)[kind[6:]]).items()}
        s.base = real_base
        exp = _table_expander(s.table)
    else:
        # no local base path known: the factory installs the chroot only
        s.table = {}
        s.base = None
        exp = None
    f = S.BzrServerFactory(userdir_expander=exp, get_base_path=lambda t: s.base)
    f._make_backing_transport(s.tt)
    s.factory = f
    s.bt = f.transport
    s.prefix = s.bt.base        # "filtered-N:///"
    return s


USERDIR_FX = [False]       # does the tree have the proposed fix of _expand_userdirs (unescape / expand / escape)?


def probe_userdir_fx():
    from breezy.bzr.smart import server as S
    seen = []
    f = S.BzrServerFactory(userdir_expander=lambda q: (seen.append(q) or q), get_base_path=lambda t: "/")
    f.base_path = "/"
    try:
        f._expand_userdirs("~%41")
    except Exception:
        return None
    return True if seen == ["~A"] else False if seen == ["~%41"] else None


def base_hex(s):
    """the base path field of the driver protocol (`!` = proposed-fix variant of _expand_userdirs)"""
    if s.base is None:
        return "~"
    return ("!" if USERDIR_FX[0] else "") + hexb(s.base.encode())


def tbl_hex(s):
    return ",".join("%s:%s" % (hexb(k.encode()), hexb(v.encode())) for k, v in sorted(s.table.items())) or "-"


def take_activity(s):
    a = list(s.tt._activity)
    del s.tt._activity[:]
    return a


# --------------------------------------------------------------------------
# canonical outcomes of the real code

def ekind(e):
    from dromedary import errors as te
    from breezy import urlutils
    n = type(e).__name__
    if isinstance(e, UnicodeDecodeError):
        return "E:Unicode"
    if n == "InvalidURLJoin":
        return "E:AboveRoot"
    if isinstance(e, te.PathNotChild):
        return "E:NotChild"
    if isinstance(e, urlutils.InvalidURL):
        return "E:InvalidURL"
    return "E:" + n


def real_tr(s, cls, cp):
    try:
        r = cls(s.bt, s.rcp).translate_client_path(cp)
    except Exception as e:
        return ekind(e), None
    return "ok:" + hexb(r.encode("utf-8")), r


def read_outcome_real(fn):
    """canonical outcome of a read through the transport stack"""
    from dromedary import errors as te
    from breezy import urlutils
    try:
        data = fn()
    except te.NoSuchFile:
        return "NoSuchFile"
    except te.ReadError:
        return "ReadError"
    except urlutils.InvalidURL:
        return "E:InvalidURL"
    except OSError as e:
        if "NUL" in str(e):
            return "E:Nul"
        return "OSError:%s" % (e.errno,)
    except Exception as e:
        return "EXC:" + type(e).__name__
    return "data:" + data.hex()


def read_outcome_os(path_bytes):
    """what the operating system says for the path the model predicts"""
    try:
        with open(path_bytes, "rb") as f:
            return "data:" + f.read().hex()
    except FileNotFoundError:
        return "NoSuchFile"
    except NotADirectoryError:
        return "NoSuchFile"
    except IsADirectoryError:
        return "ReadError"
    except ValueError:
        return "E:Nul"
    except OSError as e:
        if e.errno == errno.ENAMETOOLONG:
            return "OSError:%s" % e.errno
        return "OSError:%s" % (e.errno,)


def nontrivial(cp):
    return (b".." in cp or b"%" in cp or b"~" in cp or b"\x00" in cp or any(c >= 128 for c in cp)
            or b"//" in cp or cp.startswith(b"/"))


# --------------------------------------------------------------------------
# generators

def gen_exhaustive(n):
    seen = set()
    out = []
    for k in range(n + 1):
        for toks in itertools.product(TOKENS, repeat=k):
            b = "".join(toks).encode("utf-8")
            if b not in seen:
                seen.add(b)
                out.append(b)
    return out


def gen_random(rng, count, lo, hi):
    out = []
    for _ in range(count):
        k = rng.randint(lo, hi)
        toks = [rng.choice(EXT_TOKENS if rng.random() < 0.6 else TOKENS) for _ in range(k)]
        if rng.random() < 0.4:
            # bias towards separators between tokens
            toks = [t for pair in zip(toks, [rng.choice(["/", "/", ""]) for _ in toks]) for t in pair]
        out.append("".join(toks).encode("utf-8"))
    return out


NONASCII = ["\u00e9", "\u00fc\u65e5"]


def encoded_traversals(extra):
    """every client path we generate that hides a separator or a dot-dot behind percent-encoding"""
    base = [b"..%2Fcanary", b"%2E%2E%2Fcanary", b"%2e%2e%2fcanary", b"..%2F", b"%2F..", b"..%2Ff", b"..%2Fa/f",
            b"a/..%2F..%2Fcanary", b"a%2F..%2F..%2Fcanary", b"a/a/..%2F..%2F..%2Fcanary", b"..%2Fnew-file",
            b"..%2Fnew-dir/x", b"~/..%2F..%2F..%2Fcanary", b"%%32E%%32E/canary", b"%%32E%%32E%2Fcanary",
            b"..%2Fevil/f", b"..%2Froot2/h/f", b"..%2F..%2F", b".%2E%2Fcanary", b"%2E.%2Fcanary", b"..%2f%2E%2E%2f"]
    out = list(base)
    for c in extra:
        low = c.lower()
        if b"%2f" in low and (b".." in c or b"%2e" in low) and c not in out:
            out.append(c)
            if not c.endswith((b"/", b"%2F", b"%2f")):
                out.append(c + b"%2Fcanary")
            else:
                out.append(c + b"canary")
    return out


def gen_directed(travs):
    """[raw non-ASCII segment + cancelling '..'] composed with every encoded traversal, in prefix, suffix
    and infix position (longer than the exhaustive token bound).  The non-ASCII segment is cancelled
    because the local transport refuses non-ASCII relpaths; what is left is the encoded traversal."""
    out, seen = [], set()

    def add(b):
        if b not in seen:
            seen.add(b)
            out.append(b)
    for t in travs:
        for na in NONASCII:
            n = na.encode("utf-8")
            add(n + b"/../" + t)                 # prefix
            add(b"/" + n + b"/../" + t)          # prefix, absolute form
            add(t + b"/" + n + b"/..")           # suffix
            add(b"a/" + n + b"/../../" + t)      # below an existing directory
            if b"/" in t:
                h, r = t.split(b"/", 1)
                add(h + b"/" + n + b"/../" + r)  # infix
            if b"%2F" in t:
                h, r = t.split(b"%2F", 1)
                add(h + b"%2F" + r + b"/" + n + b"/../")
    return out


def load_corpus():
    import glob
    import json
    out = []
    for f in sorted(glob.glob(os.path.join(env.VERIF, "corpus", "C31", "*.json"))):
        for c in json.load(open(f)).get("cases", []):
            out.append(bytes.fromhex(c["cp"]))
    return out


def gen_malformed(rng, count):
    out = []
    for _ in range(count):
        k = rng.randint(1, 5)
        b = b"".join(rng.choice([b"a", b"/", b"..", b"\xff", b"\xc3", b"\xe2\x82", b"\xc0\xaf", b"\xed\xa0\x80",
                                 b"%2F", b"\xf4\x90\x80\x80", b"\x80"]) for _ in range(k))
        try:
            b.decode("utf-8")
        except UnicodeDecodeError:
            out.append(b)
    return out


# --------------------------------------------------------------------------
# probe: which VfsRequest.translate_client_path does the tree have?

def probe_fx(s):
    from breezy.bzr.smart import vfs
    o, _ = real_tr(s, vfs.HasRequest, b"/" + s.rcp.strip("/").encode() + b"/x%2Fy" if s.rcp.strip("/") else b"x%2Fy")
    # as found: "./x%2Fy" ; fixed (unescape first): "./x/y"
    if o == "ok:" + hexb(b"./x/y"):
        return True
    if o == "ok:" + hexb(b"./x%2Fy"):
        return False
    return None


# --------------------------------------------------------------------------
# T2 part 1: translate functions, clone, traced read through the stack

def t2_paths(ctx, s, cps, fx, deep=True, all_rels=False):
    from breezy.bzr.smart import request as R, vfs
    w = s.world
    rcp_h = hexb(s.rcp.encode())
    root_h = hexb(w.root.encode())
    base_h = base_hex(s)
    tbl = tbl_hex(s)
    cases, lines, outs = [], [], []
    post = []        # (case, kind, model line index, extra) checks that need the model's reply
    for cp in cps:
        case = dict(rcp=s.rcp, cfg=s.kind, cp=cp.hex())
        nt = nontrivial(cp)
        ctx.case(case, nontrivial=nt)
        o_tr, r = real_tr(s, R.SmartServerRequest, cp)
        o_vfs, rv = real_tr(s, vfs.HasRequest, cp)
        ctx.count("tr:" + o_tr.split(":")[0] + (":" + o_tr.split(":")[1] if o_tr.startswith("E:") else ""))
        ctx.count("vfs:" + o_vfs.split(":")[0] + (":" + o_vfs.split(":")[1] if o_vfs.startswith("E:") else ""))
        cases += [dict(case, op="tr"), dict(case, op="vfs")]
        lines += ["tr %s %s" % (rcp_h, hexb(cp)), "vfs %s %s %s" % ("T" if fx else "F", rcp_h, hexb(cp))]
        outs += [o_tr, o_vfs]
        if not deep:
            continue
        if r is not None:
            # non-VFS verbs: clone, then a read of "f" below it
            try:
                c = s.bt.clone(r)
                cb = c.base
                o_clone = hexb(cb[len(s.prefix):].rstrip("/").encode("utf-8")) if cb.startswith(s.prefix) else "BASE:" + cb
            except Exception as e:
                c = None
                o_clone = "EXC:" + type(e).__name__
            cases.append(dict(case, op="clone"))
            lines.append("clone %s" % hexb(r.encode("utf-8")))
            outs.append(o_clone)
            if c is not None:
                # a traced read below the clone: "f" and one more canonical relpath (all of them for the
                # hand-picked paths), compared with `combine cloneStk rel` of the model
                nrel = s.__dict__.setdefault("_nrel", [0])
                nrel[0] += 1
                rels = (CLONE_RELS if all_rels else
                        [b"f", CLONE_RELS[1 + (nrel[0] // 3) % (len(CLONE_RELS) - 1)]] if nrel[0] % 3 == 0 else [b"f"])
                for rel in rels:
                    take_activity(s)
                    out = read_outcome_real(lambda: c.get_bytes(rel.decode()))
                    act = take_activity(s)
                    bk = act[0][1].encode("utf-8", "surrogateescape") if act else None
                    post.append((dict(case, op="loc-clone", rel=rel.decode()), len(lines), bk, out))
                    lines.append("loc %s %s %s %s %s" % (root_h, base_h, tbl, hexb(r.encode("utf-8")), hexb(rel)))
                    cases.append(None)
                    outs.append(None)
                    ctx.count("clone-rel:%s" % rel.decode())
                    if out.startswith("data:") and MARK_OUT.hex() in out:
                        ctx.violation(dict(case, op="clone-read", rel=rel.decode()),
                                      "client path %r (root client path %r): a read of %r below "
                                      "transport_from_client_path returns a file OUTSIDE the served directory"
                                      % (cp, s.rcp, rel), family=_home_family(s, cp))
        if rv is not None:
            take_activity(s)
            out = read_outcome_real(lambda: s.bt.get_bytes(rv))
            act = take_activity(s)
            bk = act[0][1].encode("utf-8", "surrogateescape") if act else None
            post.append((dict(case, op="loc-vfs"), len(lines), bk, out))
            lines.append("loc %s %s %s - %s" % (root_h, base_h, tbl, hexb(rv.encode("utf-8"))))
            cases.append(None)
            outs.append(None)
            # oracle, independent of the model: a read must never return outside content
            if out.startswith("data:") and MARK_OUT.hex() in out:
                ctx.violation(dict(case, op="vfs-read"),
                              "VFS path %r (root client path %r) translated to %r reads a file OUTSIDE the served "
                              "directory: %r" % (cp, s.rcp, rv, bytes.fromhex(out[5:])[:60]),
                              family=_family("vfs", cp, rv) or _home_family(s, cp))
    replies = ctx.model(lines)
    suspects = []       # the implementation accepted a path the model rejects: re-run under the canary oracle
    for c, l, i, m in zip(cases, lines, outs, replies):
        if c is None:
            continue
        ctx.traces += 1
        if i != m:
            ctx.mismatch(c, i, m, line=l)
            if c.get("op") in ("tr", "vfs") and i.startswith("ok:") and m.startswith("E:"):
                cpb = bytes.fromhex(c["cp"])
                if cpb not in suspects:
                    suspects.append(cpb)
    for c, idx, bk, out in post:
        ctx.traces += 1
        m = replies[idx]
        mm = dict(x.split("=", 1) for x in m.split(" ")) if "=" in m else {}
        if not mm:
            ctx.mismatch(c, "bk=%r out=%s" % (bk, out), m, line=lines[idx])
            continue
        # 1. what reaches the local transport
        impl_bk = hexb(bk) if bk is not None else "none"
        if bk is not None and impl_bk != mm["bk"]:
            ctx.mismatch(c, "bk=" + impl_bk, "bk=" + mm["bk"], line=lines[idx])
            continue
        # 2. what the read returns, against the OS path the model predicts
        if mm["os"].startswith("ok:"):
            u = bytes.fromhex(mm["os"][3:]) if mm["os"] != "ok:-" else b""
            osp = w.root.encode() + b"/" + u
            exp = read_outcome_os(osp)
            # 3. the model's lexical resolution agrees with the OS's own normalisation
            norm = os.path.normpath(osp)
            loc = bytes.fromhex(mm["loc"]) if mm["loc"] not in ("-",) else b""
            if norm.rstrip(b"/") != loc.rstrip(b"/") and not norm.startswith(b"//"):
                ctx.mismatch(c, "normpath=%r" % norm, "loc=%r" % loc, line=lines[idx])
            ctx.count("loc:" + ("inside" if (loc + b"/").startswith(w.root.encode() + b"/") else "OUTSIDE"))
        else:
            exp = mm["os"]
        cpb = bytes.fromhex(c["cp"])
        if (bk is None and (b"\x00" in cpb or (USERDIR_FX[0] and b"%00" in cpb))
                and out.startswith(("OSError", "EXC:ValueError")) and exp.startswith("E:")):
            # pwd.getpwnam inside the real os.path.expanduser refuses a NUL in the user name: a rejection
            # before anything reaches the local transport; the model rejects the same path later (NUL / non-ASCII)
            ctx.count("read:refused-by-expanduser")
            continue
        if bk is None and out in ("E:InvalidURL",):
            # refused before reaching the local transport (non-ASCII relpath)
            exp = "E:InvalidURL" if mm["os"] == "E:InvalidURL" else exp
        if exp != out:
            ctx.mismatch(c, out, exp, line=lines[idx])
        ctx.count("read:" + out.split(":")[0])
    return suspects


def _home_family(s, cp):
    """the breakout through a home directory whose name carries a percent escape (former family
    userdir-home-encoded-dotdot) was repaired by fix: commit 489056d (_expand_userdirs unescapes, expands and
    escapes the remainder): it has no family any more and is a plain VIOLATION if it returns"""
    return None


def _family(kind, cp, translated=None):
    """classify a failing input by what it contains; anything unexpected gets None.
    Only URLs opened during a request (kind 'jail') have finding families (external dromedary chroot
    defects).  A client path given to a verb (kind 'vfs') that reaches outside has NO family: the VFS
    breakout through '..%2F' was fixed (fix: commit 3cca92d) and must be a plain VIOLATION if it returns."""
    if kind != "jail":
        return None
    low = cp.lower()
    dotdot = b".." in cp or b"%2e" in low
    if b"%2f" in low and dotdot:
        # a '/' hidden behind percent-encoding next to a (possibly encoded) dot-dot
        return "jail-url-encoded-slash-dotdot"
    if re.search(rb"%%3[0-9]", low) and re.search(rb"%%32(e|%45|%65)", low):
        # "%%32E": a '%' followed by the escape of a hex digit, which only a second decoding turns into %2E
        return "jail-url-double-encoded-dotdot"
    if dotdot:
        # a chroot URL with a literal or %2E-encoded dot-dot segment handed to get_transport()
        return "jail-url-dotdot-unnormalised"
    return None


# --------------------------------------------------------------------------
# verbs through the real request handler, in two worlds

# the verbs dispatched for EVERY generated client path (the whole registry is swept for a subset, see
# `registry_plans`): every vfs.*Request class and the non-VFS verbs that open a control directory,
# a branch, a repository or create something
CORE_VERBS = [
    b"has", b"get", b"stat", b"list_dir", b"iter_files_recursive", b"readv",
    b"BzrDir.open_2.1", b"BzrDir.open_branchV3", b"BzrDir.find_repositoryV3",
    b"Branch.last_revision_info", b"Branch.get_config_file", b"Repository.is_shared", b"BzrDir.get_branches",
    b"put", b"mkdir", b"append", b"put_non_atomic", b"rename", b"delete", b"rmdir",
    b"BzrDirFormat.initialize",
]       # `move` (same argument handling as rename, but it copies whole trees) runs in the registry sweep
PATH_PARAMS = ("path", "relpath", "rel_from", "rel_to")
# `do(self, path, *args)` hands the remaining wire arguments to one of these methods
HELPER_CHAIN = {"do": ("do_with_branch", "do_repository_request", "do_bzrdir_request"),
                "do_with_branch": ("do_with_locked_branch",),
                "do_with_locked_branch": ("do_tip_change_with_locked_branch",),
                "do_repository_request": ("do_readlocked_repository_request",)}
# responses whose body carries timestamps of the (separately created) worlds
BODY_UNSTABLE = {b"Repository.tarball", b"Repository.revision_archive"}


def wire_params(cls):
    """names of the wire arguments of a request class: the parameters of do(), following a `*args`
    through the helper method it is handed to (required parameters only)"""
    names, meth, seen = [], "do", set()
    while meth and meth not in seen:
        seen.add(meth)
        ps = list(inspect.signature(getattr(cls, meth)).parameters.values())[1:]
        var = False
        for q in ps:
            if q.kind == q.VAR_POSITIONAL:
                var = True
                break
            if q.kind == q.VAR_KEYWORD or q.default is not q.empty:
                continue
            if meth != "do" and q.name in ("branch", "repository"):
                continue
            names.append(q.name)
        meth = next((c for c in HELPER_CHAIN.get(meth, ()) if var and hasattr(cls, c)), None)
    return names


_PLANS = {}


def registry_plans():
    """verb -> (argument names, indices of the client-path arguments) for EVERY entry of
    request.request_handlers that takes a client path; the others are listed under 'skipped'"""
    if _PLANS:
        return _PLANS
    from breezy.bzr.smart import request as R
    plans, skipped = {}, {}
    for verb in sorted(R.request_handlers.keys()):
        try:
            cls = R.request_handlers.get(verb)
            names = wire_params(cls)
        except Exception as e:            # cannot be constructed / inspected
            skipped[verb.decode()] = "unconstructible: %s" % type(e).__name__
            continue
        idx = [i for i, n in enumerate(names) if n in PATH_PARAMS]
        if not idx:
            skipped[verb.decode()] = "no client-path argument"
            continue
        plans[verb] = (names, idx, cls)
    _PLANS.update(plans=plans, skipped=skipped)
    return _PLANS


def _formats():
    from breezy.controldir import format_registry
    d = format_registry.make_controldir("2a")
    return dict(bzrdir=d.network_name(), repo=d.repository_format.network_name(),
                branch=d.get_branch_format().network_name())


def filler(verb, name, fm):
    """a plausible wire value for a non-path argument (the path argument is what is under test; whatever
    the other arguments are, the response must not depend on the outside of the served directory)"""
    if name == "network_name":
        return fm["repo"] if verb == b"BzrDir.create_repository" else fm["branch"]
    if name == "bzrdir_network_name":
        return fm["bzrdir"]
    if name in ("use_existing_dir", "create_prefix", "create_parent"):
        return b"True" if verb.startswith(b"BzrDirFormat") else b"T"
    if name in ("force_new_repo", "make_working_trees", "shared_repo", "shared", "str_bool_new_value"):
        return b"False"
    if name in ("revision_id", "revid", "new_last_revision_id"):
        return b"null:"
    if name in ("revno", "new_revno"):
        return b"0"
    if name == "to_network_name":
        return fm["repo"]
    return b""


BODIES = {b"put": b"W:put", b"append": b"W:append", b"put_non_atomic": b"W:pna", b"readv": b"0,1"}


def verb_calls(verb, cp, pre):
    """the argument tuples for one verb with the hostile client path `cp` in EVERY client-path position
    (two-path verbs: source, target, both), well-formed paths below the root client path elsewhere"""
    names, idx, _ = registry_plans()["plans"][verb]
    fm = _formats()
    benign = {"rel_from": pre + b"inside", "rel_to": pre + b"moved-to", "path": pre + b"a", "relpath": pre + b"f"}
    base = [benign[n] if n in PATH_PARAMS else filler(verb, n, fm) for n in names]
    calls = []
    subsets = [[i] for i in idx] + ([idx] if len(idx) > 1 else [])
    for sub in subsets:
        a = list(base)
        for i in sub:
            a[i] = cp
        calls.append(("+".join(names[i] for i in sub), tuple(a)))
    return calls


def _verb_family(verb, cp, s=None):
    """no verb has a finding family of its own any more (the VFS breakout was fixed): a plain violation,
    unless the server is configured with a home directory whose name carries an encoded '..'"""
    return _home_family(s, cp) if s is not None else None


def dispatch(s, verb, args, body=None, commands=None):
    from breezy.bzr.smart import request as R
    h = R.SmartServerRequestHandler(s.bt, commands or R.request_handlers, s.rcp)
    h.args_received((verb,) + tuple(args))
    if h.response is None and body is not None:
        h.accept_body(body)
        h.end_received()
    elif h.response is None:
        h.end_received()
    return h.response


_NONCE = re.compile(rb"(?<![0-9a-z])[0-9a-z]{20}(?![0-9a-z])")


def canon_resp(s, resp, verb=None):
    if resp is None:
        return "none"
    w = s.world

    def mask(b):
        if b is None:
            return "~"
        if isinstance(b, str):
            b = b.encode("utf-8", "replace")
        b = b.replace(w.W.encode(), b"<W>")
        b = re.sub(rb"(chroot|filtered)-\d+", rb"\1-N", b)
        b = re.sub(rb"0x[0-9a-f]{6,}", b"0xADDR", b)
        b = _NONCE.sub(b"<nonce>", b)            # lock tokens
        b = re.sub(rb"\.tmp[0-9A-Za-z_]{6,8}", b".tmpXXXXXX", b)     # temporary file names in error messages
        return b.hex() or "-"
    tag = "ok" if resp.is_successful() else "err"
    body = resp.body
    if resp.body_stream is not None:
        try:
            body = b"".join(resp.body_stream)
        except Exception as e:
            body = b"STREAM-EXC:" + type(e).__name__.encode()
    if verb in BODY_UNSTABLE and body:
        body = b"<body>"
    return "%s %s | %s" % (tag, ",".join(mask(a) for a in resp.args), mask(body))


def run_verb(s, verb, args):
    try:
        return canon_resp(s, dispatch(s, verb, args, body=BODIES.get(verb, b"")), verb)
    except Exception as e:        # the handler converts errors itself; anything that escapes is compared as such
        return "raised %s" % type(e).__name__


def verbs_case(ctx, sa, sb, cp, pre=b"", verbs=None):
    """every verb of `verbs` (default: CORE_VERBS) with this client path in every client-path argument
    position, in world A and in world B.  Oracle: equal responses (non-interference), no outside marker in
    a response, the outside of BOTH worlds untouched (stat fingerprint of every entry, control directories
    included).  Whatever a verb changed is put back from the pristine copy before the next verb."""
    case = dict(rcp=sa.rcp, cfg=sa.kind, cp=cp.hex())
    for verb in (verbs or CORE_VERBS):
        if verb not in registry_plans()["plans"]:
            ctx.count("verb-missing:%s" % verb.decode())
            continue
        for pos, args in verb_calls(verb, cp, pre):
            ra = run_verb(sa, verb, args)
            rb = run_verb(sb, verb, args)
            ctx.count("verb:%s:%s" % (verb.decode(), ra.split(" ")[0]))
            ctx.traces += 1
            vcase = dict(case, verb=verb.decode(), pos=pos, args=[a.hex() for a in args])
            fam = _verb_family(verb, cp, sa)
            if MARK_OUT.hex() in ra or MARK_OUT.hex() in rb:
                ctx.violation(vcase, "verb %s with client path %r as %s (root client path %r) returns content of a file "
                              "outside the served directory" % (verb.decode(), cp, pos, sa.rcp), family=fam)
            elif ra != rb:
                ctx.violation(vcase, "verb %s with client path %r as %s (root client path %r): the response depends on "
                              "what is OUTSIDE the served directory (world A: %s / world B: %s)"
                              % (verb.decode(), cp, pos, sa.rcp, ra[:160], rb[:160]), family=fam)
            for s in (sa, sb):
                w = s.world
                changed = sorted(world_changes(w))
                if not changed:
                    continue
                touched = [q for q in changed if not is_inside(q)]
                bad = [q for q in touched if differs_from_pristine(w, q)]
                if bad:
                    ctx.violation(vcase, "verb %s with client path %r as %s (root client path %r) created/changed/removed "
                                  "%r OUTSIDE the served directory (world %s)"
                                  % (verb.decode(), cp, pos, sa.rcp, bad[:3], w.tag), family=fam)
                elif touched:
                    # e.g. the temporary file of an atomic put on the served directory itself (client path ""),
                    # which LocalTransport creates next to its target and removes again: nothing outside differs
                    ctx.count("write:transient-name-outside:%s" % verb.decode())
                ctx.count("write:changed-" + ("outside" if bad else "inside"))
                put_back(w, changed)


# --------------------------------------------------------------------------
# a few cases through a real socket medium pair (client medium <-> server medium)

def socket_cases(ctx, s, cps):
    from breezy.bzr.smart import medium, client
    from dromedary import errors
    a, b = socket.socketpair()
    srv = medium.SmartServerSocketStreamMedium(b, s.bt, s.rcp, timeout=30)
    th = threading.Thread(target=srv.serve, daemon=True)
    th.start()
    cm = medium.SmartClientAlreadyConnectedSocketMedium("bzr://verif/", a)
    cl = client._SmartClient(cm)
    try:
        for cp in cps:
            for verb in (b"get", b"BzrDir.open_2.1", b"has"):
                try:
                    if verb == b"get":
                        resp, proto = cl.call_expecting_body(verb, cp)
                        body = proto.read_body_bytes()
                        got = ("ok", tuple(resp), body)
                    else:
                        got = ("ok", tuple(cl.call(verb, cp)), None)
                except errors.ErrorFromSmartServer as e:
                    got = ("err", tuple(e.error_tuple), None)
                except Exception as e:
                    got = ("EXC", (type(e).__name__.encode(),), None)
                r = dispatch(s, verb, (cp,))
                want = ("ok" if r.is_successful() else "err", tuple(r.args), r.body if r.is_successful() else None)
                ctx.traces += 1
                ctx.count("socket:" + got[0])
                if got[0] != "EXC" and (got[0] != want[0] or got[1][:1] != want[1][:1] or
                                        (got[0] == "ok" and verb == b"get" and got[2] != want[2])):
                    ctx.mismatch(dict(rcp=s.rcp, cp=cp.hex(), verb=verb.decode(), op="socket"), repr(got)[:200],
                                 repr(want)[:200])
                if got[2] and MARK_OUT in got[2]:
                    ctx.violation(dict(rcp=s.rcp, cp=cp.hex(), verb=verb.decode(), op="socket"),
                                  "over a real socket medium: %s %r returns outside content" % (verb.decode(), cp),
                                  family=_verb_family(verb, cp))
    finally:
        with contextlib.suppress(Exception):
            cm.disconnect()
        with contextlib.suppress(Exception):
            a.close()
        th.join(5)


# --------------------------------------------------------------------------
# external functions on their own, userdir expansion, jail

def t2_functions(ctx, cps):
    from breezy import urlutils
    cases, lines, outs = [], [], []
    for cp in cps:
        try:
            st = cp.decode("utf-8")
        except UnicodeDecodeError:
            continue
        for op, fn in (("jp", lambda x: urlutils.joinpath("/", x)), ("esc", urlutils.escape), ("unesc", urlutils.unescape)):
            try:
                o = "ok:" + hexb(fn(st).encode("utf-8"))
            except Exception as e:
                o = ekind(e)
            cases.append(dict(op=op, p=cp.hex()))
            lines.append("%s %s" % (op, hexb(cp)))
            outs.append(o)
    ctx.diff(cases, lines, outs)


def t2_userdirs(ctx, servers, cps):
    cases, lines, outs = [], [], []
    for s in servers:
        if s.base is None:
            continue
        for cp in cps:
            try:
                st = cp.decode("utf-8")
            except UnicodeDecodeError:
                continue
            if "\x00" in st or (USERDIR_FX[0] and "%00" in st):
                continue        # pwd.getpwnam refuses a NUL in the user name (ValueError): no expansion to compare
            try:
                r = s.factory._expand_userdirs(st)
            except Exception as e:       # compared with the model as such
                cases.append(dict(op="xu", rcp=s.rcp, p=cp.hex()))
                lines.append("xu %s %s %s" % (base_hex(s), tbl_hex(s), hexb(cp)))
                outs.append("EXC:" + type(e).__name__)
                continue
            # oracle: untouched, or the remainder of something under the base path
            if r != st:
                from breezy import urlutils
                e = s.factory.userdir_expander(urlutils.unescape(st) if USERDIR_FX[0] else st)
                e = e if e.endswith("/") else e + "/"
                below = e[len(s.base):]
                if not (e.startswith(s.base) and (urlutils.escape(below) if USERDIR_FX[0] else below) == r):
                    ctx.violation(dict(op="xu", rcp=s.rcp, p=cp.hex()),
                                  "_expand_userdirs(%r) = %r is neither the path itself nor the part of the expanded "
                                  "path below the base path" % (st, r))
                ctx.count("xu:expanded")
            else:
                ctx.count("xu:untouched")
            cases.append(dict(op="xu", rcp=s.rcp, p=cp.hex()))
            lines.append("xu %s %s %s" % (base_hex(s), tbl_hex(s), hexb(cp)))
            outs.append(hexb(r.encode("utf-8")))
    ctx.diff(cases, lines, outs)


class _OpenUrl:
    """request class (dispatched through the real handler, so the real
    setup_jail / pre_open hook apply) that opens a control directory at a URL"""


JAIL_TOKENS = ["/", ".", "..", "%2F", "%2E", "%2e%2e", "~", "a", "ab", "%41", "%%32E", "%25", "a%20b", "home", "evil", "f", "%FF"]
JAIL_URLS = ["", "a/", "a", "a/a/", "ab/", "home/u/", "../", "a/../../a/", "%2E%2E/", "..%2F", "a/..%2F", "a/..%2F..%2Fevil/",
             "%%32E%%32E/", "a/%%32E%%32E/", "a//..", "a/./a/", "a//a/", "/a/", "a%20b/", "a%20b/%FF/", "a/%FF/", "%41/",
             "~/", "~/..%2F..%2F", "a/a%20b/", "a/../a/", "a/%2e%2e/a/", ".%2E/", "a/.%2e/evil/"]
JAIL_ROOTS = ["", "a", "a/a", "a%20b"]       # clone relpaths of the jail root ("" = the backing transport itself)
JAIL_RELS = [b"f", b".bzr/branch-format"]


def gen_jail_urls(rng, n_random):
    seen, out = set(), []
    for u in JAIL_URLS + ["".join(t) for k in (1, 2) for t in itertools.product(JAIL_TOKENS, repeat=k)]:
        if u not in seen:
            seen.add(u)
            out.append(u)
    for _ in range(n_random):
        k = rng.randint(3, 6)
        u = "".join(t for pair in zip([rng.choice(JAIL_TOKENS) for _ in range(k)],
                                      [rng.choice(["/", "/", ""]) for _ in range(k)]) for t in pair)
        if u not in seen:
            seen.add(u)
            out.append(u)
    return out


def jail_url_cases(ctx, s, urls):
    """a transport built from a URL below the backing transport (`get_transport_from_url(prefix + p)`) — what
    a request has to do to name a location that is not a clone of its backing transport.
    T2: its .base, what _pre_open_hook says for several jail roots, the relpath a read hands to the local
    transport and what the read returns, against the model (`urlBase`, `jailAllows`, `urlBackingRel`,
    `urlLocate`).  Oracle (model-free): every inside file carries its own relpath as content, every outside
    file a marker — so a read that returns data tells where it landed: for a URL the jail admits that must be
    below the jail root's directory.  A failure has a (known) family only if the URL is not in normal form."""
    from breezy.bzr.smart import request as R
    from breezy import transport as T
    from urllib.parse import unquote_to_bytes
    w, P, bt = s.world, s.prefix, s.bt
    root_h = hexb(w.root.encode())
    base_h = base_hex(s)
    tbl, pfx_h = tbl_hex(s), hexb(P.encode())
    roots = [(j, bt.clone(j) if j else bt) for j in JAIL_ROOTS]
    cases, lines, outs, post = [], [], [], []
    for u in urls:
        ub = u.encode()
        case = dict(op="jail-url", cfg=s.kind, url=u)
        ctx.case(case, nontrivial=("." in u or "%" in u or "//" in u or "~" in u))
        try:
            t = T.get_transport_from_url(P + u)
        except Exception as e:
            ctx.count("jail-url:unbuildable:%s" % type(e).__name__)
            continue
        if not t.base.startswith(P):
            ctx.mismatch(case, "base=" + t.base, "a base with prefix " + P)
            continue
        real_base = t.base[len(P):].encode()
        admitted = {}
        for j, jt in roots:
            R.jail_info.transports = [jt]
            try:
                R._pre_open_hook(t)
                admitted[j] = True
            except Exception:
                admitted[j] = False
            finally:
                R.jail_info.transports = None
            cases.append(dict(case, jail=j))
            lines.append("jurl %s %s %s %s %s %s %s" % (root_h, base_h, tbl, pfx_h, hexb(j.encode() or b"."), hexb(ub), hexb(b"f")))
            outs.append(None)
            post.append(("adm", len(lines) - 1, (real_base, admitted[j])))
            ctx.count("jail-url:%s" % ("admitted" if admitted[j] else "refused"))
        for rel in JAIL_RELS:
            take_activity(s)
            out = read_outcome_real(lambda: t.get_bytes(rel.decode()))
            act = take_activity(s)
            bk = act[0][1].encode("utf-8", "surrogateescape") if act else None
            cases.append(dict(case, rel=rel.decode()))
            lines.append("jurl %s %s %s %s %s %s %s" % (root_h, base_h, tbl, pfx_h, hexb(b"."), hexb(ub), hexb(rel)))
            outs.append(None)
            post.append(("read", len(lines) - 1, (bk, out)))
            # the oracle: where did an admitted read land?
            if out.startswith("data:"):
                data = bytes.fromhex(out[5:])
                for j, _jt in roots:
                    if not admitted[j] or (rel != b"f"):
                        continue
                    jd = unquote_to_bytes(j.encode())
                    want = b"I:" + (jd + b"/" if jd else b"")
                    ctx.count("jail-url:admitted-read-with-data")
                    if MARK_OUT in data or not data.startswith(want):
                        ctx.violation(dict(case, jail=j, rel=rel.decode()),
                                      "the jail rooted at %r admits the URL <prefix>%s, and a read of %r through it "
                                      "returns %r: a location OUTSIDE the jail root" % (j or "<backing transport>", u, rel, data[:60]),
                                      family=_family("jail", ub) or _jail_sibling_family(j, ub))
    replies = ctx.model(lines)
    for (kind, idx, obs), c in zip(post, cases):
        m = replies[idx]
        mm = dict(x.split("=", 1) for x in m.split(" ")) if "=" in m else {}
        ctx.traces += 1
        if not mm:
            ctx.mismatch(c, repr(obs), m, line=lines[idx])
            continue
        if kind == "adm":
            real_base, adm = obs
            impl = "base=%s allowed=%s" % (hexb(real_base), "T" if adm else "F")
            model = "base=%s allowed=%s" % (mm["base"], mm["allowed"])
            if impl != model:
                ctx.mismatch(c, impl, model, line=lines[idx])
            # the theorem's statement on the model's own output: admitted + normal form => inside the jail root
            continue
        bk, out = obs
        if bk is not None and hexb(bk) != mm["bk"]:
            ctx.mismatch(c, "bk=" + hexb(bk), "bk=" + mm["bk"], line=lines[idx])
            continue
        if mm["os"].startswith("ok:"):
            uos = bytes.fromhex(mm["os"][3:]) if mm["os"] != "ok:-" else b""
            exp = read_outcome_os(w.root.encode() + b"/" + uos)
            loc = bytes.fromhex(mm["loc"]) if mm["loc"] != "-" else b""
            inside_model = (loc + b"/").startswith(w.root.encode() + b"/")
            ctx.count("jail-url:loc-" + ("inside" if inside_model else "OUTSIDE") + (":normal-form" if mm["norm"] == "T" else ":not-normal-form"))
            if mm["norm"] == "T" and not inside_model:
                ctx.mismatch(c, "theorem jail_url_inside_served", "model location outside for a normal-form URL: " + m)
        else:
            exp = mm["os"]
        if bk is None and out == "E:InvalidURL" and mm["os"] == "E:InvalidURL":
            exp = out
        if exp != out:
            ctx.mismatch(c, out, exp, line=lines[idx])


def _jail_sibling_family(j, ub):
    """jail root with an escape in its name and a URL whose decoded form is not UTF-8: `unescape` hands such a
    path back undecoded, so the read lands in the sibling directory named like the ESCAPED jail root
    (theorem jail_invalid_utf8_sibling_witness; inside the served directory, and no request has such a jail
    root: SmartServerRequestHandler's jail root is the backing transport)"""
    from urllib.parse import unquote_to_bytes
    if "%" in j:
        try:
            unquote_to_bytes(ub).decode("utf-8")
        except UnicodeDecodeError:
            return "jail-subroot-escaped-name-invalid-utf8-url"
    return None


def userdir_home_cases(ctx, wa, wb, fx):
    """servers whose user table has home directories that are not canonical escaped strings (mild ones:
    theorem userdir_locate_inside; others: witness userdir_percent_home_witness): T2 through the translate
    functions / clone / traced reads, and every core verb in two worlds"""
    for name, _tbl in HOME_TABLES:
        sa_, sb_ = make_server(wa, "/", "homes:" + name), make_server(wb, "/", "homes:" + name)
        ctx.count("userdir-home-table:" + name)
        t2_paths(ctx, sa_, HOME_PATHS, fx, all_rels=True)
        for cp in (HOME_PATHS if ctx.thorough() else HOME_PATHS[:1] + HOME_PATHS[3:5]):
            verbs_case(ctx, sa_, sb_, cp)


def jail_cases(ctx, sa, sb):
    from breezy.bzr.smart import request as R
    from breezy.bzr import bzrdir
    from breezy import transport as T, errors, registry

    class OpenUrl(R.SmartServerRequest):
        def do(self, url):
            d = bzrdir.BzrDir.open_from_transport(T.get_transport_from_url(url.decode("utf-8")))
            return R.SuccessfulSmartServerResponse((b"opened", d.root_transport.base.encode("utf-8")))

    cmds = registry.Registry()
    cmds.register(b"open_url", OpenUrl)
    # 1. the hook on its own against the model
    cases, lines, outs = [], [], []
    for s in (sa,):
        bt = s.bt
        chroot_t = T.get_transport_from_url(s.factory.cleanups and s.bt.base)
        inside_t = [bt, bt.clone("a"), bt.clone("a/a"), bt.clone("home"), bt.clone("ab"), bt.clone("a%2F.."),
                    bt.clone("~user"), bt.clone("%2E%2E")]
        others = [T.get_transport_from_path(s.world.W), T.get_transport_from_path(s.world.root),
                  T.get_transport_from_path(s.world.root + "/a"), T.get_transport_from_path(s.world.W + "/root2")]
        allowed_sets = [None, [], [bt], [bt.clone("a")], [bt.clone("a"), bt.clone("home")], [bt.clone("a/a")],
                        [others[1]], [others[2]]]
        for allowed in allowed_sets:
            for t in inside_t + others:
                if allowed and any(x.base.startswith("file:") for x in allowed) and not t.base.startswith("file:"):
                    # LocalTransport.relpath raises InvalidURL, not PathNotChild, for foreign URLs:
                    # still a refusal; compared as reject below
                    pass
                R.jail_info.transports = allowed
                try:
                    R._pre_open_hook(t)
                    o = "T"
                except errors.JailBreak:
                    o = "F"
                except Exception:
                    o = "F"
                finally:
                    R.jail_info.transports = None
                al = "~" if allowed is None else (",".join(hexb(x.base.encode()) for x in allowed) or "-")
                case = dict(op="jail", cfg=s.kind, allowed=None if allowed is None else [x.base.replace(s.prefix, "P:") for x in allowed],
                            url=t.base.replace(s.prefix, "P:"))
                ctx.case(case)
                ctx.count("jail:" + o)
                cases.append(case)
                lines.append("jail %s %s" % (al, hexb(t.base.encode())))
                outs.append(o)
                # oracle: accepted => the URL is the allowed base or extends it at a '/' boundary
                if o == "T" and allowed is not None:
                    if not any(t.base == x.base or t.base.startswith(x.base) for x in allowed if x.base.endswith("/")):
                        ctx.violation(case, "the jail accepted %s which is not under any of %r" % (t.base, [x.base for x in allowed]))
    ctx.diff(cases, lines, outs)
    # 2. opening a control directory at a URL during a request (world A has branches outside)
    for s in (sa,):
        w = s.world
        P = s.prefix
        urls = [
            ("inside-branch", P + "a/", True),
            ("inside-nobranch", P + "home/", False),
            ("outside-file-url", "file://" + w.W + "/", False),
            ("outside-file-url-evil", "file://" + w.W + "/evil/", False),
            ("inside-by-file-url", "file://" + w.root + "/a/", False),
            # URLs whose handling depends on the (external) chroot transport: oracle only
            ("dotdot", P + "../", None),
            ("dotdot-a", P + "a/../../a/", None),
            ("enc-dotdot", P + "%2E%2E/", None),
            ("enc-slash-dotdot", P + "..%2F", None),
            ("enc-slash-dotdot-evil", P + "a/..%2F..%2Fevil/", None),
            ("double-enc-dotdot", P + "%%32E%%32E/", None),
        ]
        for name, url, expect_open in urls:
            resp = dispatch(s, b"open_url", (url.encode("utf-8"),), commands=cmds)
            c = canon_resp(s, resp)
            case = dict(op="jail-open", cfg=s.kind, name=name, url=url.replace(P, "P:").replace(w.W, "<W>"))
            ctx.case(case)
            ctx.traces += 1
            opened = resp.is_successful()
            ctx.count("jail-open:%s:%s" % (name, "opened" if opened else "refused"))
            # oracle: nothing outside may be opened or even probed.  In world B nothing outside is a control
            # directory, so a response that differs between the worlds is a breakout of the jail
            respb = dispatch(sb, b"open_url", (url.replace(P, sb.prefix).replace(w.W, sb.world.W).encode("utf-8"),),
                             commands=cmds)
            cb = canon_resp(sb, respb)
            fam = _family("jail", url[len(P):].encode() if url.startswith(P) else url.encode())
            if opened and not respb.is_successful():
                ctx.violation(case, "a control directory OUTSIDE the jail was opened during a request: url %s -> %s"
                              % (case["url"], c[:120]), family=fam)
            elif c != cb:
                ctx.violation(case, "opening url %s during a request: the response depends on what is OUTSIDE the "
                              "jail (world A: %s / world B: %s)" % (case["url"], c[:120], cb[:120]), family=fam)
            elif expect_open is not None and opened != expect_open:
                ctx.mismatch(case, "opened" if opened else "refused: " + c[:80], "opened" if expect_open else "refused")


# --------------------------------------------------------------------------

# --------------------------------------------------------------------------
# the jail while two connections are served concurrently (one thread per connection, as SmartTCPServer does)

class _Sched:
    """deterministic two-connection schedules.  Every connection is a socket pair served by its own
    SmartServerSocketStreamMedium thread.  Two pre_open hooks bracket breezy's own jail hook: `gate` (runs
    BEFORE the jail check: logs the attempt and parks the thread when the schedule says so) and `passed`
    (runs AFTER it: only reached when the jail let the transport through).  setup_jail / teardown_jail are
    wrapped by recorders that call the original.  The log is the observed trace of jail operations."""

    GATE, PASSED, JAIL = "verif C31: gate", "verif C31: passed", "checking server jail"
    TIMEOUT = 60.0

    def __init__(self, s):
        from breezy import controldir
        from breezy.bzr.smart import request as R
        self.s, self.R = s, R
        self.hooks = controldir.ControlDir.hooks
        self.lock = threading.Lock()
        self.log = []                 # ["s", label, [bases]] | ["t", label] | ["o", label, base, passed]
        self.park = {}                # label -> (k, reached event, resume event): park at the k-th open attempt
        self.attempts = {}            # label -> number of open attempts so far
        self.tl = threading.local()
        self.conns = []

    def label(self):
        n = threading.current_thread().name
        return n[9:] if n.startswith("C31-conn-") else None

    # -- hooks and recorders
    def gate(self, transport):
        lab = self.label()
        if lab is None:
            return
        with self.lock:
            ent = ["o", lab, transport.base, False]
            self.log.append(ent)
            self.attempts[lab] = k = self.attempts.get(lab, 0) + 1
        self.tl.ent = ent
        p = self.park.get(lab)
        if p and p[0] == k:
            p[1].set()
            if not p[2].wait(self.TIMEOUT):
                raise env.InfraError("C31 scheduler: connection %s was never resumed" % lab)

    def passed(self, transport):
        if self.label() is not None:
            self.tl.ent[3] = True

    def __enter__(self):
        R, sch = self.R, self
        self.hooks.uninstall_named_hook("pre_open", self.JAIL)
        self.hooks.install_named_hook("pre_open", self.gate, self.GATE)
        R._install_hook()             # the jail check, exactly as breezy installs it
        self.hooks.install_named_hook("pre_open", self.passed, self.PASSED)
        self.orig = (R.SmartServerRequest.setup_jail, R.SmartServerRequest.teardown_jail)

        def setup_jail(req):
            sch.orig[0](req)
            lab = sch.label()
            if lab is not None:
                with sch.lock:
                    sch.log.append(["s", lab, [req._jail_root.base]])

        def teardown_jail(req):
            sch.orig[1](req)
            lab = sch.label()
            if lab is not None:
                with sch.lock:
                    sch.log.append(["t", lab])
        R.SmartServerRequest.setup_jail, R.SmartServerRequest.teardown_jail = setup_jail, teardown_jail
        return self

    def __exit__(self, *a):
        R = self.R
        R.SmartServerRequest.setup_jail, R.SmartServerRequest.teardown_jail = self.orig
        for name in (self.GATE, self.PASSED):
            with contextlib.suppress(Exception):
                self.hooks.uninstall_named_hook("pre_open", name)
        for c in self.conns:
            self.close(c)
        with contextlib.suppress(Exception):
            R.jail_info.transports = None

    # -- connections
    def connect(self, lab, bt=None):
        from breezy.bzr.smart import medium, client
        a, b = socket.socketpair()
        srv = medium.SmartServerSocketStreamMedium(b, bt if bt is not None else self.s.bt, self.s.rcp, timeout=self.TIMEOUT)
        th = threading.Thread(target=srv.serve, daemon=True, name="C31-conn-" + lab)
        th.start()
        cm = medium.SmartClientAlreadyConnectedSocketMedium("bzr://verif/", a)
        c = dict(lab=lab, sock=a, th=th, cm=cm, cl=client._SmartClient(cm))
        self.conns.append(c)
        return c

    def close(self, c):
        with contextlib.suppress(Exception):
            c["cm"].disconnect()
        with contextlib.suppress(Exception):
            c["sock"].close()
        c["th"].join(self.TIMEOUT)
        if c["th"].is_alive():
            raise env.InfraError("C31 scheduler: server thread of connection %s did not end" % c["lab"])
        if c in self.conns:
            self.conns.remove(c)

    def call(self, c, verb, args):
        from dromedary import errors
        try:
            return ("ok",) + tuple(c["cl"].call(verb, *args))
        except errors.ErrorFromSmartServer as e:
            return ("err",) + tuple(e.error_tuple)
        except Exception as e:
            return ("EXC", type(e).__name__.encode())

    def _wait_parked(self, lab, th):
        reached = self.park[lab][1]
        while not reached.wait(0.02):
            if not th.is_alive():
                break                 # the request finished without reaching that open
        return reached.is_set()

    def run(self, a_req, k, b_reqs, kb=0, b_bt=None):
        """request A on connection A is parked at its k-th control-directory open attempt (0 = never) while the
        requests `b_reqs` run on connection B (served on `b_bt` if given) one after the other to completion;
        if `kb` > 0 the LAST request of B is itself parked at its kb-th open, A then runs to its end first
        (crossed).  -> (A's reply, B's replies, log, was A parked, was B parked)"""
        self.log, self.attempts, self.park = [], {}, {}
        ca = self.connect("A")
        out = {}
        if k:
            self.park["A"] = (k, threading.Event(), threading.Event())
        ta = threading.Thread(target=lambda: out.__setitem__("A", self.call(ca, *a_req)), daemon=True)
        ta.start()
        b_out, tb, cb = [], None, None
        parked = parked_b = False
        if k:
            parked = self._wait_parked("A", ta)
            if parked and b_reqs:
                cb = self.connect("B", b_bt)
                for r in (b_reqs[:-1] if kb else b_reqs):
                    b_out.append(self.call(cb, *r))
                if kb:
                    self.attempts["B"] = 0
                    self.park["B"] = (kb, threading.Event(), threading.Event())
                    tb = threading.Thread(target=lambda: out.__setitem__("B", self.call(cb, *b_reqs[-1])), daemon=True)
                    tb.start()
                    parked_b = self._wait_parked("B", tb)
            self.park["A"][2].set()
        ta.join(self.TIMEOUT)
        if ta.is_alive():
            raise env.InfraError("C31 scheduler: request A got no reply")
        if tb is not None:
            self.park["B"][2].set()
            tb.join(self.TIMEOUT)
            if tb.is_alive():
                raise env.InfraError("C31 scheduler: request B got no reply")
            b_out.append(out.get("B"))
        if cb is not None:
            self.close(cb)
        self.close(ca)
        return out.get("A"), b_out, [list(e) for e in self.log], parked, parked_b


def _jtrace(log, tids):
    ops = []
    for e in log:
        t = tids[e[1]]
        if e[0] == "s":
            ops.append("s%d:%s" % (t, "+".join(hexb(b.encode()) for b in e[2]) or "-"))
        elif e[0] == "t":
            ops.append("t%d" % t)
        else:
            ops.append("o%d:%s" % (t, hexb(e[2].encode())))
    return ";".join(ops)


def jail_concurrency_cases(ctx, s, rng, thorough=False):
    """schedule family: request A is parked inside its handler, just before the jail check of its k-th
    control-directory open, while another connection's requests run to completion (setup_jail ... teardown_jail
    on the other thread); then A goes on.  For every k the request has, several A and B requests.
    Oracle (no model): (1) every control-directory open that passes the jail hook during a request is on or
    below the jail root (the backing transport's base) — whatever the other connection did meanwhile;
    (2) A's reply is the reply it gets when served alone.  T2: the verdicts of all opens in the observed trace
    against the per-thread jail model (driver op jtrace tl)."""
    from breezy.bzr import bzrdir as _bd, groupcompress_repo
    from breezy.bzr.smart import request as R
    from breezy import transport as T, urlutils
    w, P = s.world, s.prefix
    fmt, rfmt = _bd.BzrDirMetaFormat1().network_name(), groupcompress_repo.RepositoryFormat2a().network_name()

    class OpenUrls(R.SmartServerRequest):
        """opens a control directory at each URL in turn (errors other than the jail's are skipped)"""

        def do(self, *urls):
            from breezy import errors
            got = []
            for u in urls:
                try:
                    d = _bd.BzrDir.open_from_transport(T.get_transport_from_url(u.decode("utf-8")))
                    got.append(b"opened")
                    del d
                except errors.JailBreak:
                    got.append(b"jailbreak")
                except Exception as e:
                    got.append(type(e).__name__.encode())
            return R.SuccessfulSmartServerResponse(tuple(got))

    out_urls = [urlutils.local_path_to_url(w.W + "/evil") + "/", urlutils.local_path_to_url(w.W) + "/",
                urlutils.local_path_to_url(w.W + "/a") + "/"]
    counter = [0]

    def init_stacked(url):
        counter[0] += 1
        return (b"BzrDirFormat.initialize_ex_1.16", (fmt, b"zz-new%d" % counter[0], b"False", b"False", b"False",
                                                     url.encode(), b"", rfmt, b"False", b"False"))
    a_reqs = [
        ("init-stacked-on-outside", lambda: init_stacked(out_urls[0])),
        ("init-stacked-on-outside-parent", lambda: init_stacked(out_urls[1])),
        ("open-inside-then-outside", lambda: (b"C31.open_urls", ((P + "a/").encode(), out_urls[0].encode()))),
        ("open-outside-twice-then-inside", lambda: (b"C31.open_urls", (out_urls[2].encode(), out_urls[0].encode(), (P + "a/").encode()))),
        ("open-inside-by-file-url", lambda: (b"C31.open_urls", (urlutils.local_path_to_url(w.root + "/a").encode() + b"/",))),
        ("open-branch-inside", lambda: (b"BzrDir.open_branchV3", (b"a",))),
    ]
    b_pool = [(b"BzrDir.open_2.1", (b"a",)), (b"hello", ()), (b"has", (b"f",)), (b"BzrDir.find_repositoryV3", (b"a",)),
              (b"C31.open_urls", ((P + "a/").encode(),)), (b"Branch.last_revision_info", (b"a",)),
              (b"C31.open_urls", ((P + "a/").encode(), out_urls[0].encode(), (P + "home/").encode()))]
    # (requests of B, park B's last request at its kb-th open (crossed schedule), B's connection is served below home/)
    b_plans = [([b_pool[0]], 0, False), ([b_pool[1]], 0, False), ([b_pool[2]], 0, False), ([b_pool[4], b_pool[3]], 0, False),
               ([b_pool[5], b_pool[0]], 0, False), ([], 0, False),
               ([b_pool[6]], 1, False), ([b_pool[6]], 2, False), ([b_pool[0], b_pool[6]], 3, False),
               ([b_pool[4]], 0, True), ([b_pool[6]], 1, True), ([b_pool[6]], 2, True)]
    sub_bt = s.bt.clone("home")
    R.request_handlers.register(b"C31.open_urls", OpenUrls, "verif test verb")
    cases, lines, outs = [], [], []
    canon = lambda r: None if r is None else tuple(re.sub(rb"zz-new\d+", b"zz-new", x) if isinstance(x, bytes) else x for x in r)
    try:
        with _Sched(s) as sch:
            # what B's requests answer when B is alone (per backing transport)
            b_solo = {}
            for bl, kb, sub in b_plans:
                for r in bl:
                    if (r, sub) not in b_solo:
                        cb = sch.connect("B", sub_bt if sub else None)
                        b_solo[(r, sub)] = sch.call(cb, *r)
                        sch.close(cb)
            for name, mk in a_reqs:
                solo, _, log0, _, _ = sch.run(mk(), 0, [])
                n_opens = sum(1 for e in log0 if e[0] == "o")
                ks = list(range(1, n_opens + 1))
                if not thorough and len(ks) > 4:
                    ks = sorted(rng.sample(ks[:-1], 3) + [ks[-1]])
                runs = [(0, ([], 0, False), solo, [], log0, False, False)]
                for k in ks:
                    plans = b_plans if thorough else [b_plans[0]] + rng.sample(b_plans[1:6], 1) + rng.sample(b_plans[6:9], 1) + \
                        rng.sample(b_plans[9:], 1)
                    for plan in plans:
                        ra, rb, log, parked, parked_b = sch.run(mk(), k, plan[0], plan[1], sub_bt if plan[2] else None)
                        runs.append((k, plan, ra, rb, log, parked, parked_b))
                for k, (bl, kb, sub), ra, rb, log, parked, parked_b in runs:
                    sched = dict(A=name, park_A_before_open=k, B_requests=[v.decode() for v, _ in bl], park_B_last_before_open=kb,
                                 B_served_below="home/" if sub else "", A_parked=parked, B_parked=parked_b)
                    trace = [[e[0], e[1]] + ([e[2].replace(P, "P:").replace(w.W, "<W>"), e[3]] if e[0] == "o" else
                                             [[x.replace(P, "P:") for x in e[2]]] if e[0] == "s" else []) for e in log]
                    case = dict(op="jail-concurrent", cfg=s.kind, schedule=sched, trace=trace)
                    ctx.case(case, k > 0)
                    ctx.count("jail-concurrent:%s:%s" % (name, "crossed" if parked_b else "interleaved" if parked else "solo"))
                    ctx.count("jail-concurrent:opens-in-A:%d" % min(sum(1 for e in log if e[0] == "o" and e[1] == "A"), 9))
                    how = ("A parked before its open #%d; meanwhile connection B%s ran %s%s" % (
                        k, " (served below home/)" if sub else "", [v.decode() for v, _ in bl],
                        ", the last one parked before its open #%d until A had finished" % kb if parked_b else " to completion"))
                    # oracle 1: nothing outside the connection's jail root passes the hook during a request
                    roots = {"A": s.bt.base, "B": sub_bt.base if sub else s.bt.base}
                    for e in log:
                        if e[0] == "o" and e[3] and not e[2].startswith(roots[e[1]]):
                            ctx.violation(case, "two connections: while a request on connection %s was being served, the control "
                                          "directory %s OUTSIDE its jail (%s) passed the jail check and was opened (A = %s; schedule: %s)"
                                          % (e[1], e[2].replace(w.W, "<W>").replace(P, "P:"), roots[e[1]].replace(P, "P:"), name, how))
                            break
                    # oracle 2: a reply does not depend on what another connection does meanwhile
                    if canon(ra) != canon(solo):
                        ctx.violation(case, "two connections: the reply to request %s is %r, and %r when A is served alone (schedule: %s)"
                                      % (name, ra, solo, how))
                    for r, got in zip(bl, rb):
                        if canon(got) != canon(b_solo[(r, sub)]):
                            ctx.violation(case, "two connections: the reply to B's request %s is %r, and %r when B is served alone "
                                          "(A = %s; schedule: %s)" % (r[0].decode(), got, b_solo[(r, sub)], name, how))
                            break
                    ctx.traces += 1
                    cases.append(case)
                    lines.append("jtrace tl %s" % (_jtrace(log, {"A": 0, "B": 1}) or "-"))
                    outs.append(",".join("%d%s" % ({"A": 0, "B": 1}[e[1]], "T" if e[3] else "F") for e in log if e[0] == "o") or "-")
    finally:
        R.request_handlers.remove(b"C31.open_urls")
        for ww in (w,):
            put_back(ww, sorted(world_changes(ww)))
    ctx.diff(cases, lines, outs)


def run(ctx, n_exh=None, n_deep=None, n_verbs=None):
    from breezy.bzr.smart import vfs  # noqa
    rng = ctx.rng
    wa, wb = make_world("A"), make_world("B")
    sa = {k: make_server(wa, *k) for k in CONFIGS}
    sb = {k: make_server(wb, *k) for k in CONFIGS}
    # the model variant compared is always the fixed one (unescape first); a tree that has the as-found
    # variant again shows up as T2 mismatches and, through the oracle, as plain violations
    fx = True
    fxs = {k: probe_fx(sa[k]) for k in CONFIGS}
    if any(v is not True for v in fxs.values()):
        ctx.mismatch(dict(op="probe"), "VfsRequest.translate_client_path variants: %r" % ({str(k): v for k, v in fxs.items()},),
                     "unescape-first (fixed) everywhere")
    ufx = probe_userdir_fx()
    USERDIR_FX[0] = bool(ufx)
    if ufx is None:
        ctx.mismatch(dict(op="probe-userdirs"), "unrecognised _expand_userdirs variant", "as found, or unescape/expand/escape")
    ctx.extra["expand_userdirs_variant"] = {True: "unescape-expand-escape (proposed fix)", False: "as found (expander sees the escaped path, "
                                            "remainder not escaped)", None: "unrecognised"}[ufx]
    ctx.extra["vfs_translate_variant"] = ("unescape-first (fixed)" if all(v is True for v in fxs.values())
                                          else "NOT the fixed variant: %r" % (sorted(set(map(str, fxs.values()))),))
    n_exh = n_exh or ctx.pick(4, 5)       # translate functions only
    n_deep = n_deep or ctx.pick(3, 4)     # + clone + traced reads
    n_verbs = n_verbs or ctx.pick(2, 3)   # + every verb class in two worlds
    shallow = gen_exhaustive(n_exh)
    deep_set = set(gen_exhaustive(n_deep))
    verbs_set = gen_exhaustive(n_verbs)
    rnd = gen_random(rng, ctx.pick(700, 12000), 3, 8)
    rnd_verbs = rnd[: ctx.pick(12, 200)]
    bad = gen_malformed(rng, ctx.pick(150, 1000))
    ctx.extra["domain"] = dict(tokens=TOKENS, exhaustive_translate=n_exh, exhaustive_stack=n_deep,
                               exhaustive_verbs=n_verbs, random=len(rnd), malformed=len(bad), configs=CONFIGS)

    def pre_of(r):
        return b"/" + r.strip("/").encode() + b"/" if r.strip("/") else b""

    def prefixed(r, cps):
        # under a non-trivial root client path the paths are sent below the root
        pre = pre_of(r)
        return [pre + c for c in cps] if pre else cps

    import time
    tm = ctx.extra.setdefault("phase_s", {})
    t0 = time.time()
    only_shallow = [c for c in shallow if c not in deep_set]
    corpus = load_corpus()
    directed = gen_directed(encoded_traversals(SEEDS + sorted(deep_set)))
    ctx.extra["domain"].update(corpus=len(corpus), directed=len(directed))
    suspects = {k: [] for k in CONFIGS}
    for k in CONFIGS:
        # corpus first: pinned past failures, through the stack and through every verb class
        for cp in prefixed(k[0], corpus):
            verbs_case(ctx, sa[k], sb[k], cp, pre_of(k[0]))
        suspects[k] += t2_paths(ctx, sa[k], prefixed(k[0], corpus), fx)
    for k in CONFIGS:
        s, r = sa[k], k[0]
        # directed stream: every one through the translate functions and a traced read (canary oracle) ...
        suspects[k] += t2_paths(ctx, s, prefixed(r, directed), fx)
        t2_paths(ctx, s, prefixed(r, SEEDS), fx, all_rels=True)
        # all strings of <= n_exh tokens below the root client path (translate functions only) ...
        if k[1] != "plain":      # the translate functions do not depend on the backing stack
            t2_paths(ctx, s, prefixed(r, only_shallow), fx, deep=False)
        # ... all strings of <= n_deep tokens through the whole stack
        t2_paths(ctx, s, prefixed(r, sorted(deep_set)), fx)
        t2_paths(ctx, s, prefixed(r, rnd), fx)
        t2_paths(ctx, s, bad + prefixed(r, bad), fx)
        if r != "/":
            # the same strings NOT below the root client path (mostly PathNotChild)
            t2_paths(ctx, s, sorted(deep_set) + rnd[:300], fx)
            t2_paths(ctx, s, rng.sample(only_shallow, min(len(only_shallow), ctx.pick(1500, 20000))), fx, deep=False)
    ctx.exhaustive = True
    tm["paths"] = round(time.time() - t0, 1)
    t0 = time.time()
    t2_functions(ctx, SEEDS + shallow + rnd)
    t2_userdirs(ctx, list(sa.values()), [c for c in shallow if c.startswith(b"~")][: ctx.pick(1500, 20000)]
                + [c for c in rnd if c.startswith(b"~")] + [b"a/~", b"", b"~", b"~/", b"~user", b"~user/..", b"~/../.."])
    tm["functions"] = round(time.time() - t0, 1)
    t0 = time.time()
    for i, k in enumerate(CONFIGS):
        # ... a sample of the directed stream, and every path the implementation accepted although the
        # model rejects it, through every verb class in two worlds
        pre = b"/" + k[0].strip("/").encode() + b"/" if k[0].strip("/") else b""
        extra = rng.sample(directed, min(len(directed), ctx.pick(25, 400)))
        for cp in prefixed(k[0], extra):
            verbs_case(ctx, sa[k], sb[k], cp, pre_of(k[0]))
        for cp in suspects[k][: ctx.pick(25, 300)]:
            ctx.count("suspect:model-rejects-impl-accepts")
            verbs_case(ctx, sa[k], sb[k], cp, pre_of(k[0]))
    tm["directed-verbs"] = round(time.time() - t0, 1)
    t0 = time.time()
    for i, k in enumerate(CONFIGS):
        # every verb class: the whole <= n_verbs-token set on the first configuration, a sample on the others
        vs = verbs_set if (i == 0 or ctx.thorough()) else rng.sample(verbs_set, min(len(verbs_set), 12))
        for cp in prefixed(k[0], SEEDS + vs + rnd_verbs):
            verbs_case(ctx, sa[k], sb[k], cp, pre_of(k[0]))
    tm["verbs"] = round(time.time() - t0, 1)
    t0 = time.time()
    # EVERY entry of request.request_handlers that takes a client path (enumerated from the registry), the
    # hostile path in every client-path position, two worlds: a fixed hostile set + a sample
    plans = registry_plans()
    allverbs = sorted(plans["plans"])
    ctx.extra["registry"] = dict(verbs_with_client_path=len(allverbs), skipped=plans["skipped"],
                                 two_path_verbs=sorted(v.decode() for v, (_, i, _c) in plans["plans"].items() if len(i) > 1))
    for i, k in enumerate(CONFIGS):
        hostile = REGISTRY_PATHS if (i == 0 or ctx.thorough()) else REGISTRY_PATHS[:: 4]
        hostile = hostile + rng.sample(directed, ctx.pick(2, 40)) + (rnd[: ctx.pick(2, 60)] if i == 0 else [])
        for cp in prefixed(k[0], hostile):
            ctx.count("registry-sweep:paths")
            verbs_case(ctx, sa[k], sb[k], cp, pre_of(k[0]), verbs=allverbs)
    tm["registry"] = round(time.time() - t0, 1)
    socket_cases(ctx, sa[CONFIGS[3]], [b"%%32E%%32E/canary", b"..%2Fcanary"])
    socket_cases(ctx, sa[CONFIGS[0]], [b"a", b"inside", b"..%2Fcanary", b"%2E%2E/canary", b"a/..%2F..%2Fcanary", b"/a", b"\xc3\xa9/f",
                                b"~/f", b"%00"] + rnd[:20])
    t0 = time.time()
    jail_cases(ctx, sa[CONFIGS[0]], sb[CONFIGS[0]])
    jail_cases(ctx, sa[CONFIGS[3]], sb[CONFIGS[3]])
    jail_concurrency_cases(ctx, sa[CONFIGS[0]], rng, True)
    jail_concurrency_cases(ctx, sa[CONFIGS[3]], rng, True)
    jurls = gen_jail_urls(rng, ctx.pick(150, 3000))
    ctx.extra["domain"].update(jail_urls=len(jurls), jail_roots=JAIL_ROOTS)
    jail_url_cases(ctx, sa[CONFIGS[0]], jurls)
    jail_url_cases(ctx, sa[CONFIGS[3]], jurls)
    tm["jail"] = round(time.time() - t0, 1)
    t0 = time.time()
    userdir_home_cases(ctx, wa, wb, fx)
    tm["userdir-homes"] = round(time.time() - t0, 1)
    ctx.extra["change_detector"] = ctx_detector[0]


def replay(ctx, case):
    wa, wb = make_world("A"), make_world("B")
    rcp = case.get("rcp", "/")
    sa_, sb_ = make_server(wa, rcp, case.get("cfg")), make_server(wb, rcp, case.get("cfg"))
    fx = True
    USERDIR_FX[0] = bool(probe_userdir_fx())
    out = dict(case=case)
    if case.get("op") == "jail-url":
        jail_url_cases(ctx, sa_, [case["url"]])
    elif case.get("op") == "jail-concurrent":
        # the schedule family is deterministic: re-run all of it (every park point, every B list)
        jail_concurrency_cases(ctx, sa_, ctx.rng, thorough=True)
    elif case.get("op", "").startswith("jail"):
        jail_cases(ctx, sa_, sb_)
    else:
        cp = bytes.fromhex(case["cp"])
        t2_paths(ctx, sa_, [cp], fx)
        pre = b"/" + rcp.strip("/").encode() + b"/" if rcp.strip("/") else b""
        verbs_case(ctx, sa_, sb_, cp, pre, verbs=[case["verb"].encode()] if case.get("verb") else None)
        from breezy.bzr.smart import request as R, vfs
        out["impl"] = dict(tr=real_tr(sa_, R.SmartServerRequest, cp)[0], vfs=real_tr(sa_, vfs.HasRequest, cp)[0])
        out["model"] = ctx.model(["tr %s %s" % (hexb(rcp.encode()), hexb(cp)),
                                  "vfs %s %s %s" % ("T" if fx else "F", hexb(rcp.encode()), hexb(cp))])
    out["oracle_failures"] = [v["what"] for v in ctx.violations]
    out["mismatches"] = [m for m in ctx.mismatches if m][:5]
    return out
