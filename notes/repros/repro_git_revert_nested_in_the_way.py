"""git working tree: a committed directory tree c/a/a is removed from versioning but kept on disk (unversion / remove
--keep), so at revert time BOTH the directory and the file inside it are unversioned objects in the way.  With enough
other objects around (here: N extra unversioned files) the transform ids reach `new-10`, the string sort in
_duplicate_entries puts `new-10` before `new-4`, and resolve_duplicate renames the NEW (versioned) file to `a.moved`:
after revert `c/a/a.moved` is versioned, `c/a/a` is not, status is not empty.  With few objects the same sequence works.

Run: /venv/bin/python repro_git_revert_nested_in_the_way.py   (exit 1 = defect present)
"""
import os, sys, tempfile
REPO = os.environ.get("VERIF_REPO", "/repo")
sys.path.insert(0, REPO)
base = tempfile.mkdtemp(prefix="c09-repro-", dir="/var/tmp/imp-C09")
os.environ["HOME"] = base
os.environ["BRZ_HOME"] = base
os.environ["BRZ_EMAIL"] = "T <t@example.com>"
import breezy
breezy.initialize()
import breezy.bzr, breezy.git  # noqa
from breezy.controldir import ControlDir, format_registry


def run(n_extra):
    d = tempfile.mkdtemp(prefix="wt-", dir=base)
    wt = ControlDir.create_standalone_workingtree(d, format=format_registry.make_controldir("git"))
    os.makedirs(os.path.join(d, "c", "a"))
    open(os.path.join(d, "c", "a", "a"), "w").write("x")
    wt.add(["c/a/a"])
    wt.commit("one")
    wt.remove(["c"], keep_files=True)
    for k in range(n_extra):
        open(os.path.join(d, "c", "a", "extra%d" % k), "w").write("e%d" % k)
    wt.revert(backups=False)
    with wt.lock_read():
        paths = sorted(wt.all_versioned_paths())
        ch = [c.path for c in wt.iter_changes(wt.basis_tree())]
    print("extra files: %d  versioned: %r  status: %r" % (n_extra, paths, ch))
    return paths == ["", "c", "c/a", "c/a/a"] and not ch


res = [run(n) for n in (0, 2, 4, 6, 8)]
sys.exit(0 if all(res) else 1)
