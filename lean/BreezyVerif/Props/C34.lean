import BreezyVerif.Lemmas.C34
import BreezyVerif.Lemmas.C34RT
/-!
C34 — importing then exporting a git commit reproduces it.

`exp_imp_id_partial`: for EVERY codec environment (Python's codec registry and
the behaviour of all its codecs other than utf-8 / latin-1 / ascii are a
parameter `env : Env` about which only `PyEnv` — the names "utf-8" and "latin1"
mean what they say — is assumed) and EVERY commit record (any field values, any
number of parents / mergetags / extra headers, any `encoding` header, strict or
not) that `import_commit` accepts, that is `Canon` and whose header codec is
`CodecFaithful` on the commit's text (automatic for every alias of utf-8 /
latin-1 / ascii, `std_codec_faithful`; FALSE for codecs whose decode is not
injective — finding `encoding-noninjective-codec`,
`encoding_noninjective_codec_witness`), `export_commit` of the imported revision
is exactly the original record.  `Canon` excludes the three
input families on which the code does not round-trip (each has a `_witness`
theorem and is reproduced on the real code by the check): missing message,
person identifiers that are not a fixed point of `fix_person_identifier`,
extra-header values with an embedded newline (continuation lines) — plus three
well-formedness facts of parsed commits (40-byte parent
shas, non-empty gpgsig if present, only recognised extra headers).
Record level: dulwich's (de)serialisation and SHA-1 are external, so "equal
record" is what the model can say about "identical bytes".
-/
namespace BreezyVerif.C34

/-- the accepted-and-round-trippable domain -/
def Canon (c : Commit) : Bool :=
  c.message.isSome &&
  decide (fixPerson c.committer = some c.committer) &&
  decide (fixPerson c.author = some c.author) &&
  decide (firstAuthor c.author = c.author) &&
  decide (c.gpgsig ≠ some []) &&
  c.parents.all (fun p => p.length = 40) &&
  extraOK c.extra

theorem fixPerson_ne_nil {t : Bytes} (h : fixPerson t = some t) : t ≠ [] := by
  rintro rfl
  exact absurd h (by decide)

/-- **Round trip** (partial: on `Canon` commits with a `CodecFaithful` header
codec, see the `_witness` theorems). -/
theorem exp_imp_id_partial (env : Env) (fx strict : Bool) (id : Bytes) (c : Commit) (rev : Rev)
    (hwf : PyEnv env) (himp : importCommit env fx strict id c = .ok rev) (hcanon : Canon c = true)
    (hcodec : CodecFaithful env c = true) :
    exportCommit env rev c.tree = .ok c := by
  simp only [Canon, Bool.and_eq_true, decide_eq_true_eq, List.all_eq_true] at hcanon
  obtain ⟨⟨⟨⟨⟨⟨hmsg, hfc⟩, hfa⟩, hfirst⟩, hsig⟩, hpar⟩, hextra⟩ := hcanon
  unfold importCommit at himp
  cases hd : importDecode env fx strict c with
  | error e => simp [hd] at himp
  | ok p =>
    obtain ⟨⟨cm, au, msg⟩, impl⟩ := p
    simp only [hd] at himp
    cases hx : importExtra strict c.extra with
    | error e => simp [hx] at himp
    | ok q =>
      obtain ⟨ls, un⟩ := q
      simp only [hx] at himp
      obtain ⟨hls, hun⟩ := importExtra_ok strict c.extra ls un hextra hx
      subst hun
      simp only [ne_eq, not_true_eq_false, false_and, if_false, Except.ok.injEq] at himp
      obtain ⟨hdu, hname⟩ := importDecode_ok hwf hd
      obtain ⟨hcm, hau, hms⟩ := decodeUsing_ok hdu
      have hne : c.author ≠ [] := fixPerson_ne_nil hfa
      -- the codec export will use re-encodes what import decoded
      have hfaith : Faith env (encName c.encoding impl) c := by
        rcases hname with hstd | ⟨e, he, hf, hn⟩
        · exact faith_of_std hstd hne hfirst
        · rw [hn]; exact faith_of_codecFaithful he hf hcodec
      obtain ⟨m, hm⟩ := Option.isSome_iff_exists.mp hmsg
      obtain ⟨sm, rfl, hdm⟩ : ∃ s, msg = some s ∧ decodeName env (encName c.encoding impl) m = .ok s := by
        rcases hms with ⟨_, h0⟩ | ⟨m', s, h1, h2, h3⟩
        · rw [hm] at h0; cases h0
        · rw [hm] at h1; cases h1; exact ⟨s, h2, h3⟩
      subst himp
      have hparents := exportParents_map c.parents (fun p hp => by simpa using hpar p hp)
      have hcomm : exportIdent env (encName c.encoding impl) cm = .ok c.committer := by
        simp [exportIdent, hfaith.committer cm hcm, hfc]
      have hauth : ∀ (rev : Rev), rev.committer = cm → rev.props.author = au →
          exportAuthor env (encName c.encoding impl) rev = .ok c.author := by
        intro rev h1 h2
        unfold exportAuthor
        rw [h1, h2]
        rcases hau with ⟨rfl, hca⟩ | ⟨sa, rfl, _, hda⟩
        · rw [hca] at hcm
          obtain ⟨f1, f2, f3⟩ := hfaith.author cm hcm
          simp [f1, f2, exportIdent, f3, hfa]
        · obtain ⟨f1, f2, f3⟩ := hfaith.author sa hda
          simp [f1, f2, exportIdent, f3, hfa]
      have hgpg : exportGpgsig (importGpgsig c.gpgsig) = .ok c.gpgsig := by
        cases hg : c.gpgsig with
        | none => rfl
        | some g =>
          have : g ≠ [] := fun e => hsig (by rw [hg, e])
          simp [this, importGpgsig, exportGpgsig, encode, Except.map]
      have hextra' : exportGitExtra (importGitExtra ls) = .ok c.extra := by
        unfold importGitExtra
        by_cases hnil : c.extra = []
        · simp [hls, hnil, exportGitExtra]
        · have : ls ≠ [] := by rw [hls]; simpa using hnil
          simp only [this, ne_eq, not_false_eq_true, if_true, exportGitExtra, encode]
          rw [hls]
          exact extra_roundtrip c.extra hextra
      have hmsg' : encodeName env (encName c.encoding impl) sm = .ok m := hfaith.message m sm hm hdm
      unfold exportCommit
      simp only [importProps, hparents, hcomm, hgpg, hextra', hmsg', Option.isNone_some,
        mapM_encode_se]
      rw [hauth _ rfl rfl]
      simp only [Bool.false_eq_true, if_false, Except.ok.injEq]
      cases c
      simp_all
      constructor <;> split <;> simp_all

/-- every alias of utf-8 / latin-1 / ascii is faithful on every `Canon` commit: for
those the round trip needs no codec hypothesis (this is what makes `UTF_8`, `l1`,
`cp819`, `u8` … work) -/
theorem std_codec_faithful (env : Env) (c : Commit) (e : Bytes) (he : c.encoding = some e)
    (hstd : isStd (env.lookup e) = true) (hcanon : Canon c = true) : CodecFaithful env c = true := by
  simp only [Canon, Bool.and_eq_true, decide_eq_true_eq, List.all_eq_true] at hcanon
  obtain ⟨⟨⟨⟨⟨⟨_, _⟩, hfa⟩, hfirst⟩, _⟩, _⟩, _⟩ := hcanon
  have hf := faith_of_std (env := env) (name := e) (c := c) hstd (fixPerson_ne_nil hfa) hfirst
  have h1 : faithful env e c.committer = true := by
    unfold faithful reenc; split
    · rename_i s hd; simpa using hf.committer s hd
    · rfl
  have h2 : faithfulAuthor env e c.author = true := by
    unfold faithfulAuthor; split
    · rename_i s hd
      obtain ⟨a, b, d⟩ := hf.author s hd
      simp [a, b, d]
    · rfl
  unfold CodecFaithful
  simp only [he]
  by_cases hfl : e = bs "false"
  · simp [hfl]
  · simp only [hfl, if_false, h1, h2, Bool.and_self, Bool.true_and]
    cases hm : c.message with
    | none => rfl
    | some m =>
      show faithful env e m = true
      unfold faithful reenc; split
      · rename_i s hd; simpa using hf.message m s hm hd
      · rfl

/-- the round trip for commits without an `encoding` header, with `encoding false`,
or with any name the registry resolves to utf-8 / latin-1 / ascii -/
theorem exp_imp_id_std_partial (env : Env) (fx strict : Bool) (id : Bytes) (c : Commit) (rev : Rev)
    (hwf : PyEnv env) (himp : importCommit env fx strict id c = .ok rev) (hcanon : Canon c = true)
    (hstd : ∀ e, c.encoding = some e → e = bs "false" ∨ isStd (env.lookup e) = true) :
    exportCommit env rev c.tree = .ok c := by
  refine exp_imp_id_partial env fx strict id c rev hwf himp hcanon ?_
  cases he : c.encoding with
  | none => simp [CodecFaithful, he]
  | some e =>
    rcases hstd e he with hf | hs
    · simp [CodecFaithful, he, hf]
    · exact std_codec_faithful env c e he hs hcanon

/-- what a re-encode check of the bytes cannot see: the decoded author str is
non-empty and is not cut by the `"," … ">"` hack of `export_commit` (for the
standard codecs this is part of `Canon`) -/
def AuthorStrCanon (env : Env) (c : Commit) : Bool :=
  match c.encoding with
  | some e =>
    if e = bs "false" then true
    else match decodeName env e c.author with
      | .ok s => decide (s.bytes ≠ []) && decide (firstAuthor s.bytes = s.bytes)
      | .error _ => true
  | none => true

/-- **Variant with the proposed fix** (`fx = true`: strict import refuses a header
codec that does not reproduce the text): every commit a strict import accepts has
a `CodecFaithful` header codec, up to the author-str condition -/
theorem fixed_strict_codec_faithful (env : Env) (id : Bytes) (c : Commit) (rev : Rev)
    (himp : importCommit env true true id c = .ok rev) (ha : AuthorStrCanon env c = true) :
    CodecFaithful env c = true := by
  unfold importCommit at himp
  cases hd : importDecode env true true c with
  | error e => simp [hd] at himp
  | ok p =>
    unfold importDecode at hd
    unfold CodecFaithful
    unfold AuthorStrCanon at ha
    cases he : c.encoding with
    | none => rfl
    | some e =>
      simp only [he] at hd ha ⊢
      by_cases hf : e = bs "false"
      · simp [hf]
      · simp only [hf, if_false] at ha ⊢
        by_cases hasc : isAscii e = true
        · simp only [hasc, Bool.not_true, Bool.false_eq_true, if_false, ne_eq, hf, not_false_eq_true,
            if_true] at hd
          cases hdu : decodeUsing env e c with
          | error x => simp [hdu] at hd
          | ok d =>
            simp only [hdu, Bool.and_self, Bool.true_and] at hd
            by_cases hr : reencodes env e c = true
            · unfold reencodes at hr
              simp only [Bool.and_eq_true] at hr
              obtain ⟨⟨h1, h2⟩, h3⟩ := hr
              have hA : faithfulAuthor env e c.author = true := by
                unfold faithfulAuthor
                unfold reenc at h2
                cases hda : decodeName env e c.author with
                | error x => rfl
                | ok s =>
                  simp only [hda] at h2 ha ⊢
                  simp only [Bool.and_eq_true] at ha ⊢
                  exact ⟨ha, h2⟩
              simp only [faithful, h1, hA, Bool.and_self, Bool.true_and]
              exact h3
            · simp [hr] at hd
        · simp [hasc] at hd

/-- the round trip in the variant with the fix, strict mode: no codec hypothesis -/
theorem exp_imp_id_fixed_strict_partial (env : Env) (id : Bytes) (c : Commit) (rev : Rev)
    (hwf : PyEnv env) (himp : importCommit env true true id c = .ok rev) (hcanon : Canon c = true)
    (ha : AuthorStrCanon env c = true) :
    exportCommit env rev c.tree = .ok c :=
  exp_imp_id_partial env true true id c rev hwf himp hcanon
    (fixed_strict_codec_faithful env id c rev himp ha)

/-- the revision id depends on the sha only -/
theorem revid_stable (env : Env) (fx strict : Bool) (id : Bytes) (c : Commit) (rev : Rev)
    (himp : importCommit env fx strict id c = .ok rev) : rev.revisionId = bs "git-v1:" ++ id := by
  unfold importCommit at himp
  split at himp
  · simp at himp
  · split at himp
    · simp at himp
    · split at himp
      · simp at himp
      · simp only [Except.ok.injEq] at himp
        subst himp
        rfl

theorem revid_independent (env env' : Env) (fx fx' s s' : Bool) (id : Bytes) (c c' : Commit) (rev rev' : Rev)
    (h : importCommit env fx s id c = .ok rev) (h' : importCommit env' fx' s' id c' = .ok rev') :
    rev.revisionId = rev'.revisionId := by
  rw [revid_stable env fx s id c rev h, revid_stable env' fx' s' id c' rev' h']

/-- strict import refuses a commit with an extra header it does not know -/
theorem imp_rejects_unknown_extra (env : Env) (fx : Bool) (id : Bytes) (c : Commit) (k v : Bytes)
    (hk : k ≠ bs "HG:rename-source" ∧ k ≠ bs "HG:extra") (hmem : (k, v) ∈ c.extra) :
    ∀ rev, importCommit env fx true id c ≠ .ok rev := by
  intro rev h
  unfold importCommit at h
  split at h
  · simp at h
  · split at h
    · simp at h
    · rename_i ls un hx
      have := importExtra_unknown true k v hk c.extra ls un hmem hx
      simp [this] at h

/-- strict import refuses an `HG:extra` header whose key is not in the known list
(when nothing earlier in the commit is refused first, the error is this one) -/
theorem imp_rejects_unknown_hg_extra (strict : Bool) (rest : List (Bytes × Bytes)) (hgk v : Bytes)
    (hb : beforeColon v = some hgk) (hk : hgk ∉ hgExtraKeys) :
    importExtra true ((bs "HG:extra", v) :: rest) = .error .unknownHgExtra ∧
    (strict = false → ∀ ls un, importExtra false rest = .ok (ls, un) →
      importExtra false ((bs "HG:extra", v) :: rest) = .ok ((bs "HG:extra" ++ [32] ++ v ++ [10]) :: ls, un)) := by
  have hne : bs "HG:extra" ≠ bs "HG:rename-source" := by decide
  constructor
  · unfold importExtra; simp [hne, hb, hk]
  · intro _ ls un hr
    unfold importExtra; simp [hne, hb, hr, bind, Except.bind, pure, Except.pure]

/-! ### the excluded families are real failures (findings) -/

/-- import followed by export -/
def roundTripE (env : Env) (fx strict : Bool) (id : Bytes) (c : Commit) : Except Err (Except Err Commit) :=
  match importCommit env fx strict id c with
  | .error e => .error e
  | .ok rev => .ok (exportCommit env rev c.tree)

def bom : Bytes := [0xef, 0xbb, 0xbf]

/-- a concrete registry for the witnesses: the usual spellings of utf-8 / latin-1 /
ascii plus two aliases, `utf-8-sig` (on decode a leading BOM is dropped, on encode
one is prepended — what the real codec does on ASCII text), `x-rev` (an
artificial bijective codec: the str is the reversed input) and nothing else -/
def envW : Env where
  lookup := fun n =>
    if n = bs "utf-8" ∨ n = bs "UTF-8" ∨ n = bs "utf8" ∨ n = bs "UTF_8" then .utf8
    else if n = bs "latin1" ∨ n = bs "latin-1" ∨ n = bs "iso-8859-1" ∨ n = bs "l1" then .latin1
    else if n = bs "ascii" ∨ n = bs "us-ascii" then .ascii
    else if n = bs "utf-8-sig" ∨ n = bs "x-rev" then .ext
    else if n = bs "utf\x00" then .bad
    else .unknown
  dec := fun n b =>
    if n = bs "utf-8-sig" then .ok (if bom.isPrefixOf b then b.drop 3 else b)
    else if n = bs "x-rev" then .ok b.reverse
    else .error .envMiss
  enc := fun n r =>
    if n = bs "utf-8-sig" then .ok (bom ++ r)
    else if n = bs "x-rev" then .ok r.reverse
    else .error .envMiss

example : PyEnv envW := by decide

def roundTrip (strict : Bool) (id : Bytes) (c : Commit) : Except Err (Except Err Commit) :=
  roundTripE envW false strict id c

def wCommit : Commit :=
  { tree := bs "tree", parents := [List.replicate 40 97],
    author := bs "A <a@x>", authorTime := 10, authorTz := 3600, authorNegUtc := false,
    committer := bs "C <c@x>", commitTime := 12, commitTz := 0, commitNegUtc := true,
    encoding := some (bs "latin1"), mergetags := [bs "object x\n"],
    extra := [(bs "HG:rename-source", bs "a b"), (bs "HG:extra", bs "source:abc")],
    gpgsig := some (bs "sig"), message := some (bs "msg\n") }

/-- non-vacuity: a commit with an encoding header, distinct author, times, zones,
`-0000`, a mergetag, two extra headers and a signature is `Canon`, accepted, and
round-trips -/
theorem canon_example_ok : Canon wCommit = true ∧
    roundTrip true (bs "1234") wCommit = .ok (.ok wCommit) := by
  decide +kernel

/-- finding `missing-message`: accepted by import, export raises (AttributeError) -/
theorem missing_message_witness :
    roundTrip true (bs "1234") { wCommit with message := none } = .ok (.error .attr) := by
  decide +kernel

/-- finding `person-ident-noncanonical`: `A<a@x>` comes back as `A <a@x>`, and an
identifier ending in `>` without `<` is accepted by import but export raises -/
theorem person_ident_witness :
    roundTrip true (bs "1234") { wCommit with author := bs "A<a@x>" } =
      .ok (.ok { wCommit with author := bs "A <a@x>" }) ∧
    roundTrip true (bs "1234") { wCommit with author := bs "foo>" } = .ok (.error .value) := by
  decide +kernel

/-- finding `git-extra-embedded-newline`: a continuation line in an
`HG:rename-source` value is accepted by import; export raises (ValueError in
`l.split(" ", 1)`) or, when the continuation contains a space, invents a header -/
theorem git_extra_embedded_newline_witness :
    roundTrip true (bs "1234") { wCommit with extra := [(bs "HG:rename-source", [97, 10, 98])] } =
      .ok (.error .value) ∧
    roundTrip true (bs "1234") { wCommit with extra := [(bs "HG:rename-source", [97, 10, 98, 32, 99])] } =
      .ok (.ok { wCommit with extra := [(bs "HG:rename-source", [97]), ([98], [99])] }) := by
  decide +kernel

/-- (fixed in b3a449a) the other `str.splitlines()` boundaries — form feed, CR,
U+2028 … — in an extra-header value now round-trip -/
theorem git_extra_formfeed_roundtrips :
    roundTrip true (bs "1234")
        { wCommit with extra := [(bs "HG:rename-source", [97, 12, 98, 13, 0xe2, 0x80, 0xa8])] } =
      .ok (.ok { wCommit with extra := [(bs "HG:rename-source", [97, 12, 98, 13, 0xe2, 0x80, 0xa8])] }) := by
  decide +kernel

/-- finding `encoding-noninjective-codec`: with `encoding utf-8-sig` the commit is
accepted and comes back with a BOM in front of author, committer and message
(also when the message is empty); an alias of a standard codec (`UTF_8`, `l1`)
and a bijective environment codec round-trip -/
theorem encoding_noninjective_codec_witness :
    roundTrip true (bs "1234") { wCommit with encoding := some (bs "utf-8-sig") } =
      .ok (.ok { wCommit with encoding := some (bs "utf-8-sig"), author := bom ++ bs "A <a@x>",
                              committer := bom ++ bs "C <c@x>", message := some (bom ++ bs "msg\n") }) ∧
    CodecFaithful envW { wCommit with encoding := some (bs "utf-8-sig") } = false ∧
    roundTrip true (bs "1234") { wCommit with encoding := some (bs "utf-8-sig"), message := some [] } =
      .ok (.ok { wCommit with encoding := some (bs "utf-8-sig"), author := bom ++ bs "A <a@x>",
                              committer := bom ++ bs "C <c@x>", message := some bom }) ∧
    roundTrip true (bs "1234") { wCommit with encoding := some (bs "l1") } =
      .ok (.ok { wCommit with encoding := some (bs "l1") }) ∧
    roundTrip true (bs "1234") { wCommit with encoding := some (bs "x-rev") } =
      .ok (.ok { wCommit with encoding := some (bs "x-rev") }) := by
  decide +kernel

/-- in the variant with the fix the `utf-8-sig` commit is refused by a strict import
and a bijective codec is still accepted -/
theorem fixed_variant_refuses_witness :
    importCommit envW true true (bs "1234") { wCommit with encoding := some (bs "utf-8-sig") } =
      .error .irreversible ∧
    isOk (importCommit envW true true (bs "1234") { wCommit with encoding := some (bs "x-rev") }) = true ∧
    AuthorStrCanon envW { wCommit with encoding := some (bs "x-rev") } = true := by
  decide +kernel

/-- non-vacuity of `exp_imp_id_partial` for an environment codec: all hypotheses
hold for `x-rev` (and `canon_example_ok` for latin1) -/
example : PyEnv envW ∧ Canon { wCommit with encoding := some (bs "x-rev") } = true ∧
    CodecFaithful envW { wCommit with encoding := some (bs "x-rev") } = true ∧
    (∃ rev, importCommit envW true true (bs "1234") { wCommit with encoding := some (bs "x-rev") } = .ok rev) := by
  exact ⟨by decide, by decide +kernel, by decide +kernel, exists_of_isOk (by decide +kernel)⟩

/-- an unknown codec name: import refuses (`UnknownCommitEncoding`); a name with an
embedded NUL: `ValueError` -/
theorem unknown_encoding_rejected :
    roundTrip true (bs "1234") { wCommit with encoding := some (bs "klingon") } = .error .unknownEncoding ∧
    roundTrip true (bs "1234") { wCommit with encoding := some (bs "utf\x00") } = .error .value := by
  decide +kernel

theorem decodeName_latin1_ok (env : Env) (hwf : PyEnv env) (b : Bytes) :
    decodeName env (bs "latin1") b = .ok ⟨.latin1, b⟩ := by
  unfold decodeName; rw [hwf.2]; simp [decode, decodable]

theorem decodeUsing_latin1_ok (env : Env) (hwf : PyEnv env) (c : Commit) :
    ∃ d, decodeUsing env (bs "latin1") c = .ok d := by
  unfold decodeUsing
  simp only [decodeName_latin1_ok env hwf]
  by_cases h : c.committer = c.author
  · simp only [h, ne_eq, not_true_eq_false, if_false]
    cases c.message <;> exact ⟨_, rfl⟩
  · simp only [h, ne_eq, not_false_eq_true, if_true, Except.map]
    cases c.message <;> exact ⟨_, rfl⟩

theorem decodeUsing_utf8_err (env : Env) (hwf : PyEnv env) (c : Commit) (e : Err)
    (h : decodeUsing env (bs "utf-8") c = .error e) : e = .unicodeDecode := by
  have hdn : ∀ b x, decodeName env (bs "utf-8") b = .error x → x = .unicodeDecode := by
    intro b x hx
    simp only [decodeName, hwf.1, decode] at hx
    split at hx
    · cases hx
    · cases hx; rfl
  unfold decodeUsing at h
  cases hc : decodeName env (bs "utf-8") c.committer with
  | error x =>
    simp only [hc, Except.error.injEq] at h
    rw [hdn _ _ hc] at h; exact h.symm
  | ok cm =>
    simp only [hc] at h
    by_cases hca : c.committer = c.author
    · simp only [hca, ne_eq, not_true_eq_false, if_false] at h
      cases hm : c.message with
      | none => simp [hm] at h
      | some m =>
        simp only [hm] at h
        cases hd : decodeName env (bs "utf-8") m with
        | error x => simp only [hd, Except.error.injEq] at h; rw [← h]; exact hdn _ _ hd
        | ok s => simp [hd] at h
    · simp only [hca, ne_eq, not_false_eq_true, if_true] at h
      cases ha : decodeName env (bs "utf-8") c.author with
      | error x =>
        simp only [ha, Except.map, Except.error.injEq] at h
        rw [hdn _ _ ha] at h; exact h.symm
      | ok sa =>
        simp only [ha, Except.map] at h
        cases hm : c.message with
        | none => simp [hm] at h
        | some m =>
          simp only [hm] at h
          cases hd : decodeName env (bs "utf-8") m with
          | error x => simp only [hd, Except.error.injEq] at h; rw [← h]; exact hdn _ _ hd
          | ok s => simp [hd] at h

/-- (fixed in b3a449a) EVERY `Canon` commit with `encoding false` whose extra
headers import accepts is accepted — the utf-8/latin-1 fallback cannot fail — and
round-trips, in every environment -/
theorem encoding_false_roundtrips (env : Env) (hwf : PyEnv env) (fx strict : Bool) (id : Bytes) (c : Commit)
    (he : c.encoding = some (bs "false")) (hx : ∃ p, importExtra strict c.extra = .ok p)
    (hcanon : Canon c = true) :
    ∃ rev, importCommit env fx strict id c = .ok rev ∧ exportCommit env rev c.tree = .ok c := by
  have hd : ∃ d, importDecode env fx strict c = .ok d := by
    unfold importDecode decodeFallback
    rw [he]
    have : isAscii (bs "false") = true := by decide
    simp only [this, Bool.not_true, Bool.false_eq_true, if_false, ne_eq, not_true_eq_false]
    cases h8 : decodeUsing env (bs "utf-8") c with
    | ok d => exact ⟨_, rfl⟩
    | error e =>
      obtain ⟨d, hl⟩ := decodeUsing_latin1_ok env hwf c
      have := decodeUsing_utf8_err env hwf c e h8
      subst this
      exact ⟨(d, some (bs "latin1")), by simp [hl, Except.map]⟩
  obtain ⟨⟨⟨cm, au, msg⟩, impl⟩, hd⟩ := hd
  obtain ⟨⟨ls, un⟩, hxx⟩ := hx
  have hok : extraOK c.extra = true := by
    simp only [Canon, Bool.and_eq_true] at hcanon; exact hcanon.2
  obtain ⟨_, hun⟩ := importExtra_ok strict c.extra ls un hok hxx
  cases hi : importCommit env fx strict id c with
  | ok rev =>
    exact ⟨rev, rfl, exp_imp_id_std_partial env fx strict id c rev hwf hi hcanon
      (fun e h => Or.inl (by rw [he] at h; cases h; rfl))⟩
  | error e =>
    unfold importCommit at hi
    simp only [hd, hxx, hun] at hi
    simp at hi

/-- non-vacuity of `encoding_false_roundtrips` (with extra headers) -/
example : Canon { wCommit with encoding := some (bs "false") } = true ∧
    (∃ p, importExtra true wCommit.extra = .ok p) := by
  exact ⟨by decide +kernel, exists_of_isOk (by decide +kernel)⟩

/-- **`get_revision_id` agrees with import**: for every commit `import_commit`
accepts, `get_revision_id` does not raise and returns the id of the imported
revision (so `revision id derived from a commit` is one value, `git-v1:`+sha) -/
theorem get_revision_id_agrees (env : Env) (hwf : PyEnv env) (fx strict : Bool) (id : Bytes) (c : Commit)
    (rev : Rev) (himp : importCommit env fx strict id c = .ok rev) :
    getRevisionId env id c = .ok rev.revisionId ∧ rev.revisionId = bs "git-v1:" ++ id := by
  have hrid := revid_stable env fx strict id c rev himp
  refine ⟨?_, hrid⟩
  rw [hrid]
  have hfb : bs "git-v1:" ++ id = foreignToBzr id := rfl
  rw [hfb]
  have hu8 : ∀ m, revidOfDecode id (decodeName env (bs "utf-8") m) = .ok (foreignToBzr id) := by
    intro m
    simp only [decodeName, hwf.1, decode]
    by_cases hdc : decodable .utf8 m = true <;> simp [hdc, revidOfDecode]
  unfold importCommit at himp
  cases hd : importDecode env fx strict c with
  | error e => simp [hd] at himp
  | ok p =>
    obtain ⟨⟨cm, au, msg⟩, impl⟩ := p
    unfold getRevisionId revidEncName
    unfold importDecode at hd
    cases he : c.encoding with
    | none =>
      cases hm : c.message with
      | none => rfl
      | some m => exact hu8 m
    | some e =>
      simp only [he] at hd
      by_cases hasc : isAscii e = true
      · by_cases hf : e = bs "false"
        · simp only [hf, ne_eq, not_true_eq_false, and_false, if_false]
          cases hm : c.message with
          | none => rfl
          | some m => exact hu8 m
        · by_cases hnil : e = []
          · simp only [hnil, ne_eq, not_true_eq_false, false_and, if_false]
            cases hm : c.message with
            | none => rfl
            | some m => exact hu8 m
          · simp only [hasc, Bool.not_true, Bool.false_eq_true, if_false, ne_eq, hf,
              not_false_eq_true, if_true] at hd
            simp only [ne_eq, hnil, not_false_eq_true, hf, and_self, if_true, hasc]
            cases hdu : decodeUsing env e c with
            | error x => simp [hdu] at hd
            | ok d =>
              obtain ⟨cm', au', msg'⟩ := d
              obtain ⟨_, _, hms⟩ := decodeUsing_ok hdu
              rcases hms with ⟨_, h0⟩ | ⟨m, s, h1, _, h3⟩
              · simp only [h0]
              · simp only [h1, h3, revidOfDecode]
      · simp [hasc] at hd

/-- **Canonical identifiers are fixed points.**  `name <email>` with no `<` in the
name and no `<`/`>` in the email is returned unchanged (the name may contain `>`). -/
theorem fixPerson_canonical (name email : Bytes) (hn : 60 ∉ name) (he : 60 ∉ email)
    (he' : 62 ∉ email) :
    fixPerson (name ++ bs " <" ++ email ++ bs ">") = some (name ++ bs " <" ++ email ++ bs ">") := by
  have hb1 : bs " <" = [32, 60] := by decide
  have hb2 : bs ">" = [62] := by decide
  rw [hb1, hb2]
  generalize ht' : name ++ [32, 60] ++ email ++ [62] = t
  have ht : t = name ++ [32, 60] ++ email ++ [62] := ht'.symm
  have m62 : (62 : UInt8) ∈ t := by simp [ht]
  have m60 : (60 : UInt8) ∈ t := by simp [ht]
  have hg : ridx 62 t = some (t.length - 1) := by
    unfold ridx
    have : t.reverse = 62 :: (name ++ [32, 60] ++ email).reverse := by simp [ht]
    rw [this]; simp [idx]
  obtain ⟨i, hi, hil⟩ := idx_some_of_mem 60 t.reverse (by simpa using m60)
  have hl : ridx 60 t = some (t.length - 1 - i) := by unfold ridx; simp [hi]
  have hsplit : lastTwoOfSplit2 t = some (name ++ [32], email ++ [62]) := by
    unfold lastTwoOfSplit2
    have h1 : t = (name ++ [32]) ++ 60 :: (email ++ [62]) := by simp [ht]
    have hn' : (60 : UInt8) ∉ name ++ [32] := by simp [hn]
    have he2 : (60 : UInt8) ∉ email ++ [62] := by simp [he]
    rw [h1, split1_nosep 60 _ _ hn']
    simp [split1_none 60 _ he2]
  unfold fixPerson
  have c1 : ¬ ((60 : UInt8) ∉ t ∧ (62 : UInt8) ∉ t) := fun h => h.1 m60
  have c2 : ¬ ((62 : UInt8) ∉ t) := fun h => h m62
  rw [if_neg c1, if_neg c2]
  simp only [hg, hl, hsplit]
  have : ¬ (t.length - 1 < t.length - 1 - i) := by omega
  rw [if_neg this]
  have hemail : (email ++ [62]).takeWhile (· ≠ 62) = email := takeWhile_append_sep 62 email [] he'
  simp only [ne_eq, decide_not] at hemail
  simp [hemail, ht, hb1, hb2]

example : fixPerson (bs "A b <a@x>") = some (bs "A b <a@x>") := by decide
example : fixPerson (bs " <>") = some (bs " <>") := by decide

/-! ### roundtrip.py: the `--BZR--` metadata block

(not reachable from the v1 mapping in lossy mode — `export_commit` only injects
when `not lossy`, and the only mapping with `experimental = True` has
`roundtripping = False` — but named by the property's anchors) -/

/-- `parse_roundtripping_metadata(generate_roundtripping_metadata(s)) == s` for every
well-formed supplement `s` (any number of properties with arbitrary — multi-line,
empty — values, any ids without whitespace) -/
theorem parse_generate (s : Supp) (h : WF s = true) : parseMeta (generate s) = some s :=
  parse_generate_wf s h

/-- `extract_bzr_metadata(inject_bzr_metadata(m, s)) == (m, s)` for every message
`m` in which the marker does not occur before the appended block and every
well-formed `s`; with an empty `s` nothing is appended and `(m, None)` comes back -/
theorem extract_inject (m : Bytes) (s : Supp) (hwf : WF s = true) :
    (generate s ≠ [] → noEarlyMarker m (generate s) = true →
      extractMeta (injectMeta m (some s)) = some (m, some s)) ∧
    (generate s = [] → noMarkerIn m = true → extractMeta (injectMeta m (some s)) = some (m, none)) :=
  extract_inject_wf m s hwf

def exSupp : Supp :=
  { revisionId := some (bs "joe@example.com-2009-rev1"), parentIds := some [bs "p1", bs "ghost-2"],
    props := [(bs "branch-nick", bs "trunk"), (bs "bugs", bs "http://b/1 fixed\n\nhttp://b/2 fixed\n")],
    testament := some (bs "0123abcd") }

/-- non-vacuity of `parse_generate` / `extract_inject`: a supplement with every
kind of line, a three-line property value ending in a newline, and a message
containing `--BZR--` but not the marker -/
example : WF exSupp = true ∧ generate exSupp ≠ [] ∧
    noEarlyMarker (bs "fix\n--BZR--x\n") (generate exSupp) = true ∧
    WF emptySupp = true ∧ generate emptySupp = [] ∧ noMarkerIn (bs "fix\n--BZR--x\n") = true := by
  decide +kernel

/-- the hypotheses are needed: a message that already contains the marker is cut
there; a property name with `:` and an id with an inner space come back different
(these are preconditions of the API, not reachable from `import_commit`) -/
theorem roundtrip_metadata_precondition_witness :
    extractMeta (injectMeta (bs "a\n--BZR--\nrevision-id: evil\n") (some emptySupp)) =
      some (bs "a", some { emptySupp with revisionId := some (bs "evil") }) ∧
    parseMeta (generate { emptySupp with props := [(bs "a:b", bs "v")] }) =
      some { emptySupp with props := [(bs "a", bs ": v")] } ∧
    parseMeta (generate { emptySupp with parentIds := some [bs "a b"] }) =
      some { emptySupp with parentIds := some [bs "a", bs "b"] } := by
  decide +kernel

end BreezyVerif.C34
