import BreezyVerif.Model.C47
/-! C47 helper lemmas: the f64 layer of `format_highres_date` (IEEE rounding of
the fraction, `{:.9}` rounding, the carry case). -/
namespace BreezyVerif.C47

theorem shiftFor_le (f n : Nat) : shiftFor f n ≤ f := by
  induction f generalizing n with
  | zero => simp [shiftFor]
  | succ f ih =>
    unfold shiftFor
    split
    · omega
    · have := ih (n / 2); omega

/-- below 2^53 nothing is rounded -/
theorem roundF64_small (k n : Nat) (h : n < 2 ^ 53) : roundF64 k n = n := by
  have : shiftFor k n = 0 := by
    cases k with
    | zero => rfl
    | succ k => simp [shiftFor, h]
  simp [roundF64, this]

/-- rounding a fraction below 1 never exceeds 1 -/
theorem roundF64_le (k n : Nat) (h : n < 2 ^ k) : roundF64 k n ≤ 2 ^ k := by
  unfold roundF64
  simp only []
  have hsh := shiftFor_le k n
  generalize shiftFor k n = sh at *
  split
  · omega
  · have hpow : 2 ^ k = 2 ^ (k - sh) * 2 ^ sh := by
      rw [← Nat.pow_add]; congr 1; omega
    have hq : n / 2 ^ sh < 2 ^ (k - sh) := by
      apply Nat.div_lt_of_lt_mul
      rw [Nat.mul_comm, ← hpow]; exact h
    rw [hpow]
    apply Nat.mul_le_mul_right
    split <;> omega

theorem round9_le (k n : Nat) (h : n ≤ 2 ^ k) : round9 k n ≤ 1000000000 := by
  unfold round9
  simp only []
  have hD : 0 < 2 ^ k := Nat.pos_of_ne_zero (by simp)
  have hdm := Nat.div_add_mod (n * 1000000000) (2 ^ k)
  have hr := Nat.mod_lt (n * 1000000000) hD
  have hs : n * 1000000000 ≤ 1000000000 * 2 ^ k := by
    rw [Nat.mul_comm 1000000000]; exact Nat.mul_le_mul_right _ h
  generalize n * 1000000000 / 2 ^ k = q at *
  generalize n * 1000000000 % 2 ^ k = r at *
  generalize hse : n * 1000000000 = s at *
  generalize 2 ^ k = D at *
  rw [Nat.mul_comm 1000000000 D] at hs
  split
  · -- rounded up: r > 0, hence D*q < D*10^9
    rename_i hc
    have hr0 : 0 < r := by omega
    have : D * q < D * 1000000000 := by omega
    have := Nat.lt_of_mul_lt_mul_left this
    omega
  · have : D * q ≤ D * 1000000000 := by omega
    exact Nat.le_of_mul_le_mul_left this hD

/-- `{:.9}` is within half a unit of the exact value -/
theorem round9_close (k n : Nat) :
    2 * (round9 k n * 2 ^ k) ≤ 2 * (n * 1000000000) + 2 ^ k ∧
    2 * (n * 1000000000) ≤ 2 * (round9 k n * 2 ^ k) + 2 ^ k := by
  unfold round9
  simp only []
  have hD : 0 < 2 ^ k := Nat.pos_of_ne_zero (by simp)
  have hdm := Nat.div_add_mod (n * 1000000000) (2 ^ k)
  have hr := Nat.mod_lt (n * 1000000000) hD
  generalize n * 1000000000 / 2 ^ k = q at *
  generalize n * 1000000000 % 2 ^ k = r at *
  generalize n * 1000000000 = s at *
  generalize 2 ^ k = D at *
  split
  · rw [Nat.add_mul, Nat.one_mul, Nat.mul_comm q D]
    generalize D * q = P at *
    omega
  · rw [Nat.mul_comm q D]
    generalize D * q = P at *
    omega

/-- the fraction is printed as `1.000000000` exactly when it is at least 1 − ½·10⁻⁹ -/
theorem round9_carry_iff (k n : Nat) (h : n ≤ 2 ^ k) :
    round9 k n = 1000000000 ↔ 2 * (1000000000 * 2 ^ k) ≤ 2 * (n * 1000000000) + 2 ^ k := by
  constructor
  · intro e
    have := (round9_close k n).1
    rw [e] at this
    exact this
  · intro hc
    have hle := round9_le k n h
    unfold round9 at hle ⊢
    simp only [] at hle ⊢
    have hD : 0 < 2 ^ k := Nat.pos_of_ne_zero (by simp)
    have hdm := Nat.div_add_mod (n * 1000000000) (2 ^ k)
    have hr := Nat.mod_lt (n * 1000000000) hD
    generalize n * 1000000000 / 2 ^ k = q at *
    generalize n * 1000000000 % 2 ^ k = r at *
    generalize n * 1000000000 = s at *
    generalize 2 ^ k = D at *
    have hq : 999999999 ≤ q := by
      rcases Nat.lt_or_ge q 999999999 with hlt | hge
      · have : D * q ≤ D * 999999998 := Nat.mul_le_mul_left _ (by omega)
        omega
      · exact hge
    by_cases hcnd : (D < 2 * r ∨ 2 * r = D ∧ q % 2 = 1)
    · rw [if_pos hcnd] at hle ⊢; omega
    · rw [if_neg hcnd] at hle ⊢
      by_cases hq9 : q = 999999999
      · exfalso
        have hDq : D * q = D * 999999999 := by rw [hq9]
        have hodd : q % 2 = 1 := by omega
        apply hcnd
        omega
      · omega

end BreezyVerif.C47
