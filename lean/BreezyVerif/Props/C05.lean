import BreezyVerif.Model.C05
import BreezyVerif.Lemmas.C05
import BreezyVerif.Lemmas.C05Files
/-!
C05 — concurrent pack writers and packers never lose committed data.

All theorems quantify over EVERY schedule (`List (pid × phase)`: any number of
processes, any phases in any order — a superset of all interleavings of all
programs), every initial consistent directory and every content assignment.
-/
namespace BreezyVerif.C05
open BreezyVerif.C04

/-- **The pack list a process writes is the three-way merge** of its own
changes with the changes made by others since it last read the list: a name is
listed after `save` iff (it was on disk and the process did not drop it) or
(the process added it). -/
theorem save_is_threeway_merge (s : Sys) (i : Nat) (clear : Bool) (n : Nat) :
    n ∈ (step s i (.save clear)).disk.names ↔
      (n ∈ s.disk.names ∧ ¬(n ∈ (s.procs i).atLoad ∧ n ∉ (s.procs i).names)) ∨
      (n ∈ (s.procs i).names ∧ n ∉ (s.procs i).atLoad ∧ n ∉ s.disk.names) := by
  simp only [step, names_saveStep]
  exact mem_mergeNames

/-- after the save the process' memory is synchronised with what it wrote -/
theorem save_synchronises (s : Sys) (i : Nat) (clear : Bool) :
    ((step s i (.save clear)).procs i).names = (step s i (.save clear)).disk.names ∧
    ((step s i (.save clear)).procs i).atLoad = (step s i (.save clear)).disk.names := by
  simp only [step, names_saveStep, upd_same, and_self]

/-- **Committed data is never lost.**  After every schedule every revision
whose write group's save completed is visible through the current
`pack-names`. -/
theorem committed_data_kept (chk : Bool) (d : Disk) (content : Nat → List Nat) (next : Nat)
    (hb : ∀ n ∈ d.names, n < next) (sched : Schedule) :
    ∀ r ∈ (exec (Sys.init chk d content next) sched).committed,
      r ∈ visible (exec (Sys.init chk d content next) sched) := by
  intro r hr
  have h := invA_exec _ sched (invA_init chk d content next hb)
  obtain ⟨n, hn, hrn⟩ := h.comm r hr
  obtain ⟨m, hm, hrm⟩ := h.kept n hn r hrn
  exact List.mem_flatMap.mpr ⟨m, hm, hrm⟩

/-- a pack operation may drop a listed name only together with listing a pack
that holds its data: whatever was ever listed stays visible -/
theorem listed_data_kept (chk : Bool) (d : Disk) (content : Nat → List Nat) (next : Nat)
    (hb : ∀ n ∈ d.names, n < next) (sched : Schedule) :
    let s := exec (Sys.init chk d content next) sched
    ∀ n ∈ s.ever, ∀ r ∈ s.content n, r ∈ visible s := by
  intro s n hn r hr
  have h := invA_exec _ sched (invA_init chk d content next hb)
  obtain ⟨m, hm, hrm⟩ := h.kept n hn r hr
  exact List.mem_flatMap.mpr ⟨m, hm, hrm⟩

/-- **A listed pack is findable**: after every schedule every pack listed in
`pack-names` has its `.pack` and all indices in `packs/` / `indices/` — because
a pack is obsoleted strictly after the save that removed its name, and only
then. -/
theorem listed_pack_findable (chk : Bool) (d : Disk) (content : Nat → List Nat) (next : Nat)
    (hb : ∀ n ∈ d.names, n < next) (hc : complete chk d = true) (sched : Schedule) :
    complete chk (exec (Sys.init chk d content next) sched).disk = true := by
  have h := inv_exec _ sched (invA_init chk d content next hb) (invB_init chk d content next hc)
  have hchk : ∀ (s : Sys) (sch : Schedule), (exec s sch).chk = s.chk := by
    intro s sch
    induction sch generalizing s with
    | nil => rfl
    | cons a rest ih =>
      show (exec (step s a.1 a.2) rest).chk = s.chk
      rw [ih]
      cases a.2 <;> simp only [step, doReload] <;> (try split) <;> rfl
  have := h.2.r1
  rw [hchk] at this
  have e : (Sys.init chk d content next).chk = chk := rfl
  rw [e] at this
  simpa [complete] using this

/-- **A reader with a stale view finds the data after reloading.**  In every
reachable state, for every process and every pack `n` in its (possibly
outdated) list: after `reload_pack_names` its list contains a pack that holds
each revision of `n`, and that pack's files are in place. -/
theorem reload_finds_data (chk : Bool) (d : Disk) (content : Nat → List Nat) (next : Nat)
    (hb : ∀ n ∈ d.names, n < next) (hc : complete chk d = true) (sched : Schedule) (p : Nat) :
    let s := exec (Sys.init chk d content next) sched
    let s' := step s p .reload
    ∀ n ∈ (s.procs p).names, ∀ r ∈ s.content n,
      ∃ m ∈ (s'.procs p).names, r ∈ s'.content m ∧ ready s'.chk s'.disk m = true := by
  intro s s' n hn r hr
  have hinv := inv_exec _ sched (invA_init chk d content next hb) (invB_init chk d content next hc)
  have h := hinv.1
  have g := hinv.2
  have hnames : (s'.procs p).names = mergeNames s.disk.names (s.procs p).atLoad (s.procs p).names := by
    simp [s', step, doReload, reloadProc_names]
  show ∃ m ∈ (s'.procs p).names, r ∈ s.content m ∧ ready s.chk s.disk m = true
  rw [hnames]
  have privCase : ∀ m, m ∈ (s.procs p).names → m ∉ (s.procs p).atLoad → r ∈ s.content m →
      ∃ m ∈ mergeNames s.disk.names (s.procs p).atLoad (s.procs p).names,
        r ∈ s.content m ∧ ready s.chk s.disk m = true := by
    intro m hm hma hrm
    have hmd : m ∉ s.disk.names := fun hd => (h.priv p m hm hma).2 (h.ev m hd)
    exact ⟨m, mem_mergeNames.mpr (Or.inr ⟨hm, hma, hmd⟩), hrm, g.r2 p m hm hma⟩
  by_cases ha : n ∈ (s.procs p).atLoad
  · obtain ⟨m, hm, hrm⟩ := h.kept n (h.al p n ha) r hr
    by_cases hdrop : m ∈ (s.procs p).atLoad ∧ m ∉ (s.procs p).names
    · obtain ⟨m', hm', hma', hrm'⟩ := h.covers p m hdrop.1 hdrop.2 r hrm
      exact privCase m' hm' hma' hrm'
    · exact ⟨m, mem_mergeNames.mpr (Or.inl ⟨hm, hdrop⟩), hrm, g.r1 m hm⟩
  · exact privCase n hn ha hr

/-- deleting files that are not `f` keeps `f` -/
theorem mem_run_deletes (f : File) (l : List File) (d : Disk) (hf : f ∈ d.files) (hl : f ∉ l) :
    f ∈ (run d (l.map Op.delete)).files := by
  induction l generalizing d with
  | nil => exact hf
  | cons g rest ih =>
    simp only [List.map_cons, run_cons]
    apply ih
    · exact mem_step_files hf (by simpa using fun e => hl (by simp [e]))
    · exact fun h => hl (by simp [h])

/-- **Cleanup preserves the just-obsoleted packs**: `_clear_obsolete_packs(preserve)`
leaves every file of a preserved pack in `obsolete_packs/` where it is, and
deletes nothing outside `obsolete_packs/`. -/
theorem clear_preserves_just_obsoleted (d : Disk) (preserve : List Nat) (f : File) (hf : f ∈ d.files)
    (h : f.dir ≠ .obsolete ∨ f.stem ∈ preserve) :
    f ∈ (run d (clearOps d preserve)).files := by
  apply mem_run_deletes f _ d hf
  simp only [clearTargets, List.mem_filter, List.mem_append, Bool.and_eq_true, decide_eq_true_eq,
    Bool.not_eq_eq_eq_not, Bool.not_true, List.contains_eq_mem, decide_eq_false_iff_not, not_and]
  intro _ hdir
  rcases h with h | h
  · exact absurd hdir h
  · exact fun hn => hn h

/-- and what it reports as found (`already_obsolete`) is skipped by the
following `_obsolete_packs`: a pack that is in `obsolete_packs/` already is not
moved again over the preserved copy -/
theorem save_skips_already_obsolete (s : Sys) (i : Nat) (clear : Bool) (n : Nat)
    (hn : n ∈ alreadyObsolete s.disk) (hold : n ∉ (s.procs i).toObsolete) :
    n ∉ ((step s i (.save clear)).procs i).toObsolete := by
  simp only [step, upd_same, List.mem_append, List.mem_filter, not_or]
  exact ⟨hold, fun h => by simp [hn] at h⟩

/-! ### why the merge is needed -/

/-- **Witness.**  Two writers that loaded the same list and each add a pack: if
the second simply wrote its own list (no merge with the disk), the first
writer's committed pack would no longer be listed; with the real three-way
merge both are. -/
theorem overwrite_loses_witness :
    let s0 := Sys.init true ⟨[0], packFiles true 0, [], false⟩ (fun n => if n = 0 then [100] else []) 10
    let sched : Schedule := [(0, .reload), (1, .reload), (0, .finish [101]), (1, .finish [102]), (0, .save false)]
    let s := exec s0 sched
    -- process 1's own list (what an overwrite would put on disk) lacks process 0's pack 11
    11 ∈ s.disk.names ∧ 11 ∉ (s.procs 1).names ∧
    -- the real save keeps it
    (step s 1 (.save false)).disk.names = [0, 11, 13] := by
  decide

/-! ### non-vacuity -/

/-- two writers and a packer interleaved: both commits survive the concurrent
pack, everything committed is visible at the end -/
example :
    let s0 := Sys.init true ⟨[0, 1], packFiles true 0 ++ packFiles true 1, [], false⟩
      (fun n => if n = 0 then [100] else if n = 1 then [101] else []) 10
    let sched : Schedule :=
      [(0, .reload), (1, .reload), (2, .reload), (0, .finish [102]), (2, .repack [0, 1]), (1, .finish [103]),
       (2, .save true), (0, .save false), (2, .obsolete), (1, .save false), (0, .reload)]
    let s := exec s0 sched
    s.disk.names = [13, 11, 15] ∧ (∀ r ∈ [100, 101, 102, 103], r ∈ visible s) ∧
    complete true s.disk = true ∧ (s.procs 2).toObsolete = [] ∧
    (∀ n ∈ s0.disk.names, n < 10) := by
  decide

/-- a packer whose view is stale (its sources were already replaced by another
packer) and that is asked to repack packs it no longer lists reloads instead
(`_restart_autopack`); one whose copy is already made writes its pack, and the
merge keeps both combined packs — nothing is lost -/
example :
    let s0 := Sys.init false ⟨[0, 1], packFiles false 0 ++ packFiles false 1, [], false⟩
      (fun n => if n = 0 then [100] else if n = 1 then [101] else []) 10
    let sched : Schedule :=
      [(0, .reload), (1, .reload), (0, .repack [0, 1]), (0, .save true), (0, .obsolete),
       (1, .repack [0, 1]), (1, .save true), (1, .obsolete), (1, .repack [0, 1])]
    let s := exec s0 sched
    s.disk.names = [11, 13] ∧ (s.procs 1).names = [11, 13] ∧ (∀ r ∈ [100, 101], r ∈ visible s) ∧
    complete false s.disk = true := by
  decide

end BreezyVerif.C05
