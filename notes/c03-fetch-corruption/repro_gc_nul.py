"""C03 finding (external: bzrformats 3.5.2, compiled _bzr_rs RabinGroupCompressor).

When a delta match runs to the END of a source text that is not the last text of the group,
the forward extension of the match reads past that text as if it were followed by zero bytes:
NUL bytes that follow in the new text are "matched", and the copy instruction covers the first
bytes of the NEXT record of the group (its 'f'/'d' kind byte and length).  extract() of the new
text then returns wrong bytes.  Everything that groups texts with the Rabin compressor is
affected: fetch into 2a (StreamSink -> texts.insert_record_stream), pack/autopack.

usage: /venv/bin/python repro_gc_nul.py            (exit 1 = defect present)
Part 1 uses only bzrformats; part 2 shows the effect on a real 2a fetch through breezy.
"""
import hashlib, os, sys, tempfile
from bzrformats.groupcompress import RabinGroupCompressor

A = b"d\nc\nx!START OF MERGE CONFLICT!I HOPE THIS IS UNIQUE\n"
B = b"\n<<<<<<< TREE\nx\n"                      # any second text
C = A[4:] + b"\x00z\n"                           # shares the tail of A, continues with NUL
c = RabinGroupCompressor()
for i, t in enumerate((A, B, C)):
    c.compress((b"k%d" % i,), [t], len(t), None)
got = b"".join(c.extract((b"k2",))[0])
print("stored :", C)
print("extract:", got)
bad = got != C

# part 2: the same through breezy (2a -> 2a fetch)
os.environ["BRZ_HOME"] = os.environ["HOME"] = tempfile.mkdtemp(prefix="brzhome", dir="/var/tmp")
os.environ.setdefault("BRZ_EMAIL", "t <t@example.com>")
sys.path.insert(0, os.environ.get("VERIF_REPO", "/repo"))
import breezy
breezy.initialize()
import breezy.bzr  # noqa
from breezy import transport
from breezy.branchbuilder import BranchBuilder
from breezy.controldir import ControlDir, format_registry
root = tempfile.mkdtemp(prefix="c03gc", dir="/var/tmp")
fmt = format_registry.make_controldir("2a")
os.mkdir(os.path.join(root, "S"))
bb = BranchBuilder(transport.get_transport(os.path.join(root, "S")), format=fmt)
bb.build_snapshot([], [("add", ("", b"root-id", "directory", None)),
                       ("add", ("a", b"a-id", "file", A)), ("add", ("b", b"b-id", "file", B)),
                       ("add", ("c", b"c-id", "file", C))], revision_id=b"r1")
src = bb.get_branch().repository
T = ControlDir.create(os.path.join(root, "T"), format=fmt).create_repository()
T.fetch(src, revision_id=b"r1")
T = T.controldir.open_repository()
with T.lock_read():
    tree = T.revision_tree(b"r1")
    for p, want in (("a", A), ("b", B), ("c", C)):
        have = tree.get_file_text(p)
        if have != want:
            bad = True
            print("fetch 2a->2a stored %r for file %s, source has %r; inventory sha1 %s, actual %s" % (
                have, p, want, tree.get_file_sha1(p).decode(), hashlib.sha1(have).hexdigest()))
print("DEFECT PRESENT" if bad else "ok")
sys.exit(1 if bad else 0)
