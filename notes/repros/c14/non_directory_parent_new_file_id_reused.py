"""C14 family bzr-non-directory-parent-new-file-id-reused.

An unversioned symlink `a` is versioned by the transform (version_file) and gets a child.
"non-directory parent": resolve_non_directory_parent creates `a.new` with
file_id = final_file_id(a) — the id just assigned — while `a` still holds it in _new_id, so
version_file's unique_add(_r_new_id, ...) raises DuplicateKey out of resolve_conflicts.
Exit 1 = defect present, 0 = absent."""
import sys
from _boot import *
wt = make_tree("2a", [("a", "symlink", "t1", False)])
tt = wt.transform()
try:
    a = tt.trans_id_tree_path("a")
    tt.version_file(a, file_id=b"fid1")
    tt.new_file("d", a, [b"N9"], b"fid2")
    print("raw conflicts:", tt.find_raw_conflicts())
    try:
        resolve_conflicts(tt)
        print("resolve_conflicts returned; remaining:", tt.find_raw_conflicts())
        tt.apply()
        print("applied:", listing(wt))
        sys.exit(0)
    except MalformedTransform as e:
        print("MalformedTransform (acceptable):", e.conflicts)
        sys.exit(0)
    except Exception as e:
        print("DEFECT: raised %s: %s" % (type(e).__name__, e))
        sys.exit(1)
finally:
    tt.finalize()
