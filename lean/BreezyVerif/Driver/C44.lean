import BreezyVerif.Common
import BreezyVerif.Model.C44
/-
C44 driver.  Requests:

  cmds plain <old entries> <new entries>
      entries = `fid.path.own.d|f.val` joined by `;` (`-` = empty tree)
      -> `<D.p / R.p.q in stream order, joined by ','> | <M.p.v sorted, joined by ','>`
  apply <flat tree> <commands>
      flat tree = `path.val` joined by `;`; commands = `D.p` / `R.p.q` / `M.p.v` joined by `,`
      -> flat tree, sorted by path
  graph <parents of commit 1>;<parents of commit 2>;…   (parents = positions joined by `.`, `-` = none, 0 = ghost)
      -> `<from|~>:<merges joined by '.'|->` joined by `;`
  igraph <parents …>   (same encoding)
      -> the parents of the revisions `importAll (exportAll h)` creates: `<positions joined by '.'|->` joined by `;`,
         or `E:unknown-mark`
  zone <offset in seconds>        -> the `+HHMM` field the exporter writes
  pzone <+HHMM>                   -> the offset in seconds the importer reads
  ref <hex bytes>                 -> `T` / `F`: `check_ref_format`
  xtags <plain|rich> <tags>       tags = `<name hex>:<export position, 0 = not exported>` joined by `,` (`-` = none)
      -> the reset commands `<ref hex>:<mark>`, sorted, joined by `,`
  tags <plain|rich> <n> <tags>    -> the tag table after importing them: `<name hex>:<position>` sorted, joined by `,`
  split <committer, hex of UTF-8> -> `<name hex>|<email hex>` as `_get_name_email` splits it, `other` = the pattern does not match
  pwho <line after `committer `, hex> -> `<name hex>|<email hex>|<date hex>` as the parser reads it, `nomatch`
  who <T|F: an empty name is joined without the blank> <committer hex> <date hex>  -> the committer after export + import (hex), `other` / `nomatch`
-/
namespace BreezyVerif.C44

def parseEnt (s : String) : Option Ent :=
  match s.splitOn "." with
  | [f, p, o, d, v] => do
      let d ← if d == "d" then some true else if d == "f" then some false else none
      pure ⟨← f.toNat?, ← p.toNat?, ← o.toNat?, d, ← v.toNat?⟩
  | _ => none

def parseTree (s : String) : Option Tree :=
  if s == "-" then some [] else (s.splitOn ";").mapM parseEnt

def parseCmd (s : String) : Option Cmd :=
  match s.splitOn "." with
  | ["D", p] => do pure (.del (← p.toNat?))
  | ["R", p, q] => do pure (.ren (← p.toNat?) (← q.toNat?))
  | ["M", p, v] => do pure (.mod (← p.toNat?) (← v.toNat?))
  | _ => none

def showCmd : Cmd → String
  | .del p => s!"D.{p}"
  | .ren p q => s!"R.{p}.{q}"
  | .mod p v => s!"M.{p}.{v}"

def isMod : Cmd → Bool
  | .mod _ _ => true
  | _ => false

def parseFlat (s : String) : Option Flat :=
  if s == "-" then some [] else (s.splitOn ";").mapM fun e =>
    match e.splitOn "." with
    | [p, v] => do pure (← p.toNat?, ← v.toNat?)
    | _ => none

def showFlat (m : Flat) : String :=
  let sorted := m.mergeSort fun a b => decide (a.1 ≤ b.1)
  if sorted.isEmpty then "-" else ";".intercalate (sorted.map fun e => s!"{e.1}.{e.2}")

def parseParents (s : String) : Option (List (List Nat)) :=
  if s == "-" then some [] else (s.splitOn ";").mapM fun c =>
    if c == "-" then some [] else (c.splitOn ".").mapM String.toNat?

def pad2 (n : Nat) : String := if n < 10 then s!"0{n}" else toString n

def showZone (z : Zone) : String := (if z.neg then "-" else "+") ++ pad2 z.hours ++ pad2 z.minutes

/-- `parse_tz`: sign, `int(tz[1:-2])`, `int(tz[-2:])` -/
def readZone (s : String) : Option Zone :=
  match s.toList with
  | sign :: rest =>
    if sign != '+' && sign != '-' then none else
    if rest.length < 3 then none else do
      let h ← (String.ofList (rest.take (rest.length - 2))).toNat?
      let m ← (String.ofList (rest.drop (rest.length - 2))).toNat?
      pure { neg := sign == '-', hours := h, minutes := m }
  | [] => none

def parseTags (s : String) : Option (List Tag) :=
  if s == "-" then some [] else (s.splitOn ",").mapM fun e =>
    match e.splitOn ":" with
    | [n, p] => do pure { name := ← fromHex n, pos := ← p.toNat? }
    | _ => none

/-- `<hex>:<n>` entries, sorted as strings -/
def showPairs (l : List (Bytes × Nat)) : String :=
  if l.isEmpty then "-" else
    ",".intercalate ((l.map fun e => s!"{toHex e.1}:{e.2}").mergeSort fun a b => decide (a ≤ b))

def strOfHex (s : String) : Option Str := do
  let b ← fromHex s
  (String.fromUTF8? (ByteArray.mk b.toArray)).map String.toList

def hexOfStr (s : Str) : String := toHex (String.ofList s).toUTF8.toList

def handle : List String → String
  | ["cmds", "plain", o, n] =>
    match parseTree o, parseTree n with
    | some o, some n =>
      let cs := exportCmds o n
      let pre := (cs.filter (!isMod ·)).map showCmd
      let ms := ((cs.filter isMod).map showCmd).mergeSort (fun a b => decide (a ≤ b))
      s!"{joinList pre} | {joinList ms}"
    | _, _ => "bad-op"
  | ["apply", m, cs] =>
    match parseFlat m, (splitList cs).mapM parseCmd with
    | some m, some cs => showFlat (applyCmds m cs)
    | _, _ => "bad-op"
  | ["graph", ps] =>
    match parseParents ps with
    | some ps =>
      let h : List Commit := ps.map fun p => ⟨p, [], 0⟩
      let xs := exportAll h
      let out := xs.map fun x =>
        let f := match x.from_ with | some f => toString f | none => "~"
        let ms := if x.merges.isEmpty then "-" else ".".intercalate (x.merges.map toString)
        s!"{f}:{ms}"
      if out.isEmpty then "-" else ";".intercalate out
    | none => "bad-op"
  | ["igraph", ps] =>
    match parseParents ps with
    | some ps =>
      let h : List Commit := ps.map fun p => ⟨p, [], 0⟩
      match importAll (exportAll h) with
      | .ok rs =>
        let out := rs.map fun r => if r.parents.isEmpty then "-" else ".".intercalate (r.parents.map toString)
        if out.isEmpty then "-" else ";".intercalate out
      | .error _ => "E:unknown-mark"
    | none => "bad-op"
  | ["zone", off] =>
    match off.toInt? with
    | some o => showZone (formatZone o)
    | none => "bad-op"
  | ["pzone", z] =>
    match readZone z with
    | some z => toString (parseZone z)
    | none => "bad-op"
  | ["ref", r] =>
    match fromHex r with
    | some r => showBool (validRef r)
    | none => "bad-op"
  | ["split", u] =>
    match strOfHex u with
    | some u =>
      (match splitCommitter u with
        | some (n, e) => s!"{hexOfStr n}|{hexOfStr e}"
        | none => "other")
    | none => "bad-op"
  | ["pwho", l] =>
    match strOfHex l with
    | some l =>
      (match parseWho l with
        | some (n, e, d) => s!"{hexOfStr n}|{hexOfStr e}|{hexOfStr d}"
        | none => "nomatch")
    | none => "bad-op"
  | ["who", v, u, d] =>
    match parseBool v, strOfHex u, strOfHex d with
    | some bare, some u, some d =>
      (match splitCommitter u with
        | none => "other"
        | some who =>
          match parseWho (formatWho who d) with
          | some (n, e, _) => hexOfStr (joinWho bare n e)
          | none => "nomatch")
    | _, _, _ => "bad-op"
  | ["xtags", fmt, ts] =>
    match (if fmt == "plain" then some true else if fmt == "rich" then some false else none), parseTags ts with
    | some plain, some ts => showPairs (exportTags plain ts)
    | _, _ => "bad-op"
  | ["tags", fmt, n, ts] =>
    match (if fmt == "plain" then some true else if fmt == "rich" then some false else none), n.toNat?, parseTags ts with
    | some plain, some n, some ts =>
      showPairs (importTags n (exportTags plain ts))
    | _, _, _ => "bad-op"
  | _ => "bad-op"

end BreezyVerif.C44

def main : IO Unit := BreezyVerif.runDriver BreezyVerif.C44.handle
