import BreezyVerif.Lemmas.C16
/-! C16 — lemmas for the commit/uncommit round trip and the parent filter. -/
namespace BreezyVerif.C16
open BreezyVerif.C21

theorem keepTagsOutside_fresh (r : Rev) (ps : List Rev) (g : Graph) (tags : Tags) (hr : r ∉ ps)
    (ht : ∀ t ∈ tags, t.2 ≠ r) : keepTagsOutside ((r, ps) :: g) tags r ps = tags := by
  unfold keepTagsOutside
  rw [List.filter_eq_self]
  intro t htm
  cases hc : (findUniqueAncestors ((r, ps) :: g) r ps).contains t.2
  · rfl
  · exfalso
    exact ht t htm (fua_fresh r ps g hr t.2 (by simpa using hc))

theorem removedTags_fresh (r : Rev) (ps : List Rev) (g : Graph) (tags : Tags) (hr : r ∉ ps)
    (ht : ∀ t ∈ tags, t.2 ≠ r) : removedTags ((r, ps) :: g) tags r ps = [] := by
  unfold removedTags
  rw [List.map_eq_nil_iff, List.filter_eq_nil_iff]
  intro t htm hc
  exact ht t htm (fua_fresh r ps g hr t.2 (by simpa using hc))

theorem dropTags_nil (tags : Tags) : dropTags tags [] = tags := by
  simp [dropTags]

theorem filterRest_sub (hs : List Tip) : ∀ (l acc : List Rev) (x : Rev), x ∈ filterRest hs acc l → x ∈ l := by
  intro l
  induction l with
  | nil => intro acc x h; simp [filterRest] at h
  | cons r rest ih =>
    intro acc x h
    unfold filterRest at h
    split at h
    · exact List.mem_cons_of_mem _ (ih acc x h)
    · simp only [List.mem_cons] at h ⊢
      rcases h with h | h
      · exact Or.inl h
      · exact Or.inr (ih _ x h)

/-- a head that was not accepted yet is kept -/
theorem filterRest_keeps (hs : List Tip) : ∀ (l acc : List Rev) (x : Rev), x ∈ l → x ∉ acc →
    some x ∈ hs → x ∈ filterRest hs acc l := by
  intro l
  induction l with
  | nil => intro acc x h; simp at h
  | cons r rest ih =>
    intro acc x hx hacc hh
    unfold filterRest
    by_cases hrx : r = x
    · subst hrx
      simp [hacc, hh]
    · have hx' : x ∈ rest := by
        simp only [List.mem_cons] at hx
        rcases hx with hx | hx
        · exact absurd hx.symm hrx
        · exact hx
      split
      · exact ih acc x hx' hacc hh
      · simp only [List.mem_cons]
        right
        apply ih _ x hx' _ hh
        simp only [List.mem_cons, not_or]
        exact ⟨fun e => hrx e.symm, hacc⟩

/-- what a successful `uncommit` has done -/
theorem uncommit_ok_inv (g : Graph) (st st' : St) (d : Nat) (keep loc : Bool)
    (h : uncommit g st d keep loc = .ok st') :
    ∃ old t pm, st.br.tip = some old ∧ walk g old d st.parents.tail = .ok (t, pm) ∧
      st' = finish g st old t pm d keep loc := by
  unfold uncommit at h
  split at h <;> try (simp at h; done)
  split at h <;> try (simp at h; done)
  rename_i old htip
  split at h <;> try (simp at h; done)
  split at h <;> try (simp at h; done)
  split at h <;> try (simp at h; done)
  rename_i t pm hw
  cases h
  exact ⟨old, t, pm, htip, hw, rfl⟩

/-- a successful `uncommit` removed no more revisions than the branch had, and a bound branch was in step -/
theorem uncommit_ok_guards (g : Graph) (st st' : St) (d : Nat) (keep loc : Bool)
    (h : uncommit g st d keep loc = .ok st') :
    d ≤ st.br.revno ∧ outOfDate (masterFor loc st) st.br.tip = false ∧ (loc = true → st.master.isSome = true) := by
  unfold uncommit at h
  split at h <;> try (simp at h; done)
  rename_i h1
  split at h <;> try (simp at h; done)
  split at h <;> try (simp at h; done)
  rename_i h2
  split at h <;> try (simp at h; done)
  rename_i h3
  refine ⟨by omega, by simpa using h2, ?_⟩
  intro hl
  subst hl
  cases hm : st.master <;> simp_all

/-- what a successful `uncommit(tree=None)` has done -/
theorem uncommitNoTree_ok_inv (g : Graph) (st st' : St) (d : Nat) (keep loc : Bool)
    (h : uncommitNoTree g st d keep loc = .ok st') :
    ∃ old t pm, st.br.tip = some old ∧ walk g old d [] = .ok (t, pm) ∧ d ≤ st.br.revno ∧
      st' = { finish g st old t [] d keep loc with parents := st.parents } := by
  unfold uncommitNoTree at h
  split at h <;> try (simp at h; done)
  split at h <;> try (simp at h; done)
  rename_i old htip
  split at h <;> try (simp at h; done)
  split at h <;> try (simp at h; done)
  rename_i h3
  split at h <;> try (simp at h; done)
  rename_i t pm hw
  cases h
  exact ⟨old, t, pm, htip, hw, by omega, rfl⟩

theorem lefthand_head (g : Graph) : ∀ (r : Rev) (l : List Rev), lefthand g r = some l → l.head? = some r := by
  induction g with
  | nil => intro r l h; simp [lefthand] at h
  | cons e g ih =>
    obtain ⟨n, ps⟩ := e
    intro r l h
    unfold lefthand at h
    by_cases hn : n = r
    · simp only [hn, if_true] at h
      cases ps with
      | nil => simp at h; subst h; rfl
      | cons p rest =>
        simp only [Option.map_eq_some_iff] at h
        obtain ⟨l', _, rfl⟩ := h
        rfl
    · simp only [hn, if_false] at h
      exact ih r l h

theorem lhTip_head (g : Graph) (t : Tip) (l : List Rev) (h : lhTip g t = some l) : t = l.head? := by
  cases t with
  | none => simp [lhTip] at h; subst h; rfl
  | some x => exact (lefthand_head g x l h).symm

end BreezyVerif.C16
