import BreezyVerif.Model.C51
import BreezyVerif.Props.C33
/-!
C51 — helper lemmas: ancestry, the plan loop invariants, plan-file parsing.
-/
namespace BreezyVerif.C51
open BreezyVerif.C33

/-! ### ancestry -/

theorem mem_anc (g : PMap) (k a : Key) : a ∈ anc g k ↔ Reach g [] [k] a := by
  unfold anc
  obtain ⟨s, hs, _⟩ := bfs_inv g [k] []
  simp only [hs]
  exact (bfs_spec g [k] [] s hs).2.2.1 a

theorem anc_self (g : PMap) (k : Key) : k ∈ anc g k :=
  (mem_anc g k k).mpr (Reach.base (by simp))

theorem anc_parent {g : PMap} {k j p : Key} {ps : List Key} (hj : j ∈ anc g k)
    (hps : parentsOf g j = some ps) (hp : p ∈ ps) : p ∈ anc g k :=
  (mem_anc g k p).mpr (Reach.step ((mem_anc g k j).mp hj) (by simp) hps hp)

/-! ### plan loop -/

theorem lookupNew_some {plan : Plan} {k n : Key} (h : lookupNew plan k = some n) :
    ∃ e ∈ plan, e.old = k ∧ e.new = n := by
  induction plan with
  | nil => simp [lookupNew] at h
  | cons e rest ih =>
    simp only [lookupNew] at h
    split at h
    · rename_i he
      exact ⟨e, by simp, he, by simpa using h⟩
    · obtain ⟨e', he', h1, h2⟩ := ih h
      exact ⟨e', List.mem_cons_of_mem _ he', h1, h2⟩

theorem lookupNew_none {plan : Plan} {k : Key} (h : lookupNew plan k = none) :
    k ∉ plan.map (·.old) := by
  induction plan with
  | nil => simp
  | cons e rest ih =>
    simp only [lookupNew] at h
    split at h
    · cases h
    · rename_i he
      simp only [List.map_cons, List.mem_cons, not_or]
      exact ⟨fun h' => he h'.symm, ih h⟩

/-- where a new parent can come from -/
def Src (g : PMap) (onto : Key) (plan : Plan) (olds : List Key) (x : Key) : Prop :=
  x = onto ∨ (∃ e ∈ plan, e.new = x) ∨
    (x ∈ olds ∧ mergedInto g x onto = false ∧ x ∉ plan.map (·.old))

theorem leftParents_src (g : PMap) (onto : Key) (plan : Plan) (p0 : Key) (olds : List Key)
    (h0 : p0 ∈ olds) :
    ∀ x ∈ (leftParents g onto plan p0).1 :: (leftParents g onto plan p0).2, Src g onto plan olds x := by
  unfold leftParents
  split
  · intro x hx; simp at hx; exact Or.inl hx
  · rename_i hm
    split
    · rename_i n hn
      intro x hx
      simp at hx
      obtain ⟨e, he, _, h2⟩ := lookupNew_some hn
      exact Or.inr (Or.inl ⟨e, he, hx ▸ h2⟩)
    · rename_i hn
      intro x hx
      simp at hx
      rcases hx with hx | hx
      · exact Or.inl hx
      · subst hx
        exact Or.inr (Or.inr ⟨h0, by simpa using hm, lookupNew_none hn⟩)

theorem addParent_src (g : PMap) (onto : Key) (plan : Plan) (addl olds : List Key)
    (ps : Key × List Key) (op : Key) (hop : op ∈ olds)
    (hps : ∀ x ∈ ps.1 :: ps.2, Src g onto plan olds x) :
    ∀ x ∈ (addParent g onto plan addl ps op).1 :: (addParent g onto plan addl ps op).2,
      Src g onto plan olds x := by
  unfold addParent
  split
  · split
    · exact hps
    · rename_i hm
      split
      · rename_i n hn
        obtain ⟨e, he, _, h2⟩ := lookupNew_some hn
        split
        · intro x hx
          rcases List.mem_cons.mp hx with hx | hx
          · exact Or.inr (Or.inl ⟨e, he, hx ▸ h2⟩)
          · exact hps x (List.mem_cons_of_mem _ hx)
        · intro x hx
          simp only [List.mem_cons, List.mem_append, List.not_mem_nil, or_false] at hx
          rcases hx with hx | hx | hx
          · exact hps x (by simp [hx])
          · exact hps x (by simp [hx])
          · exact Or.inr (Or.inl ⟨e, he, hx ▸ h2⟩)
      · rename_i hn
        intro x hx
        simp only [List.mem_cons, List.mem_append, List.not_mem_nil, or_false] at hx
        rcases hx with hx | hx | hx
        · exact hps x (by simp [hx])
        · exact hps x (by simp [hx])
        · subst hx
          exact Or.inr (Or.inr ⟨hop, by simpa using hm, lookupNew_none hn⟩)
  · exact hps

theorem foldl_addParent_src (g : PMap) (onto : Key) (plan : Plan) (addl olds : List Key) :
    ∀ (rest : List Key) (ps : Key × List Key), (∀ op ∈ rest, op ∈ olds) →
      (∀ x ∈ ps.1 :: ps.2, Src g onto plan olds x) →
      ∀ x ∈ (rest.foldl (addParent g onto plan addl) ps).1 ::
        (rest.foldl (addParent g onto plan addl) ps).2, Src g onto plan olds x := by
  intro rest
  induction rest with
  | nil => intro ps _ h; exact h
  | cons op rest ih =>
    intro ps hin h
    simp only [List.foldl_cons]
    apply ih _ (fun o ho => hin o (List.mem_cons_of_mem _ ho))
    exact addParent_src g onto plan addl olds ps op (hin op (by simp)) h

theorem newParents_src (g : PMap) (onto : Key) (plan : Plan) (p0 : Key) (rest : List Key) :
    ∀ x ∈ (newParents g onto plan p0 rest).1 :: (newParents g onto plan p0 rest).2,
      Src g onto plan (p0 :: rest) x := by
  unfold newParents
  apply foldl_addParent_src g onto plan _ (p0 :: rest) rest _ (fun o ho => List.mem_cons_of_mem _ ho)
  exact leftParents_src g onto plan p0 (p0 :: rest) (by simp)

/-- result of one loop step in general: unchanged (a skipped merge) or one entry appended -/
theorem planStep_cases {g : PMap} {gen : Key → Key} {onto : Key} {skip : Bool} {plan plan' : Plan}
    {old : Key} (h : planStep g gen onto skip plan old = .ok plan') :
    ∃ p0 rest, parentsOf g old = some (p0 :: rest) ∧
      ((plan' = plan ∧ rest ≠ [] ∧ skip = true) ∨
       plan' = plan ++ [⟨old, gen old, (newParents g onto plan p0 rest).1 :: (newParents g onto plan p0 rest).2⟩]) := by
  unfold planStep at h
  cases hp : parentsOf g old with
  | none => simp [hp] at h
  | some l =>
    cases l with
    | nil => simp [hp] at h
    | cons p0 rest =>
      refine ⟨p0, rest, rfl, ?_⟩
      simp only [hp] at h
      by_cases hc : (!rest.isEmpty && (newParents g onto plan p0 rest).2.isEmpty && skip) = true
      · simp only [hc, if_true] at h
        cases h
        left
        simp only [Bool.and_eq_true, Bool.not_eq_true', List.isEmpty_eq_false_iff] at hc
        exact ⟨rfl, hc.1.1, hc.2⟩
      · simp only [hc] at h
        by_cases hg : gen old = old
        · simp [hg] at h
        · simp only [hg, if_false] at h
          cases h
          exact Or.inr rfl

/-- result of one loop step without skipping -/
theorem planStep_noskip {g : PMap} {gen : Key → Key} {onto : Key} {plan plan' : Plan} {old : Key}
    (h : planStep g gen onto false plan old = .ok plan') :
    ∃ p0 rest, parentsOf g old = some (p0 :: rest) ∧
      plan' = plan ++ [⟨old, gen old, (newParents g onto plan p0 rest).1 :: (newParents g onto plan p0 rest).2⟩] := by
  obtain ⟨p0, rest, hps, h1 | h1⟩ := planStep_cases h
  · exact absurd h1.2.2 (by simp)
  · exact ⟨p0, rest, hps, h1⟩

/-! ### plan file -/

theorem split_fields (a : Bytes) (ps : List Bytes) (ha : SP ∉ a) (hps : ∀ p ∈ ps, SP ∉ p) :
    split SP (a ++ ps.flatMap (fun p => SP :: p)) = a :: ps := by
  induction ps generalizing a with
  | nil => simpa using split_no_sep ha
  | cons p ps ih =>
    simp only [List.flatMap_cons, List.cons_append]
    rw [split_append_sep ha]
    rw [ih p (hps p (by simp)) (fun q hq => hps q (List.mem_cons_of_mem _ hq))]

theorem split_entryLine (e : WEntry) (h1 : SP ∉ e.old) (h2 : SP ∉ e.new) (h3 : ∀ p ∈ e.parents, SP ∉ p) :
    split SP (entryLine e) = e.old :: e.new :: e.parents := by
  unfold entryLine
  simp only [List.append_assoc, List.cons_append]
  rw [split_append_sep h1, split_fields e.new e.parents h2 h3]

theorem split1_append_sep {sep : UInt8} {a : Bytes} (h : sep ∉ a) (rest : Bytes) :
    split1 sep (a ++ sep :: rest) = (a, some rest) := by
  induction a with
  | nil => simp [split1]
  | cons c cs ih =>
    have hc : c ≠ sep := fun e => h (by simp [e])
    have hcs : sep ∉ cs := fun e => h (by simp [e])
    simp [split1, hc, ih hcs]

theorem sp_not_mem_toDec (n : Nat) : SP ∉ toDec n := by
  intro h
  rcases mem_toDecAux _ _ _ h with h | ⟨m, hm, h⟩
  · cases h
  · have := congrArg UInt8.toNat h
    rw [digit_toNat hm] at this
    simp [SP] at this
    omega

theorem entryLine_ne_nil (e : WEntry) : (entryLine e).isEmpty = false := by
  unfold entryLine
  cases e.old <;> simp

theorem nl_not_mem_entryLine (e : WEntry) (h1 : NL ∉ e.old) (h2 : NL ∉ e.new)
    (h3 : ∀ p ∈ e.parents, NL ∉ p) : NL ∉ entryLine e := by
  unfold entryLine
  intro h
  simp only [List.mem_append, List.mem_cons, List.mem_flatMap] at h
  rcases h with (h | h | h) | ⟨p, hp, h | h⟩
  · exact h1 h
  · simp [NL, SP] at h
  · exact h2 h
  · simp [NL, SP] at h
  · exact h3 p hp h

theorem dictSet_fresh (d : List WEntry) (e : WEntry) (h : e.old ∉ d.map (·.old)) :
    dictSet d e = d ++ [e] := by
  unfold dictSet
  have : d.any (fun x => x.old == e.old) = false := by
    rw [List.any_eq_false]
    intro x hx hxe
    exact h (List.mem_map.mpr ⟨x, hx, by simpa using hxe⟩)
  simp [this]

/-- splitting the body: one line per entry and a final empty line -/
theorem split_body (es : List WEntry)
    (h : ∀ e ∈ es, NL ∉ entryLine e) :
    split NL (es.flatMap (fun e => entryLine e ++ [NL])) = es.map entryLine ++ [[]] := by
  induction es with
  | nil => simp [split, splitAux]
  | cons e es ih =>
    simp only [List.flatMap_cons, List.append_assoc, List.map_cons, List.cons_append, List.nil_append]
    rw [split_append_sep (h e (by simp))]
    rw [ih (fun e' he' => h e' (List.mem_cons_of_mem _ he'))]

theorem parseLines_entries (es : List WEntry) (acc : List WEntry)
    (hsp : ∀ e ∈ es, SP ∉ e.old ∧ SP ∉ e.new ∧ ∀ p ∈ e.parents, SP ∉ p)
    (hnd : (acc.map (·.old) ++ es.map (·.old)).Nodup) :
    parseLines (es.map entryLine ++ [[]]) acc = .ok (acc ++ es) := by
  induction es generalizing acc with
  | nil => simp [parseLines]
  | cons e es ih =>
    obtain ⟨h1, h2, h3⟩ := hsp e (by simp)
    simp only [List.map_cons, List.cons_append, parseLines, entryLine_ne_nil, Bool.false_eq_true, if_false]
    rw [split_entryLine e h1 h2 h3]
    simp only
    have hfresh : e.old ∉ acc.map (·.old) := by
      intro hm
      have := (List.nodup_append.mp hnd).2.2 e.old hm e.old (by simp)
      exact this rfl
    rw [dictSet_fresh acc ⟨e.old, e.new, e.parents⟩ hfresh]
    rw [ih (acc ++ [e]) (fun e' he' => hsp e' (List.mem_cons_of_mem _ he'))]
    · simp
    · simpa [List.map_append, List.append_assoc] using hnd

end BreezyVerif.C51
