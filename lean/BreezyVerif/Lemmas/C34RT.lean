import BreezyVerif.Model.C34RT
import BreezyVerif.Lemmas.C34
/-! C34 — lemmas about the `--BZR--` metadata block of roundtrip.py. -/
namespace BreezyVerif.C34

/-! ### readlines / split / join -/

theorem readlines_line : ∀ (l rest : Bytes), 10 ∉ l → readlines (l ++ 10 :: rest) = (l ++ [10]) :: readlines rest
  | [], rest, _ => by simp [readlines]
  | x :: l, rest, h => by
    have hx : x ≠ 10 := fun e => h (by simp [e])
    have hl : (10 : UInt8) ∉ l := fun m => h (by simp [m])
    simp [readlines, hx, readlines_line l rest hl]

theorem readlines_lines : ∀ (ls : List Bytes), (∀ l ∈ ls, (10 : UInt8) ∉ l) →
    readlines ((ls.map (· ++ [10])).flatten) = ls.map (· ++ [10])
  | [], _ => by simp [readlines]
  | l :: ls, h => by
    simp only [List.map_cons, List.flatten_cons, List.append_assoc, List.cons_append, List.nil_append]
    rw [readlines_line l _ (h l (by simp)), readlines_lines ls (fun x hx => h x (by simp [hx]))]

theorem splitSep_ne_nil (sep : UInt8) : ∀ b : Bytes, splitSep sep b ≠ []
  | [] => by simp [splitSep]
  | x :: r => by
    unfold splitSep
    split
    · simp
    · split <;> simp

theorem splitSep_nosep (sep : UInt8) : ∀ (x : Bytes), sep ∉ x → splitSep sep x = [x]
  | [], _ => rfl
  | a :: x, h => by
    have ha : a ≠ sep := fun e => h (by simp [e])
    simp [splitSep, ha, splitSep_nosep sep x (fun m => h (by simp [m]))]

theorem splitSep_append (sep : UInt8) : ∀ (x rest : Bytes), sep ∉ x →
    splitSep sep (x ++ sep :: rest) = x :: splitSep sep rest
  | [], rest, _ => by simp [splitSep]
  | a :: x, rest, h => by
    have ha : a ≠ sep := fun e => h (by simp [e])
    simp [splitSep, ha, splitSep_append sep x rest (fun m => h (by simp [m]))]

theorem splitSep_join (sep : UInt8) : ∀ (l : List Bytes), l ≠ [] → (∀ x ∈ l, sep ∉ x) →
    splitSep sep (joinSep sep l) = l
  | [], hne, _ => absurd rfl hne
  | [x], _, h => by simpa [joinSep] using splitSep_nosep sep x (h x (by simp))
  | x :: y :: r, _, h => by
    simp only [joinSep]
    rw [splitSep_append sep x _ (h x (by simp)),
      splitSep_join sep (y :: r) (by simp) (fun z hz => h z (List.mem_cons_of_mem _ hz))]

theorem joinSep_cons_cons (sep x : UInt8) (h : Bytes) (t : List Bytes) :
    joinSep sep ((x :: h) :: t) = x :: joinSep sep (h :: t) := by
  cases t <;> simp [joinSep]

theorem joinSep_splitSep (sep : UInt8) : ∀ b : Bytes, joinSep sep (splitSep sep b) = b
  | [] => by simp [splitSep, joinSep]
  | x :: r => by
    unfold splitSep
    by_cases hx : x = sep
    · simp only [hx, if_true]
      cases hs : splitSep sep r with
      | nil => exact absurd hs (splitSep_ne_nil sep r)
      | cons h t =>
        have := joinSep_splitSep sep r
        rw [hs] at this
        simp [joinSep, this]
    · simp only [hx, if_false]
      cases hs : splitSep sep r with
      | nil => exact absurd hs (splitSep_ne_nil sep r)
      | cons h t =>
        have := joinSep_splitSep sep r
        rw [hs] at this
        simp [joinSep_cons_cons, this]

theorem splitSep_mem_nosep (sep : UInt8) : ∀ (b : Bytes) (l : Bytes), l ∈ splitSep sep b → sep ∉ l
  | [], l, h => by simp [splitSep] at h; subst h; simp
  | x :: r, l, h => by
    unfold splitSep at h
    by_cases hx : x = sep
    · simp only [hx, if_true, List.mem_cons] at h
      rcases h with rfl | h
      · simp
      · exact splitSep_mem_nosep sep r l h
    · simp only [hx, if_false] at h
      cases hs : splitSep sep r with
      | nil => exact absurd hs (splitSep_ne_nil sep r)
      | cons h' t =>
        rw [hs] at h
        simp only [List.mem_cons] at h
        rcases h with rfl | h
        · have := splitSep_mem_nosep sep r h' (by rw [hs]; simp)
          intro hm
          rcases List.mem_cons.mp hm with e | e
          · exact hx e.symm
          · exact this e
        · exact splitSep_mem_nosep sep r l (by rw [hs]; simp [h])

/-! ### strip -/

theorem strip_pad (y : Bytes) (h1 : ∀ a t, y = a :: t → isWs a = false)
    (h2 : ∀ t b, y = t ++ [b] → isWs b = false) : strip (32 :: (y ++ [10])) = y := by
  cases y with
  | nil => decide
  | cons a t =>
    have ha := h1 a t rfl
    have e1 : List.dropWhile isWs (32 :: ((a :: t) ++ [10])) = a :: t ++ [10] := by
      have : isWs 32 = true := by decide
      simp [List.dropWhile, this, ha]
    unfold strip
    rw [e1]
    cases hrev : (a :: t).reverse with
    | nil => simp at hrev
    | cons b r' =>
      have hy : a :: t = r'.reverse ++ [b] := by
        have := congrArg List.reverse hrev
        simpa using this
      have hb := h2 _ _ hy
      have e2 : (a :: t ++ [10]).reverse = 10 :: b :: r' := by
        rw [List.reverse_append, hrev]; rfl
      rw [e2]
      have : isWs 10 = true := by decide
      simp only [List.dropWhile, this, hb]
      rw [← hrev]; simp

/-- no whitespace byte at all -/
def noWs (x : Bytes) : Bool := x.all fun c => !isWs c

theorem strip_pad_noWs (y : Bytes) (h : noWs y = true) : strip (32 :: (y ++ [10])) = y := by
  unfold noWs at h
  rw [List.all_eq_true] at h
  apply strip_pad
  · intro a t e; have := h a (by simp [e]); simpa using this
  · intro t b e; have := h b (by simp [e]); simpa using this

theorem rstripNl_line (l : Bytes) (h : 10 ∉ l) : rstripNl (l ++ [10]) = l := by
  unfold rstripNl
  rw [List.reverse_append]
  simp only [List.reverse_cons, List.reverse_nil, List.nil_append, List.singleton_append,
    List.dropWhile, decide_true, if_true]
  cases hr : l.reverse with
  | nil =>
    have : l = [] := by simpa using hr
    simp [this]
  | cons b r =>
    have hb : b ≠ 10 := by
      intro e
      have : b ∈ l := by
        have : b ∈ l.reverse := by rw [hr]; simp
        simpa using this
      exact h (e ▸ this)
    simp only [List.dropWhile, hb, decide_false]
    rw [← hr]; simp

/-! ### one line of the parser -/

theorem splitColon_kv (k v : Bytes) (h : 58 ∉ k) : splitColon (k ++ 58 :: v) = some (k, v) := by
  simp [splitColon, split1_nosep 58 k v h]

theorem parseLine_rid (acc : Supp) (r : Bytes) (h : noWs r = true) :
    parseLine acc (bs "revision-id: " ++ r ++ [10]) = some { acc with revisionId := some r } := by
  have e : bs "revision-id: " ++ r ++ [10] = bs "revision-id" ++ 58 :: (32 :: (r ++ [10])) := by
    have : bs "revision-id: " = bs "revision-id" ++ [58, 32] := by decide
    rw [this]; simp
  rw [e]
  unfold parseLine
  rw [splitColon_kv _ _ (by decide)]
  simp [strip_pad_noWs r h]

theorem parseLine_test (acc : Supp) (v : Bytes) (h : noWs v = true) :
    parseLine acc (bs "testament3-sha1: " ++ v ++ [10]) = some { acc with testament := some v } := by
  have e : bs "testament3-sha1: " ++ v ++ [10] = bs "testament3-sha1" ++ 58 :: (32 :: (v ++ [10])) := by
    have : bs "testament3-sha1: " = bs "testament3-sha1" ++ [58, 32] := by decide
    rw [this]; simp
  rw [e]
  unfold parseLine
  rw [splitColon_kv _ _ (by decide)]
  have n1 : bs "testament3-sha1" ≠ bs "revision-id" := by decide
  have n2 : bs "testament3-sha1" ≠ bs "parent-ids" := by decide
  simp [n1, n2, strip_pad_noWs v h]

/-- a revision id / sha: non-empty, no whitespace -/
def cleanId (x : Bytes) : Bool := decide (x ≠ []) && noWs x

theorem noWs_nosp {x : Bytes} (h : noWs x = true) : 32 ∉ x := by
  intro hm
  unfold noWs at h
  have := (List.all_eq_true.mp h) 32 hm
  exact absurd this (by decide)

theorem noWs_nonl {x : Bytes} (h : noWs x = true) : 10 ∉ x := by
  intro hm
  unfold noWs at h
  have := (List.all_eq_true.mp h) 10 hm
  exact absurd this (by decide)

theorem joinSep_head (sep a : UInt8) (t : Bytes) (r : List Bytes) :
    ∃ t', joinSep sep ((a :: t) :: r) = a :: t' := by
  cases r with
  | nil => exact ⟨t, rfl⟩
  | cons y r => exact ⟨t ++ sep :: joinSep sep (y :: r), by simp [joinSep]⟩

theorem joinSep_last (sep : UInt8) : ∀ (l : List Bytes) (x : Bytes) (b : UInt8),
    ∃ t', joinSep sep (l ++ [x ++ [b]]) = t' ++ [b]
  | [], x, b => ⟨x, by simp [joinSep]⟩
  | [y], x, b => ⟨y ++ sep :: x, by simp [joinSep]⟩
  | y :: z :: l, x, b => by
    obtain ⟨t', ht⟩ := joinSep_last sep (z :: l) x b
    refine ⟨y ++ sep :: t', ?_⟩
    have : (y :: z :: l) ++ [x ++ [b]] = y :: (z :: l ++ [x ++ [b]]) := rfl
    rw [this]
    cases hl : z :: l ++ [x ++ [b]] with
    | nil => simp at hl
    | cons c cs =>
      rw [hl] at ht
      simp [joinSep, ht]

theorem mem_joinSep {sep c : UInt8} : ∀ {l : List Bytes}, c ∈ joinSep sep l → c = sep ∨ ∃ x ∈ l, c ∈ x
  | [], h => by simp [joinSep] at h
  | [x], h => Or.inr ⟨x, by simp, by simpa [joinSep] using h⟩
  | x :: y :: r, h => by
    simp only [joinSep, List.mem_append, List.mem_cons] at h
    rcases h with h | h | h
    · exact Or.inr ⟨x, by simp, h⟩
    · exact Or.inl h
    · rcases mem_joinSep h with h' | ⟨z, hz, hcz⟩
      · exact Or.inl h'
      · exact Or.inr ⟨z, List.mem_cons_of_mem _ hz, hcz⟩

theorem parseLine_pids (acc : Supp) (ids : List Bytes) (hne : ids ≠ [])
    (h : ∀ x ∈ ids, cleanId x = true) :
    parseLine acc (bs "parent-ids: " ++ joinSep 32 ids ++ [10]) = some { acc with parentIds := some ids } := by
  have e : bs "parent-ids: " ++ joinSep 32 ids ++ [10] =
      bs "parent-ids" ++ 58 :: (32 :: (joinSep 32 ids ++ [10])) := by
    have : bs "parent-ids: " = bs "parent-ids" ++ [58, 32] := by decide
    rw [this]; simp
  rw [e]
  unfold parseLine
  rw [splitColon_kv _ _ (by decide)]
  have n1 : bs "parent-ids" ≠ bs "revision-id" := by decide
  have hc : ∀ x ∈ ids, x ≠ [] ∧ noWs x = true := by
    intro x hx
    have := h x hx
    simpa [cleanId] using this
  have hstrip : strip (32 :: (joinSep 32 ids ++ [10])) = joinSep 32 ids := by
    apply strip_pad
    · intro a t ha
      -- the first byte of the join is the first byte of the first id
      obtain ⟨i1, rest, rfl⟩ := List.exists_cons_of_ne_nil hne
      obtain ⟨hi1, hw⟩ := hc i1 (by simp)
      obtain ⟨a', t1, rfl⟩ := List.exists_cons_of_ne_nil hi1
      obtain ⟨t', ht'⟩ := joinSep_head 32 a' t1 rest
      rw [ht'] at ha
      cases ha
      have := (List.all_eq_true.mp hw) a (by simp)
      simpa using this
    · intro t b hb
      obtain ⟨init, il, rfl⟩ : ∃ init il, ids = init ++ [il] :=
        ⟨ids.dropLast, ids.getLast hne, (List.dropLast_concat_getLast hne).symm⟩
      obtain ⟨hil, hw⟩ := hc il (by simp)
      obtain ⟨x, b', rfl⟩ : ∃ x b', il = x ++ [b'] :=
        ⟨il.dropLast, il.getLast hil, (List.dropLast_concat_getLast hil).symm⟩
      obtain ⟨t', ht'⟩ := joinSep_last 32 init x b'
      rw [ht'] at hb
      have : b = b' := by
        have := congrArg List.getLast? hb
        simpa using this.symm
      subst this
      have := (List.all_eq_true.mp hw) b (by simp)
      simpa using this
  simp only [n1, if_false, if_true, hstrip]
  rw [splitSep_join 32 ids hne (fun x hx => noWs_nosp (hc x hx).2)]

/-- a property name: no `:` and no newline -/
def cleanKey (k : Bytes) : Bool := !k.contains 58 && !k.contains 10

theorem propKey_facts (k : Bytes) (hk : cleanKey k = true) :
    58 ∉ propPrefix ++ k ∧ propPrefix ++ k ≠ bs "revision-id" ∧ propPrefix ++ k ≠ bs "parent-ids" ∧
    propPrefix ++ k ≠ bs "testament3-sha1" ∧ propPrefix.isPrefixOf (propPrefix ++ k) = true ∧
    (propPrefix ++ k).drop propPrefix.length = k := by
  simp only [cleanKey, Bool.and_eq_true, Bool.not_eq_true', List.contains_eq_mem,
    decide_eq_false_iff_not] at hk
  have hp : (58 : UInt8) ∉ propPrefix := by decide
  refine ⟨by simp [hp, hk.1], ?_, ?_, ?_, by simp, by simp⟩
  · intro e
    have := congrArg (List.take 1) e
    revert this; simp [propPrefix, bs]
  · intro e
    have := congrArg (List.take 2) e
    revert this; simp [propPrefix, bs]
  · intro e
    have := congrArg (List.take 1) e
    revert this; simp [propPrefix, bs]

theorem parseLine_prop (acc : Supp) (k l : Bytes) (hk : cleanKey k = true) (hl : 10 ∉ l) :
    parseLine acc (bs "property-" ++ k ++ bs ": " ++ l ++ [10]) =
      some { acc with props := addProp acc.props k l } := by
  obtain ⟨h58, n1, n2, n3, hpre, hdrop⟩ := propKey_facts k hk
  have e : bs "property-" ++ k ++ bs ": " ++ l ++ [10] = (propPrefix ++ k) ++ 58 :: (32 :: (l ++ [10])) := by
    have : bs ": " = [58, 32] := by decide
    rw [this]; simp [propPrefix]
  rw [e]
  unfold parseLine
  rw [splitColon_kv _ _ h58]
  simp only [n1, n2, n3, if_false, hpre, if_true, hdrop]
  have : List.drop 1 (32 :: (l ++ [10])) = l ++ [10] := rfl
  rw [this, rstripNl_line l hl]

/-! ### the property lines of one key -/

/-- `cur`, then `+= b"\n" + l` for each further line -/
def joinTail : Bytes → List Bytes → Bytes
  | cur, [] => cur
  | cur, l :: r => joinTail (cur ++ 10 :: l) r

theorem joinSep_joinTail : ∀ (r : List Bytes) (l0 : Bytes), joinSep 10 (l0 :: r) = joinTail l0 r
  | [], l0 => rfl
  | l :: r, l0 => by
    have h1 : ∀ (r : List Bytes) (a b : Bytes), joinTail (a ++ b) r = a ++ joinTail b r := by
      intro r
      induction r with
      | nil => intro a b; rfl
      | cons x r ih => intro a b; simp [joinTail, ← ih, List.append_assoc]
    simp only [joinSep, joinTail]
    rw [joinSep_joinTail r l]
    have := h1 r (l0 ++ [10]) l
    simp only [List.append_assoc, List.singleton_append] at this
    rw [this]

theorem addProp_new (P : List (Bytes × Bytes)) (k v : Bytes) (h : k ∉ P.map (·.1)) :
    addProp P k v = P ++ [(k, v)] := by
  unfold addProp
  have : P.any (fun kv => decide (kv.1 = k)) = false := by
    rw [List.any_eq_false]
    intro kv hkv
    simp only [decide_eq_true_eq]
    intro e
    exact h (List.mem_map.mpr ⟨kv, hkv, e⟩)
  simp [this]

theorem addProp_last (P : List (Bytes × Bytes)) (k cur v : Bytes) (h : k ∉ P.map (·.1)) :
    addProp (P ++ [(k, cur)]) k v = P ++ [(k, cur ++ 10 :: v)] := by
  unfold addProp
  have hany : (P ++ [(k, cur)]).any (fun kv => decide (kv.1 = k)) = true := by simp
  rw [if_pos hany]
  rw [List.map_append]
  congr 1
  · have : ∀ kv ∈ P, (if kv.1 = k then (kv.1, kv.2 ++ 10 :: v) else kv) = kv := by
      intro kv hkv
      have : kv.1 ≠ k := fun e => h (List.mem_map.mpr ⟨kv, hkv, e⟩)
      simp [this]
    calc P.map (fun kv => if kv.1 = k then (kv.1, kv.2 ++ 10 :: v) else kv)
        = P.map id := List.map_congr_left this
      _ = P := List.map_id P
  · simp

theorem fold_propTail (acc : Supp) (P : List (Bytes × Bytes)) (k : Bytes) (hk : cleanKey k = true)
    (hnew : k ∉ P.map (·.1)) : ∀ (ls : List Bytes) (cur : Bytes), (∀ l ∈ ls, (10 : UInt8) ∉ l) →
    (ls.map fun l => bs "property-" ++ k ++ bs ": " ++ l ++ [10]).foldlM parseLine
        { acc with props := P ++ [(k, cur)] } =
      some { acc with props := P ++ [(k, joinTail cur ls)] }
  | [], cur, _ => rfl
  | l :: ls, cur, h => by
    simp only [List.map_cons, List.foldlM_cons]
    rw [parseLine_prop _ k l hk (h l (by simp))]
    simp only [Option.bind_eq_bind, Option.bind_some, addProp_last P k cur l hnew]
    exact fold_propTail acc P k hk hnew ls (cur ++ 10 :: l) (fun x hx => h x (by simp [hx]))

theorem fold_propKey (acc : Supp) (k v : Bytes) (hk : cleanKey k = true)
    (hnew : k ∉ acc.props.map (·.1)) :
    ((splitSep 10 v).map fun l => bs "property-" ++ k ++ bs ": " ++ l ++ [10]).foldlM parseLine acc =
      some { acc with props := acc.props ++ [(k, v)] } := by
  cases hs : splitSep 10 v with
  | nil => exact absurd hs (splitSep_ne_nil 10 v)
  | cons l0 ls =>
    have hno : ∀ l ∈ l0 :: ls, (10 : UInt8) ∉ l := by
      intro l hl; exact splitSep_mem_nosep 10 v l (by rw [hs]; exact hl)
    simp only [List.map_cons, List.foldlM_cons]
    rw [parseLine_prop acc k l0 hk (hno l0 (by simp))]
    simp only [Option.bind_eq_bind, Option.bind_some, addProp_new acc.props k l0 hnew]
    have := fold_propTail acc acc.props k hk hnew ls l0 (fun x hx => hno x (by simp [hx]))
    rw [this]
    have hv : joinTail l0 ls = v := by
      rw [← joinSep_joinTail, ← hs, joinSep_splitSep]
    rw [hv]

theorem fold_props (acc : Supp) : ∀ (ps : List (Bytes × Bytes)) (P : List (Bytes × Bytes)),
    (∀ kv ∈ ps, cleanKey kv.1 = true) → ((P ++ ps).map (·.1)).Nodup →
    ((ps.flatMap fun kv => (splitSep 10 kv.2).map fun l => bs "property-" ++ kv.1 ++ bs ": " ++ l).map
        (· ++ [10])).foldlM parseLine { acc with props := P } =
      some { acc with props := P ++ ps }
  | [], P, _, _ => by simp
  | (k, v) :: ps, P, hk, hnd => by
    simp only [List.flatMap_cons, List.map_append, List.foldlM_append, List.map_map]
    have hnew : k ∉ P.map (·.1) := by
      intro hm
      simp only [List.map_append, List.map_cons] at hnd
      have := (List.nodup_append.mp hnd).2.2 k hm k (by simp) rfl
      exact this
    have h1 := fold_propKey { acc with props := P } k v (hk (k, v) (by simp)) hnew
    simp only [Function.comp_def] at h1 ⊢
    rw [h1]
    simp only [Option.bind_eq_bind, Option.bind_some]
    have h2 := fold_props acc ps (P ++ [(k, v)]) (fun kv hkv => hk kv (by simp [hkv]))
      (by simpa [List.append_assoc] using hnd)
    rw [h2]
    simp [List.append_assoc]

/-! ### parse ∘ generate -/

/-- the supplements `generate` / `parse` round-trip: ids without whitespace (and
non-empty), a non-empty parent tuple, property names without `:` / newline and
pairwise distinct (a dict), a verifier value without whitespace.  Property VALUES
are arbitrary bytes (multi-line, empty, trailing newlines …). -/
def WF (s : Supp) : Bool :=
  (match s.revisionId with
   | some r => cleanId r
   | none => true) &&
  (match s.parentIds with
   | some ids => decide (ids ≠ []) && ids.all cleanId
   | none => true) &&
  s.props.all (fun kv => cleanKey kv.1) && decide ((s.props.map (·.1)).Nodup) &&
  (match s.testament with
   | some v => noWs v
   | none => true)

theorem cleanId_iff {x : Bytes} : cleanId x = true ↔ x ≠ [] ∧ noWs x = true := by
  simp [cleanId]

theorem cleanKey_nonl {k : Bytes} (h : cleanKey k = true) : 10 ∉ k := by
  simp only [cleanKey, Bool.and_eq_true, Bool.not_eq_true', List.contains_eq_mem,
    decide_eq_false_iff_not] at h
  exact h.2

theorem generateLines_nonl (s : Supp) (h : WF s = true) : ∀ l ∈ generateLines s, (10 : UInt8) ∉ l := by
  obtain ⟨rid, pids, props, test⟩ := s
  simp only [WF, Bool.and_eq_true, decide_eq_true_eq, List.all_eq_true] at h
  obtain ⟨⟨⟨⟨h1, h2⟩, h3⟩, _⟩, h5⟩ := h
  intro l hl
  simp only [generateLines, List.mem_append] at hl
  rcases hl with ((hl | hl) | hl) | hl
  · cases rid with
    | none => simp [ridLines] at hl
    | some r =>
      simp only [ridLines] at h1 hl
      have hr := cleanId_iff.mp h1
      simp only [hr.1, ne_eq, not_false_eq_true, if_true, List.mem_singleton] at hl
      subst hl
      intro hm
      rcases List.mem_append.mp hm with hm | hm
      · exact absurd hm (by decide)
      · exact noWs_nonl hr.2 hm
  · cases pids with
    | none => simp [pidLines] at hl
    | some ids =>
      simp only [pidLines, Bool.and_eq_true, decide_eq_true_eq, List.all_eq_true] at h2 hl
      simp only [h2.1, ne_eq, not_false_eq_true, if_true, List.mem_singleton] at hl
      subst hl
      intro hm
      rcases List.mem_append.mp hm with hm | hm
      · exact absurd hm (by decide)
      · rcases mem_joinSep hm with e | ⟨x, hx, hcx⟩
        · exact absurd e (by decide)
        · exact noWs_nonl (cleanId_iff.mp (h2.2 x hx)).2 hcx
  · unfold propLines at hl
    obtain ⟨kv, hkv, hl⟩ := List.mem_flatMap.mp hl
    obtain ⟨l', hl', rfl⟩ := List.mem_map.mp hl
    intro hm
    simp only [List.mem_append] at hm
    rcases hm with ((hm | hm) | hm) | hm
    · exact absurd hm (by decide)
    · exact cleanKey_nonl (h3 kv hkv) hm
    · exact absurd hm (by decide)
    · exact splitSep_mem_nosep 10 kv.2 l' hl' hm
  · cases test with
    | none => simp [testLines] at hl
    | some v =>
      simp only [testLines, List.mem_singleton] at hl
      subst hl
      intro hm
      rcases List.mem_append.mp hm with hm | hm
      · exact absurd hm (by decide)
      · exact noWs_nonl h5 hm

/-- **`parse_roundtripping_metadata(generate_roundtripping_metadata(s)) == s`** for
every well-formed supplement -/
theorem parse_generate_wf (s : Supp) (h : WF s = true) : parseMeta (generate s) = some s := by
  unfold parseMeta generate
  rw [readlines_lines _ (generateLines_nonl s h)]
  obtain ⟨rid, pids, props, test⟩ := s
  simp only [WF, Bool.and_eq_true, decide_eq_true_eq, List.all_eq_true] at h
  obtain ⟨⟨⟨⟨h1, h2⟩, h3⟩, h4⟩, h5⟩ := h
  simp only [generateLines, List.map_append, List.foldlM_append]
  -- group 1: revision-id
  have g1 : ((ridLines rid).map (· ++ [10])).foldlM parseLine emptySupp =
      some { emptySupp with revisionId := rid } := by
    cases rid with
    | none => rfl
    | some r =>
      have hr := cleanId_iff.mp h1
      simp only [ridLines, hr.1, ne_eq, not_false_eq_true, if_true, List.map_cons, List.map_nil,
        List.foldlM_cons, List.foldlM_nil]
      rw [parseLine_rid _ r hr.2]; rfl
  rw [g1]
  simp only [Option.bind_eq_bind, Option.bind_some]
  -- group 2: parent-ids
  have g2 : ∀ acc : Supp, acc.parentIds = none →
      ((pidLines pids).map (· ++ [10])).foldlM parseLine acc = some { acc with parentIds := pids } := by
    intro acc hacc
    cases pids with
    | none => cases acc; simp_all [pidLines]
    | some ids =>
      simp only [Bool.and_eq_true, decide_eq_true_eq, List.all_eq_true] at h2
      simp only [pidLines, h2.1, ne_eq, not_false_eq_true, if_true, List.map_cons, List.map_nil,
        List.foldlM_cons, List.foldlM_nil]
      rw [parseLine_pids _ ids h2.1 h2.2]; rfl
  rw [g2 _ rfl]
  simp only [Option.bind_some]
  -- group 3: properties
  have g3 : ∀ acc : Supp, acc.props = [] →
      ((propLines props).map (· ++ [10])).foldlM parseLine acc = some { acc with props := props } := by
    intro acc hp
    have := fold_props acc props [] h3 (by simpa using h4)
    have e : ({ acc with props := [] } : Supp) = acc := by cases acc; simp_all
    rw [e] at this
    simpa [propLines] using this
  rw [g3 _ rfl]
  simp only [Option.bind_some]
  -- group 4: testament
  cases test with
  | none => rfl
  | some v =>
    simp only [testLines, List.map_cons, List.map_nil, List.foldlM_cons, List.foldlM_nil]
    rw [parseLine_test _ v h5]
    rfl

/-! ### extract ∘ inject -/

/-- the marker `\n--BZR--\n` does not start inside the message (once the block is appended) -/
def noEarlyMarker (m rest : Bytes) : Bool :=
  (List.range m.length).all fun i => !marker.isPrefixOf (m.drop i ++ marker ++ rest)

/-- the marker does not occur in the message -/
def noMarkerIn (m : Bytes) : Bool :=
  (List.range m.length).all fun i => !marker.isPrefixOf (m.drop i)

theorem splitOnce_first : ∀ (m rest : Bytes),
    (∀ i, i < m.length → marker.isPrefixOf (m.drop i ++ marker ++ rest) = false) →
    splitOnce marker (m ++ marker ++ rest) = some (m, rest)
  | [], rest, _ => by
    have hm : marker = 10 :: bs "--BZR--\n" := by decide
    have hp : marker.isPrefixOf (marker ++ rest) = true := by
      rw [List.isPrefixOf_iff_prefix]; exact List.prefix_append _ _
    have hd : (marker ++ rest).drop marker.length = rest := by simp
    simp only [List.nil_append]
    conv => lhs; rw [show marker ++ rest = 10 :: (bs "--BZR--\n" ++ rest) by rw [hm]; rfl]
    unfold splitOnce
    rw [show (10 : UInt8) :: (bs "--BZR--\n" ++ rest) = marker ++ rest by rw [hm]; rfl]
    simp [hp, hd]
  | x :: m, rest, h => by
    have h0 := h 0 (by simp)
    simp only [List.drop_zero] at h0
    have hrec := splitOnce_first m rest (fun i hi => by
      have := h (i + 1) (by simpa using hi)
      simpa using this)
    show splitOnce marker (x :: (m ++ marker ++ rest)) = _
    unfold splitOnce
    have h0' : marker.isPrefixOf (x :: (m ++ marker ++ rest)) = false := by simpa using h0
    simp only [h0', Bool.false_eq_true, if_false]
    have e : m ++ marker ++ rest = m ++ marker ++ rest := rfl
    rw [show (m ++ marker ++ rest) = m ++ marker ++ rest from rfl, hrec]
    rfl

theorem splitOnce_none : ∀ (m : Bytes), (∀ i, i < m.length → marker.isPrefixOf (m.drop i) = false) →
    splitOnce marker m = none
  | [], _ => rfl
  | x :: m, h => by
    have h0 := h 0 (by simp)
    simp only [List.drop_zero] at h0
    unfold splitOnce
    simp only [h0, Bool.false_eq_true, if_false]
    rw [splitOnce_none m (fun i hi => by
      have := h (i + 1) (by simpa using hi)
      simpa using this)]
    rfl

/-- **`extract_bzr_metadata(inject_bzr_metadata(m, s)) == (m, s)`** for every
well-formed supplement and every message in which the marker does not occur
early; an empty supplement leaves the message alone and reads back as `None` -/
theorem extract_inject_wf (m : Bytes) (s : Supp) (hwf : WF s = true) :
    (generate s ≠ [] → noEarlyMarker m (generate s) = true →
      extractMeta (injectMeta m (some s)) = some (m, some s)) ∧
    (generate s = [] → noMarkerIn m = true → extractMeta (injectMeta m (some s)) = some (m, none)) := by
  constructor
  · intro hne hm
    unfold injectMeta extractMeta
    simp only [hne, if_false]
    rw [splitOnce_first m (generate s) (by
      intro i hi
      unfold noEarlyMarker at hm
      have := (List.all_eq_true.mp hm) i (List.mem_range.mpr hi)
      simpa using this)]
    simp [parse_generate_wf s hwf]
  · intro he hm
    unfold injectMeta extractMeta
    simp only [he, if_true]
    rw [splitOnce_none m (by
      intro i hi
      unfold noMarkerIn at hm
      have := (List.all_eq_true.mp hm) i (List.mem_range.mpr hi)
      simpa using this)]

end BreezyVerif.C34
