import BreezyVerif.Model.C37
import BreezyVerif.Lemmas.C37
import BreezyVerif.Lemmas.C37B
/-!
C37 — conditional git ref updates: theorems.  All statements are for every
store (any number of loose / packed / symbolic refs), every name and every
value; the two-updater statements are for every pair of updaters.
-/
namespace BreezyVerif.C37

/-! ### set_if_equals -/

/-- `set_if_equals` succeeds exactly when no expected value is given or the ref
that is compared — the end of the symref chain; loose value, else packed value,
else `ZERO_SHA` — currently holds it -/
theorem cas_success_iff (s : Store) (n : Nat) (old : Option Nat) (new : Nat) :
    (setIfEquals s n old new).1 = true ↔
      (old = none ∨ ∃ o, old = some o ∧ current s (realName s n) = .sha o) := by
  unfold setIfEquals
  cases old with
  | none => simp
  | some o =>
    by_cases h : current s (realName s n) = .sha o
    · simp [h]
    · simp [h]

/-- … and otherwise reports failure and leaves the store unchanged -/
theorem cas_fail_unchanged (s : Store) (n : Nat) (old : Option Nat) (new : Nat)
    (h : (setIfEquals s n old new).1 = false) : (setIfEquals s n old new).2 = s := by
  unfold setIfEquals at h ⊢
  cases old with
  | none => simp at h
  | some o =>
    by_cases hc : current s (realName s n) = .sha o
    · simp [hc] at h
    · simp [hc]

/-- a successful `set_if_equals` writes the new value to the real name and
changes no other ref (loose or packed) -/
theorem cas_success_writes (s : Store) (n : Nat) (old : Option Nat) (new : Nat)
    (h : (setIfEquals s n old new).1 = true) :
    readRef (setIfEquals s n old new).2 (realName s n) = some (.sha new) ∧
      (∀ m, m ≠ realName s n → readRef (setIfEquals s n old new).2 m = readRef s m) ∧
      (setIfEquals s n old new).2.packed = s.packed := by
  have hs : (setIfEquals s n old new).2 = write s (realName s n) new := by
    unfold setIfEquals at h ⊢
    cases old with
    | none => rfl
    | some o =>
      by_cases hc : current s (realName s n) = .sha o
      · simp [hc]
      · simp [hc] at h
  rw [hs]
  exact ⟨readRef_write_same _ _ _, fun m hm => readRef_write_other _ _ _ _ hm, rfl⟩

/-- after a successful `set_if_equals` the name resolves (through its symbolic
refs) to the new value, for every chain within the symref depth limit -/
theorem cas_success_resolves (s : Store) (n : Nat) (old : Option Nat) (new : Nat)
    (names : List Nat) (res : Option Nat) (hf : follow s n = some (names, res)) (hlen : names.length ≤ 5)
    (h : (setIfEquals s n old new).1 = true) :
    resolve (setIfEquals s n old new).2 n = some new := by
  obtain ⟨r, hr, _, _⟩ := followAux_last s 5 n [] names res hf
  have hreal : realName s n = r := by simp [realName, hf, hr]
  have hs : (setIfEquals s n old new).2 = write s r new := by
    unfold setIfEquals at h ⊢
    rw [hreal] at h ⊢
    cases old with
    | none => rfl
    | some o =>
      by_cases hc : current s r = .sha o
      · simp [hc]
      · simp [hc] at h
  rw [hs]
  unfold resolve follow
  rw [followAux_write s 5 n [] names res r new hf hr (by simpa using hlen)]

example : follow ⟨[(0, .sym 1)], [(1, 7)]⟩ 0 = some ([0, 1], some 7) ∧
    setIfEquals ⟨[(0, .sym 1)], [(1, 7)]⟩ 0 (some 7) 8 = (true, ⟨[(0, .sym 1), (1, .sha 8)], [(1, 7)]⟩) ∧
    setIfEquals ⟨[(0, .sym 1)], [(1, 7)]⟩ 0 (some 6) 8 = (false, ⟨[(0, .sym 1)], [(1, 7)]⟩) := by decide

/-- the condition in the property's own words: when the symref chain of the name
can be followed, a conditional `set_if_equals` succeeds exactly when the expected
value is what the name currently resolves to (`ZERO_SHA` for a name that
resolves to nothing) -/
theorem cas_success_iff_resolve (s : Store) (n o new : Nat) (names : List Nat) (res : Option Nat)
    (hf : follow s n = some (names, res)) :
    (setIfEquals s n (some o) new).1 = true ↔ o = (match resolve s n with | some x => x | none => 0) := by
  obtain ⟨r, hr, hterm, _⟩ := followAux_last s 5 n [] names res hf
  have hreal : realName s n = r := by simp [realName, hf, hr]
  have hres : resolve s n = res := by simp [resolve, hf]
  have hcur := current_eq_readRef s r
  rw [cas_success_iff, hreal, hres]
  cases res with
  | none =>
    simp only [Option.map_none] at hterm
    simp only [hterm] at hcur
    simp [hcur, eq_comm]
  | some x =>
    simp only [Option.map_some] at hterm
    simp only [hterm] at hcur
    simp [hcur, eq_comm]

example : follow ⟨[(0, .sym 1)], [(1, 7)]⟩ 0 = some ([0, 1], some 7) ∧
    (setIfEquals ⟨[(0, .sym 1)], [(1, 7)]⟩ 0 (some 7) 8).1 = true ∧
    follow ⟨[(0, .sym 1)], []⟩ 0 = some ([0, 1], none) ∧
    (setIfEquals ⟨[(0, .sym 1)], []⟩ 0 (some 0) 8).1 = true ∧
    (setIfEquals ⟨[(0, .sym 1)], []⟩ 0 (some 7) 8).1 = false := by decide

/-- when the chain cannot be followed (a symref loop, or more than five links)
the name does not resolve and EVERY conditional `set_if_equals` fails: the
name that is compared is the symbolic ref itself, which holds no SHA -/
theorem cas_loop_fails (s : Store) (n o new : Nat) (hf : follow s n = none) :
    setIfEquals s n (some o) new = (false, s) ∧ resolve s n = none := by
  obtain ⟨t, ht⟩ := follow_none_sym s n hf
  have hreal : realName s n = n := by simp [realName, hf]
  have hcur : current s n = .sym t := by simp [current, ht]
  refine ⟨?_, by simp [resolve, hf]⟩
  unfold setIfEquals
  simp [hreal, hcur]

example : follow ⟨[(0, .sym 1), (1, .sym 0)], []⟩ 0 = none := by decide

/-! ### remove_if_equals -/

theorem remove_cas_success_iff (s : Store) (n : Nat) (old : Option Nat) :
    (removeIfEquals s n old).1 = true ↔ (old = none ∨ ∃ o, old = some o ∧ current s n = .sha o) := by
  unfold removeIfEquals
  cases old with
  | none => simp
  | some o =>
    by_cases h : current s n = .sha o
    · simp [h]
    · simp [h]

theorem remove_cas_fail_unchanged (s : Store) (n : Nat) (old : Option Nat)
    (h : (removeIfEquals s n old).1 = false) : (removeIfEquals s n old).2 = s := by
  unfold removeIfEquals at h ⊢
  cases old with
  | none => simp at h
  | some o =>
    by_cases hc : current s n = .sha o
    · simp [hc] at h
    · simp [hc]

/-- a successful removal makes the name absent (loose and packed) and changes no other ref -/
theorem remove_cas_success_removes (s : Store) (n : Nat) (old : Option Nat)
    (h : (removeIfEquals s n old).1 = true) :
    readRef (removeIfEquals s n old).2 n = none ∧
      (∀ m, m ≠ n → readRef (removeIfEquals s n old).2 m = readRef s m) := by
  have hs : (removeIfEquals s n old).2 = del s n := by
    unfold removeIfEquals at h ⊢
    cases old with
    | none => rfl
    | some o =>
      by_cases hc : current s n = .sha o
      · simp [hc]
      · simp [hc] at h
  rw [hs]
  exact ⟨readRef_del_same _ _, fun m hm => readRef_del_other _ _ _ hm⟩

/-! ### add_if_new -/

/-- `add_if_new` never changes a ref that exists -/
theorem add_if_new_never_overwrites (s s' : Store) (n v : Nat) (b : Bool) (h : addIfNew s n v = some (b, s'))
    (m : Nat) (x : Val) (hx : readRef s m = some x) : readRef s' m = some x := by
  unfold addIfNew at h
  cases hf : follow s n with
  | none => simp [hf] at h
  | some p =>
    obtain ⟨names, contents⟩ := p
    simp only [hf] at h
    cases contents with
    | some c =>
      simp only [Option.some.injEq, Prod.mk.injEq] at h
      rw [← h.2]; exact hx
    | none =>
      simp only [Option.some.injEq, Prod.mk.injEq] at h
      obtain ⟨r, hr, hterm, _⟩ := followAux_last s 5 n [] names none hf
      simp only [hr] at h
      rw [← h.2]
      have hne : m ≠ r := by
        intro e; subst e
        rw [hx] at hterm; simp at hterm
      rw [readRef_write_other _ _ _ _ hne]; exact hx

/-- it adds exactly when the name resolves to nothing -/
theorem add_if_new_success_iff (s s' : Store) (n v : Nat) (b : Bool) (h : addIfNew s n v = some (b, s')) :
    b = true ↔ resolve s n = none := by
  unfold addIfNew at h
  unfold resolve
  cases hf : follow s n with
  | none => simp [hf] at h
  | some p =>
    obtain ⟨names, contents⟩ := p
    simp only [hf] at h
    cases contents with
    | some c =>
      simp only [Option.some.injEq, Prod.mk.injEq] at h
      simp [← h.1]
    | none =>
      simp only [Option.some.injEq, Prod.mk.injEq] at h
      simp [← h.1]

/-! ### two updaters -/

/-- with the read and write phases of an updater executed together (as under a
per-ref lock) an updater — `set_if_equals`, `add_if_new` or `remove_if_equals` —
is one atomic operation of the specification -/
theorem cas_linearizable_under_lock (s : Store) (u : Upd) :
    let r1 := stepUpd s u .idle
    let r2 := stepUpd r1.1 u r1.2
    r2 = specUpd s u := fin_eq_spec s u

/-- consequently the schedules that do not split an updater give a sequential order -/
theorem cas_atomic_schedules (s : Store) (a b : Upd) :
    runSched a b [false, false, true, true] (s, .idle, .idle) =
      (let ra := specUpd s a
       let rb := specUpd ra.1 b
       (rb.1, ra.2, rb.2)) ∧
    runSched a b [true, true, false, false] (s, .idle, .idle) =
      (let rb := specUpd s b
       let ra := specUpd rb.1 a
       (ra.1, ra.2, rb.2)) := by
  simp only [← fin_eq_spec]
  exact ⟨rfl, rfl⟩

/-- EVERY schedule (any list of moves, any length, any two updaters of any kind,
any store): once both updaters have finished, the outcome is that of one of the
two sequential orders of the atomic operations, or — only when both read phases
decided to write on the initial store — one of the two raced outcomes in which
both writes are applied on top of each other and both report success -/
theorem sched_classification (s : Store) (a b : Upd) (l : List Bool) :
    let st := runSched a b l (s, .idle, .idle)
    st.2.1.finished = true → st.2.2.finished = true →
      st = (let ra := specUpd s a; let rb := specUpd ra.1 b; (rb.1, ra.2, rb.2)) ∨
      st = (let rb := specUpd s b; let ra := specUpd rb.1 a; (ra.1, ra.2, rb.2)) ∨
      ((readPhase s a).pending = true ∧ (readPhase s b).pending = true ∧
        (st = ((stepUpd (stepUpd s a (readPhase s a)).1 b (readPhase s b)).1, .done true, .done true) ∨
         st = ((stepUpd (stepUpd s b (readPhase s b)).1 a (readPhase s a)).1, .done true, .done true))) := by
  intro st ha hb
  have h := reach_finished s a b st (reach_run s a b l _ .i00) ha hb
  simp only [seqAB, seqBA, fin_eq_spec] at h
  rcases h with h | h | ⟨hpa, hpb, h⟩
  · exact Or.inl h
  · exact Or.inr (Or.inl h)
  · refine Or.inr (Or.inr ⟨hpa, hpb, ?_⟩)
    have ea : (fin s a).2 = .done true := step_pending s a _ hpa
    have eb : (fin s b).2 = .done true := step_pending s b _ hpb
    rcases h with h | h
    · left
      rw [h, racedAB, ea, step_pending _ b _ hpb]
      rfl
    · right
      rw [h, racedBA, eb, step_pending _ a _ hpa]
      rfl

/-- every schedule that gives each updater at least two moves finishes both, so
`sched_classification` covers all complete schedules -/
theorem sched_complete (s : Store) (a b : Upd) (l : List Bool)
    (hA : 2 ≤ l.count false) (hB : 2 ≤ l.count true) :
    (runSched a b l (s, .idle, .idle)).2.1.finished = true ∧
      (runSched a b l (s, .idle, .idle)).2.2.finished = true := by
  have h1 : min 2 (0 + l.count false) ≤ (runSched a b l (s, .idle, .idle)).2.1.prog :=
    (prog_run a b l (s, .idle, .idle)).1
  have h2 : min 2 (0 + l.count true) ≤ (runSched a b l (s, .idle, .idle)).2.2.prog :=
    (prog_run a b l (s, .idle, .idle)).2
  exact ⟨(prog_finished _).2 (by omega), (prog_finished _).2 (by omega)⟩

example : ([false, true, false, true] : List Bool).count false = 2 ∧
    ([false, true, false, true] : List Bool).count true = 2 := by decide

/-- two atomic compare-and-swaps expecting the same old value cannot both
succeed (the second sees the first one's value), for every chain within the
symref depth limit or failing to resolve -/
theorem cas_atomic_second_fails (s : Store) (n o a b : Nat) (ha : a ≠ o)
    (hchain : follow s n = none ∨ ∃ names res, follow s n = some (names, res) ∧ names.length ≤ 5)
    (h1 : (setIfEquals s n (some o) a).1 = true) :
    (setIfEquals (setIfEquals s n (some o) a).2 n (some o) b).1 = false := by
  have hs : (setIfEquals s n (some o) a).2 = write s (realName s n) a := by
    unfold setIfEquals at h1 ⊢
    by_cases hc : current s (realName s n) = .sha o
    · simp [hc]
    · simp [hc] at h1
  rw [hs]
  have hreal : realName (write s (realName s n) a) n = realName s n := by
    rcases hchain with hf | ⟨names, res, hf, hlen⟩
    · have hrn : realName s n = n := by simp [realName, hf]
      rw [hrn]
      have : follow (write s n a) n = some ([n], some a) := by
        unfold follow followAux
        simp [readRef_write_same]
      simp [realName, this]
    · obtain ⟨r, hr, _, _⟩ := followAux_last s 5 n [] names res hf
      have hrn : realName s n = r := by simp [realName, hf, hr]
      rw [hrn]
      have := followAux_write s 5 n [] names res r a hf hr (by simpa using hlen)
      simp [realName, follow, this, hr]
  unfold setIfEquals
  simp only [hreal, current_write_same]
  simp [ha]

example : follow ⟨[(1, .sha 7)], []⟩ 1 = some ([1], some 7) ∧ (8 : Nat) ≠ 7 ∧
    (setIfEquals ⟨[(1, .sha 7)], []⟩ 1 (some 7) 8).1 = true := by decide

/-- without a lock a lost update is reachable: both updaters compare, then both
write; both report success and the first write is lost, which no sequential
order of two compare-and-swaps produces -/
theorem cas_race_witness :
    let s : Store := ⟨[(1, .sha 7)], []⟩
    let a : Upd := ⟨.set, 1, 7, 8⟩
    let b : Upd := ⟨.set, 1, 7, 9⟩
    runSched a b [false, true, false, true] (s, .idle, .idle) = (⟨[(1, .sha 9)], []⟩, .done true, .done true) ∧
      (setIfEquals (setIfEquals s 1 (some 7) 8).2 1 (some 7) 9).1 = false ∧
      (setIfEquals (setIfEquals s 1 (some 7) 9).2 1 (some 7) 8).1 = false := by decide

/-- the same race for `add_if_new`: both see the ref absent, both write, the
second overwrites the ref the first one created (so unlocked, "never overwrites"
fails), and for a compare-and-delete against a compare-and-swap: the delete
removes a value it never compared with -/
theorem add_remove_race_witness :
    (let s : Store := ⟨[], []⟩
     let a : Upd := ⟨.add, 1, 0, 8⟩
     let b : Upd := ⟨.add, 1, 0, 9⟩
     runSched a b [false, true, false, true] (s, .idle, .idle) = (⟨[(1, .sha 9)], []⟩, .done true, .done true) ∧
       (specUpd (specUpd s a).1 b) = (⟨[(1, .sha 8)], []⟩, .done false)) ∧
    (let s : Store := ⟨[(1, .sha 7)], []⟩
     let a : Upd := ⟨.set, 1, 7, 8⟩
     let b : Upd := ⟨.rm, 1, 7, 0⟩
     runSched a b [false, true, false, true] (s, .idle, .idle) = (⟨[], []⟩, .done true, .done true) ∧
       (specUpd (specUpd s a).1 b) = (⟨[(1, .sha 8)], []⟩, .done false) ∧
       (specUpd (specUpd s b).1 a) = (⟨[], []⟩, .done false)) := by decide

/-! ### containers with a packed-refs cache, operated one after the other -/

/-- one operation of a container whose packed-refs cache is unloaded or equal to
the packed-refs file IS the compare-and-swap specification (result and
transport afterwards), and the cache is coherent again afterwards -/
theorem container_coherent_is_cas (c : Cache) (s : Store) (op : Op) (h : coherent c s = true) :
    (stepC c s op).1 = (specStep s op).1 ∧ (stepC c s op).2.1 = (specStep s op).2 ∧
      ((∀ n, op ≠ .pack n) → coherent (stepC c s op).2.2 (stepC c s op).2.1 = true) :=
  stepC_coherent c s op h

/-- any sequence of operations of two containers on one transport (and outside
repacks), in any order: if the acting container's cache is coherent before each
of its operations, all results and the final transport state are those of the
specification -/
theorem containers_coherent_is_cas_partial (l : List (Bool × Op)) (st : Store × Cache × Cache)
    (h : cohRun l st = true) :
    (runCC stepC l st).1 = (runSpec (l.map Prod.snd) st.1).1 ∧
      (runCC stepC l st).2.1 = (runSpec (l.map Prod.snd) st.1).2 :=
  runCC_coherent l st h

/-- the hypothesis holds for EVERY sequence of operations of a single container
working alone on the transport (its own removals refresh its cache) … -/
theorem single_container_is_cas (l : List (Bool × Op)) (s : Store) (ca cb : Cache)
    (hl : ∀ e ∈ l, e.1 = false ∧ ∀ n, e.2 ≠ .pack n) (h : coherent ca s = true) :
    (runCC stepC l (s, ca, cb)).1 = (runSpec (l.map Prod.snd) s).1 ∧
      (runCC stepC l (s, ca, cb)).2.1 = (runSpec (l.map Prod.snd) s).2 :=
  runCC_coherent l _ (cohRun_single l s ca cb hl h)

/-- … and for every interleaved sequence of two containers as long as nothing
rewrites packed-refs (only `set_if_equals` / `add_if_new`) -/
theorem no_repack_is_cas (l : List (Bool × Op)) (s : Store) (ca cb : Cache)
    (hl : ∀ e ∈ l, e.2.keepsPacked = true) (ha : coherent ca s = true) (hb : coherent cb s = true) :
    (runCC stepC l (s, ca, cb)).1 = (runSpec (l.map Prod.snd) s).1 ∧
      (runCC stepC l (s, ca, cb)).2.1 = (runSpec (l.map Prod.snd) s).2 :=
  runCC_coherent l _ (cohRun_keepsPacked l s ca cb hl ha hb)

example : cohRun [(false, .set 1 (some 7) 8), (false, .rm 1 (some 8)), (false, .add 1 9)]
    (⟨[], [(1, 7)]⟩, some [(1, 7)], none) = true ∧
    cohRun [(false, .set 1 (some 7) 8), (true, .add 2 9), (false, .set 2 (some 9) 3)]
      (⟨[(0, .sym 1)], [(1, 7)]⟩, some [(1, 7)], none) = true := by decide

/-- the hypothesis is necessary: a container that loaded packed-refs before
another container removed the ref lets a compare-and-swap succeed against the
vanished value (the specification fails it and leaves the ref absent); a
container that loaded packed-refs before the ref was packed lets `add_if_new`
overwrite it; `remove_if_equals` deletes a value it did not compare with -/
theorem stale_cache_witness :
    (runCC stepC [(true, .rm 1 (some 7)), (false, .set 1 (some 7) 8)] (⟨[], [(1, 7)]⟩, some [(1, 7)], none)
        = ([.ok true, .ok true], ⟨[(1, .sha 8)], []⟩, some [(1, 7)], some []) ∧
      runSpec [.rm 1 (some 7), .set 1 (some 7) 8] ⟨[], [(1, 7)]⟩ = ([.ok true, .ok false], ⟨[], []⟩)) ∧
    (runCC stepC [(true, .pack 1), (false, .add 1 9)] (⟨[(1, .sha 7)], []⟩, some [], none)
        = ([.ok true, .ok true], ⟨[(1, .sha 9)], [(1, 7)]⟩, some [], none) ∧
      runSpec [.pack 1, .add 1 9] ⟨[(1, .sha 7)], []⟩ = ([.ok true, .ok false], ⟨[], [(1, 7)]⟩)) ∧
    (runCC stepC [(true, .set 1 none 5), (true, .pack 1), (false, .rm 1 (some 7))]
        (⟨[], [(1, 7)]⟩, some [(1, 7)], none)
        = ([.ok true, .ok true, .ok true], ⟨[], []⟩, some [], some [(1, 7)]) ∧
      runSpec [.set 1 none 5, .pack 1, .rm 1 (some 7)] ⟨[], [(1, 7)]⟩
        = ([.ok true, .ok true, .ok false], ⟨[], [(1, 5)]⟩)) := by
  refine ⟨⟨?_, ?_⟩, ⟨?_, ?_⟩, ?_, ?_⟩ <;> decide

/-- with the cache dropped at the start of every conditional update (`stepF`)
every sequence of operations of any containers and outside repacks, in any
order, is the specification — no hypothesis -/
theorem reload_is_cas (l : List (Bool × Op)) (st : Store × Cache × Cache) :
    (runCC stepF l st).1 = (runSpec (l.map Prod.snd) st.1).1 ∧
      (runCC stepF l st).2.1 = (runSpec (l.map Prod.snd) st.1).2 :=
  runCC_fix l st

/-- the code as found (F2) is not a compare-and-swap: with a non-matching
expected value it reports success and overwrites / deletes -/
theorem cas_legacy_witness :
    setIfEqualsLegacy ⟨[(1, .sha 7)], []⟩ 1 (some 6) 8 = (true, ⟨[(1, .sha 8)], []⟩) ∧
      setIfEquals ⟨[(1, .sha 7)], []⟩ 1 (some 6) 8 = (false, ⟨[(1, .sha 7)], []⟩) ∧
      removeIfEqualsLegacy true ⟨[(1, .sha 7)], []⟩ 1 (some 6) = (true, ⟨[], []⟩) ∧
      removeIfEquals ⟨[(1, .sha 7)], []⟩ 1 (some 6) = (false, ⟨[(1, .sha 7)], []⟩) := by decide

end BreezyVerif.C37
