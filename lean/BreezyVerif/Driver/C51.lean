import BreezyVerif.Common
import BreezyVerif.Model.C51
namespace BreezyVerif.C51
open BreezyVerif.C33

def insSorted (x : Nat) : List Nat → List Nat
  | [] => [x]
  | y :: ys => if x ≤ y then x :: y :: ys else y :: insSorted x ys

def showSet (l : List Nat) : String := joinList (((dedup l).foldr insSorted []).map toString)
def showList (l : List Nat) : String := joinList (l.map toString)

def dotList (s : String) : Option (List Nat) :=
  if s == "" then some [] else (s.splitOn ".").mapM String.toNat?

/-- `k:p.p.p` -/
def parseEntry (s : String) : Option (Key × List Key) :=
  match s.splitOn ":" with
  | [k, ps] =>
    match k.toNat?, dotList ps with
    | some k, some ps => some (k, ps)
    | _, _ => none
  | _ => none

def parsePMap (s : String) : Option PMap := (splitList s).mapM parseEntry

/-- ancestry entries `k:p.p` or `k:~` (ghost) -/
def parseAncestry (s : String) : Option (List (Key × Option (List Key))) :=
  (splitList s).mapM (fun e =>
    match e.splitOn ":" with
    | [k, ps] =>
      match k.toNat? with
      | some k => if ps == "~" then some (k, none) else (dotList ps).map (fun ps => (k, some ps))
      | none => none
    | _ => none)

/-- `off/f.f.f`: `gen k = k` for the listed fixed points, `k + off` otherwise -/
def parseGen (s : String) : Option (Key → Key) :=
  match s.splitOn "/" with
  | [off, fixed] =>
    match off.toNat?, dotList fixed with
    | some off, some fixed => some (fun k => if k ∈ fixed then k else k + off)
    | _, _ => none
  | _ => none

def showPlan (p : Plan) : String :=
  joinList (p.map (fun e => toString e.old ++ ">" ++ toString e.new ++ ":" ++ ".".intercalate (e.parents.map toString)))

/-- `old>new:p.p` -/
def parsePlan (s : String) : Option Plan :=
  (splitList s).mapM (fun e =>
    match e.splitOn ">" with
    | [o, r] =>
      match r.splitOn ":" with
      | [n, ps] =>
        match o.toNat?, n.toNat?, dotList ps with
        | some o, some n, some ps => some ⟨o, n, ps⟩
        | _, _, _ => none
      | _ => none
    | _ => none)

def hexB (b : Bytes) : String := toHex b

def parseWEntries (s : String) : Option (List WEntry) :=
  (splitList s).mapM (fun e =>
    match e.splitOn ":" with
    | [o, n, ps] =>
      match fromHex o, fromHex n, (if ps == "" then some [] else (ps.splitOn ".").mapM fromHex) with
      | some o, some n, some ps => some ⟨o, n, ps⟩
      | _, _, _ => none
    | _ => none)

def showWEntries (es : List WEntry) : String :=
  joinList (es.map (fun e => hexB e.old ++ ":" ++ hexB e.new ++ ":" ++ ".".intercalate (e.parents.map hexB)))

def WErr.toString : WErr → String
  | .unknownFormat => "E:UnknownFormatError" | .indexError => "E:IndexError" | .valueError => "E:ValueError"

def TErr.toString : TErr → String
  | .keyError => "E:KeyError" | .valueError => "E:ValueError" | .fuel => "fuel"

/--
* `todo <g> <tip> <onto>` → set
* `plan <g> <todoset> <order> <start|~> <stop|~> <onto> <skip> <gen>` → plan | error
* `rtodo <revs> <plan>` → list
* `marshal <revno> <hex revid> <wentries>` → hex
* `unmarshal <hex>` → `revno hexrevid wentries` | error
* `transpose <ancestry> <renames k:v.> <g> <gen>` → plan | error
-/
def handle : List String → String
  | ["todo", g, tip, onto] =>
    match parsePMap g, tip.toNat?, onto.toNat? with
    | some g, some tip, some onto => showSet (todoSet g tip onto)
    | _, _, _ => "bad-op"
  | ["plan", g, todoS, order, start, stop, onto, skip, gen] =>
    match parsePMap g, parseNatList todoS, parseNatList order, optNat start, optNat stop,
        onto.toNat?, parseBool skip, parseGen gen with
    | some g, some todoS, some order, some start, some stop, some onto, some skip, some gen =>
      match simplePlan g gen todoS order start stop onto skip with
      | .ok p => showPlan p
      | .error e => e.toString
    | _, _, _, _, _, _, _, _ => "bad-op"
  | ["rtodo", revs, plan] =>
    match parseNatList revs, parsePlan plan with
    | some revs, some plan => showList (rebaseTodo revs plan)
    | _, _ => "bad-op"
  | ["marshal", revno, revid, es] =>
    match revno.toNat?, fromHex revid, parseWEntries es with
    | some revno, some revid, some es => hexB (marshal ⟨revno, revid, es⟩)
    | _, _, _ => "bad-op"
  | ["unmarshal", text] =>
    match fromHex text with
    | some text =>
      match unmarshal text with
      | .ok p => toString p.revno ++ " " ++ hexB p.revid ++ " " ++ showWEntries p.entries
      | .error e => e.toString
    | none => "bad-op"
  | ["transpose", anc, renames, g, gen] =>
    match parseAncestry anc, parsePMap renames, parsePMap g, parseGen gen with
    | some anc, some renames, some g, some gen =>
      match renames.mapM (fun kv => match kv.2 with | [v] => some (kv.1, v) | _ => none) with
      | some renames =>
        let fuel := (anc.length + renames.length + 2) * (anc.length + renames.length + 2) * 4 + 16
        match transposePlan anc renames g gen fuel with
        | .ok p => showPlan p
        | .error e => e.toString
      | none => "bad-op"
    | _, _, _, _ => "bad-op"
  | _ => "bad-op"

end BreezyVerif.C51

def main : IO Unit := BreezyVerif.runDriver BreezyVerif.C51.handle
