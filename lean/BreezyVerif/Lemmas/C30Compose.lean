import BreezyVerif.Lemmas.C30Generic
import BreezyVerif.Lemmas.C30LP
/-! the five laws are preserved by the machine combinators of Model/C30.lean
(cap, guard, sequence, alternative), hold for `_get_line`, and give the EOF theorem -/
namespace BreezyVerif.C30
open BreezyVerif.C29

variable {S : Type} {M : Machine S} {wf : S → Prop}

/-- once all of `w` has been delivered (in at least one read) the message is decoded completely -/
theorem Laws.fin_of_all (L : Laws M wf) (s0 : S) (w : Bytes)
    (hfin : M.fin (M.feed s0 w) = true)
    (segs : List Bytes) (hne : segs ≠ []) (hw : segs.flatten = w) :
    M.fin (feedAll M.feed s0 segs) = true := by
  match segs, hne with
  | a :: r, _ =>
    simp only [feedAll]
    rw [feedAll_eq_of_append M.feed L.append]
    simp only [List.flatten_cons] at hw
    rw [hw]
    exact hfin

/-! ### 64 KiB cap -/

theorem Laws.cap (L : Laws M wf) (cap : Nat) (hc : 1 ≤ cap) : Laws (capMachine M cap) wf where
  append := L.append
  wf_feed := L.wf_feed
  fin_feed := L.fin_feed
  fin_stop := L.fin_stop
  hint := by
    intro s q hwf hnf hfin
    obtain ⟨h0, h1, h2⟩ := L.hint s q hwf hnf hfin
    refine ⟨h0, ?_, ?_⟩
    · show 1 ≤ min (M.nrs s) (cap : Int); omega
    · show min (M.nrs s) (cap : Int) + _ ≤ _
      have : min (M.nrs s) (cap : Int) ≤ M.nrs s := Int.min_le_left _ _
      have h2' : M.nrs s + ((M.unused (M.feed s q)).length : Int) ≤ q.length := h2
      show min (M.nrs s) (cap : Int) + ((M.unused (M.feed s q)).length : Int) ≤ q.length
      omega

/-! ### guard -/

theorem Laws.guard (L : Laws M wf) (ok : S → Bool)
    (hmono : ∀ s x, ok (M.feed s x) = true → ok s = true)
    (hfin : ∀ s x, M.fin s = true → ok (M.feed s x) = ok s) :
    Laws (guardMachine M ok) wf where
  append := L.append
  wf_feed := L.wf_feed
  fin_feed := by
    intro s x h
    simp only [guardMachine, Bool.and_eq_true] at h ⊢
    obtain ⟨h1, h2⟩ := L.fin_feed s x h.1
    exact ⟨⟨h1, by rw [hfin s x h.1]; exact h.2⟩, h2⟩
  fin_stop := by
    intro s h
    simp only [guardMachine, Bool.and_eq_true] at h
    simp [guardMachine, L.fin_stop s h.1]
  hint := by
    intro s q hwf hnf hfinq
    simp only [guardMachine, Bool.and_eq_true] at hfinq
    have hok : ok s = true := hmono s q hfinq.2
    have hnf' : M.fin s = false := by
      simp only [guardMachine, hok, Bool.and_true] at hnf
      exact hnf
    obtain ⟨h0, h1, h2⟩ := L.hint s q hwf hnf' hfinq.1
    refine ⟨by simp [guardMachine, h0, hok], ?_, ?_⟩
    · simp only [guardMachine, hok, if_true]; exact h1
    · simp only [guardMachine, hok, if_true]; exact h2

/-- a guarded decoder whose check has failed stops at once, whatever is still to come -/
theorem guard_stops {S : Type} (M : Machine S) (ok : S → Bool) (s : S) (h : ok s = false) :
    (guardMachine M ok).nrs s = 0 ∧ (guardMachine M ok).stop s = true ∧
      (guardMachine M ok).fin s = false := by
  simp [guardMachine, h]

/-! ### alternative -/

def altWf {S1 S2 : Type} (wf1 : S1 → Prop) (wf2 : S2 → Prop) : S1 ⊕ S2 → Prop
  | .inl a => wf1 a
  | .inr b => wf2 b

theorem Laws.alt {S1 S2 : Type} {M1 : Machine S1} {M2 : Machine S2} {wf1 : S1 → Prop}
    {wf2 : S2 → Prop} (L1 : Laws M1 wf1) (L2 : Laws M2 wf2) :
    Laws (altMachine M1 M2) (altWf wf1 wf2) where
  append := by
    intro s a b
    cases s with
    | inl x => simp only [altMachine]; rw [L1.append]
    | inr x => simp only [altMachine]; rw [L2.append]
  wf_feed := by
    intro s x h
    cases s with
    | inl a => exact L1.wf_feed a x h
    | inr a => exact L2.wf_feed a x h
  fin_feed := by
    intro s x h
    cases s with
    | inl a => exact L1.fin_feed a x h
    | inr a => exact L2.fin_feed a x h
  fin_stop := by
    intro s h
    cases s with
    | inl a => exact L1.fin_stop a h
    | inr a => exact L2.fin_stop a h
  hint := by
    intro s q hwf hnf hfin
    cases s with
    | inl a => exact L1.hint a q hwf hnf hfin
    | inr a => exact L2.hint a q hwf hnf hfin

/-! ### nothing to read -/

theorem nilLaws : Laws nilMachine (fun _ => True) where
  append := by intro s a b; simp [nilMachine]
  wf_feed := by intros; trivial
  fin_feed := by intro s x _; simp [nilMachine]
  fin_stop := by intro s _; rfl
  hint := by intro s q _ hnf _; simp [nilMachine] at hnf

/-! ### sequence -/

def seqWf {S1 S2 : Type} (M1 : Machine S1) (wf1 : S1 → Prop) (wf2 : S2 → Prop) : S1 ⊕ S2 → Prop
  | .inl s1 => wf1 s1 ∧ M1.fin s1 = false
  | .inr s2 => wf2 s2

theorem Laws.seq {S1 S2 : Type} {M1 : Machine S1} {M2 : Machine S2} {wf1 : S1 → Prop}
    {wf2 : S2 → Prop} (L1 : Laws M1 wf1) (L2 : Laws M2 wf2) (k : S1 → S2)
    (hk_stable : ∀ s1 x, M1.fin s1 = true → k (M1.feed s1 x) = k s1)
    (hk_wf : ∀ s1, wf1 s1 → M1.fin s1 = true → wf2 (k s1))
    (hk_unused : ∀ s1, wf1 s1 → M1.fin s1 = true → M2.fin (k s1) = true → M2.unused (k s1) = []) :
    Laws (seqMachine M1 M2 k) (seqWf M1 wf1 wf2) where
  append := by
    intro s a b
    cases s with
    | inr s2 => simp only [seqMachine]; rw [L2.append]
    | inl s1 =>
      simp only [seqMachine]
      cases hf : M1.fin (M1.feed s1 a) with
      | false =>
        simp only [Bool.false_eq_true, if_false, L1.append]
      | true =>
        obtain ⟨f2, u2⟩ := L1.fin_feed (M1.feed s1 a) b hf
        rw [L1.append] at f2 u2
        simp only [if_true, f2, u2, L2.append]
        rw [← L1.append, hk_stable _ _ hf]
  wf_feed := by
    intro s x h
    cases s with
    | inr s2 => exact L2.wf_feed s2 x h
    | inl s1 =>
      simp only [seqMachine]
      have hw := L1.wf_feed s1 x h.1
      cases hf : M1.fin (M1.feed s1 x) with
      | false => simp only [Bool.false_eq_true, if_false]; exact ⟨hw, hf⟩
      | true => simp only [if_true]; exact L2.wf_feed _ _ (hk_wf _ hw hf)
  fin_feed := by
    intro s x h
    cases s with
    | inr s2 => exact L2.fin_feed s2 x h
    | inl s1 => simp [seqMachine] at h
  fin_stop := by
    intro s h
    cases s with
    | inr s2 => exact L2.fin_stop s2 h
    | inl s1 => simp [seqMachine] at h
  hint := by
    intro s q hwf hnf hfin
    cases s with
    | inr s2 => exact L2.hint s2 q hwf hnf hfin
    | inl s1 =>
      simp only [seqMachine] at hfin ⊢
      cases hf : M1.fin (M1.feed s1 q) with
      | false => simp [hf] at hfin
      | true =>
        simp only [hf, if_true] at hfin ⊢
        obtain ⟨_, h1, h2⟩ := L1.hint s1 q hwf.1 hwf.2 hf
        refine ⟨trivial, h1, ?_⟩
        have hw1 := L1.wf_feed s1 q hwf.1
        -- the second decoder leaves unused at most what the first handed over
        have hle : (M2.unused (M2.feed (k (M1.feed s1 q)) (M1.unused (M1.feed s1 q)))).length
            ≤ (M1.unused (M1.feed s1 q)).length := by
          cases hk : M2.fin (k (M1.feed s1 q)) with
          | true =>
            rw [(L2.fin_feed _ _ hk).2, hk_unused _ hw1 hf hk]
            simp
          | false =>
            have := (L2.hint _ _ (hk_wf _ hw1 hf) hk hfin).2
            omega
        omega

/-! ### `_get_line` -/

def lineWf : Line → Prop
  | .reading buf => (10 : UInt8) ∉ buf
  | .done l _ => (10 : UInt8) ∉ l

theorem lineLaws : Laws lineMachine lineWf where
  append := by
    intro s a b
    cases s with
    | done l u => simp [lineMachine, Line.feed]
    | reading buf =>
      simp only [lineMachine, Line.feed]
      cases h : splitLine (buf ++ a) with
      | none => simp only [Line.feed, List.append_assoc]
      | some lr =>
        obtain ⟨l, r⟩ := lr
        have := splitLine_append_some b h
        rw [List.append_assoc] at this
        simp only [Line.feed, this]
  wf_feed := by
    intro s x h
    cases s with
    | done l u => exact h
    | reading buf =>
      simp only [lineMachine, Line.feed]
      cases hs : splitLine (buf ++ x) with
      | none => exact splitLine_none_notMem hs
      | some lr => exact (splitLine_some_eq hs).2
  fin_feed := by
    intro s x h
    cases s with
    | done l u => simp [lineMachine, Line.feed, Line.finished, Line.unused]
    | reading buf => simp [lineMachine, Line.finished] at h
  fin_stop := by intro s h; exact h
  hint := by
    intro s q hwf hnf hfin
    cases s with
    | done l u => simp [lineMachine, Line.finished] at hnf
    | reading buf =>
      simp only [lineMachine, Line.feed] at hfin ⊢
      cases hs : splitLine (buf ++ q) with
      | none => simp [hs, Line.finished] at hfin
      | some lr =>
        obtain ⟨l, r⟩ := lr
        have ⟨h1, h2⟩ := splitLine_append_prefix hs hwf
        refine ⟨rfl, by omega, ?_⟩
        simp only [Line.unused]
        omega

theorem lineWf_init : lineWf (.reading []) := by simp [lineWf]

/-! ### the peer closes the pipe before the end of the message -/

/-- TRUNCATED MESSAGE: from a state `s` from which `avail ++ q` would complete the message
exactly (`q ≠ []` is the part the peer never sends), under every short-read schedule
the loop reads all of `avail`, then gets EOF, and at no point reports completion. -/
theorem Laws.loop_eof (L : Laws M wf) (sched : Nat → Nat) (fuel i : Nat) (s : S)
    (avail q : Bytes) (hq : q ≠ []) (hwf : wf s)
    (hfin : M.fin (M.feed s (avail ++ q)) = true) (hun : M.unused (M.feed s (avail ++ q)) = [])
    (hfuel : avail.length < fuel) :
    ∃ s', pipeLoopEof M sched fuel i s avail = .eof s' ∧ M.stop s' = false ∧ M.fin s' = false ∧
      (s' = M.feed s avail ∨ (avail = [] ∧ s' = s)) := by
  induction fuel generalizing i s avail with
  | zero => omega
  | succ fuel ih =>
    have hne : avail ++ q ≠ [] := by simp [hq]
    have hnf := L.not_fin s (avail ++ q) hne hun
    obtain ⟨hstop, h1, h2⟩ := L.hint s (avail ++ q) hwf hnf hfin
    unfold pipeLoopEof
    simp only [hstop, Bool.false_eq_true, if_false]
    have hnb : ¬ M.nrs s ≤ 0 := by omega
    simp only [hnb, if_false]
    cases avail with
    | nil =>
      simp only [List.isEmpty_nil, if_true]
      exact ⟨s, rfl, hstop, hnf, Or.inr ⟨trivial, rfl⟩⟩
    | cons a r =>
      simp only [List.isEmpty_cons, Bool.false_eq_true, if_false]
      obtain ⟨k1, _⟩ := readSize_bounds (M.nrs s) (sched i) h1
      generalize hk : min (readSize (M.nrs s) (sched i)) (a :: r).length = k
      have hk1 : 1 ≤ k := by rw [← hk]; simp only [List.length_cons]; omega
      have hk2 : k ≤ (a :: r).length := by rw [← hk]; omega
      have hsplit : (a :: r).take k ++ (a :: r).drop k = a :: r := List.take_append_drop k _
      have hfeed : M.feed (M.feed s ((a :: r).take k)) ((a :: r).drop k ++ q) = M.feed s (a :: r ++ q) := by
        rw [L.append, ← List.append_assoc, hsplit]
      obtain ⟨s', hs', hst, hfn, hcase⟩ := ih (i + 1) (M.feed s ((a :: r).take k)) ((a :: r).drop k)
        (L.wf_feed s _ hwf) (by rw [hfeed, hfin]) (by rw [hfeed, hun])
        (by simp only [List.length_drop]; simp only [List.length_cons] at hfuel hk2 ⊢; omega)
      refine ⟨s', hs', hst, hfn, Or.inl ?_⟩
      rcases hcase with h | ⟨hd, h⟩
      · rw [h, L.append, hsplit]
      · have : (a :: r).take k = a :: r := by
          have := hsplit; rw [hd, List.append_nil] at this; exact this
        rw [h, this]

/-- the same, started after arbitrary reads `segs` of the message `w = segs.flatten ++ avail ++ q` -/
theorem Laws.eof_from_reads (L : Laws M wf) (s0 : S) (w : Bytes) (h0 : wf s0)
    (hfin : M.fin (M.feed s0 w) = true) (hun : M.unused (M.feed s0 w) = [])
    (sched : Nat → Nat) (i : Nat) (segs : List Bytes) (avail q : Bytes)
    (hw : segs.flatten ++ (avail ++ q) = w) (hq : q ≠ []) :
    ∃ s', pipeLoopEof M sched (avail.length + 1) i (feedAll M.feed s0 segs) avail = .eof s' ∧
      M.stop s' = false ∧ M.fin s' = false := by
  have hfeed : M.feed (feedAll M.feed s0 segs) (avail ++ q) = M.feed s0 w := by
    rw [L.feed_feedAll, hw]
  obtain ⟨s', h1, h2, h3, _⟩ := L.loop_eof sched (avail.length + 1) i (feedAll M.feed s0 segs) avail q hq
    (L.wf_feedAll s0 segs h0) (by rw [hfeed, hfin]) (by rw [hfeed, hun]) (by omega)
  exact ⟨s', h1, h2, h3⟩

end BreezyVerif.C30
