import BreezyVerif.Lemmas.C26
/-!
C26 — the global invariant over all interleavings, any number of lockers and any
number of breakers (user `break_lock` or `locks.steal_dead`), as long as no two
`force_break`s are between their examination of the lock and its removal at the
same time (`Excl`).  One breaker `b` (`Who b`) is the special case used by the
single-breaker theorems.
-/
namespace BreezyVerif.C26

/-- events allowed when only locker `b` may call `break_lock` -/
def Ev.breaksOnlyBy (b : Nat) : Ev → Bool
  | .start i .brk => i == b
  | _ => true

/-- the break window of a `force_break x`: from the decision to break `x` (before its own `peek`) until it
has renamed `held/` away -/
def Pc.inWindow (p : Pc) : Bool := p.expects.isSome

/-- at most one locker is inside a break window -/
def Excl (s : Sys) : Prop :=
  ∀ i j, (s.lk i).pc.inWindow = true → (s.lk j).pc.inWindow = true → i = j

/-- only locker `b` is ever inside `break_lock` / `force_break` / `force_break_corrupt` -/
def Who (b : Nat) (s : Sys) : Prop := ∀ i, (s.lk i).pc.breaky = true → i = b

structure Inv (s : Sys) : Prop where
  /-- a locker that believes it holds the lock owns `held/` — unless it crashed and a break happened -/
  claim : ∀ i, s.brokeAlive = false → (s.lk i).claims = true →
            ownerOf s.held = some i ∨ (s.crashed i = true ∧ 0 < s.breaks)
  dec : ∀ i, (s.lk i).pc.decided = true → 0 < s.breaks
  /-- between the examination of a lock and its removal the lock does not change -/
  exp : ∀ i x, s.brokeAlive = false → (s.lk i).pc.expects = some x →
            s.held = okDir x ∧ s.crashed x.owner = true
  need : ∀ i, (s.lk i).pc.needsHeld = true → (s.lk i).held = true
  pend : ∀ i, (s.lk i).pc.hasPend = true → ∃ k, (s.lk i).pend = okDir ⟨i, k⟩
  nothold : ∀ i, (s.lk i).pc.breaky = true → (s.lk i).held = false
  corr : ∀ i, (s.lk i).pc.corruptBreak = true → s.brokeAlive = true

theorem ownerOf_okDir (x : Nonce) : ownerOf (okDir x) = some x.owner := rfl

theorem Inv.init (cfg : Nat → Cfg) (h : Option Dir) : Inv (Sys.init cfg h) := by
  constructor <;> intros <;> simp_all [Sys.init, Locker.claims, Pc.breaky, Pc.decided, Pc.expects,
    Pc.needsHeld, Pc.hasPend, Pc.corruptBreak]

theorem Who.init (b : Nat) (cfg : Nat → Cfg) (h : Option Dir) : Who b (Sys.init cfg h) := by
  intro i hi; simp [Sys.init, Pc.breaky] at hi

theorem Who.excl {b : Nat} {s : Sys} (w : Who b s) : Excl s := by
  intro i j hi hj
  have hi' : (s.lk i).pc.breaky = true := by
    cases h : (s.lk i).pc.expects with
    | none => simp [Pc.inWindow, h] at hi
    | some x => exact breaky_of_expects h
  have hj' : (s.lk j).pc.breaky = true := by
    cases h : (s.lk j).pc.expects with
    | none => simp [Pc.inWindow, h] at hj
    | some x => exact breaky_of_expects h
  rw [w i hi', w j hj']

@[simp] theorem step_cfg (s : Sys) (e : Ev) : (s.step e).cfg = s.cfg := by
  cases e <;> simp [Sys.step] <;> split <;> (try split) <;> rfl

theorem Inv.crash {s : Sys} (inv : Inv s) (i : Nat) : Inv (s.step (.crash i)) := by
  have hc : ∀ j, s.crashed j = true → upd s.crashed i true j = true := by
    intro j h; unfold upd; split <;> simp_all
  constructor <;> simp only [Sys.step]
  · intro j hb hcl
    rcases inv.claim j hb hcl with h | ⟨h1, h2⟩
    · exact Or.inl h
    · exact Or.inr ⟨hc j h1, h2⟩
  · exact inv.dec
  · intro j x hb he
    have := inv.exp j x hb he
    exact ⟨this.1, hc _ this.2⟩
  · exact inv.need
  · exact inv.pend
  · exact inv.nothold
  · exact inv.corr

theorem Inv.fault {s : Sys} (inv : Inv s) (i : Nat) (k : FaultKind) :
    Inv (s.step (.fault i k)) := by
  simp only [Sys.step]
  split
  · exact inv
  · have hlk : ∀ j, j ≠ i → upd s.lk i (lfault k (s.lk i)) j = s.lk j := fun j h => upd_other _ _ h
    constructor
    · intro j hb hcl
      by_cases hj : j = i
      · subst hj
        simp only [upd_same] at hcl
        exact inv.claim j hb (lfault_claims _ _ hcl)
      · simp only [hlk j hj] at hcl
        exact inv.claim j hb hcl
    · intro j hd
      by_cases hj : j = i
      · subst hj
        have := breaky_of_decided hd
        simp [lfault_breaky] at this
      · simp only [hlk j hj] at hd; exact inv.dec j hd
    · intro j x hb he
      by_cases hj : j = i
      · subst hj
        have := breaky_of_expects he
        simp [lfault_breaky] at this
      · simp only [hlk j hj] at he; exact inv.exp j x hb he
    · intro j hn
      by_cases hj : j = i
      · subst hj; simp [lfault_needs] at hn
      · simp only [hlk j hj] at hn ⊢; exact inv.need j hn
    · intro j hp
      by_cases hj : j = i
      · subst hj
        simp only [upd_same] at hp ⊢
        have := lfault_pend _ _ hp
        rw [this.2]; exact inv.pend j this.1
      · simp only [hlk j hj] at hp ⊢; exact inv.pend j hp
    · intro j hbr
      by_cases hj : j = i
      · subst hj; simp [lfault_breaky] at hbr
      · simp only [hlk j hj] at hbr ⊢; exact inv.nothold j hbr
    · intro j hc
      by_cases hj : j = i
      · subst hj
        have := breaky_of_corrupt hc
        simp [lfault_breaky] at this
      · simp only [hlk j hj] at hc; exact inv.corr j hc

theorem Inv.start {s : Sys} (inv : Inv s) (i : Nat) (op : Op) : Inv (s.step (.start i op)) := by
  simp only [Sys.step]
  split
  · exact inv
  · split
    · rename_i hidle
      have hlk : ∀ j, j ≠ i → upd s.lk i (startOp (s.lk i) op) j = s.lk j := fun j h => upd_other _ _ h
      constructor
      · intro j hb hcl
        by_cases hj : j = i
        · subst hj
          simp only [upd_same] at hcl
          exact inv.claim j hb (start_claims _ _ hidle hcl)
        · simp only [hlk j hj] at hcl
          exact inv.claim j hb hcl
      · intro j hd
        by_cases hj : j = i
        · subst hj; simp [start_decided] at hd
        · simp only [hlk j hj] at hd; exact inv.dec j hd
      · intro j x hb he
        by_cases hj : j = i
        · subst hj
          have := breaky_of_expects he
          have hd : (startOp (s.lk j) op).pc.expects = none := by
            unfold startOp; cases op <;> cases hh : (s.lk j).held <;> simp [Locker.done, Pc.expects]
          simp [hd] at he
        · simp only [hlk j hj] at he; exact inv.exp j x hb he
      · intro j hn
        by_cases hj : j = i
        · subst hj
          simp only [upd_same] at hn ⊢
          rw [start_held]; exact start_needs _ _ hn
        · simp only [hlk j hj] at hn ⊢; exact inv.need j hn
      · intro j hp
        by_cases hj : j = i
        · subst hj; simp [start_hasPend] at hp
        · simp only [hlk j hj] at hp ⊢; exact inv.pend j hp
      · intro j hbr
        by_cases hj : j = i
        · subst hj
          simp only [upd_same] at hbr ⊢
          rw [start_held]; exact (start_breaky _ _ hbr).2
        · simp only [hlk j hj] at hbr ⊢; exact inv.nothold j hbr
      · intro j hc
        by_cases hj : j = i
        · subst hj
          have := breaky_of_decided (p := (startOp (s.lk j) op).pc)
          have hd : (startOp (s.lk j) op).pc.corruptBreak = false := by
            unfold startOp; cases op <;> cases hh : (s.lk j).held <;> simp [Locker.done, Pc.corruptBreak]
          simp [hd] at hc
        · simp only [hlk j hj] at hc; exact inv.corr j hc
    · exact inv

theorem decisionAlive_false {crashed : Nat → Bool} {x : Nonce} :
    decisionAlive crashed (some (some x)) = false → crashed x.owner = true := by
  simp [decisionAlive]

theorem Inv.stepStep {s : Sys} (inv : Inv s) (i : Nat) (hex : Excl s) : Inv (s.step (.step i)) := by
  simp only [Sys.step]
  split
  · exact inv
  · rename_i hcr
    have hcr : s.crashed i = false := by simpa using hcr
    generalize hr : lstep i s.cfg s.crashed (s.lk i) s.held = r
    have hlk : ∀ j, j ≠ i → upd s.lk i r.1 j = s.lk j := fun j h => upd_other _ _ h
    have hheld := lstep_held i s.cfg s.crashed (s.lk i) s.held
    rw [hr] at hheld
    have hnh := inv.nothold i
    -- a live locker that claims the lock owns `held/`
    have hmine : s.brokeAlive = false → (s.lk i).claims = true → ownerOf s.held = some i := by
      intro hb hcl
      rcases inv.claim i hb hcl with h | ⟨h, _⟩
      · exact h
      · simp [hcr] at h
    constructor
    · -- claim
      intro j hb hcl
      simp only [Bool.or_eq_false_iff] at hb
      by_cases hj : j = i
      · subst hj
        simp only [upd_same] at hcl
        have := lstep_claims j s.cfg s.crashed (s.lk j) s.held hnh
        rw [hr] at this
        rcases this hcl with ⟨h1, h2⟩ | ⟨h1, _, h3⟩
        · left; simp only [h2]; exact hmine hb.1 h1
        · left
          obtain ⟨k, hk⟩ := inv.pend j (by simp [h1, Pc.hasPend])
          simp only [h3, hk]; rfl
      · simp only [hlk j hj] at hcl
        rcases inv.claim j hb.1 hcl with h | ⟨h1, h2⟩
        · rcases hheld with h0 | ⟨_, h0, _⟩ | ⟨h0, _⟩ | ⟨⟨x, ret, h0⟩, _⟩ | ⟨⟨t, h0⟩, _⟩
          · left; simp only [h0]; exact h
          · simp [h0, ownerOf] at h
          · have hi := hmine hb.1 (by simp [Locker.claims, inv.need i (by simp [h0, Pc.needsHeld])])
            simp [hi] at h; exact absurd h.symm hj
          · have he := inv.exp i x hb.1 (by simp [h0, Pc.expects])
            right
            rw [he.1, ownerOf_okDir] at h
            have hx : x.owner = j := by simpa using h
            refine ⟨hx ▸ he.2, ?_⟩
            exact Nat.lt_of_lt_of_le (inv.dec i (by simp [h0, Pc.decided])) (Nat.le_add_right _ _)
          · have := inv.corr i (by simp [h0, Pc.corruptBreak])
            simp [this] at hb
        · right; exact ⟨h1, Nat.lt_of_lt_of_le h2 (Nat.le_add_right _ _)⟩
    · -- dec
      intro j hd
      by_cases hj : j = i
      · subst hj
        simp only [upd_same] at hd
        have := lstep_decided j s.cfg s.crashed (s.lk j) s.held
        rw [hr] at this
        rcases this hd with h | h
        · exact Nat.lt_of_lt_of_le (inv.dec j h) (Nat.le_add_right _ _)
        · simp [h]
      · simp only [hlk j hj] at hd
        exact Nat.lt_of_lt_of_le (inv.dec j hd) (Nat.le_add_right _ _)
    · -- exp
      intro j x hb he
      simp only [Bool.or_eq_false_iff] at hb
      by_cases hj : j = i
      · subst hj
        simp only [upd_same] at he
        have := lstep_expects j s.cfg s.crashed (s.lk j) s.held x
        rw [hr] at this
        rcases this he with ⟨h1, h2, h3⟩ | ⟨h1, _, h3⟩
        · rw [h1] at hb
          exact ⟨by rw [h3]; exact h2, decisionAlive_false hb.2⟩
        · have := inv.exp j x hb.1 h1
          exact ⟨by rw [h3]; exact this.1, this.2⟩
      · simp only [hlk j hj] at he
        have hx := inv.exp j x hb.1 he
        have hjw : (s.lk j).pc.inWindow = true := by simp [Pc.inWindow, he]
        refine ⟨?_, hx.2⟩
        rcases hheld with h0 | ⟨_, h0, _⟩ | ⟨h0, _⟩ | ⟨⟨y, ret, h0⟩, _⟩ | ⟨⟨t, h0⟩, _⟩
        · rw [h0]; exact hx.1
        · simp [h0, okDir] at hx
        · have hi := hmine hb.1 (by simp [Locker.claims, inv.need i (by simp [h0, Pc.needsHeld])])
          rw [hx.1, ownerOf_okDir] at hi
          have : x.owner = i := by simpa using hi
          rw [this, hcr] at hx
          simp at hx
        · -- another `force_break` renames `held/` away inside our window: excluded by `Excl`
          exact absurd (hex j i hjw (by simp [h0, Pc.inWindow, Pc.expects])) hj
        · -- `force_break_corrupt`: its decision was against an unknown holder
          have := inv.corr i (by simp [h0, Pc.corruptBreak])
          simp [this] at hb
    · -- need
      intro j hn
      by_cases hj : j = i
      · subst hj
        simp only [upd_same] at hn ⊢
        have := lstep_need j s.cfg s.crashed (s.lk j) s.held (inv.need j)
        rw [hr] at this; exact this hn
      · simp only [hlk j hj] at hn ⊢; exact inv.need j hn
    · -- pend
      intro j hp
      by_cases hj : j = i
      · subst hj
        simp only [upd_same] at hp ⊢
        have := lstep_pend j s.cfg s.crashed (s.lk j) s.held (inv.pend j)
        rw [hr] at this; exact this hp
      · simp only [hlk j hj] at hp ⊢; exact inv.pend j hp
    · -- nothold
      intro j hbr
      by_cases hj : j = i
      · subst hj
        simp only [upd_same] at hbr ⊢
        have := lstep_nothold j s.cfg s.crashed (s.lk j) s.held (inv.nothold j)
        rw [hr] at this; exact this hbr
      · simp only [hlk j hj] at hbr ⊢; exact inv.nothold j hbr
    · -- corr
      intro j hc
      by_cases hj : j = i
      · subst hj
        simp only [upd_same] at hc
        have := lstep_corrupt j s.cfg s.crashed (s.lk j) s.held
        rw [hr] at this
        rcases this hc with h | h
        · simp [inv.corr j h]
        · simp [h, decisionAlive]
      · simp only [hlk j hj] at hc
        simp [inv.corr j hc]

theorem Inv.step {s : Sys} (inv : Inv s) (e : Ev) (hex : Excl s) : Inv (s.step e) := by
  cases e with
  | start i op => exact inv.start i op
  | step i => exact inv.stepStep i hex
  | fault i k => exact inv.fault i k
  | crash i => exact inv.crash i

theorem run_cfg (s : Sys) (evs : List Ev) : (s.run evs).cfg = s.cfg := by
  induction evs generalizing s with
  | nil => rfl
  | cons e es ih => simp only [Sys.run, List.foldl_cons] at ih ⊢; rw [ih]; simp

theorem run_cons (s : Sys) (e : Ev) (es : List Ev) : s.run (e :: es) = (s.step e).run es := rfl

/-- the invariant holds along every run all of whose prefixes have non-overlapping break windows -/
theorem Inv.run {s : Sys} (inv : Inv s) (evs : List Ev) (hex : ∀ k, Excl (s.run (evs.take k))) :
    Inv (s.run evs) := by
  induction evs generalizing s with
  | nil => exact inv
  | cons e es ih =>
    rw [run_cons]
    apply ih (inv.step e (by simpa [Sys.run] using hex 0))
    intro k
    have := hex (k + 1)
    simpa [run_cons] using this

/-! ### one breaker -/

theorem Who.step {b : Nat} {s : Sys} (w : Who b s) (e : Ev) (hev : e.breaksOnlyBy b = true)
    (hsteal : ∀ j, (s.cfg j).steal = true → j = b) : Who b (s.step e) := by
  cases e with
  | crash c => exact w
  | fault c k =>
    simp only [Sys.step]; split
    · exact w
    · intro j hbr
      by_cases hj : j = c
      · subst hj; simp [lfault_breaky] at hbr
      · simp only [upd_other _ _ hj] at hbr; exact w j hbr
  | start c op =>
    simp only [Sys.step]; split
    · exact w
    · split
      · intro j hbr
        by_cases hj : j = c
        · subst hj
          simp only [upd_same] at hbr
          have := (start_breaky _ _ hbr).1
          subst this
          simpa [Ev.breaksOnlyBy] using hev
        · simp only [upd_other _ _ hj] at hbr; exact w j hbr
      · exact w
  | step c =>
    simp only [Sys.step]; split
    · exact w
    · intro j hbr
      by_cases hj : j = c
      · subst hj
        simp only [upd_same] at hbr
        rcases lstep_breaky j s.cfg s.crashed (s.lk j) s.held hbr with h | h
        · exact w j h
        · exact hsteal j h
      · simp only [upd_other _ _ hj] at hbr; exact w j hbr

theorem Who.run {b : Nat} {s : Sys} (w : Who b s) (evs : List Ev)
    (hev : ∀ e ∈ evs, e.breaksOnlyBy b = true)
    (hsteal : ∀ j, (s.cfg j).steal = true → j = b) : Who b (s.run evs) := by
  induction evs generalizing s with
  | nil => exact w
  | cons e es ih =>
    rw [run_cons]
    apply ih (w.step e (hev e (by simp)) hsteal)
    · intro e' he'; exact hev e' (by simp [he'])
    · simpa using hsteal

/-- with a single breaker the windows trivially never overlap -/
theorem Inv.run_single {b : Nat} {s : Sys} (inv : Inv s) (w : Who b s) (evs : List Ev)
    (hev : ∀ e ∈ evs, e.breaksOnlyBy b = true)
    (hsteal : ∀ j, (s.cfg j).steal = true → j = b) : Inv (s.run evs) := by
  apply inv.run evs
  intro k
  exact (w.run (evs.take k) (fun e he => hev e (List.mem_of_mem_take he)) hsteal).excl

/-! ### runs in which nobody breaks a lock -/

/-- nobody calls `break_lock` -/
def Ev.noBreak : Ev → Bool
  | .start _ .brk => false
  | _ => true

structure NoBreak (s : Sys) : Prop where
  pcs : ∀ i, (s.lk i).pc.breaky = false
  breaks : s.breaks = 0
  alive : s.brokeAlive = false

theorem NoBreak.step {s : Sys} (nb : NoBreak s) (e : Ev) (he : e.noBreak = true)
    (hsteal : ∀ j, (s.cfg j).steal = false) : NoBreak (s.step e) := by
  cases e with
  | crash i => exact ⟨nb.pcs, nb.breaks, nb.alive⟩
  | fault i k =>
    simp only [Sys.step]; split
    · exact nb
    · refine ⟨?_, nb.breaks, nb.alive⟩
      intro j; by_cases hj : j = i
      · subst hj; simp [lfault_breaky]
      · simpa [upd, hj] using nb.pcs j
  | start i op =>
    simp only [Sys.step]; split
    · exact nb
    · split
      · refine ⟨?_, nb.breaks, nb.alive⟩
        intro j; by_cases hj : j = i
        · subst hj
          simp only [upd_same]
          cases hb : (startOp (s.lk j) op).pc.breaky
          · rfl
          · have := (start_breaky _ _ hb).1
            subst this; simp [Ev.noBreak] at he
        · simpa [upd, hj] using nb.pcs j
      · exact nb
  | step i =>
    simp only [Sys.step]; split
    · exact nb
    · have hd : (lstep i s.cfg s.crashed (s.lk i) s.held).2.2 = none := by
        cases h : (lstep i s.cfg s.crashed (s.lk i) s.held).2.2 with
        | none => rfl
        | some d =>
          have := lstep_decision_src i s.cfg s.crashed (s.lk i) s.held (by simp [h])
          rcases this with h1 | h1
          · have := nb.pcs i; simp [h1, Pc.breaky] at this
          · simp [hsteal i] at h1
      refine ⟨?_, by simp [hd, nb.breaks], by simp [hd, nb.alive, decisionAlive]⟩
      intro j; by_cases hj : j = i
      · subst hj
        simp only [upd_same]
        cases hb : (lstep j s.cfg s.crashed (s.lk j) s.held).1.pc.breaky
        · rfl
        · rcases lstep_breaky j s.cfg s.crashed (s.lk j) s.held hb with h1 | h1
          · simp [nb.pcs j] at h1
          · simp [hsteal j] at h1
      · simpa [upd, hj] using nb.pcs j

theorem NoBreak.run {s : Sys} (nb : NoBreak s) (evs : List Ev) (he : ∀ e ∈ evs, e.noBreak = true)
    (hsteal : ∀ j, (s.cfg j).steal = false) : NoBreak (s.run evs) := by
  induction evs generalizing s with
  | nil => exact nb
  | cons e es ih =>
    simp only [Sys.run, List.foldl_cons]
    apply ih (nb.step e (he e (by simp)) hsteal)
    · intro e' he'; exact he e' (by simp [he'])
    · simpa using hsteal

theorem noBreak_breaksOnlyBy {e : Ev} (b : Nat) (h : e.noBreak = true) : e.breaksOnlyBy b = true := by
  cases e with
  | start i op => cases op <;> simp_all [Ev.noBreak, Ev.breaksOnlyBy]
  | _ => rfl

end BreezyVerif.C26
