import BreezyVerif.Common
/-
C44 — fast-export followed by fast-import.

* A tree (id space) is a list of entries `(file id, path, own, dir, val)`:
  `path` is a token of the full path (tokens are ordered like the path strings),
  `own` a token of the entry's own (parent id, name) — what `changes_from` calls
  *renamed* is a change of `own`, not of `path` —, `val` a token of
  kind + content / symlink target + executable bit.
* `exportCmds old new` is `BzrFastExporter._get_filecommands` in plain format as
  the code computes it (`_process_renames_and_deletes`): for the entries whose
  `own` changed, in old-path order: `D new` if the new path is a deleted path
  (which is then no longer deleted later), `R old new`; nothing is emitted for
  directories; then `D` for the remaining deleted non-directories; then `M` for
  added non-directories, for entries whose value changed at an unchanged `own`,
  and for renamed entries whose value changed.  An entry that merely sits below a
  renamed directory gets no command.
* `applyCmds` is the importer (`CommitHandler` modify / delete / rename
  handlers) on path space.
* A history is the list of commits in export order; parents are 1-based
  positions in that list (`0` = ghost or not exported).  `exportAll` produces the
  stream (`from`, `merge`, file commands, metadata per commit), `importAll`
  replays it keeping the mark ↦ revision table.
Core Lean only.
-/
namespace BreezyVerif.C44

abbrev Path := Nat
abbrev Val := Nat

structure Ent where
  fid : Nat
  path : Path
  own : Nat
  dir : Bool
  val : Val
  deriving DecidableEq, Repr

abbrev Tree := List Ent

def find (t : Tree) (f : Nat) : Option Ent := t.find? (·.fid == f)

inductive Cmd where
  | del (p : Path)
  | ren (p q : Path)
  | mod (p : Path) (v : Val)
  deriving DecidableEq, Repr

/-- insertion sort (structural, so that concrete instances evaluate in the kernel) -/
def insertBy {α : Type} (le : α → α → Bool) (x : α) : List α → List α
  | [] => [x]
  | y :: ys => if le x y then x :: y :: ys else y :: insertBy le x ys

def sortBy {α : Type} (le : α → α → Bool) : List α → List α
  | [] => []
  | x :: xs => insertBy le x (sortBy le xs)

/-- the entries `changes_from` reports as renamed: present on both sides with a
different own (parent, name); old entry and new entry, in old-path order -/
def ownRenames (old new : Tree) : List (Ent × Ent) :=
  (old.filterMap fun o =>
    match find new o.fid with
    | some n => if o.own ≠ n.own then some (o, n) else none
    | none => none) |> sortBy fun a b => decide (a.1.path ≤ b.1.path)

/-- the removed entries, in path order -/
def removed (old new : Tree) : List Ent :=
  (old.filter fun o => (find new o.fid).isNone) |> sortBy fun a b => decide (a.path ≤ b.path)

/-- the rename pass: commands so far and the paths still to be deleted -/
def renamePass : List (Ent × Ent) → List Path → List Cmd × List Path
  | [], dels => ([], dels)
  | (o, n) :: rest, dels =>
    let hit := decide (n.path ∈ dels)
    let dels' := if hit then dels.filter (· ≠ n.path) else dels
    let r := renamePass rest dels'
    let here := (if hit && !n.dir then [Cmd.del n.path] else []) ++ (if n.dir then [] else [Cmd.ren o.path n.path])
    (here ++ r.1, r.2)

/-- does the new entry need an `M`: it is added, or its value changed -/
def needsMod (old : Tree) (n : Ent) : Bool :=
  match find old n.fid with
  | none => true
  | some o => decide (o.val ≠ n.val)

def modPairs (old new : Tree) : List (Path × Val) :=
  ((new.filter (!·.dir)).filter (needsMod old)).map fun e => (e.path, e.val)

/-- the `M` commands for added non-directories and for entries whose value changed
(renamed or not); order in the stream: symlinks first, then files as the
repository yields them — compared as a set -/
def mods (old new : Tree) : List Cmd := (modPairs old new).map fun e => Cmd.mod e.1 e.2

def exportCmds (old new : Tree) : List Cmd :=
  let rm := removed old new
  let rp := renamePass (ownRenames old new) (rm.map (·.path))
  rp.1 ++ ((rm.filter fun e => !e.dir && decide (e.path ∈ rp.2)).map fun e => Cmd.del e.path) ++ mods old new

/-! ### the importer on path space -/

abbrev Flat := List (Path × Val)

def lookup (m : Flat) (p : Path) : Option Val := (m.find? (·.1 == p)).map (·.2)

def erase (m : Flat) (p : Path) : Flat := m.filter (·.1 ≠ p)

def applyCmd (m : Flat) : Cmd → Flat
  | .del p => erase m p
  | .ren p q =>
    match lookup m p with
    | none => m                      -- "ignoring rename … old path does not exist"
    | some v => (q, v) :: erase (erase m q) p
  | .mod p v => (p, v) :: erase m p

def applyCmds (m : Flat) (cs : List Cmd) : Flat := cs.foldl applyCmd m

/-- the files and symlinks of a tree -/
def flat (t : Tree) : Flat := (t.filter (!·.dir)).map fun e => (e.path, e.val)

/-! ### histories -/

structure Commit where
  /-- 1-based positions in the export order; 0 = ghost / not exported -/
  parents : List Nat
  tree : Tree
  /-- message, committer, timestamp, timezone -/
  info : Nat
  deriving Repr

/-- one `commit` command of the stream -/
structure XCommit where
  from_ : Option Nat
  merges : List Nat
  cmds : List Cmd
  info : Nat
  deriving Repr

def treeAt (h : List Commit) (i : Nat) : Tree :=
  if i = 0 then [] else match h[i - 1]? with
    | some c => c.tree
    | none => []

/-- `_get_commit_command` + `_get_filecommands`: marks of the non-ghost parents,
file commands against the first parent's tree -/
def exportOne (h : List Commit) (c : Commit) : XCommit :=
  let ng := c.parents.filter (· ≠ 0)
  { from_ := ng.head?, merges := ng.tail,
    cmds := exportCmds (treeAt h (c.parents.head?.getD 0)) c.tree, info := c.info }

def exportAll (h : List Commit) : List XCommit := h.map (exportOne h)

/-- an imported revision: parents as positions of imported revisions -/
structure Rev where
  parents : List Nat
  files : Flat
  info : Nat
  deriving Repr

inductive Err where
  /-- a `from` / `merge` mark that no earlier commit defined -/
  | unknownMark
  deriving DecidableEq, Repr

/-- the marks a commit refers to: `from` first, then the `merge` lines -/
def marksOf (x : XCommit) : List Nat := (match x.from_ with | some f => [f] | none => []) ++ x.merges

/-- the files the commit starts from: those of its `from` revision -/
def baseOf (done : List Rev) (x : XCommit) : Flat :=
  match x.from_ with
  | some f => (match done[f - 1]? with | some r => r.files | none => [])
  | none => []

def badMark (done : List Rev) (m : Nat) : Bool := m == 0 || decide (done.length < m)

/-- `CommitHandler`: look the marks up, start from the first parent's tree, apply the file commands -/
def importStep (done : List Rev) (x : XCommit) : Except Err (List Rev) :=
  if (marksOf x).any (badMark done) then .error .unknownMark
  else .ok (done ++ [{ parents := marksOf x, files := applyCmds (baseOf done x) x.cmds, info := x.info }])

def importAll (xs : List XCommit) : Except Err (List Rev) := xs.foldlM importStep []

/-! ### metadata: the zone field of `committer Name <email> <secs> <+HHMM>` -/

/-- the `+HHMM` field as `format_who_when` computes it from an offset in seconds -/
structure Zone where
  neg : Bool
  hours : Nat
  minutes : Nat
  deriving DecidableEq, Repr

/-- `commands.format_who_when`: sign; `offset // 3600`; `offset // 60 - hours * 60` of the absolute value -/
def formatZone (off : Int) : Zone :=
  let a := off.natAbs
  { neg := decide (off < 0), hours := a / 3600, minutes := a / 60 - (a / 3600) * 60 }

/-- `dates.parse_tz`: `sign * 60 * (60 * hours + minutes)` -/
def parseZone (z : Zone) : Int :=
  (if z.neg then -1 else 1) * (60 * (60 * (z.hours : Int) + (z.minutes : Int)))

/-! ### metadata: the committer -/

abbrev Str := List Char

def isWs (c : Char) : Bool := c == ' ' || c == '\t' || c == '\n' || c == '\r' || c == '\x0b' || c == '\x0c'

def rstrip (s : Str) : Str := (s.reverse.dropWhile isWs).reverse

/-- `BzrFastExporter._get_name_email`: no `<` - the whole string is the name; else the pattern
`^(.*?)\s*<([^<>]*)>\s*$` (name = what precedes the last `<`, without trailing white space; email = what
the last `<…>` holds); `none` = the pattern does not match (the code then falls back to `parseaddr`) -/
def splitCommitter (u : Str) : Option (Str × Str) :=
  if !u.contains '<' then some (u, [])
  else
    match (rstrip u).reverse with
    | '>' :: r =>
      let eRev := r.takeWhile fun c => c != '<' && c != '>'
      match r.drop eRev.length with
      | '<' :: aRev => some (rstrip aRev.reverse, eRev.reverse)
      | _ => none
    | _ => none

/-- `commands.format_who_when`: `name <email> date` (no separating blank after an empty name) -/
def formatWho (who : Str × Str) (date : Str) : Str :=
  who.1 ++ (if who.1.isEmpty then [] else [' ']) ++ ['<'] ++ who.2 ++ ['>', ' '] ++ date

/-- split at the LAST `> ` that is followed by at least one character (the greedy `(.*)> (.+)`) -/
def splitLastGtSp : Str → Option (Str × Str)
  | [] => none
  | c :: rest =>
    match splitLastGtSp rest with
    | some (a, b) => some (c :: a, b)
    | none =>
      match c, rest with
      | '>', ' ' :: d :: ds => some ([], d :: ds)
      | _, _ => none

/-- `ImportParser._who_when` (pattern `([^<]*)<(.*)> (.+)`): name (right-stripped), email, date -/
def parseWho (l : Str) : Option (Str × Str × Str) :=
  let g1 := l.takeWhile (· != '<')
  match l.drop g1.length with
  | '<' :: rest =>
    (match splitLastGtSp rest with
      | some (email, date) => some (rstrip g1, email, date)
      | none => none)
  | _ => none

/-- `CommitHandler._format_name_email`: as found (`bare = false`) an empty name still gets the separating
blank (`" <email>"`); `bare = true` is the variant that writes `<email>` then (the check probes the code) -/
def joinWho (bare : Bool) (name email : Str) : Str :=
  if email.isEmpty then name
  else if bare && name.isEmpty then ['<'] ++ email ++ ['>']
  else name ++ [' ', '<'] ++ email ++ ['>']

/-- the committer after export and import (`date` is the `secs zone` part) -/
def committerRoundtrip (bare : Bool) (u date : Str) : Option Str :=
  match splitCommitter u with
  | some who =>
    (match parseWho (formatWho who date) with
      | some (n, e, _) => some (joinWho bare n e)
      | none => none)
  | none => none

/-! ### tags -/

def isInfixB (pat : Bytes) : Bytes → Bool
  | [] => pat.isEmpty
  | c :: s => pat.isPrefixOf (c :: s) || isInfixB pat s

def isSuffixB (pat s : Bytes) : Bool := pat.reverse.isPrefixOf s.reverse

/-- `exporter.check_ref_format` on the bytes of a ref name (the rules of git-check-ref-format) -/
def validRef (r : Bytes) : Bool :=
  !(isInfixB [47, 46] r || r.head? == some 46)            -- "/." inside, or a leading "."
  && r.contains 47                                         -- at least one "/"
  && !isInfixB [46, 46] r                                  -- ".."
  && r.all (fun c => !(c < 32) && !([127, 32, 126, 94, 58, 63, 42, 91] : Bytes).contains c)   -- control, DEL, space ~ ^ : ? * [
  && !(r.getLast? == some 47 || r.getLast? == some 46)     -- trailing "/" or "."
  && !isSuffixB [46, 108, 111, 99, 107] r                  -- ".lock"
  && !isInfixB [64, 123] r                                 -- "@{"
  && !r.contains 92                                        -- backslash

/-- "refs/tags/" -/
def refsTags : Bytes := [114, 101, 102, 115, 47, 116, 97, 103, 115, 47]

/-- a tag of the exported branch: its name and the export position of its revision (0 = not in the
exported ancestry: `revid_to_mark` has no mark) -/
structure Tag where
  name : Bytes
  pos : Nat
  deriving DecidableEq, Repr

/-- `emit_tags` without `--rewrite-tag-names`: one `reset refs/tags/<name>` `from :<mark>` per tag that has
a mark and, in the plain format, a name that is a valid git ref -/
def exportTags (plain : Bool) (tags : List Tag) : List (Bytes × Nat) :=
  (tags.filter fun t => t.pos != 0 && (!plain || validRef (refsTags ++ t.name))).map fun t => (refsTags ++ t.name, t.pos)

def setTag (m : List (Bytes × Nat)) (n : Bytes) (p : Nat) : List (Bytes × Nat) := (n, p) :: m.filter (·.1 != n)

/-- `reset_handler` / `_set_tag`: a reset of `refs/tags/<name>` binds the tag to the revision of the mark
(`n` commits were imported; other refs are branch heads) -/
def importTags (n : Nat) (resets : List (Bytes × Nat)) : List (Bytes × Nat) :=
  resets.foldl (fun m r =>
    if refsTags.isPrefixOf r.1 && r.2 != 0 && decide (r.2 ≤ n) then setTag m (r.1.drop refsTags.length) r.2 else m) []

def tagLookup (m : List (Bytes × Nat)) (n : Bytes) : Option Nat := (m.find? (·.1 == n)).map (·.2)

end BreezyVerif.C44
