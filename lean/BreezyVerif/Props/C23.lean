import BreezyVerif.Model.C23
/-!
C23 — checkouts and their master branches stay in step.

All theorems quantify over *every* state (any graph, any tips, any tree
parents, any log) and, for `run_master_first`, over every operation sequence.
-/
namespace BreezyVerif.C23

/-- **master first**: a successful commit in the bound checkout ends with
master tip = local tip = the new revision; the master's tip is written first,
the local tip directly after it; the tree is based on the new revision -/
theorem bound_commit_master_first (s : St) (r : Rev) (hb : s.bound = true)
    (h : (step s (.commit .H r false)).2 = .ok) :
    (step s (.commit .H r false)).1.master = r ∧ (step s (.commit .H r false)).1.loc = r ∧
    (step s (.commit .H r false)).1.log = ⟨.loc, r, .boundCommit⟩ :: ⟨.master, r, .boundCommit⟩ :: s.log ∧
    (step s (.commit .H r false)).1.tH = ⟨r, []⟩ := by
  simp only [step, commitH, hb] at h ⊢
  by_cases h1 : s.loc != s.master
  · simp [h1] at h
  · by_cases h2 : !treeUpToDate s.tH s.master
    · simp [h1, h2] at h
    · simp [h1, h2]

/-- **refused**: when the master has moved or diverged (its tip differs from
the local tip) the bound commit is refused and nothing changes -/
theorem bound_commit_refused_noop (s : St) (r : Rev) (hb : s.bound = true) (hne : s.loc ≠ s.master) :
    step s (.commit .H r false) = (s, .boundOutOfDate) := by
  have : (s.loc != s.master) = true := by simpa using hne
  simp [step, commitH, hb, this]

/-- **--local**: a successful local commit needs a bound branch and changes
only the local branch (and the checkout's tree) -/
theorem local_commit_only_local (s : St) (r : Rev) (h : (step s (.commit .H r true)).2 = .ok) :
    s.bound = true ∧
    (step s (.commit .H r true)).1.master = s.master ∧ (step s (.commit .H r true)).1.loc = r ∧
    (step s (.commit .H r true)).1.log = ⟨.loc, r, .commit⟩ :: s.log ∧
    (step s (.commit .H r true)).1.tM = s.tM ∧ (step s (.commit .H r true)).1.tL = s.tL := by
  simp only [step, commitH] at h ⊢
  by_cases hb : s.bound = true
  · by_cases h2 : !treeUpToDate s.tH s.loc
    · simp [hb, h2] at h
    · simp [hb, h2]
  · have hb' : s.bound = false := by simpa using hb
    simp [hb'] at h

/-- an unbound branch commits to itself only -/
theorem unbound_commit_only_local (s : St) (r : Rev) (hb : s.bound = false)
    (h : (step s (.commit .H r false)).2 = .ok) :
    (step s (.commit .H r false)).1.master = s.master ∧ (step s (.commit .H r false)).1.loc = r := by
  simp only [step, commitH, hb] at h ⊢
  by_cases h2 : !treeUpToDate s.tH s.loc
  · simp [h2] at h
  · simp [h2]

/-- commits in the master's tree or in the lightweight checkout move only the
master -/
theorem master_commit_only_master (s : St) (w : Who) (r : Rev) (l : Bool) (hw : w ≠ .H)
    (h : (step s (.commit w r l)).2 = .ok) :
    (step s (.commit w r l)).1.master = r ∧ (step s (.commit w r l)).1.loc = s.loc ∧
    (step s (.commit w r l)).1.tH = s.tH ∧ (step s (.commit w r l)).1.bound = s.bound := by
  cases w with
  | H => exact absurd rfl hw
  | M =>
    simp only [step, commitMaster] at h ⊢
    cases l
    · by_cases h2 : !treeUpToDate s.tM s.master
      · simp [h2] at h
      · simp [h2]
    · simp at h
  | L =>
    simp only [step, commitMaster] at h ⊢
    cases l
    · by_cases h2 : !treeUpToDate s.tL s.master
      · simp [h2] at h
      · simp [h2]
    · simp at h

/-- **update equalises** (*partial*: for a master that has at least one
revision, see `update_empty_master_witness`): update in the bound checkout
leaves the local tip equal to the master tip, the tree based on it, and the
master untouched -/
theorem update_equalises_partial (s : St) (hb : s.bound = true) (hm : s.master ≠ null) :
    (step s (.update .H)).2 = .ok ∧ (step s (.update .H)).1.loc = s.master ∧
    (step s (.update .H)).1.master = s.master ∧ (step s (.update .H)).1.tH.basis = s.master := by
  have hm' : (s.master == null) = false := by simpa using hm
  simp only [step, updateH, hb, hm']
  refine ⟨rfl, rfl, rfl, ?_⟩
  simp only [updateTree]
  by_cases h : s.tH.basis = s.master
  · simp [h]
  · have h' : (s.tH.basis != s.master) = true := by simpa using h
    simp [h']

/-- **Witness (statement violated)**: a checkout bound to an *empty* master
with a local commit: `update` pulls nothing (`_update_revisions` returns early
for a null source tip, even with overwrite) and the local tip stays different
from the master tip -/
theorem update_empty_master_witness :
    let s := (run init [.commit .H "r1" true])
    s.bound = true ∧ s.master = null ∧ s.loc = "r1" ∧
    (step s (.update .H)).2 = .ok ∧ (step s (.update .H)).1.loc = "r1" ∧
    (step s (.update .H)).1.loc ≠ (step s (.update .H)).1.master := by decide

/-- **pull**: pulling from the master either is refused as diverged (nothing
changes), or leaves the local tip equal to the master tip, or changes nothing
because the master is empty or its tip is already in the local branch -/
theorem pull_equalises_or_refuses (s : St) :
    ((step s .pull).2 = .diverged ∧ (step s .pull).1 = s) ∨
    ((step s .pull).2 = .ok ∧ (step s .pull).1.master = s.master ∧
      ((step s .pull).1.loc = s.master ∨
       ((step s .pull).1 = s ∧ (s.master = null ∨ isAncestor s.graph s.master s.loc = true)))) := by
  simp only [step, pullH]
  by_cases h1 : s.master == null
  · right; simp [h1]; right; left; simpa using h1
  · by_cases h2 : isAncestor s.graph s.master s.loc
    · right; simp [h1, h2]
    · by_cases h3 : !isAncestor s.graph s.loc s.master
      · left; simp [h1, h2, h3]
      · right; simp [h1, h2, h3]

/-- shape of a step: either refused with the state untouched, or accepted with
the log extended by nothing, by one entry that is not a bound-commit local
write, or by the (local, master) pair of a bound commit -/
def Shape (s : St) (x : St × Out) : Prop :=
  (x.2 ≠ .ok ∧ x.1 = s) ∨
  (x.2 = .ok ∧ (x.1.log = s.log ∨
    (∃ e : Entry, (e.br == .loc && e.cause == .boundCommit) = false ∧ x.1.log = e :: s.log) ∨
    (∃ r : Rev, x.1.log = ⟨.loc, r, .boundCommit⟩ :: ⟨.master, r, .boundCommit⟩ :: s.log)))

theorem commitH_shape (s : St) (r : Rev) (l : Bool) : Shape s (commitH s r l) := by
  unfold commitH
  split
  · left; exact ⟨by simp, rfl⟩
  · split
    · split
      · left; exact ⟨by simp, rfl⟩
      · split
        · left; exact ⟨by simp, rfl⟩
        · right; exact ⟨rfl, Or.inr (Or.inr ⟨r, rfl⟩)⟩
    · split
      · left; exact ⟨by simp, rfl⟩
      · right; exact ⟨rfl, Or.inr (Or.inl ⟨⟨.loc, r, .commit⟩, by simp, rfl⟩)⟩

theorem commitMaster_shape (s : St) (w : Who) (r : Rev) (l : Bool) : Shape s (commitMaster s w r l) := by
  cases l with
  | true => left; simp [commitMaster]
  | false =>
    by_cases hw : (w == Who.M) = true
    · by_cases h2 : (!treeUpToDate s.tM s.master) = true
      · left; simp [commitMaster, hw, h2]
      · right
        refine ⟨by simp [commitMaster, hw, h2], Or.inr (Or.inl ⟨⟨.master, r, .commit⟩, by simp, ?_⟩)⟩
        simp [commitMaster, hw, h2]
    · by_cases h2 : (!treeUpToDate s.tL s.master) = true
      · left; simp [commitMaster, hw, h2]
      · right
        refine ⟨by simp [commitMaster, hw, h2], Or.inr (Or.inl ⟨⟨.master, r, .commit⟩, by simp, ?_⟩)⟩
        simp [commitMaster, hw, h2]

theorem updateH_shape (s : St) : Shape s (updateH s) := by
  by_cases hb : s.bound = true
  · right
    by_cases hc : ((if s.master == null then s.loc else s.master) != s.loc) = true
    · refine ⟨by simp [updateH, hb], Or.inr (Or.inl ⟨⟨.loc, (if s.master == null then s.loc else s.master), .update⟩,
        by simp, ?_⟩)⟩
      simp only [updateH, hb, if_true, hc]
    · refine ⟨by simp [updateH, hb], Or.inl ?_⟩
      simp only [updateH, hb, if_true, hc]
      simp
  · right
    have hb' : s.bound = false := by simpa using hb
    exact ⟨by simp [updateH, hb'], Or.inl (by simp [updateH, hb'])⟩

theorem pullH_shape (s : St) : Shape s (pullH s) := by
  unfold pullH
  split
  · right; exact ⟨rfl, Or.inl rfl⟩
  · split
    · right; exact ⟨rfl, Or.inl rfl⟩
    · split
      · left; exact ⟨by simp, rfl⟩
      · right; exact ⟨rfl, Or.inr (Or.inl ⟨⟨.loc, s.master, .pull⟩, by simp, rfl⟩)⟩

/-- the operations of the original alphabet (everything but the other branch
`O`, pulls from it and pushes) -/
def Op.basic : Op → Bool
  | .commit .. | .update _ | .pull | .bind | .unbind => true
  | _ => false

theorem step_shape (s : St) (op : Op) (hb : op.basic = true) : Shape s (step s op) := by
  cases op with
  | commit w r l =>
    cases w with
    | H => exact commitH_shape s r l
    | M => exact commitMaster_shape s .M r l
    | L => exact commitMaster_shape s .L r l
  | update w =>
    cases w with
    | H => exact updateH_shape s
    | M => right; exact ⟨rfl, Or.inl rfl⟩
    | L => right; exact ⟨rfl, Or.inl rfl⟩
  | pull => exact pullH_shape s
  | bind => right; exact ⟨rfl, Or.inl rfl⟩
  | unbind => right; exact ⟨rfl, Or.inl rfl⟩
  | commitO r => simp [Op.basic] at hb
  | syncO => simp [Op.basic] at hb
  | pullOther w st ow l => simp [Op.basic] at hb
  | push w => simp [Op.basic] at hb

def notBC (e : Entry) : Bool := !(e.br == .loc && e.cause == .boundCommit)

/-- what a step may do to the log: push entries that are not bound-commit local
writes, or the (local, master) pair of a bound commit -/
def LogShape (s : St) (x : St × Out) : Prop :=
  (∃ es : List Entry, (∀ e ∈ es, notBC e = true) ∧ x.1.log = es ++ s.log) ∨
  (∃ r : Rev, x.1.log = ⟨.loc, r, .boundCommit⟩ :: ⟨.master, r, .boundCommit⟩ :: s.log)

theorem logShape_of_shape {s : St} {x : St × Out} (h : Shape s x) : LogShape s x := by
  rcases h with ⟨_, h2⟩ | ⟨_, h2 | ⟨e, he, h2⟩ | ⟨r, h2⟩⟩
  · left; exact ⟨[], by simp, by rw [h2]; rfl⟩
  · left; exact ⟨[], by simp, by rw [h2]; rfl⟩
  · left; refine ⟨[e], ?_, by rw [h2]; rfl⟩
    intro e' he'; simp at he'; subst he'; simp [notBC, he]
  · right; exact ⟨r, h2⟩

theorem logIf_shape (c : Bool) (e : Entry) (l : List Entry) (he : notBC e = true) :
    ∃ es : List Entry, (∀ x ∈ es, notBC x = true) ∧ logIf c e l = es ++ l := by
  cases c
  · exact ⟨[], by simp, rfl⟩
  · refine ⟨[e], ?_, rfl⟩
    intro x hx; simp at hx; subst hx; exact he

theorem pullOtherH_logShape (s : St) (stop : Option Rev) (ow l : Bool) : LogShape s (pullOtherH s stop ow l) := by
  unfold pullOtherH
  split
  · left; exact ⟨[], by simp, rfl⟩
  · simp only
    split
    · left; exact ⟨[], by simp, rfl⟩
    · rename_i m' _
      obtain ⟨es1, h1, e1⟩ := logIf_shape (m' != s.master) ⟨.master, m', .pull⟩ s.log (by simp [notBC])
      split
      · left; exact ⟨es1, h1, e1⟩
      · rename_i l' _
        obtain ⟨es2, h2, e2⟩ := logIf_shape (l' != s.loc) ⟨.loc, l', .pull⟩
          (logIf (m' != s.master) ⟨.master, m', .pull⟩ s.log) (by simp [notBC])
        left
        refine ⟨es2 ++ es1, ?_, ?_⟩
        · intro e he
          rcases List.mem_append.mp he with h | h
          · exact h2 e h
          · exact h1 e h
        · show logIf (l' != s.loc) ⟨.loc, l', .pull⟩ (logIf (m' != s.master) ⟨.master, m', .pull⟩ s.log) = _
          rw [e2, e1, List.append_assoc]

theorem pullOtherMaster_logShape (s : St) (w : Who) (stop : Option Rev) (ow l : Bool) :
    LogShape s (pullOtherMaster s w stop ow l) := by
  unfold pullOtherMaster
  split
  · left; exact ⟨[], by simp, rfl⟩
  · split
    · left; exact ⟨[], by simp, rfl⟩
    · rename_i m' _
      obtain ⟨es1, h1, e1⟩ := logIf_shape (m' != s.master) ⟨.master, m', .pull⟩ s.log (by simp [notBC])
      left
      refine ⟨es1, h1, ?_⟩
      simp only
      split <;> exact e1

theorem pushTo_log (s : St) (src : Rev) : (pushTo s src).1.log = s.log := by
  unfold pushTo
  split <;> rfl

theorem step_logShape (s : St) (op : Op) : LogShape s (step s op) := by
  by_cases hb : op.basic = true
  · exact logShape_of_shape (step_shape s op hb)
  · cases op with
    | commit w r l => simp [Op.basic] at hb
    | update w => simp [Op.basic] at hb
    | pull => simp [Op.basic] at hb
    | bind => simp [Op.basic] at hb
    | unbind => simp [Op.basic] at hb
    | commitO r => left; exact ⟨[], by simp, rfl⟩
    | syncO => left; exact ⟨[], by simp, rfl⟩
    | pullOther w st ow l =>
      cases w with
      | H => exact pullOtherH_logShape s st ow l
      | M => exact pullOtherMaster_logShape s .M st ow l
      | L => exact pullOtherMaster_logShape s .L st ow l
    | push w =>
      left
      refine ⟨[], by simp, ?_⟩
      cases w <;> simp [step, pushTo_log]

/-- **refused operations change nothing** — for every operation except a pull
from another branch into the heavyweight checkout (see
`pull_other_master_moved_witness`) -/
theorem refused_noop (s : St) (op : Op) (hop : ∀ st ow l, op ≠ .pullOther .H st ow l)
    (h : (step s op).2 ≠ .ok) : (step s op).1 = s := by
  by_cases hb : op.basic = true
  · rcases step_shape s op hb with ⟨_, h2⟩ | ⟨h1, _⟩
    · exact h2
    · exact absurd h1 h
  · cases op with
    | commit w r l => simp [Op.basic] at hb
    | update w => simp [Op.basic] at hb
    | pull => simp [Op.basic] at hb
    | bind => simp [Op.basic] at hb
    | unbind => simp [Op.basic] at hb
    | commitO r => simp [step] at h
    | syncO => simp [step] at h
    | pullOther w st ow l =>
      cases w with
      | H => exact absurd rfl (hop st ow l)
      | M =>
        simp only [step, pullOtherMaster] at h ⊢
        split at h
        · simp_all
        · split at h <;> simp_all
      | L =>
        simp only [step, pullOtherMaster] at h ⊢
        split at h
        · simp_all
        · split at h <;> simp_all
    | push w =>
      cases w <;>
      · simp only [step, pushTo] at h ⊢
        split at h <;> simp_all

theorem masterFirst_cons_other (e : Entry) (l : List Entry)
    (he : (e.br == .loc && e.cause == .boundCommit) = false) : masterFirst (e :: l) = masterFirst l := by
  cases l with
  | nil => simp [masterFirst, he]
  | cons m rest => simp [masterFirst, he]

theorem masterFirst_append_other (es l : List Entry) (h : ∀ e ∈ es, notBC e = true) :
    masterFirst (es ++ l) = masterFirst l := by
  induction es with
  | nil => rfl
  | cons e rest ih =>
    have he : (e.br == .loc && e.cause == .boundCommit) = false := by
      have := h e (by simp)
      unfold notBC at this
      cases hh : (e.br == .loc && e.cause == .boundCommit)
      · rfl
      · rw [hh] at this; cases this
    rw [List.cons_append, masterFirst_cons_other _ _ he]
    exact ih (fun x hx => h x (by simp [hx]))

theorem masterFirst_pair (r : Rev) (l : List Entry) :
    masterFirst (⟨.loc, r, .boundCommit⟩ :: ⟨.master, r, .boundCommit⟩ :: l) = masterFirst l := by
  simp [masterFirst]

theorem step_master_first (s : St) (op : Op) (h : masterFirst s.log = true) :
    masterFirst (step s op).1.log = true := by
  rcases step_logShape s op with ⟨es, hes, h2⟩ | ⟨r, h2⟩
  · rw [h2, masterFirst_append_other es s.log hes]; exact h
  · rw [h2, masterFirst_pair]; exact h

/-- **pull from another branch, master first to the SAME revision**: a
successful non-local pull (any stop revision, with or without overwrite) in a
bound checkout that is in step with its master leaves it in step; when the tip
moves, the master's tip is written first and the local tip directly after it,
both to the same revision -/
theorem bound_pull_other_same_revision (s : St) (stop : Option Rev) (ow : Bool)
    (hb : s.bound = true) (hl : s.loc = s.master)
    (h : (step s (.pullOther .H stop ow false)).2 = .ok) :
    (step s (.pullOther .H stop ow false)).1.loc = (step s (.pullOther .H stop ow false)).1.master ∧
    ((step s (.pullOther .H stop ow false)).1.loc ≠ s.loc →
      (step s (.pullOther .H stop ow false)).1.log =
        ⟨.loc, (step s (.pullOther .H stop ow false)).1.loc, .pull⟩ ::
        ⟨.master, (step s (.pullOther .H stop ow false)).1.loc, .pull⟩ :: s.log) := by
  simp only [step, pullOtherH, hb, hl] at h ⊢
  cases hu : updateRevisions s.graph s.master s.other stop ow with
  | none => simp [hu] at h
  | some m' =>
    simp only [hu, Bool.not_true, Bool.and_false, Bool.false_eq_true, if_false, Bool.not_false, Bool.and_true, if_true]
    refine ⟨trivial, ?_⟩
    intro hne
    have : (m' != s.master) = true := by simpa using hne
    simp [logIf, this]

/-- a refused pull from another branch never touches the local branch, the
checkout's tree or the binding -/
theorem pull_other_refused_local_unchanged (s : St) (stop : Option Rev) (ow l : Bool)
    (h : (step s (.pullOther .H stop ow l)).2 ≠ .ok) :
    (step s (.pullOther .H stop ow l)).1.loc = s.loc ∧ (step s (.pullOther .H stop ow l)).1.tH = s.tH ∧
    (step s (.pullOther .H stop ow l)).1.bound = s.bound := by
  simp only [step]
  unfold pullOtherH
  split
  · exact ⟨rfl, rfl, rfl⟩
  · simp only
    split
    · exact ⟨rfl, rfl, rfl⟩
    · split
      · exact ⟨rfl, rfl, rfl⟩
      · rename_i hne _ m' hm _ l' hl'
        exfalso
        apply h
        simp only [step]
        unfold pullOtherH
        simp only [hne, hm, hl']
        simp

/-- **Witness (statement violated)**: the checkout has a local-only commit, the
other branch is ahead of the master: the pull moves the master and then raises
`DivergedBranches` for the local branch — a refused operation that changed the
master -/
theorem pull_other_master_moved_witness :
    let s := run init [.commit .M "r1" false, .update .H, .syncO, .commitO "r2", .commit .H "r3" true]
    (step s (.pullOther .H none false false)).2 = .diverged ∧
    s.master = "r1" ∧ (step s (.pullOther .H none false false)).1.master = "r2" ∧
    (step s (.pullOther .H none false false)).1.loc = "r3" := by decide

/-- `pull --local` never touches the master -/
theorem pull_other_local_only (s : St) (stop : Option Rev) (ow : Bool) :
    (step s (.pullOther .H stop ow true)).1.master = s.master := by
  simp only [step, pullOtherH]
  split
  · rfl
  · simp only [Bool.not_true, Bool.and_false, Bool.false_eq_true, if_false]
    split
    · rfl
    · rfl

/-- **invariant over operation sequences**: in the log of tip writes of *any*
sequence of commits (through the master, the checkouts, with --local),
updates, pulls, binds and unbinds, every local write made by a bound commit
directly follows the master write of the same revision -/
theorem run_master_first (ops : List Op) (s : St) (h : masterFirst s.log = true) :
    masterFirst (run s ops).log = true := by
  induction ops generalizing s with
  | nil => exact h
  | cons op rest ih => exact ih (step s op).1 (step_master_first s op h)

/-! non-vacuity -/

example : masterFirst init.log = true := rfl

example :
    let s := run init [.commit .M "r1" false, .update .H, .commit .H "r2" false, .commit .H "r3" true,
                       .update .M, .commit .M "r4" false, .commit .H "r5" false, .update .H]
    (s.master, s.loc, s.tH.parents, s.log.map (fun e => (e.br, e.rev))) =
      ("r4", "r4", ["r4", "r3"],
       [(.loc, "r4"), (.master, "r4"), (.loc, "r3"), (.loc, "r2"), (.master, "r2"), (.loc, "r1"), (.master, "r1")]) := by
  decide

/-- the hypotheses of `bound_commit_refused_noop` and `update_equalises_partial`
hold in a reachable state (the master moved on after a local commit) -/
example :
    let s := run init [.commit .M "r1" false, .update .H, .commit .H "r2" true, .update .M]
    s.bound = true ∧ s.loc ≠ s.master ∧ s.master ≠ null ∧
    (step s (.commit .H "r3" false)).2 = .boundOutOfDate := by decide

/-- the hypotheses of `bound_pull_other_same_revision` hold in a reachable state
and the pull stops at the requested revision for master and local alike -/
example :
    let s := run init [.commit .M "r1" false, .update .H, .syncO, .commitO "r2", .commitO "r3", .commitO "r4"]
    s.bound = true ∧ s.loc = s.master ∧
    (step s (.pullOther .H (some "r3") false false)).2 = .ok ∧
    (step s (.pullOther .H (some "r3") false false)).1.master = "r3" ∧
    (step s (.pullOther .H (some "r3") false false)).1.loc = "r3" := by decide

/-- a diverged pull is refused -/
example :
    let s := run init [.commit .M "r1" false, .update .H, .commit .H "r2" true, .commit .M "r3" false]
    (step s .pull).2 = .diverged := by decide

end BreezyVerif.C23
