import BreezyVerif.Model.C22
/-
C25 — log lists the requested history completely and consistently.

Model of `breezy/log.py` on top of the shared `mergeSort` specification and
the branch model of C22: `reverse_by_depth`, `_rebase_merge_depth` (literal),
`_linear_view_revisions`, `_graph_view_revisions` (with the depth adjustment of
the initial revisions), `_generate_all_revisions` (with delayed graph
generation), `_calc_view_revisions`, `_get_revision_limits`, the level / limit
filter of `_DefaultLogGenerator.iter_log_revisions`, and the merge-stack
algorithm of `_filter_revisions_touching_path` (given the set of revisions that
modified the file, as answered by the per-file graph).
-/
namespace BreezyVerif.C25
open BreezyVerif.C22

/-- one view revision `(revision_id, dotted_revno, merge_depth)`; the revno is
kept as the list of its numbers (`[]` = None, for revisions outside the branch) -/
structure V where
  rev : Nat
  revno : List Nat
  depth : Nat
  deriving DecidableEq, Repr

/-! ## reverse_by_depth -/

/-- chunk `[fake] ++ l` at depth `d`: the tail of the fake revision's chunk and
the chunks (first revision at depth `d`, the deeper revisions grouped with it) -/
def chunk (d : Nat) : List V → List V × List (V × List V)
  | [] => ([], [])
  | v :: l =>
    let r := chunk d l
    if v.depth == d then ([], (v, r.1) :: r.2) else (v :: r.1, r.2)

/-- `reverse_by_depth(l, _depth = d)` without the fake revisions (they are
dropped by the top-level call and never influence the order of the others);
`none` = recursion without end (Python: RecursionError), impossible when
called with `d = 0` and enough fuel -/
def rbd : Nat → Nat → List V → Option (List V)
  | 0, _, _ => none
  | fuel + 1, d, l =>
    let r := chunk d l
    let sub (t : List V) : Option (List V) := if t.isEmpty then some [] else rbd fuel (d + 1) t
    match sub r.1, r.2.mapM (fun c => (sub c.2).map (c.1 :: ·)) with
    | some pre', some cs' => some (cs'.reverse.flatten ++ pre')
    | _, _ => none

def rbdFuel (l : List V) : Nat := (l.map fun v => v.depth + 1).sum + 1

/-- the top-level call: the fake revisions are dropped by `r[0] is not None and
r[1] is not None`, which also drops real revisions whose revno is None
(revisions outside the branch) -/
def reverseByDepth (l : List V) : Option (List V) :=
  (rbd (rbdFuel l) 0 l).map fun r => r.filter fun v => !v.revno.isEmpty

/-- the list is a forest in pre-order starting at depth `d`: it is empty or starts at depth `d`, and what
follows each revision of depth `d` up to the next one is such a forest at depth `d + 1` (every merge-sorted
view of a whole branch has this shape at depth 0) -/
def wellNestedAux : Nat → Nat → List V → Bool
  | 0, _, _ => false
  | fuel + 1, d, l =>
    let r := chunk d l
    r.1.isEmpty && r.2.all fun c => c.2.isEmpty || wellNestedAux fuel (d + 1) c.2

def wellNested (l : List V) : Bool := wellNestedAux (rbdFuel l) 0 l

/-! ## _rebase_merge_depth -/

def minDepth : List V → Nat
  | [] => 0
  | [v] => v.depth
  | v :: l => min v.depth (minDepth l)

/-- `_rebase_merge_depth` -/
def rebaseMergeDepth (l : List V) : List V :=
  match l.head?, l.getLast? with
  | some a, some z =>
    if a.depth != 0 && z.depth != 0 then
      let m := minDepth l
      if m != 0 then l.map fun v => { v with depth := v.depth - m } else l
    else l
  | _, _ => l

/-! ## view calculation -/

inductive LErr where
  | command (msg : String)      -- errors.CommandError
  | startNotLinear              -- the internal `_StartNotLinearAncestor` escaping
  | other (e : Err)
  | unsupported
  deriving DecidableEq, Repr

def liftE {α : Type} : Except Err α → Except LErr α
  | .ok a => .ok a
  | .error .unsupported => .error .unsupported
  | .error e => .error (.other e)

/-- `_compute_revno_str`: the dotted revno, `[]` when the revision is not in the branch -/
def revnoStr (b : Branch) (r : Nat) : List Nat :=
  match b.revIdToDotted (.rev r) with
  | .ok d => d.map Int.toNat
  | .error _ => []

def hasMerges (b : Branch) (r : Nat) : Bool := (parentsD b.g r).length > 1

/-- `_linear_view_revisions`: `none` = `_StartNotLinearAncestor` -/
def linearView (b : Branch) (start stop : Option Nat) (exclCommon : Bool) : Option (List V) :=
  match start, stop with
  | none, none =>
    -- the branch's own history with revnos counted down from the tip's
    some ((b.history.zipIdx).map fun (r, i) => ⟨r, [b.lastRevno - i], 0⟩)
  | _, _ =>
    -- the left-hand ancestry of the end revision (the tip when there is none)
    let lh : List Nat := match stop with
      | some e => lefthand b.g (e + 1) e
      | none => b.history
    let mk (r : Nat) : V := ⟨r, revnoStr b r, 0⟩
    match start with
    | none => some (lh.map mk)
    | some s =>
      if lh.contains s then
        some ((lh.takeWhile (· != s)).map mk ++ (if exclCommon then [] else [mk s]))
      else none

/-- the ghost at which the left-hand walk from `r` stops, if it stops at one (`RevisionNotPresent`) -/
def lefthandGhost (g : Graph) : Nat → Nat → Option Nat
  | 0, _ => none
  | fuel + 1, r =>
    match g[r]? with
    | none => none
    | some [] => none
    | some (p :: _) => if p < g.length then lefthandGhost g fuel p else some p

/-- the extra `(ghost_id, None, None)` tuple `_linear_view_revisions` yields when the left-hand walk of a range
runs into a ghost before it is cut at the start revision.  Without a range the walk is the branch's own
mainline, which never contains a ghost (assumption shared with C22).  With a start revision that is not found
the generator still raises `_StartNotLinearAncestor` afterwards (`linearView` = `none`). -/
def linearGhost (b : Branch) (start stop : Option Nat) : Option Nat :=
  match start, stop with
  | none, none => none
  | _, _ =>
    match (match stop with | some e => some e | none => b.tip) with
    | none => none
    | some e =>
      match start with
      | some s => if (lefthand b.g (e + 1) e).contains s then none else lefthandGhost b.g (e + 1) e
      | none => lefthandGhost b.g (e + 1) e

def ofMS (e : MS) : V := ⟨e.rev, e.revno, e.depth⟩

/-- the depth adjustment loop of `_graph_view_revisions` -/
def adjustDepths : Option Nat → List V → List V
  | _, [] => []
  | adj, v :: l =>
    let adj0 := adj.getD v.depth
    if adj0 != 0 then
      let adj1 := if v.depth < adj0 then v.depth else adj0
      { v with depth := v.depth - adj1 } :: adjustDepths (some adj1) l
    else v :: adjustDepths (some adj0) l

/-- `_graph_view_revisions(start, end, rebase_initial_depths, exclude_common_ancestry)` -/
def graphView (b : Branch) (start stop : Option Nat) (rebaseInitial exclCommon : Bool) :
    Except LErr (List V) :=
  if exclCommon && stop.isNone then .error .unsupported else
  match liftE (b.iterMergeSorted (stop.map RevId.rev) (start.map RevId.rev)
      (if exclCommon then .withMergesNoCommon else .withMerges) false) with
  | .error e => .error e
  | .ok l =>
    let vs := l.map ofMS
    .ok (if rebaseInitial then adjustDepths none vs else vs)

/-- the delayed-graph-generation prefix of `_generate_all_revisions`: linear
revisions up to the first one with merges.  Result: (initial revisions, the
revision with merges where the graph view takes over) -/
def initialLinear (b : Branch) : List V → List V × Option Nat
  | [] => ([], none)
  | v :: l =>
    if hasMerges b v.rev then ([], some v.rev)
    else
      let r := initialLinear b l
      (v :: r.1, r.2)

/-- `_generate_all_revisions` -/
def generateAll (b : Branch) (start stop : Option Nat) (forward delayed exclCommon : Bool) :
    Except LErr (List V) :=
  if delayed then
    let lin := linearView b start stop exclCommon
    -- the generator raises `_StartNotLinearAncestor` only when it is exhausted:
    -- a revision with merges met before that wins
    let e := stop.getD (b.tip.getD 0)
    let scan : List V := match lin with
      | some l => l
      | none => (lefthand b.g (e + 1) e).map fun r => (⟨r, revnoStr b r, 0⟩ : V)
    match initialLinear b scan with
    | (initial, none) =>
      if lin.isNone then .error (.command "Start revision not found in history of end revision.")
      else .ok initial
    | (initial, some m) =>
      let rest := (graphView b start (some m) (!forward) exclCommon).map fun l => initial ++ l
      match start, stop with
      | none, _ => rest
      -- `graph.is_ancestor(start_rev_id, None)`: ValueError or False depending on cache state — out of scope
      | some _, none => .error .unsupported
      | some s, some e =>
        if isAncestor b.g s e then rest
        else .error (.command "Start revision not found in history of end revision.")
  else graphView b start stop (!forward) exclCommon

-- `_is_obvious_ancestor` is only used to decide laziness; not observable

/-- `_is_obvious_ancestor` -/
def isObviousAncestor (b : Branch) (start stop : Option Nat) : Bool :=
  match start, stop with
  | some s, some e =>
    match b.revIdToDotted (.rev s), b.revIdToDotted (.rev e) with
    | .ok sd, .ok ed =>
      match sd, ed with
      | [x], [y] => x ≤ y
      | [x0, x1, x2], [y0, y1, y2] => x0 == y0 && x1 == y1 && x2 ≤ y2   -- same development line
      | _, _ => false
    | _, _ => false
  | _, _ => true

/-- `_calc_view_revisions`.  The flag says that the result is a lazy generator
that raises `_StartNotLinearAncestor` once all of the list has been produced. -/
def calcView (b : Branch) (start stop : Option Nat) (forward genMerge delayed exclCommon : Bool) :
    Except LErr (List V × Bool) :=
  if exclCommon && start == stop then
    .error (.command "--exclude-common-ancestry requires two different revisions")
  else match b.tip with
  | none => .ok ([], false)
  | some t =>
    -- a range without an upper limit ends at the tip
    let stop : Option Nat := if start.isSome && stop.isNone then some t else stop
    let single : Option Nat := match stop with
      | some e => if start == stop && (!genMerge || !hasMerges b e) then some e else none
      | none => none
    match single with
    | some e =>
      -- _generate_one_revision
      if e == t then .ok ([⟨t, [b.lastRevno], 0⟩], false) else .ok ([⟨e, revnoStr b e, 0⟩], false)
    | none =>
      let viaGraph : Except LErr (List V × Bool) :=
        match generateAll b start stop forward delayed exclCommon with
        | .error e => .error e
        | .ok l =>
          if forward then
            match reverseByDepth l with
            | some r => .ok (rebaseMergeDepth r, false)
            | none => .error (.other .internal)
          else .ok (l, false)
      if !genMerge then
        match linearView b start stop exclCommon with
        | some l => .ok (if forward then l.reverse else l, false)
        | none =>
          -- the generator is only listed inside the `try` when going forward or
          -- when the start is not an "obvious" ancestor of the end
          if forward || (start.isSome && !isObviousAncestor b start stop) then viaGraph
          else
            let e := stop.getD t
            .ok ((lefthand b.g (e + 1) e).map fun r => (⟨r, revnoStr b r, 0⟩ : V), true)
      else viaGraph

/-- `_get_revision_limits` on (revno, rev_id) pairs -/
def revisionLimits (b : Branch) (start stop : Option (Option Int × RevId)) : Except LErr Unit :=
  let startRevno : Int := match start with
    | some (some n, _) => n
    | _ => 1
  if b.tip.isSome then
    if (start.map (·.2)) == some .null || (stop.map (·.2)) == some .null then
      .error (.command "Logging revision 0 is invalid.")
    else match stop with
      | some (some n, _) =>
        if startRevno > n then .error (.command "Start revision must be older than the end revision.")
        else .ok ()
      | _ => .ok ()
  else .ok ()

/-- the level and limit filter of `iter_log_revisions` -/
def levelLimit (levels : Nat) (limit : Nat) (l : List V) : List V :=
  let f := l.filter fun v => levels == 0 || v.depth < levels
  if limit == 0 then f else f.take limit

/-- a whole log request without file filter (delta matching generator) -/
def logRequest (b : Branch) (start stop : Option Nat) (forward : Bool) (levels limit : Nat)
    (exclCommon : Bool) : Except LErr (List V) :=
  let genMerge := levels != 1
  let delayed := limit != 0 || start.isSome || stop.isSome
  match revisionLimits b (start.map fun s => (b.lazyRevno (.rev s), .rev s))
      (stop.map fun s => (b.lazyRevno (.rev s), .rev s)) with
  | .error e => .error e
  | .ok () =>
    match calcView b start stop forward genMerge delayed exclCommon with
    | .error e => .error e
    | .ok (l, false) => .ok (levelLimit levels limit l)
    -- a lazy view that fails at its end: the internal `_StartNotLinearAncestor` escapes (with a limit
    -- the outcome even depends on the batch sizes) — a defect, not compared (the oracle reports it)
    | .ok (_, true) => .error .unsupported

/-! ## per-file filtering -/

/-- one step of the merge stack of `_filter_revisions_touching_path`:
`if depth == len(stack): stack.append(info) else: del stack[depth + 1:]; stack[-1] = info` -/
def pushStack (stack : List (Option V)) (v : V) : List (Option V) :=
  if v.depth == stack.length then stack ++ [some v]
  else (stack.take (v.depth + 1)).dropLast ++ [some v]

/-- the merge stack of `_filter_revisions_touching_path`: `none` = already
added to the result (or the initial placeholder) -/
def touchLoop (modified : List Nat) (includeMerges : Bool) : List (Option V) → List V → List V
  | _, [] => []
  | stack, v :: l =>
    let stack1 : List (Option V) := pushStack stack v
    if modified.contains v.rev then
      let out := stack1.filterMap fun n =>
        match n with
        | some x => if includeMerges || x.depth == 0 then some x else none
        | none => none
      let stack2 := stack1.map fun n =>
        match n with
        | some x => if includeMerges || x.depth == 0 then none else some x
        | none => none
      out ++ touchLoop modified includeMerges stack2 l
    else touchLoop modified includeMerges stack1 l

/-- `_filter_revisions_touching_path(view_revisions, include_merges)` given the
revisions in which the per-file graph has a node for the file -/
def touching (modified : List Nat) (includeMerges : Bool) (l : List V) : List V :=
  touchLoop modified includeMerges [none] l

/-! ### the specification of the per-file filter (no stack)

A revision *encloses* the revisions that follow it at greater depth (up to the
next revision that is not deeper): the revisions it merged.  The filter is
meant to list a revision iff it modified the file or encloses a revision that
did (without merges: only the depth-0 ones). -/

/-- some revision that modified the file occurs in the maximal run of revisions deeper than `d` at the head of the list -/
def groupHasMod (modified : List Nat) (d : Nat) : List V → Bool
  | [] => false
  | w :: l => decide (d < w.depth) && (modified.contains w.rev || groupHasMod modified d l)

/-- the view revisions that modified the file or enclose one that did -/
def enclosingExpected (modified : List Nat) (includeMerges : Bool) : List V → List V
  | [] => []
  | v :: l =>
    if (modified.contains v.rev || groupHasMod modified v.depth l) && (includeMerges || v.depth == 0) then
      v :: enclosingExpected modified includeMerges l
    else enclosingExpected modified includeMerges l

/-- the depth goes up by at most one from one revision to the next (it may drop by any amount); `n` = 1 + the
depth of the previous revision.  Every merge-sorted list has this shape (`mergeSort_stepwise`). -/
def stepwise : Nat → List V → Bool
  | _, [] => true
  | n, v :: l => decide (v.depth ≤ n) && stepwise (v.depth + 1) l

end BreezyVerif.C25
