import BreezyVerif.Model.C19
import BreezyVerif.Generated.C19
/-! C19 — T1 tie: the byte constants found in the current source of
`Merge3Merger.text_merge` are the ones the model (and hence every theorem of
Props/C19.lean) is about. -/
namespace BreezyVerif.C19

theorem sentinel_gen_eq : sentinelGen = sentinel := by decide
theorem replacement_gen_eq : replacementGen = lt7 := by decide
theorem base_marker_gen_eq : baseMarkerGen = bar7 := by decide
/-- the byte appended by `start_marker += b"!"` is the one `extendMarker` appends -/
theorem extension_gen_eq : extensionGen = [33] := by decide
theorem names_gen_eq : nameAGen = nameA ∧ nameBGen = nameB ∧ nameBaseGen = nameBase := by decide
/-- `_dump_conflicts` + `_conflict_file` name the helpers `<name>.OTHER`, `<name>.THIS`, `<name>.BASE` … -/
theorem helper_suffixes_gen_eq : helperSuffixesGen = [sfxOther, sfxThis, sfxBase] := by decide
/-- … and these are exactly the suffixes `TextConflict.associated_filenames` / `cleanup` (bzr) … -/
theorem cleanup_suffixes_gen_eq : cleanupSuffixesGen = [sfxThis, sfxBase, sfxOther] := by decide
/-- … and the git working tree's conflict detection look for -/
theorem cleanup_suffixes_git_gen_eq : cleanupSuffixesGitGen = [sfxBase, sfxOther, sfxThis] := by decide

end BreezyVerif.C19
