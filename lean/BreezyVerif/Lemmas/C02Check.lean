import BreezyVerif.Lemmas.C02Inv
/-
C02: the stored per-file parents are the heads recomputed on the final
repository; the checker's expected index equals the stored text graph.
-/
namespace BreezyVerif.C02

/-- a carried-over entry does not name the new revision -/
theorem carried_rev_ne {st : State} (w : WF st) {c : Commit} (hid : c.id ∉ ids st)
    {f : FileId} {x : Rev} {pe : Entry} (hw : entryWithRev st c.parents f x = some pe) :
    pe.rev ≠ c.id := by
  obtain ⟨_, p, _, he⟩ := entryWithRev_some hw
  obtain ⟨r, hr, _, hl⟩ := entryIn_mem he
  intro e
  exact hid (e ▸ w.revs r hr f pe hl)

/-- per tree item: no new text and an older last-changed revision, or a new
text `(f, c.id)` whose parents are the heads -/
theorem recordOne_dichotomy {st : State} (w : WF st) {c : Commit} (hid : c.id ∉ ids st)
    (f : FileId) (a : Attr) :
    ((recordOne st c f a).2 = none ∧ (recordOne st c f a).1.rev ≠ c.id) ∨
    ((recordOne st c f a).2 = some (heads (textsOf st) f (candidates st c.parents f)) ∧
      (recordOne st c f a).1.rev = c.id) := by
  rcases recordOne_cases st c f a with ⟨x, pe, _, hw, _, hrec⟩ | ⟨hrec, _⟩
  · left; rw [hrec]; exact ⟨rfl, carried_rev_ne w hid hw⟩
  · right; rw [hrec]; exact ⟨rfl, rfl⟩

theorem mkRec_texts_mem {st : State} (w : WF st) {c : Commit} (hid : c.id ∉ ids st)
    {t : FileId × List Rev} (h : t ∈ (mkRec st c).texts) :
    t.2 = heads (textsOf st) t.1 (candidates st c.parents t.1) ∧
      ∃ a, (t.1, a) ∈ c.tree ∧ (recordOne st c t.1 a).1.rev = c.id := by
  simp only [mkRec, List.mem_filterMap, Option.map_eq_some_iff] at h
  obtain ⟨⟨f, a⟩, hm, ps, h2, ht⟩ := h
  subst ht
  rcases recordOne_dichotomy w hid f a with ⟨h3, _⟩ | ⟨h3, h4⟩
  · simp only at h2; rw [h3] at h2; simp at h2
  · simp only at h2; rw [h3] at h2
    simp only [Option.some.injEq] at h2
    exact ⟨h2.symm, a, hm, h4⟩

/-- one step of `perfile_parents_are_heads` -/
theorem parents_heads_step {st : State} (w : WF st) {c : Commit} (ok : okCommit st c)
    (P : ∀ r ∈ st, ∀ t ∈ r.texts,
      t.2 = heads (textsOf st) t.1 (candidates st r.parents t.1)) :
    ∀ r ∈ record st c, ∀ t ∈ r.texts,
      t.2 = heads (textsOf (record st c)) t.1 (candidates (record st c) r.parents t.1) := by
  intro r hr t ht
  show t.2 = heads (textsOf (mkRec st c :: st)) t.1 (candidates (mkRec st c :: st) r.parents t.1)
  have hid : c.id ∉ ids st := fun h => ok.1 (id_mem_mentioned h)
  rcases List.mem_cons.mp hr with h | h
  · subst h
    show t.2 = heads (textsOf (mkRec st c :: st)) t.1 (candidates (mkRec st c :: st) c.parents t.1)
    rw [heads_stable w (mkRec st c) hid _ fun p hp (e : p = c.id) => ok.2.1 (e ▸ hp)]
    exact (mkRec_texts_mem w hid ht).1
  · rw [heads_stable w (mkRec st c) hid _ fun p hp (e : p = c.id) =>
      ok.1 (e ▸ parent_mem_mentioned h hp)]
    exact P r h t ht

theorem parents_heads_build : ∀ (h : List Commit), hist h →
    ∀ r ∈ build h, ∀ t ∈ r.texts,
      t.2 = heads (textsOf (build h)) t.1 (candidates (build h) r.parents t.1)
  | [], _ => by simp [build]
  | _ :: older, hh =>
    parents_heads_step (build_WF older hh.1) hh.2 (parents_heads_build older hh.1)

/-! ### the checker -/

theorem filter_map_eq_filterMap {β : Type} (l : Tree) (R : FileId → Attr → Entry × Option (List Rev))
    (H : FileId → List Rev) (cid : Rev) (K : FileId → List Rev → β)
    (hd : ∀ t ∈ l, ((R t.1 t.2).2 = none ∧ (R t.1 t.2).1.rev ≠ cid) ∨
      ((R t.1 t.2).2 = some (H t.1) ∧ (R t.1 t.2).1.rev = cid)) :
    (((l.map fun t => (t.1, (R t.1 t.2).1)).filter fun t => t.2.rev == cid).map
        fun t => K t.1 (H t.1))
      = (l.filterMap fun t => (R t.1 t.2).2.map fun ps => (t.1, ps)).map fun t => K t.1 t.2 := by
  induction l with
  | nil => rfl
  | cons t l ih =>
    have ih' := ih fun u hu => hd u (List.mem_cons_of_mem _ hu)
    rcases hd t List.mem_cons_self with ⟨h1, h2⟩ | ⟨h1, h2⟩
    · have : ((R t.1 t.2).1.rev == cid) = false := by simp [h2]
      simp only [List.map_cons, List.filter_cons, this, List.filterMap_cons, h1, Option.map_none]
      exact ih'
    · have : ((R t.1 t.2).1.rev == cid) = true := by simp [h2]
      simp only [List.map_cons, List.filter_cons, this, List.filterMap_cons, h1, Option.map_some,
        if_true]
      rw [ih']

theorem nodup_append_right_not_left {l1 l2 : List Nat} (h : (l1 ++ l2).Nodup) {x : Nat}
    (hx : x ∈ l2) : x ∉ l1 := by
  intro h1
  have := (List.nodup_append.mp h).2.2 x h1 x hx
  exact this rfl

theorem ids_append (a b : State) : ids (a ++ b) = ids a ++ ids b := by simp [ids]

theorem mentioned_cons_of_mem {r : Rec} {st : State} {x : Rev} (h : x ∈ mentioned st) :
    x ∈ mentioned (r :: st) := by
  simp only [mentioned, ids, List.map_cons, List.flatMap_cons, List.mem_append, List.mem_cons,
    List.mem_map, List.mem_flatMap] at h ⊢
  rcases h with h | h
  · exact Or.inl (Or.inr h)
  · exact Or.inr (Or.inr h)

/-- `_do_generate_text_key_index` reproduces the stored per-file graph, key by
key and in the same order; ghost parents are skipped on both sides (`invOf` is
`none` for them in `full` as it was at commit time, because no later revision
takes a named id) -/
theorem expIndexAux_build : ∀ (h : List Commit), hist h → ∀ (pre : State),
    (∀ x ∈ ids pre, x ∉ mentioned (build h)) →
    expIndexAux (pre ++ build h) (build h) = textsOf (build h)
  | [], _, _, _ => rfl
  | c :: older, hh, pre, hn => by
    have w := build_WF older hh.1
    obtain ⟨hment, hself, _⟩ := hh.2
    have hid : c.id ∉ ids (build older) := fun h => hment (id_mem_mentioned h)
    show expIndexAux (pre ++ (mkRec (build older) c :: build older))
      (mkRec (build older) c :: build older) = textsOf (mkRec (build older) c :: build older)
    have hfull : pre ++ (mkRec (build older) c :: build older)
        = (pre ++ [mkRec (build older) c]) ++ build older := by simp
    have hn' : ∀ x ∈ ids (pre ++ [mkRec (build older) c]), x ∉ mentioned (build older) := by
      intro x hx hm
      rw [ids_append] at hx
      rcases List.mem_append.mp hx with h1 | h1
      · exact hn x h1 (mentioned_cons_of_mem hm)
      · simp only [ids, List.map_cons, List.map_nil, List.mem_singleton] at h1
        have h1' : x = c.id := h1
        exact hment (h1' ▸ hm)
    have ih := expIndexAux_build older hh.1 (pre ++ [mkRec (build older) c]) hn'
    rw [textsOf_cons]
    simp only [expIndexAux]
    rw [hfull, ih]
    congr 1
    have hc : ∀ f, candidates ((pre ++ [mkRec (build older) c]) ++ build older) c.parents f
        = candidates (build older) c.parents f := fun f =>
      candidates_append _ _ _ _ fun p hp hx => by
        rw [ids_append] at hx
        rcases List.mem_append.mp hx with h1 | h1
        · exact hn p h1 (parent_mem_mentioned (r := mkRec (build older) c) List.mem_cons_self hp)
        · simp only [ids, List.map_cons, List.map_nil, List.mem_singleton] at h1
          have h1' : p = c.id := h1
          exact hself (h1' ▸ hp)
    show (((mkRec (build older) c).inv.filter fun t => t.2.rev == c.id).map fun t =>
        ((t.1, c.id), heads (textsOf (build older)) t.1
          (candidates ((pre ++ [mkRec (build older) c]) ++ build older) c.parents t.1)))
      = (mkRec (build older) c).texts.map fun t => ((t.1, c.id), t.2)
    simp only [hc]
    exact filter_map_eq_filterMap c.tree (recordOne (build older) c)
      (fun f => heads (textsOf (build older)) f (candidates (build older) c.parents f)) c.id
      (fun f ps => ((f, c.id), ps)) fun t _ => recordOne_dichotomy w hid t.1 t.2

theorem expIndex_build (h : List Commit) (hh : hist h) :
    expIndex (build h) = textsOf (build h) := by
  have := expIndexAux_build h hh [] (by simp [ids])
  simpa [expIndex] using this

/-! ### uniqueness of keys -/

theorem lookup_of_mem_nodup' {κ α : Type} [BEq κ] [LawfulBEq κ] {l : List (κ × α)} {k : κ} {a : α}
    (hn : (l.map (·.1)).Nodup) (h : (k, a) ∈ l) : l.lookup k = some a := by
  induction l with
  | nil => simp at h
  | cons t l ih =>
    obtain ⟨k', v⟩ := t
    simp only [List.map_cons, List.nodup_cons, List.mem_map, not_exists, not_and] at hn
    simp only [List.lookup_cons]
    rcases List.mem_cons.mp h with h | h
    · simp only [Prod.mk.injEq] at h
      simp [h.1, h.2]
    · have : k ≠ k' := fun e => hn.1 (k, a) h e
      have : (k == k') = false := by simp [this]
      simp only [this]
      exact ih hn.2 h

theorem filterMap_keys_sublist (l : Tree) (R : FileId → Attr → Option (List Rev)) :
    ((l.filterMap fun t => (R t.1 t.2).map fun ps => (t.1, ps)).map (·.1)).Sublist (l.map (·.1)) := by
  induction l with
  | nil => simp
  | cons t l ih =>
    simp only [List.filterMap_cons, List.map_cons]
    cases h : R t.1 t.2 with
    | none => simp only [Option.map_none]; exact List.Sublist.cons _ ih
    | some ps => simp only [Option.map_some, List.map_cons]; exact List.Sublist.cons_cons _ ih

theorem nodup_map_pair {l : List Nat} (cid : Nat) (h : l.Nodup) :
    (l.map fun f => (f, cid)).Nodup := by
  induction l with
  | nil => simp
  | cons a l ih =>
    simp only [List.nodup_cons] at h
    simp only [List.map_cons, List.nodup_cons, List.mem_map, not_exists, not_and]
    refine ⟨fun x hx e => ?_, ih h.2⟩
    simp only [Prod.mk.injEq, and_true] at e
    exact h.1 (e ▸ hx)

theorem textKeys_nodup : ∀ (h : List Commit), hist h → ((textsOf (build h)).map (·.1)).Nodup
  | [], _ => by simp [build, textsOf]
  | c :: older, hh => by
    have ih := textKeys_nodup older hh.1
    obtain ⟨hment, _, hnd⟩ := hh.2
    have hid : c.id ∉ ids (build older) := fun h => hment (id_mem_mentioned h)
    show ((textsOf (mkRec (build older) c :: build older)).map (·.1)).Nodup
    rw [textsOf_cons, List.map_append, List.nodup_append]
    refine ⟨?_, ih, ?_⟩
    · have hs := filterMap_keys_sublist c.tree (fun f a => (recordOne (build older) c f a).2)
      have : (((mkRec (build older) c).texts.map fun t => ((t.1, (mkRec (build older) c).id), t.2)).map (·.1))
          = ((mkRec (build older) c).texts.map (·.1)).map fun f => (f, c.id) := by
        simp [List.map_map, Function.comp_def, mkRec]
      rw [this]
      exact nodup_map_pair c.id (hnd.sublist hs)
    · intro k hk k' hk' e
      subst e
      simp only [List.mem_map] at hk hk'
      obtain ⟨⟨k1, ps1⟩, h1, e1⟩ := hk
      obtain ⟨⟨k2, ps2⟩, h2, e2⟩ := hk'
      obtain ⟨t, _, ht⟩ := h1
      have hk2 := textsOf_key_mem h2
      simp only at e1 e2
      have : k2 = (t.1, c.id) := by
        rw [e2, ← e1]
        have := congrArg Prod.fst ht
        simpa [mkRec] using this.symm
      rw [this] at hk2
      exact hid hk2

theorem inv_keys_nodup : ∀ (h : List Commit), hist h → ∀ r ∈ build h, (r.inv.map (·.1)).Nodup
  | [], _ => by simp [build]
  | c :: older, hh => by
    intro r hr
    rcases List.mem_cons.mp hr with h | h
    · subst h
      have : ((mkRec (build older) c).inv.map (·.1)) = c.tree.map (·.1) := by
        simp [mkRec, List.map_map, Function.comp_def]
      rw [this]; exact hh.2.2.2
    · exact inv_keys_nodup older hh.1 r h

end BreezyVerif.C02
