import BreezyVerif.Common
/-!
C26 / C27 — shared executable model of `breezy/lockdir.py: LockDir`.

The lock directory is modelled as a tiny transport file system: the directory
`held/` (absent, present without `info`, present with an `info` file) plus the
temporary directories (`<rand>.tmp` pending, `releasing.<rand>.tmp`,
`broken.<rand>.tmp`).  Temporary names are random in the code (`rand_chars`);
the model takes their uniqueness as given, so a temporary directory is only
ever touched by the locker that created it and is stored with that locker
(`pend`, `tmp`, `junk`).  The whole on-disk listing is `Sys.listing`.

Any number of lockers (`Nat → Locker`), each a step machine whose steps are
exactly the transport calls of the code (`mkdir`, `put_bytes_non_atomic`,
`rename`, `get_bytes`, `delete`, `rmdir`); the program counter `Pc` names the
*pending* call.  A schedule is a list of events `Ev`: start an operation on an
idle locker, let a locker perform its pending transport call (plus the local
computation up to its next call), make the pending call raise (fault
injection), or crash a locker (it never moves again; nothing is cleaned up).

Nonces (`rand_chars(20)`) are modelled as `(owner, serial)`; `serial` counts
the attempts of that locker, so freshness holds by construction.
-/
namespace BreezyVerif.C26

structure Nonce where
  owner : Nat
  serial : Nat
deriving DecidableEq, Repr

/-- content of an `info` file: parses to holder info with a nonce, or does not parse
(`LockCorrupt`; the tag identifies the bytes) -/
inductive Content
  | ok (n : Nonce)
  | bad (tag : Nat)
deriving DecidableEq, Repr

/-- a directory inside the lock directory; `none` = it contains no `info` file -/
abbrev Dir := Option Content

/-- outcome of the last finished operation (exception class → enum) -/
inductive Res
  | never | ok | notHeld | lockBroken | contention | lockFailed | corrupt | mismatch
  | noSuchFile | faultT | faultP | assert | swallowed | nothing | broken | attrError
deriving DecidableEq, Repr

/-- injected transport error: `T` = `TransportError` that is not a `PathError`
(connection lost), `P` = a `PathError` (permission denied) -/
inductive FaultKind | T | P
deriving DecidableEq, Repr

def FaultKind.res : FaultKind → Res
  | .T => .faultT
  | .P => .faultP

inductive Kind | P | R | B
deriving DecidableEq, Repr

inductive Op | attempt | unlock | confirm | brk
deriving DecidableEq, Repr

/-- pending transport call.  `a*` = `_attempt_lock`, `u*` = `unlock`, `cPeek` =
`confirm`, `kPeek` = the `peek` of `break_lock`, `b*` = `force_break x`
(`ret = true`: called from `_handle_lock_contention`, i.e. stealing inside an
attempt), `x*` = `force_break_corrupt`. -/
inductive Pc
  | idle
  | aMkdir | aPut | aRename | aPeekC | aCleanDel (e : Res) | aCleanRmdir (e : Res) | aConfirm
  | uConfirm | uRename | uDelete | uRmdir
  | cPeek
  | kPeek
  | bPeek (x : Nonce) (ret : Bool) | bRename (x : Nonce) (ret : Bool) | bRead (x : Nonce) (ret : Bool)
  | bDelete (ret : Bool) | bRmdir (ret : Bool)
  | xRename (t : Nat) | xRead (t : Nat) | xDelete | xRmdir
deriving DecidableEq, Repr

structure Locker where
  pc : Pc := .idle
  /-- `_lock_held` -/
  held : Bool := false
  /-- serial of `self.nonce` (0 = no attempt yet) -/
  nonce : Nat := 0
  /-- the pending directory of the running attempt -/
  pend : Option Dir := none
  /-- the `releasing.*` / `broken.*` directory of the running unlock / break -/
  tmp : Option Dir := none
  /-- directories this locker left behind -/
  junk : List (Kind × Dir) := []
  last : Res := .never
deriving DecidableEq, Repr

/-- the OS account a locker's process runs as.  `name` is what `get_user_name()`
reports (`$LOGNAME`, recorded in the info file and compared by
`is_lock_holder_known_dead`); `uid` is the numeric user id the kernel checks
signal permission against (0 = root).  The two are independent: `su` without
`-l` keeps `LOGNAME`.  A bare numeral `n` denotes the account with LOGNAME `n`
running as root. -/
structure Account where
  name : Nat
  uid : Nat := 0
deriving DecidableEq, Repr

instance {n : Nat} : OfNat Account n := ⟨{ name := n }⟩

structure Cfg where
  /-- host name; 0 is the literal name `localhost` -/
  host : Nat
  user : Account
  /-- `locks.steal_dead` -/
  steal : Bool
deriving DecidableEq, Repr

/-- `LockHeldInfo.is_lock_holder_known_dead` as a decision table -/
def knownDead (hostEq isLocalhost userEq pidRecorded pidDead : Bool) : Bool :=
  hostEq && !isLocalhost && userEq && pidRecorded && pidDead

/-! ### `is_local_pid_dead`: the errno decision on `kill(pid, 0)` -/

/-- result of `nix::sys::signal::kill(pid, None)`: success, or an errno.  `other`
stands for every errno except `ESRCH` and `EPERM`. -/
inductive KillRes
  | ok | esrch | eperm | other
deriving DecidableEq, Repr

/-- `crates/osutils: is_local_pid_dead`, the `match` on the result of `kill(pid, None)`:
only `ESRCH` ("no such process") means dead; `Ok` (exists, we may signal it),
`EPERM` (exists, owned by somebody else) and anything else (don't know) mean
not known dead. -/
def pidDeadOf : KillRes → Bool
  | .ok => false
  | .esrch => true
  | .eperm => false
  | .other => false

/-- POSIX `kill(2)` with signal 0 on a positive pid: existence is checked first
(`ESRCH`), then permission (`EPERM`); no signal is delivered -/
def killZero (procExists permitted : Bool) : KillRes :=
  if !procExists then .esrch else if permitted then .ok else .eperm

/-- may a process of locker `me` signal a process of locker `o`?  Root may signal
everybody; otherwise the uids must agree (plain `setuid` processes: real =
effective = saved uid). -/
def maySignal (cfg : Nat → Cfg) (me o : Nat) : Bool :=
  (cfg me).user.uid == 0 || (cfg me).user.uid == (cfg o).user.uid

/-- what `kill(pid of locker o, 0)` returns when called by locker `me`.  The
process of a locker exists iff the locker has not crashed (no pid reuse). -/
def probe (cfg : Nat → Cfg) (crashed : Nat → Bool) (me o : Nat) : KillRes :=
  killZero (!crashed o) (maySignal cfg me o)

/-- is the holder recorded in `x` known dead, seen from locker `me`?  Host and
LOGNAME are compared as recorded; the pid is probed with `kill(pid, 0)` from the
process of `me` (host names identify machines — the code's own caveat). -/
def stealable (cfg : Nat → Cfg) (crashed : Nat → Bool) (me : Nat) (x : Nonce) : Bool :=
  knownDead ((cfg x.owner).host == (cfg me).host) ((cfg x.owner).host == 0)
    ((cfg x.owner).user.name == (cfg me).user.name) true (pidDeadOf (probe cfg crashed me x.owner))

/-! ### T1 targets: the two Rust decision functions as data

`harness/checks/c26.py: extract` transcribes the arms of the `match` in
`is_local_pid_dead` and the guard chain of `is_lock_holder_known_dead` from the
current Rust source into `Generated/C26.lean`; `Props/C26T1.lean` proves the
transcriptions equal to `pidDeadOf` / `knownDead`. -/

/-- pattern of a `match` arm over `Result<(), Errno>` -/
inductive ArmPat
  | ok | esrch | eperm | anyErr | any
deriving DecidableEq, Repr

def ArmPat.covers : ArmPat → KillRes → Bool
  | .ok, .ok => true
  | .esrch, .esrch => true
  | .eperm, .eperm => true
  | .anyErr, .esrch | .anyErr, .eperm | .anyErr, .other => true
  | .any, _ => true
  | _, _ => false

/-- first matching arm wins; `none` = no arm matches (does not compile in Rust) -/
def evalArms : List (ArmPat × Bool) → KillRes → Option Bool
  | [], _ => none
  | (p, v) :: rest, r => if p.covers r then some v else evalArms rest r

/-- condition of an `if … { return … }` guard in `is_lock_holder_known_dead` -/
inductive Guard
  | hostNe | hostEq | isLocalhost | notLocalhost | userNe | userEq | pidNone | pidSome
deriving DecidableEq, Repr

def Guard.holds (hostEq isLocalhost userEq pidRecorded : Bool) : Guard → Bool
  | .hostNe => !hostEq | .hostEq => hostEq
  | .isLocalhost => isLocalhost | .notLocalhost => !isLocalhost
  | .userNe => !userEq | .userEq => userEq
  | .pidNone => !pidRecorded | .pidSome => pidRecorded

/-- what the function evaluates to after the guards: a literal, or `is_local_pid_dead(pid)` -/
inductive Tail
  | lit (b : Bool) | pidDead
deriving DecidableEq, Repr

/-- early-return chain: the first guard that holds returns its value; otherwise the tail -/
def evalGuards (gs : List (Guard × Bool)) (tail : Tail)
    (hostEq isLocalhost userEq pidRecorded pidDead : Bool) : Bool :=
  match gs with
  | [] => (match tail with | .lit b => b | .pidDead => pidDead)
  | (g, v) :: rest =>
    if g.holds hostEq isLocalhost userEq pidRecorded then v
    else evalGuards rest tail hostEq isLocalhost userEq pidRecorded pidDead

inductive Peek
  | none | ok (n : Nonce) | corrupt (t : Nat)
deriving DecidableEq, Repr

/-- `get_bytes(d/info)` + `LockHeldInfo.from_info_file_bytes`; `NoSuchFile` → `none` -/
def peekDir : Option Dir → Peek
  | .none => .none
  | some .none => .none
  | some (some (.ok n)) => .ok n
  | some (some (.bad t)) => .corrupt t

def Locker.done (me : Locker) (r : Res) : Locker := { me with pc := .idle, last := r }

/-- prelude of an operation on an idle locker, up to its first transport call -/
def startOp (me : Locker) : Op → Locker
  | .attempt => { me with pc := .aMkdir }
  | .unlock => if me.held then { me with pc := .uConfirm } else me.done .notHeld
  | .confirm => if me.held then { me with pc := .cPeek } else me.done .notHeld
  | .brk => if me.held then me.done .assert else { me with pc := .kPeek }

/-- an exception leaves `force_break`: inside an attempt the pending directory is
removed first (`except BaseException: self._remove_pending_dir(tmpname); raise`) -/
def breakErr (me : Locker) (ret : Bool) (e : Res) : Locker :=
  if ret then { me with pc := .aCleanDel e } else me.done e

def dropTmp (me : Locker) (k : Kind) : Locker :=
  match me.tmp with
  | some d => { me with tmp := none, junk := me.junk ++ [(k, d)] }
  | none => me

def dropPend (me : Locker) : Locker :=
  match me.pend with
  | some d => { me with pend := none, junk := me.junk ++ [(.P, d)] }
  | none => me

/-- decision to break a lock taken in this step: `some (some x)` = the lock with
info `x`, `some none` = a lock with unparsable info -/
abbrev Decision := Option (Option Nonce)

/-- locker `id` performs its pending transport call successfully (as far as the
file system allows) and runs up to its next call -/
def lstep (id : Nat) (cfg : Nat → Cfg) (crashed : Nat → Bool) (me : Locker) (held : Option Dir) :
    Locker × Option Dir × Decision :=
  match me.pc with
  | .idle => (me, held, none)
  -- _attempt_lock
  | .aMkdir => ({ me with pend := some none, nonce := me.nonce + 1, pc := .aPut }, held, none)
  | .aPut => ({ me with pend := some (some (.ok ⟨id, me.nonce⟩)), pc := .aRename }, held, none)
  | .aRename =>
    match held with
    | none => ({ me with pend := none, pc := .aConfirm }, me.pend, none)
    | some _ => ({ me with pc := .aPeekC }, held, none)
  | .aPeekC =>
    match peekDir held with
    | .none => ({ me with pc := .aCleanDel .contention }, held, none)
    | .corrupt _ => ((dropPend me).done .corrupt, held, none)
    | .ok x =>
      if stealable cfg crashed id x && (cfg id).steal then
        if me.held then ({ me with pc := .aCleanDel .assert }, held, none)
        else ({ me with pc := .bPeek x true }, held, some (some x))
      else ({ me with pc := .aCleanDel .contention }, held, none)
  | .aCleanDel e =>
    match me.pend with
    | some (some _) => ({ me with pend := some none, pc := .aCleanRmdir e }, held, none)
    | _ => ((dropPend me).done e, held, none)
  | .aCleanRmdir e => (({ me with pend := none }).done e, held, none)
  | .aConfirm =>
    match peekDir held with
    | .none => (me.done .lockFailed, held, none)
    | .corrupt _ => (me.done .corrupt, held, none)
    | .ok y =>
      if y = ⟨id, me.nonce⟩ then (({ me with held := true }).done .ok, held, none)
      else (me.done .contention, held, none)
  -- unlock
  | .uConfirm =>
    match peekDir held with
    | .none => (me.done .lockBroken, held, none)
    | .corrupt _ => (me.done .swallowed, held, none)
    | .ok y =>
      if y = ⟨id, me.nonce⟩ then ({ me with pc := .uRename }, held, none)
      else (me.done .lockBroken, held, none)
  | .uRename =>
    match held with
    | none => (me.done .swallowed, held, none)
    | some d => ({ me with tmp := some d, held := false, pc := .uDelete }, none, none)
  | .uDelete =>
    match me.tmp with
    | some (some _) => ({ me with tmp := some none, pc := .uRmdir }, held, none)
    | _ => ((dropTmp me .R).done .swallowed, held, none)
  | .uRmdir => (({ me with tmp := none }).done .ok, held, none)
  -- confirm
  | .cPeek =>
    match peekDir held with
    | .none => (me.done .lockBroken, held, none)
    | .corrupt _ => (me.done .corrupt, held, none)
    | .ok y =>
      if y = ⟨id, me.nonce⟩ then (me.done .ok, held, none) else (me.done .lockBroken, held, none)
  -- break_lock: peek, then force_break / force_break_corrupt
  | .kPeek =>
    match peekDir held with
    | .none => (me.done .nothing, held, none)
    | .corrupt t => ({ me with pc := .xRename t }, held, some none)
    | .ok x => ({ me with pc := .bPeek x false }, held, some (some x))
  -- force_break x
  | .bPeek x ret =>
    match peekDir held with
    -- `force_break` returns None ("must have been recently released"); `break_lock` then evaluates
    -- `result.lock_url` on it and dies with AttributeError
    | .none => if ret then ({ me with pc := .aRename }, held, none) else (me.done .attrError, held, none)
    | .corrupt _ => (breakErr me ret .corrupt, held, none)
    | .ok y =>
      if y = x then ({ me with pc := .bRename x ret }, held, none)
      else (breakErr me ret .mismatch, held, none)
  | .bRename x ret =>
    match held with
    | none => (breakErr me ret .noSuchFile, held, none)
    | some d => ({ me with tmp := some d, pc := .bRead x ret }, none, none)
  | .bRead x ret =>
    match peekDir me.tmp with
    | .none => (breakErr (dropTmp me .B) ret .noSuchFile, held, none)
    | .corrupt _ => (breakErr (dropTmp me .B) ret .corrupt, held, none)
    | .ok y =>
      if y = x then ({ me with pc := .bDelete ret }, held, none)
      else (breakErr (dropTmp me .B) ret .mismatch, held, none)
  | .bDelete ret => ({ me with tmp := some none, pc := .bRmdir ret }, held, none)
  | .bRmdir ret =>
    if ret then ({ me with tmp := none, pc := .aRename }, held, none)
    else (({ me with tmp := none }).done .broken, held, none)
  -- force_break_corrupt
  | .xRename t =>
    match held with
    | none => (me.done .noSuchFile, held, none)
    | some d => ({ me with tmp := some d, pc := .xRead t }, none, none)
  | .xRead t =>
    match me.tmp with
    | some (some (.bad t')) =>
      if t' = t then ({ me with pc := .xDelete }, held, none) else ((dropTmp me .B).done .mismatch, held, none)
    | some (some (.ok _)) => ((dropTmp me .B).done .mismatch, held, none)
    | _ => ((dropTmp me .B).done .noSuchFile, held, none)
  | .xDelete => ({ me with tmp := some none, pc := .xRmdir }, held, none)
  | .xRmdir => (({ me with tmp := none }).done .broken, held, none)

/-- the pending transport call of the locker raises `k`; the file system is unchanged -/
def lfault (k : FaultKind) (me : Locker) : Locker :=
  match me.pc with
  | .idle => me
  | .aMkdir => me.done .lockFailed
  | .aPut => (dropPend me).done .lockFailed
  | .aRename => { me with pc := .aPeekC }
  | .aPeekC => (dropPend me).done k.res
  | .aCleanDel e => (dropPend me).done (match k with | .P => e | .T => .faultT)
  | .aCleanRmdir e => (dropPend me).done (match k with | .P => e | .T => .faultT)
  | .aConfirm => me.done k.res
  | .uConfirm => me.done .swallowed
  | .uRename => me.done .swallowed
  | .uDelete => (dropTmp me .R).done .swallowed
  | .uRmdir => (dropTmp me .R).done .swallowed
  | .cPeek => me.done k.res
  | .kPeek => me.done k.res
  | .bPeek _ ret => breakErr me ret k.res
  | .bRename _ ret => breakErr me ret k.res
  | .bRead _ ret => breakErr (dropTmp me .B) ret k.res
  | .bDelete ret => breakErr (dropTmp me .B) ret k.res
  | .bRmdir ret => breakErr (dropTmp me .B) ret k.res
  | .xRename _ => me.done k.res
  | .xRead _ => (dropTmp me .B).done k.res
  | .xDelete => (dropTmp me .B).done k.res
  | .xRmdir => (dropTmp me .B).done k.res

inductive Ev
  | start (i : Nat) (op : Op)
  | step (i : Nat)
  | fault (i : Nat) (k : FaultKind)
  | crash (i : Nat)
deriving DecidableEq, Repr

structure Sys where
  held : Option Dir
  lk : Nat → Locker
  crashed : Nat → Bool
  cfg : Nat → Cfg
  /-- ghost: number of decisions to break a lock taken so far -/
  breaks : Nat
  /-- ghost: some decision to break concerned a lock whose holder had not crashed
  (or a lock with unparsable info, whose holder is unknown) -/
  brokeAlive : Bool
  /-- ghost: a fault was injected into the confirming `peek` of an attempt of this locker -/
  orphan : Nat → Bool

def upd {α : Type} (f : Nat → α) (i : Nat) (a : α) : Nat → α := fun j => if j = i then a else f j

def decisionAlive (crashed : Nat → Bool) : Decision → Bool
  | some (some x) => !crashed x.owner
  | some none => true
  | none => false

def Sys.step (s : Sys) : Ev → Sys
  | .start i op =>
    if s.crashed i then s
    else if (s.lk i).pc = .idle then { s with lk := upd s.lk i (startOp (s.lk i) op) } else s
  | .step i =>
    if s.crashed i then s
    else
      let r := lstep i s.cfg s.crashed (s.lk i) s.held
      { s with lk := upd s.lk i r.1, held := r.2.1,
               breaks := s.breaks + (if r.2.2.isSome then 1 else 0),
               brokeAlive := s.brokeAlive || decisionAlive s.crashed r.2.2 }
  | .fault i k =>
    if s.crashed i then s
    else { s with lk := upd s.lk i (lfault k (s.lk i)),
                  orphan := if (s.lk i).pc = .aConfirm then upd s.orphan i true else s.orphan }
  | .crash i => { s with crashed := upd s.crashed i true }

def Sys.run (s : Sys) (evs : List Ev) : Sys := evs.foldl Sys.step s

/-- all lockers idle, lock directory created and empty except possibly `held/` -/
def Sys.init (cfg : Nat → Cfg) (held : Option Dir := none) : Sys :=
  { held := held, lk := fun _ => {}, crashed := fun _ => false, cfg := cfg,
    breaks := 0, brokeAlive := false, orphan := fun _ => false }

/-- who owns the lock on disk -/
def ownerOf : Option Dir → Option Nat
  | some (some (.ok n)) => some n.owner
  | _ => none

/-- the locker believes it holds the lock (or has just renamed its directory into place) -/
def Locker.claims (me : Locker) : Bool := me.held || me.pc == .aConfirm

/-! ### rendering for the correspondence check -/

def showContent : Dir → String
  | none => "e"
  | some (.ok n) => s!"o{n.owner}.{n.serial}"
  | some (.bad t) => s!"b{t}"

def showHeld : Option Dir → String
  | none => "-"
  | some d => showContent d

def Res.show : Res → String
  | .never => "~" | .ok => "ok" | .notHeld => "E:NotHeld" | .lockBroken => "E:LockBroken"
  | .contention => "E:Contention" | .lockFailed => "E:LockFailed" | .corrupt => "E:Corrupt"
  | .mismatch => "E:Mismatch" | .noSuchFile => "E:NoSuchFile" | .faultT => "E:FaultT"
  | .faultP => "E:FaultP" | .assert => "E:Assert" | .swallowed => "swallowed"
  | .nothing => "none" | .broken => "broken" | .attrError => "E:AttributeError"

def Kind.show : Kind → String
  | .P => "P" | .R => "R" | .B => "B"

/-- the pending transport call -/
def Pc.call : Pc → String
  | .idle => "-"
  | .aMkdir => "mkdir:P" | .aPut => "put:P" | .aRename => "rename:P>H" | .aPeekC => "get:H"
  | .aCleanDel _ => "delete:P" | .aCleanRmdir _ => "rmdir:P" | .aConfirm => "get:H"
  | .uConfirm => "get:H" | .uRename => "rename:H>R" | .uDelete => "delete:R" | .uRmdir => "rmdir:R"
  | .cPeek => "get:H" | .kPeek => "get:H"
  | .bPeek _ _ => "get:H" | .bRename _ _ => "rename:H>B" | .bRead _ _ => "get:B"
  | .bDelete _ => "delete:B" | .bRmdir _ => "rmdir:B"
  | .xRename _ => "rename:H>B" | .xRead _ => "get:B" | .xDelete => "delete:B" | .xRmdir => "rmdir:B"

def Pc.tmpKind : Pc → Kind
  | .uConfirm | .uRename | .uDelete | .uRmdir => .R
  | _ => .B

def Locker.dirs (me : Locker) : List String :=
  (match me.pend with | some d => ["P:" ++ showContent d] | none => []) ++
  (match me.tmp with | some d => [me.pc.tmpKind.show ++ ":" ++ showContent d] | none => []) ++
  me.junk.map (fun kd => kd.1.show ++ ":" ++ showContent kd.2)

/-- the temporary directories on disk (of lockers `0..n-1`), sorted -/
def Sys.listing (s : Sys) (n : Nat) : List String :=
  ((List.range n).flatMap (fun i => (s.lk i).dirs)).mergeSort (fun a b => decide (a ≤ b))

def Locker.show (me : Locker) : String :=
  s!"{me.pc.call}/{showBool me.held}/{me.nonce}/{me.last.show}"

def Sys.show (s : Sys) (n : Nat) : String :=
  "H=" ++ showHeld s.held ++ " D=" ++ joinList (s.listing n) ++ " " ++
    " ".intercalate ((List.range n).map (fun i => (s.lk i).show))

end BreezyVerif.C26
