import BreezyVerif.Lemmas.C50
/-! C50 — unquoted words separated by arbitrary whitespace. -/
namespace BreezyVerif.C50

/-- `emit` only reads `quoted` and `chars` -/
def emitQ (q : Bool) (chars : Str) (rest : List (Bool × Str)) : List (Bool × Str) :=
  if !q && chars.isEmpty then [] else (q, chars) :: rest

theorem emit_eq (x : Ctx) (rest : List (Bool × Str)) : emit x rest = emitQ x.quoted x.chars rest := by
  unfold emit emitQ result
  split <;> simp_all

/-- what follows a word: the end, or a whitespace character -/
def Boundary (rest : Str) : Prop := rest = [] ∨ ∃ c more, rest = c :: more ∧ isWs c = true

theorem ws_not_allowed {sq : Bool} {c : Char} (h : isWs c = true) : allowed sq c = false := by
  cases ha : allowed sq c with
  | false => rfl
  | true => rw [allowed_not_ws ha] at h; exact absurd h (by simp)

theorem ws_ne_bs {c : Char} (h : isWs c = true) : c ≠ '\\' := by
  intro e; subst e; simp at h

/-- reading a word in the plain states: `A` from `_Whitespace`/`_Word`, `B` from
`_Backslash` with a positive count -/
theorem word_read (sq : Bool) (rest : Str) (hb : Boundary rest) (w : Str) :
    (∀ x o, (o = Outer.word ∨ w ≠ []) → w.all (wordChar sq) = true →
      run sq (.at (.plain o)) x (w ++ rest)
        = emitQ x.quoted (x.chars ++ w) (run sq (.at (.plain .ws)) {} rest)) ∧
    (∀ x o n, 0 < n → w.all (wordChar sq) = true →
      run sq (.bs (.plain o) n) x (w ++ rest)
        = emitQ x.quoted (x.chars ++ rep n ++ w) (run sq (.at (.plain .ws)) {} rest)) := by
  induction w with
  | nil =>
    refine ⟨?_, ?_⟩
    · intro x o ho _
      rcases ho with rfl | ho
      · rcases hb with rfl | ⟨c, more, rfl, hc⟩
        · simp [run, finish, emit_eq, emitQ]
        · simp only [List.nil_append, List.append_nil]
          rw [run_cons]
          simp only [step1, procExit, hc, if_true, cont, emit_eq]
          have : run sq (.at (.plain .ws)) {} (c :: more) = run sq (.at (.plain .ws)) {} more := by
            rw [run_cons]; simp [step1, procExit, hc, cont]
          rw [this]
      · exact absurd rfl ho
    · intro x o n hn _
      rcases hb with rfl | ⟨c, more, rfl, hc⟩
      · simp [run, finish, hn, emit_eq, emitQ]
      · simp only [List.nil_append, List.append_nil]
        rw [run_cons]
        have h1 := ws_ne_bs hc
        have h2 : allowed sq c = false := ws_not_allowed hc
        have this : run sq (.at (.plain .ws)) {} (c :: more) = run sq (.at (.plain .ws)) {} more := by
          rw [run_cons]; simp [step1, procExit, hc, cont]
        rw [this]
        cases o <;> simp [step1, procExit, hc, h1, h2, hn, cont, emit_eq]
  | cons c cs ih =>
    obtain ⟨ihA, ihB⟩ := ih
    refine ⟨?_, ?_⟩
    · intro x o _ hw
      simp only [List.all_cons, Bool.and_eq_true] at hw
      obtain ⟨hc, hcs⟩ := hw
      simp only [List.cons_append]
      rw [run_cons]
      by_cases hbs : c = '\\'
      · subst hbs
        have := ihB x o 1 (by omega) hcs
        cases o <;> simp_all [step1, procExit, cont, rep]
      · have hp : plain sq c = true := by simpa [wordChar, hbs] using hc
        simp only [plain, Bool.and_eq_true, Bool.not_eq_true', decide_eq_false_iff_not] at hp
        obtain ⟨⟨h1, h2⟩, _⟩ := hp
        have := ihA (x.app [c]) .word (Or.inl rfl) hcs
        cases o <;> simp_all [step1, procExit, cont]
    · intro x o n hn hw
      simp only [List.all_cons, Bool.and_eq_true] at hw
      obtain ⟨hc, hcs⟩ := hw
      simp only [List.cons_append]
      rw [run_cons]
      by_cases hbs : c = '\\'
      · subst hbs
        have := ihB x o (n + 1) (by omega) hcs
        simp_all [step1, cont, rep_succ]
      · have hp : plain sq c = true := by simpa [wordChar, hbs] using hc
        simp only [plain, Bool.and_eq_true, Bool.not_eq_true', decide_eq_false_iff_not] at hp
        obtain ⟨⟨h1, h2⟩, _⟩ := hp
        have := ihA ((x.app (rep n)).app [c]) .word (Or.inl rfl) hcs
        cases o <;> simp_all [step1, procExit, cont]

/-- leading whitespace is skipped -/
theorem tokens_ws (sq : Bool) (sep s : Str) (h : sep.all isWs = true) :
    tokens sq (sep ++ s) = tokens sq s := by
  induction sep with
  | nil => rfl
  | cons c cs ih =>
    simp only [List.all_cons, Bool.and_eq_true] at h
    simp only [List.cons_append, tokens] at ih ⊢
    rw [run_cons]
    simp only [step1, procExit, h.1, if_true, cont]
    exact ih h.2

/-- an unquoted word up to the end or the next whitespace character -/
theorem tokens_word (sq : Bool) (w rest : Str) (hb : Boundary rest) (hne : w ≠ [])
    (hw : w.all (wordChar sq) = true) :
    tokens sq (w ++ rest) = (false, w) :: tokens sq rest := by
  have := (word_read sq rest hb w).1 {} .ws (Or.inr hne) hw
  simp only [tokens]
  rw [this]
  cases w with
  | nil => exact absurd rfl hne
  | cons a l => simp [emitQ]

/-- separator/word pairs laid out one after the other -/
def wsJoin : List (Str × Str) → Str
  | [] => []
  | (sep, w) :: r => sep ++ (w ++ wsJoin r)

theorem tokens_wsJoin (sq : Bool) (trail : Str) (ht : trail.all isWs = true) :
    ∀ items : List (Str × Str),
      (∀ p ∈ items, p.1.all isWs = true ∧ p.2 ≠ [] ∧ p.2.all (wordChar sq) = true) →
      (∀ p ∈ items.tail, p.1 ≠ []) →
      tokens sq (wsJoin items ++ trail) = items.map (fun p => (false, p.2)) := by
  intro items
  induction items with
  | nil =>
    intro _ _
    have := tokens_ws sq trail [] ht
    simp only [List.append_nil] at this
    simp only [wsJoin, List.nil_append, List.map_nil]
    rw [this]
    simp [tokens, run, finish, emit, result]
  | cons p r ih =>
    intro h1 h2
    obtain ⟨sep, w⟩ := p
    obtain ⟨hs, hne, hw⟩ := h1 (sep, w) (by simp)
    simp only [wsJoin, List.append_assoc, List.map_cons]
    rw [tokens_ws sq sep _ hs]
    have hb : Boundary (wsJoin r ++ trail) := by
      cases r with
      | nil =>
        cases trail with
        | nil => left; rfl
        | cons c t =>
          right; simp only [List.all_cons, Bool.and_eq_true] at ht
          exact ⟨c, t, rfl, ht.1⟩
      | cons q r' =>
        obtain ⟨sep', w'⟩ := q
        have hq := h1 (sep', w') (by simp)
        have hne' : sep' ≠ [] := h2 (sep', w') (by simp)
        cases sep' with
        | nil => exact absurd rfl hne'
        | cons c t =>
          right
          have := hq.1
          simp only [List.all_cons, Bool.and_eq_true] at this
          exact ⟨c, t ++ (w' ++ wsJoin r') ++ trail, by simp [wsJoin], this.1⟩
    rw [tokens_word sq w _ hb hne hw]
    rw [ih (fun p hp => h1 p (by simp [hp])) (fun p hp => h2 p (by
      simp only [List.tail_cons]; exact List.mem_of_mem_tail hp))]

end BreezyVerif.C50
