"""C43 findings on GIT-format branches (bzr-format branches are not affected): a git tree has no directory entries of
its own, and Tree.changes_from reports a directory as added / removed only together with added / removed files.
A directory that comes into being - or ceases to exist - only through RENAMED files is in no list of the delta,
so BzrUploader.upload_tree is never told to create / remove it:
 (A) git-delta-omits-new-directory:      `mv d e` (a directory with a file): git reports only `d/f -> e/f`; finish_renames
                                         renames into a directory that was never created: NoSuchFile, the file stays
                                         parked under .tmp.* (a bzr-format branch reports the directory rename: fine)
 (B) git-delta-omits-removed-directory:  `mv d/f e/x; mv g d` (a file takes the emptied directory's path): nothing in
                                         the delta mentions the directory d: ReadError (or, when nothing takes the
                                         path and the remaining content is ignored, a stale directory stays)
Run:  cd /verif && [VERIF_REPO=<tree>] /venv/bin/python /var/tmp/imp-C43C44/c43/repro_git_directory_not_in_delta.py
(exit 1 = at least one defect present)"""
import io, os, sys
sys.path.insert(0, "/verif/harness")
from vlib import env
env.boot()
from breezy import transport as T
from breezy.plugins.upload.cmds import BzrUploader


def listing(root):
    return sorted(os.path.relpath(os.path.join(dp, n), root) for dp, dn, fn in os.walk(root) for n in dn + fn
                  if not n.startswith(".bzr-upload"))


def trial(label, fmt, steps):
    wt = env.make_tree(fmt); r = wt.basedir
    remote = env.fresh_dir("p"); t = T.get_transport(remote)
    res = "ok"
    for i, fn in enumerate(steps):
        fn(wt, r)
        rid = wt.commit("c%d" % i)
        tree = wt.branch.repository.revision_tree(rid)
        try:
            BzrUploader(wt.branch, t, io.StringIO(), tree, rid, quiet=True).upload_tree()
        except Exception as e:
            res = type(e).__name__
    with tree.lock_read():
        want = sorted(p for p, _ in tree.iter_entries_by_dir() if p)
    got = listing(remote)
    ok = res == "ok" and want == got
    print("%-34s %-4s %-12s tree %s remote %s" % (label, fmt, res, want, got))
    return ok


def w(p, c):
    def f(wt, r):
        os.makedirs(os.path.dirname(os.path.join(r, p)), exist_ok=True)
        open(os.path.join(r, p), "w").write(c); wt.smart_add([r])
    return f


def mv(a, b):
    def f(wt, r):
        d = os.path.dirname(b)
        if d and not os.path.isdir(os.path.join(r, d)):
            os.makedirs(os.path.join(r, d))
            if not wt.is_versioned(d):
                wt.add([d])
        wt.rename_one(a, b)
    return f


def rmdir(d):
    def f(wt, r):
        if wt.is_versioned(d):
            wt.remove([d], keep_files=False, force=True)
        if os.path.isdir(os.path.join(r, d)):
            os.rmdir(os.path.join(r, d))
    return f


def seq(*fs):
    def f(wt, r):
        for g in fs:
            g(wt, r)
    return f


def mvdir(a, b):
    def f(wt, r):
        wt.rename_one(a, b)
    return f


bad = 0
for fmt in ("2a", "git"):
    # (A) a directory with a file is renamed: bzr reports the directory rename; git only `d/f -> e/f`
    ok = trial("(A) rename a directory", fmt, [w("d/f", "1\n"), mvdir("d", "e")])
    # (B) the directory's only file moves into an existing directory and a file takes the directory's name:
    #     bzr reports `removed d` (and then hits the committed finding rename-onto-deleted-directory-readerror);
    #     git reports nothing at all for the directory d
    ok &= trial("(B) file takes the directory's path", fmt, [seq(w("d/f", "1\n"), w("e/k", "3\n"), w("g", "2\n")),
                                                             seq(mv("d/f", "e/x"), rmdir("d"), mv("g", "d"))])
    if fmt == "git" and not ok:
        bad = 1
sys.exit(bad)
