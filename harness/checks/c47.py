"""C47 — path and line utilities satisfy their algebraic laws
(crates/osutils/src/{path,lib,time}.rs, crates/osutils-py/src/lib.rs, seen
through breezy.osutils).

Model: lean/BreezyVerif/Model/C47.lean (literal `is_inside`, `is_inside_any`,
`minimum_path_selection`, `splitpath`, `joinpath`, `split_lines`,
`chunks_to_lines` — both the crate-internal one and the PyChunksToLinesIterator
that Python actually calls — `unpack_highres_date`, and `format_highres_date`
twice: over whole nanoseconds (`formatHighresNs`) and over arbitrary f64
timestamps given as dyadic rationals num/2^k (`formatHighresF64`: IEEE
round-to-nearest-even of `t - t.floor()`, exact ties-to-even `{:.9}` rounding,
the dropped leading digit).  Theorems: Props/C47.lean.

T2 on every run:
  * the Python-visible functions, rebuilt from the working tree (RUST), against
    the Lean driver;
  * the crate-internal `split_lines` / `chunks_to_lines` of lib.rs (which no
    Python binding reaches) through a small Rust probe binary built from the
    working tree's crates/osutils on every run;
  * dates (a): timestamps with fraction k/512 s (exact in f64 and in 9
    decimals) against `fmt` — the implementation must print exactly the
    model's string (a regression to the pre-1e2630f formatter is a mismatch);
  * dates (b): arbitrary f64 timestamps (random mantissas/exponents, the last
    f64 values below a whole second, fractions 1-2^-j, neighbours of the
    9-digit ties (m+1/2)e-9 and exact ties k/1024, tiny and negative values)
    against `fmt64` (code as written) and `fmt64c` (with the carry into the
    seconds).  Where the two agree the implementation must agree; they differ
    exactly on the carry family, where the implementation must equal one of
    them (counter date64:impl=...);
  * unpack on every produced string: the model's integer nanoseconds are turned
    into the f64 the code returns (`timestamp as f64 + fraction`) harness-side.
Oracle (independent of the model): mps subset / exactly-one cover / antichain /
inside_any agreement, join∘split = id on normalised paths, split∘join = id on
valid components, concat(split_lines t) = t and line shape, chunking
independence, unpack(format(t, off)) == (t, off) on whole nanoseconds and
|unpack(format(t, off)) - t| <= 0.5e-9 + f64 rounding for every f64.

Finding families (classifier on the concrete input, recorded at most 3x per run):
  highres-fraction-rounds-up-to-next-second   f64 fraction >= 1 - 0.5e-9: printed `.000000000`
      in the *floor* second, read back one second early (theorem date_f64_carry_loses_second)
  highres-neg-offset-not-whole-hours, highres-neg-fractional-timestamp   (F11, fixed by 1e2630f)

Mutants this was built against (all caught, see the final report):
  M1 path.rs  minimum_path_selection sorts by the path *string* instead of the
              component list ("a" < "a-b" < "a/b")           -> oracle (cover not unique)
  M2 path.rs  is_inside = byte-prefix (`as_os_str().as_bytes().starts_with`) -> oracle
  M3 path.rs  scan compares with sorted_paths[0] instead of search_paths.last() -> oracle (antichain)
  M4 lib.rs   split_lines returns None instead of the unterminated last line -> probe oracle
  M5 lib.rs   chunks_to_lines drops the `self.tail.is_empty()` guard of the well-formed fast path -> probe oracle
  M6 osutils-py PyChunksToLinesIterator: fast path `newline == len-1` -> `memchr(..).is_some()` -> oracle
  M7 time.rs  unpack: `offset_minutes = offset % 100` dropped from seconds_offset -> oracle
  M8 time.rs  format: fraction printed with 6 digits                     -> T2 + oracle (k/512 needs 9)
  M9 path.rs  splitpath keeps "." segments                                -> T2 mismatch + oracle
  M10 path.rs joinpath no longer rejects "" components                    -> T2 + oracle (accepted but not split back)
  M12 path.rs minimum_path_selection early return `len < 3`               -> oracle
  M13 time.rs fraction truncated (`((t-floor)*1e9) as u64`) instead of rounded -> f64 oracle (off by 1e-9) + T2
  M14 time.rs seconds from `t as i64` again (1e2630f reverted)            -> f64 oracle (t=-0.3) + T2
  M15 time.rs carry patch decided by `t - t.floor() >= 0.9999999995` (an f64 literal just below the
              real boundary) instead of by the printed digit              -> f64 oracle at t=0.9999999995 (one second too many)
  M16 path.rs the scan stops dropping descendants after 24 sorted paths   -> oracle (sets of 20..50 paths)
  P1 (patch)  carry into the seconds when the fraction prints as 1.000000000 -> clean, date64:impl=carries
  H1 (harmless) is_inside_any rewritten with `iter().any`                -> clean
"""
import itertools
import json
import math
import os
import shutil
import subprocess
from fractions import Fraction

from vlib import env

THEOREMS = [
    "mps_subset", "mps_antichain", "mps_covers_exactly_one", "mps_characterisation",
    "inside_any_iff", "inside_any_mps",
    "split_join_id", "join_split_id", "split_join_split",
    "components_joinSlash", "relOk_joinSlash", "inside_bytes", "mps_bytes",
    "split_lines_concat", "split_lines_shape", "chunks_to_lines_eq", "chunks_to_lines_py_eq",
    "split_lines_py_eq", "chunks_to_lines_chunking_independent",
    "calendar_inverse", "date_roundtrip",
    "fracUnits_le", "formatF64_eq_ns", "formatF64Carry_eq_ns", "date_roundtrip_f64_partial",
    "date_f64_carry_loses_second", "carry_iff", "date_roundtrip_f64_carry", "fracUnits_close", "fracF64_exact",
    "roundedNanos_close", "date_f64_witness_carry", "date_f64_witness_carry_small", "date_f64_witness_tiny_negative",
]
RUST = ("osutils-py",)
RULE = ("paths: sets of relative paths over components {a,b,ab,a-b,a+,-} (depth<=3; all sets of <=3 paths of "
        "depth<=2 enumerated), plus hidden/dotted/UTF-8 components {.a,a.,..a,é,aé,ß,a!,'a b',中} and sets of 20..50 "
        "paths, non-trivial = some path inside another or sharing a byte prefix; strings over "
        "{a,b,/,.} for splitpath (all up to a length), non-trivial = contains '/' or '.'; texts over {a,b,\\n,\\r} "
        "(all up to a length) with all chunkings of short texts, non-trivial = contains a newline; timestamps on a "
        "calendar-corner grid with fraction k/512 s x whole-minute offsets, non-trivial = fraction or offset non-zero; "
        "f64 timestamps that are not whole nanoseconds (random mantissas with exponents 2^-90..2^33, the last f64 values "
        "below a whole second, fractions 1-2^-j, neighbours of 9-digit ties, odd k/1024, tiny/negative values), all "
        "non-trivial")
ASSUMPTIONS = [
    "whole-nanosecond timestamps are taken on the grid k/512 s, |t| < 2^43 s, where the f64 arithmetic of time.rs and "
    "the 9-digit fraction are exact; other f64 timestamps are modelled as dyadic rationals with IEEE "
    "round-to-nearest-even for `t - t.floor()` and exact ties-to-even rounding for `{:.9}` (both compared with the "
    "compiled code on every generated value)",
    "unpack_highres_date's final `timestamp as f64 + fraction` (IEEE addition and decimal->f64 parsing) is applied "
    "harness-side to the model's integer nanoseconds",
    "chrono's %a %Y-%m-%d %H:%M:%S formatter/parser is specified by the model's proleptic Gregorian calendar for "
    "years 0..9999 and compared with chrono on every generated date",
    "paths: relative, no '..' segment, no leading '.' segment (std::path::Component ordering of ParentDir/CurDir is "
    "not modelled); str paths only (non-UTF-8 bytes / to_string_lossy are not exercised)",
]
TRUSTED = [
    "std::path::Path::components / starts_with, PathBuf::push, memchr, chrono, f64 formatting/parsing are external "
    "and are modelled (split on '/', byte search, calendar arithmetic, exact decimal rounding), tied by the "
    "correspondence run only",
    "the Rust probe (source embedded in harness/checks/c47.py) that exposes lib.rs split_lines/chunks_to_lines",
]

NS = 10 ** 9

# --------------------------------------------------------------------------
# encodings shared with lean/BreezyVerif/Driver/C47.lean


def hx(b):
    if isinstance(b, str):
        b = b.encode("utf-8")
    return b.hex() if b else "-"


def hxl(items):
    items = list(items)
    return ",".join(hx(x) for x in items) if items else "~"


def comps(p):
    """reference component list of a relative path string"""
    return tuple(c.encode() for c in p.split("/") if c not in ("", "."))


def rel_ok(p):
    segs = p.split("/")
    return not p.startswith("/") and segs[0] != "." and ".." not in segs


def is_prefix(a, b):
    return len(a) <= len(b) and tuple(b[:len(a)]) == tuple(a)


# --------------------------------------------------------------------------
# Rust probe for the crate-internal line functions

PROBE_MAIN = r'''
use std::io::{self, BufRead, Write};
fn unhex(s: &str) -> Vec<u8> {
    if s == "-" { return Vec::new(); }
    (0..s.len()).step_by(2).map(|i| u8::from_str_radix(&s[i..i + 2], 16).unwrap()).collect()
}
fn hex(b: &[u8]) -> String {
    if b.is_empty() { return "-".to_string(); }
    b.iter().map(|x| format!("{:02x}", x)).collect()
}
fn show(l: Vec<Vec<u8>>) -> String {
    if l.is_empty() { "~".to_string() } else { l.iter().map(|x| hex(x)).collect::<Vec<_>>().join(",") }
}
fn main() {
    let stdin = io::stdin();
    let out = io::stdout();
    let mut out = out.lock();
    for line in stdin.lock().lines() {
        let line = line.unwrap();
        let f: Vec<&str> = line.split(' ').collect();
        let r = match f[0] {
            "sl" => show(breezy_osutils::split_lines(&unhex(f[1])).map(|c| c.to_vec()).collect()),
            "cl" => {
                let chunks: Vec<Vec<u8>> = if f[1] == "~" { vec![] } else { f[1].split(',').map(unhex).collect() };
                show(breezy_osutils::chunks_to_lines(chunks.iter().map(|c| Ok::<_, std::io::Error>(c.as_slice())))
                    .map(|c| c.unwrap().to_vec()).collect())
            }
            _ => "bad-op".to_string(),
        };
        writeln!(out, "{}", r).unwrap();
    }
}
'''

_probe_exe = None


def build_probe():
    """cargo build (offline) a scratch crate that depends on the working tree's
    crates/osutils by path; returns the executable (copied to scratch)."""
    global _probe_exe
    if _probe_exe:
        return _probe_exe
    d = env.subdir("c47probe")
    os.makedirs(os.path.join(d, "src"), exist_ok=True)
    with open(os.path.join(d, "Cargo.toml"), "w") as f:
        f.write('[package]\nname = "c47probe"\nversion = "0.0.0"\nedition = "2021"\n\n[dependencies]\n'
                'breezy-osutils = { path = "%s/crates/osutils" }\n\n[workspace]\n' % env.REPO)
    with open(os.path.join(d, "src", "main.rs"), "w") as f:
        f.write(PROBE_MAIN)
    shutil.copy2(os.path.join(env.REPO, "Cargo.lock"), os.path.join(d, "Cargo.lock"))
    target = os.environ.get("CARGO_TARGET_DIR") or os.path.join(env.REPO, "target")
    cargo, e = env.cargo_cmd_env()
    e["CARGO_TARGET_DIR"] = target
    r = subprocess.run([cargo, "build", "--offline", "-q"], cwd=d, env=e, capture_output=True, text=True)
    if r.returncode != 0:
        raise env.InfraError("cargo build of the C47 probe failed:\n%s" % r.stderr[-3000:])
    exe = os.path.join(d, "c47probe.bin")
    shutil.copy2(os.path.join(target, "debug", "c47probe"), exe)
    _probe_exe = exe
    return exe


def probe(lines):
    if not lines:
        return []
    r = subprocess.run([build_probe()], input=("\n".join(lines) + "\n").encode(), capture_output=True, timeout=600)
    if r.returncode != 0:
        raise env.InfraError("C47 probe failed: %s" % r.stderr.decode()[-2000:])
    out = r.stdout.decode().split("\n")
    if out and out[-1] == "":
        out.pop()
    if len(out) != len(lines):
        raise env.InfraError("C47 probe answered %d lines for %d" % (len(out), len(lines)))
    return out


# --------------------------------------------------------------------------
# paths

COMPS = ["a", "b", "ab", "a-b", "a+", "-"]
# hidden names, trailing dot, multi-byte UTF-8 (compared bytewise by Path::cmp), a name sorting before '/'
XCOMPS = [".a", "a.", "..a", "\u00e9", "a\u00e9", "\u00df", "a!", "a b", "\u4e2d"]


def _all_paths(depth, alphabet=COMPS):
    out = []
    for d in range(1, depth + 1):
        for t in itertools.product(alphabet, repeat=d):
            out.append("/".join(t))
    return out


def gen_path_sets(ctx):
    rng = ctx.rng
    small = _all_paths(2, ["a", "b", "a-"])          # 12 paths
    for k in range(0, 4):
        for s in itertools.combinations(small, k):
            yield list(s)
    big = _all_paths(3)
    for _ in range(ctx.pick(4000, 40000)):
        n = rng.choice([2, 3, 3, 4, 5, 6, 8])
        # cluster around a few stems so that containment is frequent
        stems = rng.sample(big, 3)
        s = set()
        while len(s) < n:
            st = rng.choice(stems)
            r = rng.random()
            if r < 0.35:
                s.add(st)
            elif r < 0.6:
                s.add(st + "/" + rng.choice(COMPS))
            elif r < 0.75:
                s.add(st + rng.choice(["-", "+", "b", "-b"]))       # byte prefix, not component prefix
            elif r < 0.85:
                s.add(st.rsplit("/", 1)[0])
            else:
                s.add(rng.choice(big))
        l = sorted(s)
        rng.shuffle(l)
        yield l
    # hidden / dotted / non-ASCII components mixed into the clustered shape
    allc = COMPS + XCOMPS
    for _ in range(ctx.pick(600, 6000)):
        n = rng.choice([2, 3, 4, 5, 6])
        stems = ["/".join(rng.choice(allc) for _ in range(rng.choice([1, 1, 2]))) for _ in range(2)]
        s = set()
        while len(s) < n:
            st = rng.choice(stems)
            r = rng.random()
            if r < 0.3:
                s.add(st)
            elif r < 0.6:
                s.add(st + "/" + rng.choice(allc))
            elif r < 0.8:
                s.add(st + rng.choice([".", "-", "!", "\u00e9", " ", ".a"]))   # byte prefix, not component prefix
            elif r < 0.9:
                s.add(st.rsplit("/", 1)[0])
            else:
                s.add(rng.choice(allc) + "/" + rng.choice(allc))
        l = sorted(s)
        rng.shuffle(l)
        yield l
    # large sets (20..50 paths): long scans with many dropped descendants between kept paths
    for _ in range(ctx.pick(120, 1200)):
        n = rng.randrange(20, 51)
        pool = allc if rng.random() < 0.4 else COMPS
        stems = ["/".join(rng.choice(pool) for _ in range(rng.choice([1, 2, 2, 3]))) for _ in range(rng.choice([3, 5, 8]))]
        s = set()
        while len(s) < n:
            st = rng.choice(stems)
            r = rng.random()
            if r < 0.15:
                s.add(st)
            elif r < 0.55:
                s.add(st + "/" + "/".join(rng.choice(pool) for _ in range(rng.choice([1, 1, 2]))))
            elif r < 0.75:
                s.add(st + rng.choice(["-", "+", "b", "-b", ".", "!"]))
            elif r < 0.85:
                s.add(st.rsplit("/", 1)[0])
            else:
                s.add("/".join(rng.choice(pool) for _ in range(rng.choice([1, 2, 3]))))
        l = sorted(s)
        rng.shuffle(l)
        yield l
    # a few non-normalised spellings (compared by component list)
    for _ in range(ctx.pick(100, 1000)):
        n = rng.choice([2, 3, 4])
        l = []
        for _ in range(n):
            p = rng.choice(big)
            r = rng.random()
            if r < 0.3:
                p = p.replace("/", "//", 1)
            elif r < 0.5:
                p = p + "/"
            elif r < 0.7:
                p = p.replace("/", "/./", 1)
            l.append(p)
        if len({comps(p) for p in l}) == len(l):
            yield l
    yield [""]
    yield ["", "a"]


def path_nontrivial(paths):
    for p in paths:
        for q in paths:
            if p != q and (q.startswith(p)):
                return True
    return False


def mps_case(osu, paths):
    """impl output (canonical), oracle failures"""
    res = osu.minimum_path_selection(set(paths))
    fails = []
    rc = sorted({comps(p) for p in res})
    ic = [comps(p) for p in paths]
    if not all(c in ic for c in rc):
        fails.append("selected %r is not a subset of the input" % (sorted(res),))
    for p in paths:
        cover = [q for q in res if osu.is_inside(q, p)]
        ref = [q for q in rc if is_prefix(q, comps(p))]
        if len(cover) != 1 or len(ref) != 1:
            fails.append("input path %r lies inside %d selected paths %r (selected=%r)"
                         % (p, len(cover), sorted(cover), sorted(res)))
        if not osu.is_inside_any(list(res), p):
            fails.append("is_inside_any(selected, %r) is False" % (p,))
    for q in res:
        for q2 in res:
            if q != q2 and (osu.is_inside(q, q2) or is_prefix(comps(q), comps(q2))):
                fails.append("selected %r lies inside selected %r" % (q2, q))
    canon = hxl(b"/".join(c) for c in rc)
    return canon, fails


def run_paths(ctx, osu):
    cases, lines, outs = [], [], []
    for paths in gen_path_sets(ctx):
        if not all(rel_ok(p) for p in paths):
            continue
        canon, fails = mps_case(osu, paths)
        case = dict(op="mps", paths=paths)
        for f in fails[:1]:
            ctx.violation(case, "minimum_path_selection(%r): %s" % (paths, f))
        ctx.case(case, nontrivial=path_nontrivial(paths))
        ctx.count("mps:n=%s" % (len(paths) if len(paths) < 10 else "%d0+" % (len(paths) // 10)))
        kept = canon.count(",") + 1 if canon != "~" else 0
        ctx.count("mps:kept=%s" % (kept if kept < 10 else "%d0+" % (kept // 10)))
        if any(ord(ch) > 127 for p in paths for ch in p):
            ctx.count("mps:non-ascii")
        if any(seg.startswith(".") for p in paths for seg in p.split("/")):
            ctx.count("mps:hidden-name")
        cases.append(case); lines.append("mps " + hxl(paths)); outs.append(canon)
        # inside / inside_any on probes drawn from the same neighbourhood
        probes = list(paths[:3])
        if paths:
            probes.append(paths[0] + "/a")
            probes.append(paths[-1] + "-")
        for f in probes:
            if not rel_ok(f):
                continue
            ia = osu.is_inside_any(paths, f)
            ref = any(is_prefix(comps(d), comps(f)) for d in paths)
            c2 = dict(op="insideany", dirs=paths, f=f)
            if ia != ref:
                ctx.violation(c2, "is_inside_any(%r, %r)=%r but component containment says %r" % (paths, f, ia, ref))
            sel = osu.minimum_path_selection(set(paths))
            if osu.is_inside_any(list(sel), f) != ia:
                ctx.violation(c2, "is_inside_any differs between %r and its minimum selection %r on %r"
                              % (paths, sorted(sel), f))
            ctx.case(c2, nontrivial=bool(ia))
            ctx.count("insideany:%s" % ia)
            cases.append(c2); lines.append("insideany %s %s" % (hxl(paths), hx(f))); outs.append("T" if ia else "F")
            iop = osu.is_inside_or_parent_of_any(paths, f)
            c3 = dict(op="insideorparent", dirs=paths, f=f)
            cases.append(c3); lines.append("insideorparent %s %s" % (hxl(paths), hx(f))); outs.append("T" if iop else "F")
            ctx.case(c3, nontrivial=bool(iop))
    # is_inside on all ordered pairs of a small universe, normalised and not
    uni = _all_paths(2, ["a", "ab", "a-"]) + ["", "a/", "a//a", "a/./a", "ab/", "a/a/"]
    for d in uni:
        for f in uni:
            r = osu.is_inside(d, f)
            ref = is_prefix(comps(d), comps(f))
            c = dict(op="inside", d=d, f=f)
            if r != ref:
                ctx.violation(c, "is_inside(%r, %r)=%r but component containment says %r" % (d, f, r, ref))
            ctx.case(c, nontrivial=f.startswith(d) and d != "")
            ctx.count("inside:%s" % r)
            cases.append(c); lines.append("inside %s %s" % (hx(d), hx(f))); outs.append("T" if r else "F")
    ctx.diff(cases, lines, outs)


# --------------------------------------------------------------------------
# splitpath / joinpath


def _err(fn, *a):
    try:
        return fn(*a), None
    except ValueError as e:
        return None, "E:Invalid" if "Invalid path segment" in str(e) else "E:Other:%s" % e


def normalised(p):
    return p == "" or all(s not in ("", ".", "..") for s in p.split("/"))


def valid_comp(c):
    return c != "" and "/" not in c and c not in (".", "..")


def run_splitjoin(ctx, osu):
    cases, lines, outs = [], [], []
    L = ctx.pick(5, 7)
    strings = [""]
    for n in range(1, L + 1):
        strings += ["".join(t) for t in itertools.product("ab/.", repeat=n)]
    for _ in range(ctx.pick(300, 3000)):
        strings.append("".join(ctx.rng.choice("aab/./") for _ in range(ctx.rng.randrange(6, 14))))
    for p in strings:
        r, e = _err(osu.splitpath, p)
        out = e if e else hxl(r)
        case = dict(op="splitpath", p=p)
        if e is None:
            bad = [c for c in r if not valid_comp(c)]
            if bad:
                ctx.violation(case, "splitpath(%r) returned invalid components %r" % (p, bad))
            j, e2 = _err(osu.joinpath, r)
            if e2 or _err(osu.splitpath, j)[0] != r:
                ctx.violation(case, "splitpath(joinpath(splitpath(%r))) != splitpath(%r): %r -> %r" % (p, p, r, j))
            if normalised(p) and j != p:
                ctx.violation(case, "normalised path %r: joinpath(splitpath(p)) = %r" % (p, j))
        elif normalised(p):
            ctx.violation(case, "splitpath rejects the normalised path %r: %s" % (p, e))
        ctx.case(case, nontrivial=("/" in p or "." in p))
        ctx.count("splitpath:%s" % ("err" if e else "n=%d" % len(r)))
        cases.append(case); lines.append("splitpath " + hx(p)); outs.append(out)
    atoms = ["a", "b", "ab", "", "..", ".", "a/b", "/a", "a/", "a.b"]
    lists = [[]]
    for n in range(1, ctx.pick(3, 4) + 1):
        lists += [list(t) for t in itertools.product(atoms, repeat=n)]
    for cs in lists:
        r, e = _err(osu.joinpath, cs)
        out = e if e else hx(r)
        case = dict(op="joinpath", parts=cs)
        if all(valid_comp(c) for c in cs):
            if e:
                ctx.violation(case, "joinpath rejects valid components %r" % (cs,))
            elif osu.splitpath(r) != cs:
                ctx.violation(case, "splitpath(joinpath(%r)) = %r" % (cs, osu.splitpath(r)))
        elif e is None and all("/" not in c and c != "." for c in cs) and _err(osu.splitpath, r)[0] != cs:
            # whatever joinpath accepts (apart from embedded separators and '.') must split back
            ctx.violation(case, "joinpath(%r) = %r is accepted but splits back to %r" % (cs, r, _err(osu.splitpath, r)))
        ctx.case(case, nontrivial=len(cs) > 1)
        ctx.count("joinpath:%s" % ("err" if e else "ok"))
        cases.append(case); lines.append("joinpath " + hxl(cs)); outs.append(out)
    ctx.diff(cases, lines, outs)


# --------------------------------------------------------------------------
# lines


def compositions(t):
    """all ways to cut t into non-empty consecutive chunks"""
    n = len(t)
    if n == 0:
        yield []
        return
    for mask in range(1 << (n - 1)):
        out, start = [], 0
        for i in range(n - 1):
            if mask >> i & 1:
                out.append(t[start:i + 1]); start = i + 1
        out.append(t[start:])
        yield out


def lines_oracle(text, lines):
    if b"".join(lines) != text:
        return "concatenation of the lines is %r, not the text" % (b"".join(lines),)
    for i, l in enumerate(lines):
        if not l:
            return "empty line at index %d" % i
        if l.count(b"\n") > 1 or (b"\n" in l and not l.endswith(b"\n")):
            return "line %d = %r contains a newline before its end" % (i, l)
        if i < len(lines) - 1 and not l.endswith(b"\n"):
            return "line %d = %r (not the last) does not end in a newline" % (i, l)
    return None


def gen_texts(ctx):
    L = ctx.pick(6, 8)
    for n in range(0, L + 1):
        for t in itertools.product(b"a\nb", repeat=n):
            yield bytes(t)
    for _ in range(ctx.pick(1500, 12000)):
        n = ctx.rng.randrange(7, 40)
        yield bytes(ctx.rng.choice(b"ab\n\n\r") for _ in range(n))


def gen_chunkings(ctx, text):
    if len(text) <= ctx.pick(5, 7):
        for c in compositions(text):
            yield c
        # with empty chunks sprinkled in
        for c in itertools.islice(compositions(text), 0, None, 3):
            c = list(c)
            c.insert(ctx.rng.randrange(len(c) + 1), b"")
            if ctx.rng.random() < 0.3:
                c.insert(ctx.rng.randrange(len(c) + 1), b"")
            yield c
    else:
        for _ in range(3):
            cuts = sorted(ctx.rng.sample(range(len(text) + 1), min(len(text), ctx.rng.randrange(0, 6))))
            out, prev = [], 0
            for c in cuts + [len(text)]:
                out.append(text[prev:c]); prev = c
            yield out
        # cut after every newline: all chunks well-formed (fast path)
        yield text.splitlines(True)


def run_lines(ctx, osu):
    cases, lines, outs = [], [], []
    pcases, plines = [], []
    for text in gen_texts(ctx):
        ref = osu.split_lines(text)
        why = lines_oracle(text, ref)
        case = dict(op="split_lines", text=text.hex())
        if why:
            ctx.violation(case, "split_lines(%r) = %r: %s" % (text, ref, why))
        ctx.case(case, nontrivial=b"\n" in text)
        ctx.count("split_lines:len=%d" % min(len(text), 10))
        cases.append(case); lines.append("slpy " + hx(text)); outs.append(hxl(ref))
        pcases.append(case); plines.append("sl " + hx(text))
        for chunks in gen_chunkings(ctx, text):
            got = osu.chunks_to_lines(list(chunks))
            c2 = dict(op="chunks_to_lines", chunks=[c.hex() for c in chunks])
            if got != ref:
                ctx.violation(c2, "chunks_to_lines(%r) = %r but split_lines of the concatenation = %r"
                              % (chunks, got, ref))
            ctx.case(c2, nontrivial=(b"\n" in text and len(chunks) > 1))
            ctx.count("chunks:n=%d" % min(len(chunks), 8))
            cases.append(c2); lines.append("clpy " + hxl(chunks)); outs.append(hxl(got))
            pcases.append(c2); plines.append("cl " + hxl(chunks))
    ctx.diff(cases, lines, outs)
    # crate-internal versions through the probe: model `sl` / `cl`
    pouts = probe(plines)
    for c, l, o in zip(pcases, plines, pouts):
        got = [] if o == "~" else [bytes.fromhex(x) if x != "-" else b"" for x in o.split(",")]
        if c["op"] == "split_lines":
            text = bytes.fromhex(c["text"])
        else:
            text = b"".join(bytes.fromhex(x) for x in c["chunks"])
        cc = dict(c, op="core." + c["op"])
        why = lines_oracle(text, got)
        if why:
            ctx.violation(cc, "lib.rs %s on %r = %r: %s" % (c["op"], c.get("chunks", c.get("text")), got, why))
        ctx.case(cc, nontrivial=b"\n" in text)
    ctx.diff([dict(c, op="core." + c["op"]) for c in pcases], plines, pouts, tie="T2-probe")
    ctx.count("probe_lines", len(plines))


# --------------------------------------------------------------------------
# dates

DAY = 86400


def days_from_civil(y, m, d):
    import datetime
    return (datetime.date(y, m, d) - datetime.date(1970, 1, 1)).days


def gen_seconds(ctx):
    corners = [(1970, 1, 1), (1969, 12, 31), (2000, 2, 29), (2000, 3, 1), (1900, 2, 28), (1900, 3, 1),
               (2100, 2, 28), (2100, 3, 1), (2024, 2, 29), (2023, 12, 31), (2024, 1, 1), (1600, 2, 29),
               (1, 1, 1), (1, 12, 31), (9999, 12, 30), (2038, 1, 19), (1901, 12, 13), (400, 2, 29), (1999, 12, 31),
               (2001, 9, 9), (1972, 6, 30)]
    out = []
    for (y, m, d) in corners:
        z = days_from_civil(y, m, d)
        for s in (0, 1, 59, 3599, 3600, 43200, 86399):
            out.append(z * DAY + s)
    for _ in range(ctx.pick(1000, 10000)):
        out.append(ctx.rng.randrange(-62135596800 + 2 * DAY, 253402300800 - 2 * DAY))
    for _ in range(ctx.pick(800, 8000)):
        out.append(ctx.rng.randrange(-3 * DAY, 3 * DAY))
    for _ in range(ctx.pick(600, 6000)):
        out.append(ctx.rng.randrange(0, 2 ** 32))
    return out


def gen_offsets(ctx):
    base = [0, 60, -60, 1800, -1800, 3600, -3600, 5400, -5400, 19800, -19800, 20700, 34200, -34200, 43200, -43200,
            50400, 86340, -86340, -9000, -12600, 45900]
    return base


FRACS = [0, 0, 256, 1, 511, 128, 384, 3, 64]


HALF_NS = Fraction(1, 2 * NS)
CARRY_FAMILY = "highres-fraction-rounds-up-to-next-second"


def f64_fraction(t):
    """the f64 value `t - t.floor()` (one IEEE subtraction, as in time.rs)"""
    return t - math.floor(t)


def classify_date(ns, off):
    """family of the two F11 defect input classes (fixed in 1e2630f), from the concrete input"""
    if off < 0 and off % 3600 != 0:
        return "highres-neg-offset-not-whole-hours"
    if ns < 0 and ns % NS != 0:
        return "highres-neg-fractional-timestamp"
    return None


def classify_f64(t, off):
    """family from the concrete input: the f64 fraction is >= 1 - 0.5e-9, i.e. `{:.9}` prints 1.000000000"""
    if Fraction(f64_fraction(t)) >= 1 - HALF_NS:
        return CARRY_FAMILY
    return None


def ulp(x):
    return math.ulp(x)


def f64_tolerance(t, back):
    """|unpack(format(t)) - t| allowed: half a unit of the 9th digit, plus the f64 rounding of the parsed
    fraction, of `t - floor(t)` and of the final `timestamp + fraction` addition"""
    return HALF_NS + Fraction(ulp(max(abs(t), abs(back), 1.0))) + Fraction(1, 2 ** 52)


def to_ns(t):
    f = Fraction(t) * NS
    return int(f) if f.denominator == 1 else None


ERRMAP = [
    ("does not contain a day of week", "E:noWeekday"),
    ("does not contain a valid day of week", "E:badWeekday"),
    ("does not contain high-precision seconds", "E:noFraction"),
    ("does not contain a timezone", "E:noTimezone"),
    ("Failed to parse datetime string", "E:badDatetime"),
    ("Failed to parse high-precision seconds", "E:badFraction"),
    ("Failed to parse offset", "E:badOffset"),
]


def unpack_raw(osu, s):
    """('ok', t, off) or ('err', kind)"""
    try:
        t, off = osu.unpack_highres_date(s)
    except ValueError as e:
        for k, v in ERRMAP:
            if k in str(e):
                return ("err", v)
        return ("err", "E:Other:%s" % e)
    return ("ok", t, off)


def unpack_canon(osu, s):
    r = unpack_raw(osu, s)
    if r[0] == "err":
        return r[1]
    return "%r %d" % (r[1], r[2])


def model_unpack_canon(reply):
    """the model answers `nanoseconds offset`; time.rs returns `timestamp as f64 + fraction` where the
    fraction is the correctly rounded f64 of the printed decimal: that last (external, IEEE) step is done here"""
    if reply.startswith("E:") or reply in ("bad-op", "unsupported"):
        return reply
    ns, off = reply.split(" ")
    ns = int(ns)
    return "%r %d" % (float(ns // NS) + float("0.%09d" % (ns % NS)), int(off))


def diff_unpack(ctx, cases, strings, accept_only=False):
    lines = ["unp " + hx(s) for s in strings]
    mo = ctx.model(lines)
    for c, l, s, m in zip(cases, lines, strings, mo):
        ctx.traces += 1
        i = unpack_canon(ctx._osu, s)
        mm = model_unpack_canon(m)
        if accept_only:
            i = i if i.startswith("E:") else "accept"
            mm = mm if mm.startswith("E:") or mm in ("bad-op", "unsupported") else "accept"
            ctx.count("unpack-malformed:%s" % i)
        if i != mm:
            ctx.mismatch(c, i, mm, line=l)


def _violation(ctx, case, what, family):
    """violations of a family computed from the input are recorded at most 3 times per run (all are counted),
    so that they cannot crowd out a violation without family"""
    if family is not None:
        ctx.count("violations:%s" % family)
        seen = ctx.extra.setdefault("family_violations", {})
        seen[family] = seen.get(family, 0) + 1
        if seen[family] > 3:
            return
    ctx.violation(case, what, family=family)


def date_case(ctx, osu, ns, off, oracle=True):
    """whole-nanosecond timestamp: returns (case, formatted string)"""
    t = ns / NS if ns % NS else float(ns // NS)
    assert to_ns(t) == ns
    s = osu.format_highres_date(t, off)
    case = dict(op="date", ns=ns, offset=off)
    if oracle and off % 60 == 0:
        back = unpack_raw(osu, s)
        if back != ("ok", t, off):
            _violation(ctx, case, "unpack_highres_date(format_highres_date(%r, %d) = %r) gives %r, expected (%r, %d)"
                       % (t, off, s, back[1:], t, off), classify_date(ns, off))
    return case, s


def f64_case(ctx, osu, t, off):
    """arbitrary f64 timestamp: (case, formatted string); oracle = read back within half a unit of the 9th digit"""
    s = osu.format_highres_date(t, off)
    case = dict(op="date64", t=t.hex(), offset=off)
    back = unpack_raw(osu, s)
    if back[0] != "ok":
        _violation(ctx, case, "unpack_highres_date rejects format_highres_date(%r, %d) = %r: %s" % (t, off, s, back[1]),
                   classify_f64(t, off))
    else:
        err = abs(Fraction(back[1]) - Fraction(t))
        if back[2] != off or err > f64_tolerance(t, back[1]):
            _violation(ctx, case, "unpack_highres_date(format_highres_date(%r, %d) = %r) gives (%r, %d): off by %.3g s "
                       "(allowed: 5e-10 + f64 rounding)" % (t, off, s, back[1], back[2], float(err)),
                       classify_f64(t, off))
    return case, s


def gen_f64(ctx):
    """f64 timestamps that are NOT whole nanoseconds: random mantissas, fractions next to 1 (the carry into the
    seconds), next to the 9-digit rounding ties, tiny and negative values"""
    rng = ctx.rng
    out = []
    nxt = math.nextafter

    def around(x, n=2):
        out.append(x)
        u, d = x, x
        for _ in range(n):
            u = nxt(u, math.inf); d = nxt(d, -math.inf)
            out.append(u); out.append(d)

    # fixed corners (the audit's reproducer first)
    for x in (2097152.9999999995, 0.9999999996, 0.9999999995, 0.9999999994, -1e-20, -5e-324, 5e-324, -2.0 ** -60,
              1e-10, 5e-10, 4.9999999e-10, -0.3, 0.1, 1700000000.1234567, 1.0000000005, -1.0000000005, -0.0000000004):
        around(x, 1)
    # fraction 1 - 2^-j on top of whole seconds of every magnitude f64 can still resolve it at
    for j in range(20, 54):
        for e in range(0, max(1, 53 - j)):
            if rng.random() < ctx.pick(0.25, 1.0):
                sec = rng.randrange(2 ** e, 2 ** (e + 1)) if e else rng.choice([0, 1])
                sec = rng.choice([sec, -sec - 1])
                around(sec + (1.0 - 2.0 ** -j), 1)
    # just below the next second: the last few f64 values before an integer
    for _ in range(ctx.pick(300, 3000)):
        sec = rng.choice([rng.randrange(0, 2 ** rng.randrange(1, 34)), -rng.randrange(1, 2 ** rng.randrange(1, 34))])
        x = float(sec)
        for _ in range(rng.randrange(1, 6)):
            x = nxt(x, -math.inf)
            out.append(x)
    # fraction around 1 - 0.5e-9 (the boundary of the carry) and around other 9-digit ties (m + 1/2) * 1e-9
    for _ in range(ctx.pick(400, 4000)):
        sec = rng.choice([0, 1, -1, rng.randrange(-2 ** 20, 2 ** 20), rng.randrange(0, 2 ** 23)])
        m = rng.choice([NS - 1, NS - 1, NS - 2, 0, rng.randrange(NS)])
        around(sec + (2 * m + 1) / (2.0 * NS), 2)
    # exact 9-digit ties: odd multiples of 1/1024 (ties-to-even decides the last digit)
    for _ in range(ctx.pick(200, 2000)):
        sec = rng.choice([0, -1, 1, rng.randrange(-2 ** 30, 2 ** 30)])
        out.append(sec + (2 * rng.randrange(512) + 1) / 1024.0)
    # random mantissas and exponents
    for _ in range(ctx.pick(1500, 15000)):
        m = rng.randrange(2 ** 52, 2 ** 53)
        e = rng.randrange(-90, 34)
        x = math.ldexp(m, e - 52)
        out.append(x if rng.random() < 0.6 else -x)
    # what time.time() looks like, and short decimals
    for _ in range(ctx.pick(500, 5000)):
        out.append(rng.randrange(0, 2 ** 31) + rng.random())
        out.append(round(rng.uniform(-1e6, 1e6), rng.randrange(1, 12)))
    return [x for x in out if math.isfinite(x) and to_ns(x) is None or x in (0.9999999995,)]


def run_dates(ctx, osu):
    ctx._osu = osu
    secs = gen_seconds(ctx)
    offs = gen_offsets(ctx)
    rng = ctx.rng
    items = []
    for s in secs:
        for _ in range(2):
            off = rng.choice(offs) if rng.random() < 0.7 else 60 * rng.randrange(-1439, 1440)
            k = rng.choice(FRACS) if rng.random() < 0.6 else rng.randrange(512)
            items.append((s * NS + k * 1953125, off))
    # a dense small box around the epoch: every offset sign x fraction x sign of t
    for s in (-2, -1, 0, 1):
        for k in (0, 256, 511):
            for off in offs:
                items.append((s * NS + k * 1953125, off))
    # offsets that are not whole minutes: compared with the model only
    odd = [(rng.choice(secs) * NS + rng.choice(FRACS) * 1953125, rng.choice([1, -1, 59, -59, 61, -61, 90, -90, 3599, -3601, 5430]))
           for _ in range(ctx.pick(100, 1000))]
    cases, impl, lines = [], [], []
    for ns, off in items + odd:
        case, s = date_case(ctx, osu, ns, off)
        cases.append(case); impl.append(s)
        lines.append("fmt %d %d" % (ns, off))
        ctx.case(case, nontrivial=(ns % NS != 0 or off != 0))
        ctx.count("date:offsign=%s frac=%s tsign=%s" % ("-" if off < 0 else "+", "y" if ns % NS else "n", "-" if ns < 0 else "+"))
    mo = ctx.model(lines)
    model_strings = []
    for case, s, m, l in zip(cases, impl, mo, lines):
        ctx.traces += 1
        if m == "unsupported":
            ctx.count("date:out-of-model-range")
            continue
        model_strings.append(bytes.fromhex(m).decode())
        if hx(s) != m:
            ctx.mismatch(case, s, model_strings[-1], line=l)

    # ---- arbitrary f64 timestamps
    cases64, impl64, l_w, l_c = [], [], [], []
    for t in gen_f64(ctx):
        off = rng.choice(offs) if rng.random() < 0.5 else 0
        # keep the local date inside the four-digit years
        if not (-62135596800 + 2 * DAY < t + off < 253402300800 - 2 * DAY):
            continue
        case, s = f64_case(ctx, osu, t, off)
        num, den = t.as_integer_ratio()
        k = den.bit_length() - 1
        cases64.append(case); impl64.append(s)
        l_w.append("fmt64 %d %d %d" % (num, k, off)); l_c.append("fmt64c %d %d %d" % (num, k, off))
        fam = classify_f64(t, off)
        ctx.case(case, nontrivial=True)
        ctx.count("date64:%s" % ("carry-family" if fam else "plain"))
        ctx.count("date64:tsign=%s k=%s" % ("-" if t < 0 else "+", "<=30" if k <= 30 else "<=52" if k <= 52 else ">52"))
    m_w = ctx.model(l_w)
    m_c = ctx.model(l_c)
    for case, s, a, b, la in zip(cases64, impl64, m_w, m_c, l_w):
        ctx.traces += 1
        if "unsupported" in (a, b):
            ctx.count("date64:out-of-model-range")
            continue
        h = hx(s)
        t = float.fromhex(case["t"])
        if a == b:
            if h != a:
                ctx.mismatch(case, s, bytes.fromhex(a).decode(), line=la)
        else:
            # the as-written and the carrying formatter differ exactly on the carry family
            if classify_f64(t, case["offset"]) is None:
                ctx.mismatch(case, s, "models differ outside the carry family: as-written=%s carry=%s"
                             % (bytes.fromhex(a).decode(), bytes.fromhex(b).decode()), line=la)
            elif h == a:
                ctx.count("date64:impl=as-written(no carry)")
            elif h == b:
                ctx.count("date64:impl=carries")
            else:
                ctx.mismatch(case, s, "as-written=%s | carry=%s" % (bytes.fromhex(a).decode(), bytes.fromhex(b).decode()), line=la)
            model_strings.append(bytes.fromhex(b).decode())

    # unpack: every string the implementation produced + the model's strings + malformed ones
    ustr = []
    seen = set()
    for s in impl + impl64 + model_strings:
        if s not in seen:
            seen.add(s); ustr.append(s)
    good = [s for s in ustr[:400]]
    mal = []
    for s in good[:ctx.pick(150, 400)]:
        wd, rest = s.split(" ", 1)
        r = rng.randrange(12)
        if r == 0:
            mal.append(rest)                                   # no weekday
        elif r == 1:
            mal.append("Xyz " + rest)
        elif r == 2:
            mal.append(s.replace(".", "", 1))
        elif r == 3:
            mal.append(s.rsplit(" ", 1)[0])                    # no timezone
        elif r == 4:
            mal.append(s[:9] + "13" + s[11:])                  # month 13
        elif r == 5:
            mal.append(s[:12] + "32" + s[14:])                 # day 32
        elif r == 6:
            mal.append(s[:15] + "24" + s[17:])                 # hour 24
        elif r == 7:
            mal.append(s[:-2] + "x0")                          # bad offset
        elif r == 8:
            mal.append(s.replace(" ", "", 1))
        elif r == 9:
            mal.append(s[:12] + "00" + s[14:])                 # day 00
        elif r == 10:
            mal.append(wd.lower() + " " + rest)
        else:
            mal.append(s[:18] + "61" + s[20:])                 # minute 61
    mal += ["", " ", "Mon", "Mon ", "Thu 1970-01-01 00:00:00", "Thu 1970-01-01 00:00:00.5", "Thu 1970-01-01 00:00:00.5 ",
            "Thu 1970-01-01 00:00:00.5 +", "Thu 1970-01-01 00:00:00.5 -", "Thu 1970-01-01 00:00:00.500000000 99999999999"]
    cases = [dict(op="unpack", s=s) for s in ustr]
    for c in cases:
        ctx.case(c, nontrivial=True)
    diff_unpack(ctx, cases, ustr)
    # malformed stream: accept/reject + error kind only
    cases = [dict(op="unpack-malformed", s=s) for s in mal]
    for c in cases:
        ctx.case(c, nontrivial=True)
    diff_unpack(ctx, cases, mal, accept_only=True)


# --------------------------------------------------------------------------


def run_corpus(ctx, osu):
    d = os.path.join(env.VERIF, "corpus", "C47")
    if not os.path.isdir(d):
        return
    for fn in sorted(os.listdir(d)):
        if fn.endswith(".json"):
            case = json.load(open(os.path.join(d, fn)))
            case = case.get("case", case)
            _replay_one(ctx, osu, case)
            ctx.count("corpus")


def _replay_one(ctx, osu, case):
    op = case["op"]
    if op == "mps":
        canon, fails = mps_case(osu, case["paths"])
        for f in fails[:1]:
            ctx.violation(case, "minimum_path_selection(%r): %s" % (case["paths"], f))
        m = ctx.model(["mps " + hxl(case["paths"])])[0]
        ctx.traces += 1
        if m != canon:
            ctx.mismatch(case, canon, m)
        return dict(impl=canon, model=m)
    if op in ("insideany", "insideorparent"):
        fn = osu.is_inside_any if op == "insideany" else osu.is_inside_or_parent_of_any
        r = fn(case["dirs"], case["f"])
        if op == "insideany":
            ref = any(is_prefix(comps(d), comps(case["f"])) for d in case["dirs"])
            if r != ref:
                ctx.violation(case, "is_inside_any(%r, %r)=%r but component containment says %r"
                              % (case["dirs"], case["f"], r, ref))
            sel = osu.minimum_path_selection(set(case["dirs"]))
            if osu.is_inside_any(list(sel), case["f"]) != r:
                ctx.violation(case, "is_inside_any differs between the set and its minimum selection %r" % (sorted(sel),))
        m = ctx.model(["%s %s %s" % (op, hxl(case["dirs"]), hx(case["f"]))])[0]
        return dict(impl="T" if r else "F", model=m)
    if op == "inside":
        r = osu.is_inside(case["d"], case["f"])
        ref = is_prefix(comps(case["d"]), comps(case["f"]))
        if r != ref:
            ctx.violation(case, "is_inside(%r, %r)=%r but component containment says %r" % (case["d"], case["f"], r, ref))
        m = ctx.model(["inside %s %s" % (hx(case["d"]), hx(case["f"]))])[0]
        return dict(impl="T" if r else "F", model=m)
    if op == "splitpath":
        p = case["p"]
        r, e = _err(osu.splitpath, p)
        if e is None:
            j, e2 = _err(osu.joinpath, r)
            if normalised(p) and j != p:
                ctx.violation(case, "normalised path %r: joinpath(splitpath(p)) = %r" % (p, j))
            if e2 or _err(osu.splitpath, j)[0] != r or [c for c in r if not valid_comp(c)]:
                ctx.violation(case, "splitpath(%r) = %r does not survive join/split" % (p, r))
        elif normalised(p):
            ctx.violation(case, "splitpath rejects the normalised path %r" % (p,))
        m = ctx.model(["splitpath " + hx(p)])[0]
        return dict(impl=e if e else hxl(r), model=m)
    if op == "joinpath":
        cs = case["parts"]
        r, e = _err(osu.joinpath, cs)
        if all(valid_comp(c) for c in cs) and (e or osu.splitpath(r) != cs):
            ctx.violation(case, "splitpath(joinpath(%r)) is not the identity: %r" % (cs, e or osu.splitpath(r)))
        elif e is None and all("/" not in c and c != "." for c in cs) and _err(osu.splitpath, r)[0] != cs:
            ctx.violation(case, "joinpath(%r) = %r is accepted but splits back to %r" % (cs, r, _err(osu.splitpath, r)))
        m = ctx.model(["joinpath " + hxl(cs)])[0]
        return dict(impl=e if e else hx(r), model=m)
    if op in ("split_lines", "core.split_lines"):
        text = bytes.fromhex(case["text"])
        if op.startswith("core."):
            o = probe(["sl " + hx(text)])[0]
            got = [] if o == "~" else [bytes.fromhex(x) for x in o.split(",")]
            m = ctx.model(["sl " + hx(text)])[0]
        else:
            got = osu.split_lines(text)
            m = ctx.model(["slpy " + hx(text)])[0]
        why = lines_oracle(text, got)
        if why:
            ctx.violation(case, "%s(%r) = %r: %s" % (op, text, got, why))
        return dict(impl=hxl(got), model=m)
    if op in ("chunks_to_lines", "core.chunks_to_lines"):
        chunks = [bytes.fromhex(x) for x in case["chunks"]]
        text = b"".join(chunks)
        if op.startswith("core."):
            o = probe(["cl " + hxl(chunks)])[0]
            got = [] if o == "~" else [bytes.fromhex(x) for x in o.split(",")]
            m = ctx.model(["cl " + hxl(chunks)])[0]
        else:
            got = osu.chunks_to_lines(list(chunks))
            m = ctx.model(["clpy " + hxl(chunks)])[0]
        why = lines_oracle(text, got)
        if why or got != osu.split_lines(text):
            ctx.violation(case, "%s(%r) = %r: %s" % (op, chunks, got, why or "differs from split_lines of the concatenation"))
        return dict(impl=hxl(got), model=m)
    if op == "date":
        ctx._osu = osu
        c, s = date_case(ctx, osu, case["ns"], case["offset"])
        a = ctx.model(["fmt %d %d" % (case["ns"], case["offset"])])[0]
        ctx.traces += 1
        dec = lambda h: bytes.fromhex(h).decode() if h not in ("unsupported", "-") else h
        if a != "unsupported" and hx(s) != a:
            ctx.mismatch(case, s, dec(a))
        return dict(impl=s, model=dec(a), unpacked=unpack_canon(osu, s))
    if op == "date64":
        ctx._osu = osu
        t = float.fromhex(case["t"])
        c, s = f64_case(ctx, osu, t, case["offset"])
        num, den = t.as_integer_ratio()
        k = den.bit_length() - 1
        a, b, u = ctx.model(["fmt64 %d %d %d" % (num, k, case["offset"]), "fmt64c %d %d %d" % (num, k, case["offset"]),
                             "units %d %d" % (num, k)])
        ctx.traces += 1
        dec = lambda h: bytes.fromhex(h).decode() if h not in ("unsupported", "-") else h
        if "unsupported" not in (a, b) and hx(s) not in (a, b):
            ctx.mismatch(case, s, "as-written=%s | carry=%s" % (dec(a), dec(b)))
        return dict(t=t, impl=s, model_as_written=dec(a), model_with_carry=dec(b), fraction_units=u,
                    unpacked=unpack_canon(osu, s), family=classify_f64(t, case["offset"]))
    if op in ("unpack", "unpack-malformed"):
        o = unpack_canon(osu, case["s"])
        m = model_unpack_canon(ctx.model(["unp " + hx(case["s"])])[0])
        return dict(impl=o, model=m)
    raise ValueError("unknown op %r" % op)


def run(ctx):
    from breezy import osutils as osu
    build_probe()
    run_corpus(ctx, osu)
    run_paths(ctx, osu)
    run_splitjoin(ctx, osu)
    run_lines(ctx, osu)
    run_dates(ctx, osu)
    # report violations outside the known defect families first (stable)
    ctx.violations.sort(key=lambda v: v.get("family") is not None)


def widen(ctx):
    ctx.tier = "thorough"
    run(ctx)


def replay(ctx, case):
    from breezy import osutils as osu
    r = _replay_one(ctx, osu, case)
    r = dict(r or {}, case=case, oracle_failures=[v["what"] for v in ctx.violations])
    return r
