import BreezyVerif.Common
import BreezyVerif.Model.C25
/-
C25 driver.  Requests (fields separated by one space):

  rbd <views>                         reverse_by_depth
  rebase <views>                      _rebase_merge_depth
  touch <revs|-> <T|F> <views>        _filter_revisions_touching_path (modified revisions, include_merges)
  enclosing <revs|-> <T|F> <views>    the stack-free specification of the same (`enclosingExpected`)
  stepwise <views>                    do the depths go up by at most one per step (from depth 0 or 1)
  wellnested <views>                  is the list a forest in pre-order (`wellNested`)
  linear <graph> <tip|~> <start|~> <stop|~> <excl T|F>
  graph <graph> <tip|~> <start|~> <stop|~> <rebase T|F> <excl T|F>
  calc <graph> <tip|~> <start|~> <stop|~> <r|f> <genMerge T|F> <delayed T|F> <excl T|F>
  log <graph> <tip|~> <start|~> <stop|~> <r|f> <levels> <limit> <excl T|F>

graph as in the C22 driver; views = `rev:revno:depth` joined by `;` (`-` = none), revno = numbers joined by `.` or `~`
-/
namespace BreezyVerif.C25
open BreezyVerif.C22

def parseNode (s : String) : Option (List Nat) :=
  if s == "-" then some [] else (s.splitOn ",").mapM String.toNat?

def parseGraph (s : String) : Option Graph :=
  if s == "~" then some [] else (s.splitOn ";").mapM parseNode

def optNat' (s : String) : Option (Option Nat) :=
  if s == "~" then some none else s.toNat?.map some

def parseRevno (s : String) : Option (List Nat) :=
  if s == "~" then some [] else (s.splitOn ".").mapM String.toNat?

def parseV (s : String) : Option V :=
  match s.splitOn ":" with
  | [r, n, d] => do pure ⟨← r.toNat?, ← parseRevno n, ← d.toNat?⟩
  | _ => none

def parseViews (s : String) : Option (List V) :=
  if s == "-" then some [] else (s.splitOn ";").mapM parseV

def showRevno (l : List Nat) : String := if l.isEmpty then "~" else ".".intercalate (l.map toString)

def showViews (l : List V) : String :=
  if l.isEmpty then "-" else ";".intercalate (l.map fun v => s!"{v.rev}:{showRevno v.revno}:{v.depth}")

def showLErr : LErr → String
  | .command _ => "E:CommandError"
  | .startNotLinear => "E:StartNotLinearAncestor"
  | .other e => e.toString
  | .unsupported => "E:Unsupported"

def showRes : Except LErr (List V) → String
  | .ok l => showViews l
  | .error e => showLErr e

def dirOf (s : String) : Option Bool := if s == "r" then some false else if s == "f" then some true else none

def handle : List String → String
  | ["rbd", vs] =>
    match parseViews vs with
    | some l => (match reverseByDepth l with | some r => showViews r | none => "E:Recursion")
    | none => "bad-op"
  | ["rebase", vs] =>
    match parseViews vs with
    | some l => showViews (rebaseMergeDepth l)
    | none => "bad-op"
  | ["touch", m, inc, vs] =>
    match parseNatList m, parseBool inc, parseViews vs with
    | some m, some inc, some l => showViews (touching m inc l)
    | _, _, _ => "bad-op"
  | ["enclosing", m, inc, vs] =>
    match parseNatList m, parseBool inc, parseViews vs with
    | some m, some inc, some l => showViews (enclosingExpected m inc l)
    | _, _, _ => "bad-op"
  | ["wellnested", vs] =>
    match parseViews vs with
    | some l => showBool (wellNested l)
    | none => "bad-op"
  | ["stepwise", vs] =>
    match parseViews vs with
    | some l => showBool (stepwise 1 l)
    | none => "bad-op"
  | ["linear", g, tip, s, e, x] =>
    match parseGraph g, optNat' tip, optNat' s, optNat' e, parseBool x with
    | some g, some tip, some s, some e, some x =>
      (match linearView { g := g, tip := tip } s e x with
        | some l =>
          -- the `(ghost_id, None, None)` tuple at the end of a walk that ran into a ghost
          (match linearGhost { g := g, tip := tip } s e with
            | some gh => (if l.isEmpty then "" else showViews l ++ ";") ++ s!"{gh}:~:~"
            | none => showViews l)
        | none => "E:StartNotLinearAncestor")
    | _, _, _, _, _ => "bad-op"
  | ["graph", g, tip, s, e, rb, x] =>
    match parseGraph g, optNat' tip, optNat' s, optNat' e, parseBool rb, parseBool x with
    | some g, some tip, some s, some e, some rb, some x => showRes (graphView { g := g, tip := tip } s e rb x)
    | _, _, _, _, _, _ => "bad-op"
  | ["calc", g, tip, s, e, d, gm, dl, x] =>
    match parseGraph g, optNat' tip, optNat' s, optNat' e, dirOf d, parseBool gm, parseBool dl, parseBool x with
    | some g, some tip, some s, some e, some d, some gm, some dl, some x =>
      -- a left-hand walk that runs into a ghost: only `_linear_view_revisions` itself is modelled there
      if (linearGhost { g := g, tip := tip } s e).isSome && (!gm || dl) then "E:Unsupported" else
      showRes (match calcView { g := g, tip := tip } s e d gm dl x with
        | .ok (l, false) => .ok l
        | .ok (_, true) => .error .unsupported
        | .error e => .error e)
    | _, _, _, _, _, _, _, _ => "bad-op"
  | ["log", g, tip, s, e, d, lv, lim, x] =>
    match parseGraph g, optNat' tip, optNat' s, optNat' e, dirOf d, lv.toNat?, lim.toNat?, parseBool x with
    | some g, some tip, some s, some e, some d, some lv, some lim, some x =>
      if (linearGhost { g := g, tip := tip } s e).isSome && (lv == 1 || lim != 0 || s.isSome || e.isSome) then
        "E:Unsupported"
      else showRes (logRequest { g := g, tip := tip } s e d lv lim x)
    | _, _, _, _, _, _, _, _ => "bad-op"
  | _ => "bad-op"

end BreezyVerif.C25

def main : IO Unit := BreezyVerif.runDriver BreezyVerif.C25.handle
