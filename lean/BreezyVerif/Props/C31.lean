import BreezyVerif.Lemmas.C31B
/-
C31 — smart server clients cannot reach files outside the served directory.

Everything is stated for ALL client paths (byte strings of any length), all
root client paths, all served directories, every transport base reached by
cloning, and every userdir filter that maps canonical escaped paths to
canonical escaped paths (proved for `_expand_userdirs` over an arbitrary
expander with that property, and for the posix `expanduser` over any table of
canonical home directories).

"inside" means: the absolute location the operating system finally resolves
(`locate`: userdir filter → chroot combination → LocalTransport unescape →
lexical `..` resolution by the OS) has the served directory as a prefix.
-/
namespace BreezyVerif.C31

/-- `urlutils.joinpath("/", p)` returns "/" followed by segments that contain
no "/" and are neither "." nor ".." -/
theorem joinpath_clean (a r : Bytes) (h : joinpathRoot a = .ok r) :
    ∃ segs, r = SL :: joinSl segs ∧ ∀ s ∈ segs, Clean s :=
  joinpath_clean_aux h

example : joinpathRoot [97, 47, 47, 46, 46, 47, 46, 46, 47, 98] = .ok [47, 98] := by decide
example : joinpathRoot [97, 47, 46, 46, 47, 46, 46] = .error .aboveRoot := by decide

/-- `translate_client_path` returns "." or "./s₁/…/sₙ" where the sᵢ are the
escaped forms of clean segments (so no sᵢ is ".." and none contains "/") -/
theorem translate_shape (root cp r : Bytes) (h : translate root cp = .ok r) :
    r = [DOT] ∨ ∃ segs : List Seg, (∀ s ∈ segs, Clean s) ∧ r = DOT :: SL :: joinSl (segs.map escape) := by
  unfold translate at h
  split at h
  · cases h
  · exact translateAbs_shape root _ r h

/-- the result of `translate_client_path` is a canonical escaped string -/
theorem translate_canon (root cp r : Bytes) (h : translate root cp = .ok r) : Canon r := by
  unfold translate at h
  split at h
  · cases h
  · exact translateAbs_canon root _ r h

/-- a canonical escaped relpath, on any transport cloned at canonical segments,
behind any filter preserving canonical strings, is resolved inside the served
directory -/
theorem locate_canon_inside (cfg : Cfg) (cloneStk : List Seg) (rel : Bytes) (loc : List Seg)
    (hf : ∀ p, Canon p → Canon (cfg.filter p))
    (hs : ∀ s ∈ cloneStk, GoodSeg Canon s) (hr : Canon rel)
    (h : locate cfg cloneStk rel = .ok loc) : inside cfg.rootDir loc :=
  locate_inside tame_canon cfg cloneStk rel loc hf hs hr h

/-- **containment for every non-VFS verb**: for every client path and root
client path, `transport_from_client_path` either raises or yields a transport
such that every operation with a canonical relpath `rel` below it (in
particular "" and ".bzr/…") lands inside the served directory -/
theorem translate_inside (cfg : Cfg) (root cp r rel : Bytes) (loc : List Seg)
    (hf : ∀ p, Canon p → Canon (cfg.filter p))
    (ht : translate root cp = .ok r) (hrel : Canon rel)
    (h : locate cfg (combine [] r) rel = .ok loc) : inside cfg.rootDir loc :=
  locate_canon_inside cfg (combine [] r) rel loc hf
    (combine_good tame_canon (by simp) (translate_canon root cp r ht)) hrel h

/-- **containment for every VFS verb with the fixed `VfsRequest.translate_client_path`**
(unescape first): the translated path lands inside the served directory — this
covers %2E%2E, %2F, doubly encoded forms, '~' and NUL -/
theorem vfs_translate_then_chroot_inside (cfg : Cfg) (root cp r : Bytes) (loc : List Seg)
    (hf : ∀ p, Canon p → Canon (cfg.filter p))
    (ht : vfsTranslate true root cp = .ok r)
    (h : locate cfg [] r = .ok loc) : inside cfg.rootDir loc := by
  have hc : Canon r := by
    unfold vfsTranslate at ht
    simp only [if_true] at ht
    split at ht
    · cases ht
    · cases hu : unescape cp with
      | error e => rw [hu] at ht; cases ht
      | ok u => rw [hu] at ht; exact translate_canon root u r ht
  exact locate_canon_inside cfg [] r loc hf (by simp) hc h

/-- **as found** (`VfsRequest.translate_client_path` unescapes after the
normalising join): containment holds for every client path that contains no
'%' at all.  PARTIAL: the excluded family (client paths with percent escapes)
contains real breakouts, see `vfs_as_found_escape_witness`. -/
theorem vfs_as_found_inside_partial (cfg : Cfg) (root cp r : Bytes) (loc : List Seg)
    (hfc : ∀ p, Canon p → Canon (cfg.filter p)) (hfn : ∀ p, NoPct p → NoPct (cfg.filter p))
    (hcp : PCT ∉ cp)
    (ht : vfsTranslate false root cp = .ok r)
    (h : locate cfg [] r = .ok loc) : inside cfg.rootDir loc := by
  unfold vfsTranslate at ht
  simp only [Bool.false_eq_true, if_false] at ht
  cases hx : translate root cp with
  | error e => rw [hx] at ht; cases ht
  | ok x =>
    rw [hx] at ht
    simp only [] at ht
    have hcx := translate_canon root cp x hx
    unfold unescape at ht
    split at ht
    · cases ht
    · simp only [] at ht
      split at ht
      · -- decoded: the result contains no '%'
        cases ht
        have hn : NoPct (pctDecode x) := by
          unfold translate at hx
          split at hx
          · cases hx
          · unfold translateAbs at hx
            split at hx
            · cases hx; unfold NoPct; decide
            · split at hx
              · cases hj : joinpathRoot (List.drop root.length (addSlash cp)) with
                | error e => rw [hj] at hx; cases hx
                | ok rel =>
                  rw [hj] at hx
                  simp only [] at hx
                  split at hx
                  · cases hx
                    rw [pctDecode_escape]
                    intro hm
                    cases hm with
                    | tail _ hm' =>
                      rcases joinpath_bytes hj PCT hm' with e | e
                      · exact absurd e (by decide)
                      · have := List.mem_of_mem_drop e
                        unfold addSlash at this
                        split at this
                        · exact hcp this
                        · cases this with
                          | tail _ t => exact hcp t
                  · cases hx
              · cases hx
        exact locate_inside tame_noPct cfg [] _ loc hfn (by simp) hn h
      · cases ht
        exact locate_inside tame_canon cfg [] _ loc hfc (by simp) hcx h

/-- the client path `..%2Fcanary` given to a VFS verb of the as-found code is
translated to `./..%2Fcanary`, which the chroot transport passes on unchanged
and the local transport decodes to `../canary`: with the served directory
/srv/root the file touched is /srv/canary -/
theorem vfs_as_found_escape_witness :
    let cfg : Cfg := { rootDir := [[115, 114, 118], [114, 111, 111, 116]], basePath := none, filter := id }
    let cp : Bytes := [46, 46, 37, 50, 70, 99, 97, 110, 97, 114, 121]
    vfsTranslate false [SL] cp = .ok (DOT :: SL :: cp)
      ∧ locate cfg [] (DOT :: SL :: cp) = .ok [[115, 114, 118], [99, 97, 110, 97, 114, 121]]
      ∧ ¬ inside cfg.rootDir [[115, 114, 118], [99, 97, 110, 97, 114, 121]] := by
  decide

/-- the same client path is refused by the fixed variant -/
example : vfsTranslate true [SL] [46, 46, 37, 50, 70, 99, 97, 110, 97, 114, 121] = .error .aboveRoot := by
  decide

/-- a single chroot layer decodes `%%32E%%32E/canary` to `%2E%2E/canary`, which
the local transport decodes once more to `../canary` -/
theorem chroot_double_decode_witness :
    let cfg : Cfg := { rootDir := [[115, 114, 118], [114, 111, 111, 116]], basePath := none, filter := id }
    let cp : Bytes := [37, 37, 51, 50, 69, 37, 37, 51, 50, 69, 47, 99, 97, 110, 97, 114, 121]
    vfsTranslate false [SL] cp = .ok (DOT :: SL :: cp)
      ∧ locate cfg [] (DOT :: SL :: cp) = .ok [[115, 114, 118], [99, 97, 110, 97, 114, 121]] := by
  decide

/-- `_expand_userdirs` returns the path unchanged, or the part of the expanded
path (with a trailing "/") that follows the base path -/
theorem userdir_inside_or_untouched (expander : Bytes → Bytes) (base path : Bytes) :
    expandUserdirs expander base path = path
      ∨ (path.head? = some TILDE
          ∧ base ++ expandUserdirs expander base path = withSlash (expander path)) := by
  unfold expandUserdirs
  split
  · rename_i ht
    simp only []
    split
    · rename_i hp
      right
      obtain ⟨t, ht'⟩ := List.isPrefixOf_iff_prefix.mp hp
      refine ⟨ht, ?_⟩
      rw [← ht']
      simp
    · exact Or.inl rfl
  · exact Or.inl rfl

/-- `_expand_userdirs` maps canonical escaped paths to canonical escaped paths
whenever the expander does (any base path) -/
theorem userdir_filter_canon (expander : Bytes → Bytes) (he : ∀ p, Canon p → Canon (expander p))
    (base p : Bytes) (hp : Canon p) : Canon (expandUserdirs expander base p) :=
  expandUserdirs_canon he base hp

/-- posix `expanduser` over any table whose home directories (trailing slashes
stripped) are canonical preserves canonical strings -/
theorem expanduser_canon (tbl : List (Bytes × Bytes)) (ht : ∀ e ∈ tbl, Canon (rstripSl e.2))
    (p : Bytes) (hp : Canon p) : Canon (expanduser tbl p) :=
  expanduser_canon' ht hp

/-- non-vacuity of the filter hypothesis: the userdir filter of a server whose
only user lives in /srv/root/home/u, base path /srv/root/ -/
example : ∀ p, Canon p →
    Canon (expandUserdirs (expanduser [([], [47, 115, 114, 118, 47, 114, 111, 111, 116, 47, 104, 111, 109, 101, 47, 117])])
      [47, 115, 114, 118, 47, 114, 111, 111, 116, 47] p) := fun p hp =>
  userdir_filter_canon _ (fun q hq => expanduser_canon _ (by
    intro e he
    simp only [List.mem_singleton] at he
    subst he
    have : rstripSl [47, 115, 114, 118, 47, 114, 111, 111, 116, 47, 104, 111, 109, 101, 47, 117]
        = escape [47, 115, 114, 118, 47, 114, 111, 111, 116, 47, 104, 111, 109, 101, 47, 117] := by decide
    rw [this]
    exact canon_escape _) q hq) _ p hp

example : expandUserdirs (expanduser [([], [47, 115, 47, 104])]) [47, 115, 47] [126, 47, 120]
    = [104, 47, 120, 47] := by decide

/-- the jail accepts a URL iff no jail is installed or the URL is an allowed
base without its last character or has an allowed base as a prefix -/
theorem jail_rejects_outside (allowed : Option (List Bytes)) (url : Bytes) :
    jailAllows allowed url = true ↔
      allowed = none ∨ ∃ bases, allowed = some bases ∧ ∃ b ∈ bases, url = b.dropLast ∨ b <+: url := by
  cases allowed with
  | none => simp [jailAllows]
  | some bases =>
    simp only [jailAllows, List.any_eq_true, isChildUrl, Bool.or_eq_true, beq_iff_eq,
      List.isPrefixOf_iff_prefix, reduceCtorEq, Option.some.injEq, false_or, exists_eq_left']

/-- for an allowed base "p/" the accepted URLs are exactly p itself and the
URLs that extend p at a "/" boundary: a sibling such as "p2/…" is refused -/
theorem jail_segment_boundary (p url : Bytes) :
    jailAllows (some [p ++ [SL]]) url = true ↔ url = p ∨ ∃ rest, url = p ++ SL :: rest := by
  simp only [jailAllows, List.any_cons, List.any_nil, Bool.or_false]
  exact isChildUrl_iff p url

example : jailAllows (some [[114, 47]]) [114, 50, 47] = false := by decide
example : jailAllows (some [[114, 47]]) [114, 47, 120, 47] = true := by decide
example : jailAllows (some []) [114, 47] = false := by decide

end BreezyVerif.C31
