import BreezyVerif.Common
import BreezyVerif.Model.C12
/-
C12 driver.  Requests:

  revert <keepWhenNoBasis> <changed> <wtKind f|d|l|~> <backups> <tkind> <tversioned> <mmIsWt> <basisPresent> <basisIsWt>
      -> kept | backup | gone
  remove <backupUnversioned> <keep> <force> <role s|n> <wtVersioned> <inBasis> <changed>   -> kept | backup | gone
  backup <base> <taken names joined by , or ->                  -> the name | ~
  merge <thisChanged> <otherChanged> <otherDeleted> <sameChange> <textConflict>  -> kept | helper | merged | gone
  mm <otherChangedContent> <otherAdded> <onlyMoved>             -> recorded | absent   (merge-hashes after a merge-like command)
  dirbackup <name> <new> <n1=c1,n2=c2,… or ->                    -> the listing after backupAndReplace, n=c joined by , | ~
  dirrename <name> <n1=c1,n2=c2,… or ->                          -> the listing after renameToBackup | ~
(booleans are T/F)
-/
namespace BreezyVerif.C12

def parseKind (s : String) : Option (Option Kind) :=
  if s == "f" then some (some .file) else if s == "d" then some (some .dir)
  else if s == "l" then some (some .symlink) else if s == "~" then some none else none

def Fate.show : Fate → String
  | .kept => "kept" | .backup => "backup" | .helper => "helper" | .merged => "merged" | .gone => "gone"

def parseEntries (s : String) : Option (Listing String) :=
  (splitList s).mapM (fun e => match e.splitOn "=" with
    | [n, c] => some (n, c)
    | _ => none)

def showEntries (d : Listing String) : String := joinList (d.map (fun e => e.1 ++ "=" ++ e.2))

def handle : List String → String
  | ["revert", fl, ch, wk, bk, tk, tv, mm, bp, bi] =>
    match parseBool fl, parseBool ch, parseKind wk, parseBool bk, parseKind tk, parseBool tv, parseBool mm, parseBool bp, parseBool bi with
    | some fl, some ch, some wk, some bk, some tk, some tv, some mm, some bp, some bi =>
      (revertFate { keepWhenNoBasis := fl }
        { changedContent := ch, wtKind := wk, backups := bk, targetKind := tk, targetVersioned := tv,
          mergeModifiedIsWt := mm, basisPresent := bp, basisIsWt := bi }).show
    | _, _, _, _, _, _, _, _, _ => "bad-op"
  | ["remove", v, k, f, r, wv, ib, ch] =>
    match parseBool v, parseBool k, parseBool f, (if r == "s" then some Role.selected else if r == "n" then some Role.nestedUnversioned else none),
          parseBool wv, parseBool ib, parseBool ch with
    | some v, some k, some f, some r, some wv, some ib, some ch =>
      (removeFateV { backupUnversioned := v }
        { keep := k, force := f, role := r, wtVersioned := wv, inBasis := ib, changedContent := ch }).show
    | _, _, _, _, _, _, _ => "bad-op"
  | ["backup", base, taken] =>
    match availableBackupName base (splitList taken) with
    | some n => n
    | none => "~"
  | ["merge", a, b, c, d, e] =>
    match parseBool a, parseBool b, parseBool c, parseBool d, parseBool e with
    | some a, some b, some c, some d, some e =>
      (mergeFate { thisChanged := a, otherChanged := b, otherDeleted := c, sameChange := d, textConflict := e }).show
    | _, _, _, _, _ => "bad-op"
  | ["mm", a, b, c] =>
    match parseBool a, parseBool b, parseBool c with
    | some a, some b, some c =>
      if mergeRecords { otherChangedContent := a, otherAdded := b, onlyMoved := c } then "recorded" else "absent"
    | _, _, _ => "bad-op"
  | ["dirbackup", name, new, entries] =>
    match parseEntries entries with
    | some d => (match backupAndReplace d name new with | some d' => showEntries d' | none => "~")
    | none => "bad-op"
  | ["dirrename", name, entries] =>
    match parseEntries entries with
    | some d => (match renameToBackup d name with | some r => showEntries r.2 | none => "~")
    | none => "bad-op"
  | _ => "bad-op"

end BreezyVerif.C12

def main : IO Unit := BreezyVerif.runDriver BreezyVerif.C12.handle
