"""Environment isolation and breezy bootstrap for check runs.

Nothing here is specific to one property.  A scratch directory is created
under $VERIF_SCRATCH or /var/tmp (never /tmp, never /repo or /verif) and
removed at exit.
"""
import atexit
import importlib.machinery
import importlib.util
import os
import shutil
import subprocess
import sys
import tempfile

REPO = os.environ.get("VERIF_REPO", "/repo")
VERIF = os.path.dirname(os.path.dirname(os.path.dirname(os.path.abspath(__file__))))
GUARD = "BREEZY_VERIF"

_scratch = None
_booted = False
_REAL_HOME = os.environ.get("VERIF_REAL_HOME") or os.path.expanduser("~")
os.environ.setdefault("VERIF_REAL_HOME", _REAL_HOME)


def scratch():
    """Per-process scratch directory (removed at exit)."""
    global _scratch
    if _scratch is None:
        base = os.environ.get("VERIF_SCRATCH") or "/var/tmp"
        os.makedirs(base, exist_ok=True)
        _scratch = tempfile.mkdtemp(prefix="verif-", dir=base)
        pid = os.getpid()

        def _rm(d=_scratch, pid=pid):
            if os.getpid() == pid:
                shutil.rmtree(d, ignore_errors=True)

        atexit.register(_rm)
    return _scratch


def subdir(name):
    d = os.path.join(scratch(), name)
    os.makedirs(d, exist_ok=True)
    return d


_counter = [0]


def fresh_dir(prefix="d"):
    _counter[0] += 1
    d = os.path.join(scratch(), "%s%d_%d" % (prefix, os.getpid(), _counter[0]))
    os.makedirs(d)
    return d


RUST_MODULES = {
    # cargo package -> (lib file, python module name)
    "osutils-py": ("libosutils_py.so", "breezy._osutils_rs"),
    "patch-py": ("libpatch_py.so", "breezy._patch_rs"),
    "git-py": ("libgit_py.so", "breezy._git_rs"),
    "cmd-py": ("libcmd_py.so", "breezy._cmd_rs"),
}


class InfraError(Exception):
    """Build / infrastructure failure: exit 2, never a violation."""


def cargo_cmd_env():
    """(path of a real cargo binary, environment to run it in)."""
    env = dict(os.environ, CARGO_NET_OFFLINE="true")
    # `cargo` on PATH is a rustup proxy that needs HOME-relative settings; HOME
    # has been redirected to the scratch directory (and may be different again
    # in the environment this runs in), so locate the toolchain directly.
    homes = [h for h in (os.environ.get("VERIF_REAL_HOME"), _REAL_HOME, "/root") if h]
    cargo = "cargo"
    for h in homes:
        rh = os.path.join(h, ".rustup")
        if not os.path.isdir(os.path.join(rh, "toolchains")):
            continue
        tcs = sorted(os.listdir(os.path.join(rh, "toolchains")))
        pref = [t for t in tcs if t.startswith("stable")] + [t for t in tcs if not t.startswith("stable")]
        for t in pref:
            c = os.path.join(rh, "toolchains", t, "bin", "cargo")
            if os.path.exists(c):
                cargo = c
                env["RUSTUP_HOME"] = rh
                env["CARGO_HOME"] = os.path.join(h, ".cargo")
                env["RUSTUP_TOOLCHAIN"] = t
                env["PATH"] = os.path.dirname(c) + os.pathsep + env.get("PATH", "")
                break
        if cargo != "cargo":
            break
    return cargo, env


def build_rust(packages):
    """cargo build --offline the given -py packages from /repo's working tree
    and pre-load the fresh .so under the module name breezy imports, so that
    the prebuilt (possibly stale) .so files in /repo/breezy are not used."""
    if not packages:
        return
    cargo, env = cargo_cmd_env()
    for pkg in packages:
        r = subprocess.run(
            [cargo, "build", "--offline", "-q", "-p", pkg],
            cwd=REPO, env=env, capture_output=True, text=True)
        if r.returncode != 0:
            raise InfraError("cargo build -p %s failed:\n%s" % (pkg, r.stderr[-3000:]))
    for pkg in packages:
        lib, modname = RUST_MODULES[pkg]
        path = os.path.join(os.environ.get("CARGO_TARGET_DIR") or os.path.join(REPO, "target"), "debug", lib)
        # copy so that a concurrent rebuild cannot change the mapped file
        dst = os.path.join(subdir("rust"), modname.split(".")[-1] + ".so")
        shutil.copy2(path, dst)
        loader = importlib.machinery.ExtensionFileLoader(modname, dst)
        spec = importlib.util.spec_from_file_location(modname, dst, loader=loader)
        mod = importlib.util.module_from_spec(spec)
        sys.modules[modname] = mod
        loader.exec_module(mod)
        _loaded_rust[modname] = mod


_loaded_rust = {}


def boot(rust=()):
    """Isolate the environment and initialise breezy from /repo."""
    global _booted
    if _booted:
        return
    home = subdir("home")
    os.environ.update(
        HOME=home, BRZ_HOME=home, XDG_CONFIG_HOME=os.path.join(home, ".config"),
        XDG_CACHE_HOME=os.path.join(home, ".cache"),
        BRZ_EMAIL="Verif Tester <verif@example.com>", EMAIL="verif@example.com",
        BRZ_PLUGIN_PATH="-user:-site", BRZ_LOG=os.path.join(home, "brz.log"),
        BRZ_PROGRESS_BAR="none", LC_ALL="C.UTF-8", LANG="C.UTF-8", TZ="UTC",
    )
    os.environ[GUARD] = "1"
    if REPO not in sys.path:
        sys.path.insert(0, REPO)
    if rust:
        # the package must exist before sub-modules are registered
        import breezy  # noqa
        build_rust(rust)
    import breezy
    if not os.path.realpath(breezy.__file__).startswith(os.path.realpath(REPO)):
        raise InfraError("breezy imported from %s, not %s" % (breezy.__file__, REPO))
    for modname, mod in _loaded_rust.items():
        setattr(breezy, modname.split(".")[-1], mod)
    breezy.initialize()
    import breezy.bzr  # noqa
    import breezy.git  # noqa
    import breezy.bzr.bzrdir  # noqa
    import breezy.bzr.workingtree_4  # noqa
    import breezy.bzr.groupcompress_repo  # noqa
    from breezy import plugin
    plugin.load_plugins()
    from breezy import ui
    ui.ui_factory = ui.SilentUIFactory()
    from breezy import trace
    trace.be_quiet(True)
    import logging
    logging.getLogger("brz").setLevel(logging.CRITICAL + 1)   # no warnings on stderr from library code
    _booted = True


def make_tree(fmt="2a", path=None):
    """Create a standalone working tree of the given format name."""
    from breezy.controldir import ControlDir, format_registry
    if path is None:
        path = fresh_dir("wt")
    return ControlDir.create_standalone_workingtree(
        path, format=format_registry.make_controldir(fmt))
