#!/venv/bin/python
"""C47 finding `highres-fraction-rounds-up-to-next-second`.

crates/osutils/src/time.rs format_highres_date prints the fraction with
`format!("{:.9}", t - t.floor())[1..]`.  When the fraction is >= 1 - 0.5e-9 the
formatter rounds it to "1.000000000"; the `[1..]` drops the leading "1" and the
whole seconds (taken from t.floor()) are not advanced, so the string names a
moment one full second before t and unpack_highres_date reads that back.

Run:  /venv/bin/python c47-highres-carry-repro.py [tree]   (default /repo)
exit 1 = defect present, 0 = absent.
"""
import os, sys, tempfile
tree = sys.argv[1] if len(sys.argv) > 1 else "/repo"
sys.path.insert(0, tree)
os.environ["HOME"] = os.environ["BRZ_HOME"] = tempfile.mkdtemp(dir="/var/tmp")
from breezy import osutils

bad = 0
for t in (2097152.9999999995, 0.9999999996, 1700000000.9999999, -1e-20, -1.0000000000000002e-10):
    s = osutils.format_highres_date(t, 0)
    back, off = osutils.unpack_highres_date(s)
    ok = abs(back - t) <= 1e-6
    print("%-24r -> %r -> %r %s" % (t, s, back, "ok" if ok else "LOST ONE SECOND"))
    bad += not ok
sys.exit(1 if bad else 0)
