"""C32 probe: append_revisions_only=True, then set_last_revision_info(3, ghost) locally and through the server"""
import os, sys, shutil, tempfile
REPO = os.environ.get("VERIF_REPO", "/repo")
sys.path.insert(0, REPO)
BASE = tempfile.mkdtemp(prefix="c32aro-", dir="/var/tmp/imp-C32")
os.environ["HOME"] = BASE; os.environ["BRZ_HOME"] = BASE; os.environ["BRZ_EMAIL"] = "T <t@example.com>"
import breezy
breezy.initialize()
import breezy.bzr, breezy.git
from breezy import trace, transport as T
from breezy.branch import Branch
from breezy.bzr.smart import server as S
from breezy.controldir import ControlDir, format_registry
trace.be_quiet(True)

def build(root):
    os.makedirs(root)
    fmt = format_registry.make_controldir("2a")
    a = ControlDir.create_standalone_workingtree(os.path.join(root, "A"), format=fmt)
    a.commit("one", rev_id=b"a1", timestamp=1e9, timezone=0, committer="T <t@example.com>", allow_pointless=True)
    t = ControlDir.create_branch_convenience(os.path.join(root, "t"), force_new_tree=False, format=fmt)
    a.branch.push(t)
    return root

def seq(url):
    b = Branch.open(url)
    b.get_config_stack().set("append_revisions_only", "True")
    b = Branch.open(url)
    try:
        with b.lock_write():
            b.set_last_revision_info(3, b"ghost-x")
        return "ok"
    except Exception as e:
        return "raised %s: %s" % (type(e).__name__, str(e)[:200])

root = build(os.path.join(BASE, "L")); l = seq(os.path.join(root, "t"))
root = build(os.path.join(BASE, "R"))
srv = S.SmartTCPServer(T.get_transport_from_path(root), client_timeout=60.0)
srv.start_server("127.0.0.1", 0); srv.start_background_thread()
try:
    r = seq(srv.get_url() + "t")
finally:
    srv.stop_background_thread()
print("local:", l); print("smart:", r)
shutil.rmtree(BASE, ignore_errors=True)
sys.stdout.flush(); os._exit(0 if l.split(":")[0] == r.split(":")[0] else 1)
