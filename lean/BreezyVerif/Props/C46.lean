import BreezyVerif.Lemmas.C46World
/-!
C46 — clean-tree deletes only what was asked for.

Theorems about the model of `Model/C46.lean` (`extras` of bzr and git trees,
`iter_deletables`, `_filter_out_nested_controldirs`, `delete_items`,
`clean_tree`), for every layout (no bound on size or depth), every option
combination and both tree formats.  Hypotheses: `f.wf` (sibling names distinct
and proper, only directories have content) and, for `never_versioned`,
`f.unvClosed` (nothing versioned below an unversioned entry), equivalently
`invShaped f` (the parent of a versioned entry is versioned — what an inventory
guarantees) — both hold for every layout a file system + inventory/index can
produce and are evaluated on every real layout by the check; examples below.

The last section refines the abstract removal (`Forest.remove`) to the file
system (`Model/C46World.lean`): `os.unlink` / `shutil.rmtree` chosen per kind,
kernel path resolution through symbolic links into an area outside the tree,
the dry-run test inside `delete_items`; `clean_world_refines` shows that the
refinement does exactly what the abstract model says and `outside_unchanged`
that nothing outside the tree is touched.
-/
namespace BreezyVerif.C46
open Forest

/-- the candidate is in one of the requested classes (`iter_deletables`) -/
def InClass (o : Opts) (it : Item) : Prop :=
  (o.detritus = true ∧ isDetritus (joinPath it.path) = true) ∨
  (o.ignored = true ∧ it.info.ignored = true) ∨
  (o.unknown = true ∧ it.info.ignored = false)

variable {keep : Item → Bool} {fmt : Fmt} {o : Opts} {f : Forest} {it : Item}

/-- every path handed to `delete_items` names an entry of the layout, and the
flags the selection looked at are that entry's flags -/
theorem selected_at (hw : f.wf = true) (h : it ∈ selectedWith keep fmt o f) :
    f.get it.path = some (it.info, it.kids) :=
  get_of_mem_items hw (extras_sub (selected_sub h).1)

/-- every selected path is unversioned, in a requested class, and passed the
final filter -/
theorem deletables_subset (hw : f.wf = true) (h : it ∈ selectedWith keep fmt o f) :
    f.get it.path = some (it.info, it.kids) ∧ it.info.versioned = false ∧ InClass o it ∧
      keep it = true := by
  obtain ⟨he, hwant, hkeep⟩ := selected_sub h
  refine ⟨selected_at hw h, extras_unversioned he, ?_, hkeep⟩
  · unfold wanted at hwant
    unfold InClass
    by_cases hd : (o.detritus && isDetritus (joinPath it.path)) = true
    · left; simpa using hd
    · rw [if_neg hd] at hwant
      by_cases hi : it.info.ignored = true
      · rw [if_pos hi] at hwant; right; left; exact ⟨hwant, hi⟩
      · rw [if_neg hi] at hwant; right; right; exact ⟨hwant, by simpa using hi⟩

/-- never a versioned path, never a directory containing a versioned path:
nothing at or below a selected path is versioned -/
theorem never_versioned (hw : f.wf = true) (hc : f.unvClosed = true) (h : it ∈ selectedWith keep fmt o f)
    {q : Path} {i : Info} {k : Forest} (hq : it.path <+: q) (hg : f.get q = some (i, k)) :
    i.versioned = false := by
  obtain ⟨r, rfl⟩ := hq
  have hit := extras_sub (selected_sub h).1
  have hv := extras_unversioned (selected_sub h).1
  have hget := get_of_mem_items hw hit
  by_cases hr : r = []
  · subst hr
    simp only [List.append_nil] at hg
    rw [hget] at hg
    simp at hg
    rw [← hg.1]; exact hv
  · rw [get_append hget hr] at hg
    exact allUnv_get (unvClosed_items hc hit hv) hg

/-- a dry run deletes nothing -/
theorem dry_run_noop (h : o.dryRun = true) : cleanTreeWith keep fmt o f = (f, false) :=
  cleanTree_noop (Or.inl h)

/-- a declined prompt deletes nothing -/
theorem declined_noop (h : o.prompt = some false) : cleanTreeWith keep fmt o f = (f, false) :=
  cleanTree_noop (Or.inr h)

/-- everything selected is inside the tree: a non-empty relative path of the
layout whose components are proper names (no `..`, no `/`) -/
theorem inside_tree (hw : f.wf = true) (h : it ∈ selectedWith keep fmt o f) :
    it.path ≠ [] ∧ it.path ∈ f.paths ∧
      ∀ c ∈ it.path, c ≠ "" ∧ c ≠ "." ∧ c ≠ ".." ∧ '/' ∉ c.toList := by
  have hm := selected_path_mem h
  refine ⟨?_, hm, paths_components hw hm⟩
  obtain ⟨n, t, e, _⟩ := paths_head hm
  simp [e]

/-- the candidates of `extras()` are pairwise unrelated: none is at or below another -/
theorem extras_antichain (hw : f.wf = true) {a b : Item} (ha : a ∈ extras fmt f)
    (hb : b ∈ extras fmt f) (hp : a.path <+: b.path) : a = b := by
  rcases pairwise_mem_sym (extras_antichain' hw) (fun _ _ h => ⟨h.2, h.1⟩) ha hb with h | h
  · exact h
  · exact absurd hp h.1

/-- exact effect of a real run: no error escapes, and a path survives iff no
selected path is a prefix of it -/
theorem clean_exact (hw : f.wf = true) (hd : o.dryRun = false) (hp : o.prompt ≠ some false) :
    (cleanTreeWith keep fmt o f).2 = false ∧
      ∀ q, q ∈ (cleanTreeWith keep fmt o f).1.paths ↔
        (q ∈ f.paths ∧ ∀ s ∈ selectedWith keep fmt o f, ¬ s.path <+: q) :=
  ⟨(cleanTree_spec (keep := keep) hw hd hp).1, (cleanTree_spec (keep := keep) hw hd hp).2.2⟩

/-- for all options: no error, nothing is created, and whatever disappears lies
at or below a selected path -/
theorem clean_only_selected (hw : f.wf = true) :
    (cleanTreeWith keep fmt o f).2 = false ∧ (∀ q ∈ (cleanTreeWith keep fmt o f).1.paths, q ∈ f.paths) ∧
      ∀ q ∈ f.paths, q ∉ (cleanTreeWith keep fmt o f).1.paths → ∃ s ∈ selectedWith keep fmt o f, s.path <+: q := by
  by_cases hd : o.dryRun = true
  · rw [cleanTree_noop (Or.inl hd)]
    exact ⟨rfl, fun _ h => h, fun _ h h' => absurd h h'⟩
  · by_cases hp : o.prompt = some false
    · rw [cleanTree_noop (Or.inr hp)]
      exact ⟨rfl, fun _ h => h, fun _ h h' => absurd h h'⟩
    · obtain ⟨h1, _, h3⟩ := cleanTree_spec (keep := keep) (fmt := fmt) hw (by simpa using hd) hp
      refine ⟨h1, fun q hq => ((h3 q).mp hq).1, ?_⟩
      intro q hq hnq
      apply Classical.byContradiction
      intro hne
      exact hnq ((h3 q).mpr ⟨hq, fun s hs hpre => hne ⟨s, hs, hpre⟩⟩)

/-- a candidate of `extras()` that the final filter rejects is kept with
everything below it (the candidates are pairwise unrelated, so no other
candidate can take it along) -/
theorem rejected_candidate_kept (hw : f.wf = true) (h : it ∈ extras fmt f) (hk : keep it = false)
    {q : Path} (hq : it.path <+: q) (hm : q ∈ f.paths) :
    q ∈ (cleanTreeWith keep fmt o f).1.paths := by
  apply survives hw hm
  intro s hs hpre
  have hse := (selected_sub hs).1
  have : s = it := by
    rcases List.prefix_or_prefix_of_prefix hpre hq with h' | h'
    · exact extras_antichain hw hse h h'
    · exact (extras_antichain hw h hse h').symm
  subst this
  have := (selected_sub hs).2.2
  rw [hk] at this
  exact absurd this (by simp)

/-- bzr trees: a nested branch directly inside a versioned directory (so that
`extras()` yields it) is kept with everything below it — by the filter as
found and by the proposed repair -/
theorem nested_branch_top_level_kept (flt : Filter) (hw : f.wf = true) (h : it ∈ extras .bzr f)
    (hd : it.info.kind = .dir) (hc : hasCtl it.kids = true) {q : Path} (hq : it.path <+: q)
    (hm : q ∈ f.paths) : q ∈ (cleanTreeWith (keepOf flt f) .bzr o f).1.paths := by
  apply rejected_candidate_kept hw h ?_ hq hm
  cases flt with
  | asFound => simp [keepOf, keepNested, hd, hc]
  | fixed => simp [keepOf, keepFixed, hd, hasCtl_containsCtlName hc]

/-- git trees: a directory holding a `.git` entry (nested git repository,
submodule, worktree link) is kept with everything below it -/
theorem git_nested_git_kept (hw : f.wf = true) {d : Path} {i : Info} {k : Forest}
    (hg : f.get d = some (i, k)) (hd : i.kind = .dir) (hc : k.hasName ".git" = true)
    {q : Path} (hq : d <+: q) (hm : q ∈ f.paths) : q ∈ (cleanTreeWith keep .git o f).1.paths := by
  apply survives hw hm
  intro s hs hpre
  have hse := (selected_sub hs).1
  have hsf : s ∈ filesG f := (List.mem_filter.mp hse).1
  have hnb := filesG_not_below_gitdir hw hg hd hc hsf
  rcases List.prefix_or_prefix_of_prefix hpre hq with h' | h'
  · obtain ⟨r, hr⟩ := h'
    by_cases hr0 : r = []
    · subst hr0
      simp only [List.append_nil] at hr
      exact hnb (hr ▸ List.prefix_refl _)
    · have hget := get_of_mem_items hw (filesG_sub hsf)
      rw [← hr, get_append hget hr0] at hg
      rcases wf_items_kids hw (filesG_sub hsf) with hk | hk
      · exact (filesG_kind hsf).1 hk
      · rw [hk, get_nil] at hg
        simp at hg
  · exact hnb h'

/-- the proposed repair of `_filter_out_nested_controldirs` (`keepFixed`, see
the report of the check) protects every control directory of every layout: no
selected path is an entry with a control name, contains one at any depth, or
lies in a directory below the tree root that holds one -/
theorem fixed_filter_protects (hw : f.wf = true) {s : Item}
    (hs : s ∈ selectedWith (keepFixed f) fmt o f) {d : Path} {c : String}
    (hc : isCtlName c = true) (hm : d ++ [c] ∈ f.paths) :
    ¬ s.path <+: d ++ [c] ∧ (d ≠ [] → ¬ d <+: s.path) :=
  fixed_protects hw hs hc hm

/-! ### what the unchanged code gets wrong (witnesses) -/

private def fl (n : String) (v : Bool := false) : Info :=
  { name := n, kind := .file, versioned := v, ignored := false, valid := false }
private def dr (n : String) (v : Bool := false) (valid : Bool := false) : Info :=
  { name := n, kind := .dir, versioned := v, ignored := false, valid := valid }
private def unknownOnly : Opts := { unknown := true, ignored := false, detritus := false, dryRun := false }

/-- F10: bzr tree, `unk/sub/.bzr`: the unknown directory `unk` is not itself a
branch, so the filter keeps it as a candidate and `rmtree` destroys the nested
branch `unk/sub` -/
theorem nested_branch_deep_witness :
    let f := cons (dr ".bzr" false true) nil <|
      cons (dr "unk") (cons (dr "sub") (cons (dr ".bzr" false true) nil (cons (fl "file") nil nil)) nil) nil
    f.wf = true ∧ f.unvClosed = true ∧ nestedRoots f = [["unk", "sub"]] ∧
      (selected .bzr unknownOnly f).map (·.path) = [["unk"]] ∧
      (cleanTree .bzr unknownOnly f).1.paths = [[".bzr"]] ∧
      selectedWith (keepFixed f) .bzr unknownOnly f = [] := by
  decide

/-- git tree, `nest/.bzr/README`, `nest/file`: the walk prunes `.git` only, the
files of the nested bzr branch and of its control directory are candidates one
by one and are all deleted -/
theorem git_tree_nested_bzr_witness :
    let f := cons (dr ".git" false true) nil <|
      cons (dr "nest") (cons (dr ".bzr" false true) (cons (fl "README") nil nil) (cons (fl "file") nil nil)) nil
    f.wf = true ∧ f.unvClosed = true ∧ nestedRoots f = [["nest"]] ∧
      (selected .git unknownOnly f).map (·.path) = [["nest", ".bzr", "README"], ["nest", "file"]] ∧
      (cleanTree .git unknownOnly f).1.paths = [[".git"], ["nest"], ["nest", ".bzr"]] ∧
      selectedWith (keepFixed f) .git unknownOnly f = [] := by
  decide

/-- bzr tree with a git repository colocated at the root (or in a versioned
directory): `.git` is an unknown directory, `ControlDir.open(".git")` fails, so
it is deleted -/
theorem bzr_tree_git_controldir_witness :
    let f := cons (dr ".bzr" false true) nil <| cons (dr ".git" false true) (cons (fl "HEAD") nil nil) <|
      cons (fl "a" true) nil nil
    f.wf = true ∧ f.unvClosed = true ∧
      (selected .bzr unknownOnly f).map (·.path) = [[".git"]] ∧
      (cleanTree .bzr unknownOnly f).1.paths = [[".bzr"], ["a"]] ∧
      selectedWith (keepFixed f) .bzr unknownOnly f = [] := by
  decide

/-! ### the repaired filter and the exact effect together -/

/-- with the repaired filter no component of a selected path is a control name -/
theorem fixed_no_ctl_component {s : Item} (hs : s ∈ selectedWith (keepFixed f) fmt o f) :
    ∀ c ∈ s.path, isCtlName c = false := by
  have hk := (selected_sub hs).2.2
  simp only [keepFixed, Bool.and_eq_true, Bool.not_eq_true', List.any_eq_false] at hk
  intro c hc
  simpa using hk.1.1 c hc

/-- **every control directory survives with everything in it**: a path one of
whose components is a control name (`.bzr`, `.git`) survives every run of
`clean_tree` with the repaired filter, whatever the options -/
theorem control_paths_survive (hw : f.wf = true) {q : Path} (hm : q ∈ f.paths) {c : String}
    (hcq : c ∈ q) (hc : isCtlName c = true) :
    q ∈ (cleanTreeWith (keepFixed f) fmt o f).1.paths := by
  obtain ⟨d, r, rfl⟩ := List.append_of_mem hcq
  have hm' : d ++ [c] ∈ f.paths := by
    have : d ++ c :: r = (d ++ [c]) ++ r := by simp
    rw [this] at hm
    exact paths_prefix_closed hm (by simp)
  apply survives hw hm
  intro s hs hpre
  have hdc : d ++ [c] <+: d ++ c :: r := ⟨r, by simp⟩
  rcases List.prefix_or_prefix_of_prefix hpre hdc with h | h
  · exact (fixed_filter_protects hw hs hc hm').1 h
  · have : c ∈ s.path := h.subset (by simp)
    have := fixed_no_ctl_component hs c this
    rw [hc] at this
    exact absurd this (by simp)

/-- **every nested tree survives with all its working files**: a path at or
below a directory (below the tree root) that holds a control name survives
every run of `clean_tree` with the repaired filter, whatever the options -/
theorem nested_tree_survives (hw : f.wf = true) {d : Path} {c : String} (hd : d ≠ [])
    (hc : isCtlName c = true) (hm : d ++ [c] ∈ f.paths) {q : Path} (hq : d <+: q)
    (hqm : q ∈ f.paths) : q ∈ (cleanTreeWith (keepFixed f) fmt o f).1.paths := by
  apply survives hw hqm
  intro s hs hpre
  obtain ⟨h1, h2⟩ := fixed_filter_protects hw hs hc hm
  rcases List.prefix_or_prefix_of_prefix hpre hq with h | h
  · exact h1 (h.trans (List.prefix_append d [c]))
  · exact h2 hd h

/-! ### the inventory shape instead of `unvClosed` -/

/-- `unvClosed` is exactly "the parent of a versioned entry is versioned" -/
theorem invShaped_iff_unvClosed : invShaped f = true ↔ f.unvClosed = true :=
  ⟨unvClosed_of_invShaped, invShaped_of_unvClosed⟩

/-- never a versioned path, never a directory containing a versioned path —
from the invariant an inventory has (the parent of a versioned entry is
versioned; evaluated on every real layout by the check) -/
theorem never_versioned_inv (hw : f.wf = true) (hi : invShaped f = true)
    (h : it ∈ selectedWith keep fmt o f) {q : Path} {i : Info} {k : Forest} (hq : it.path <+: q)
    (hg : f.get q = some (i, k)) : i.versioned = false :=
  never_versioned hw (unvClosed_of_invShaped hi) h hq hg

/-! ### the file system: primitives, links, the outside, dry run inside `delete_items` -/

/-- every component but the last of a selected path is a real directory of the
layout — never a symbolic link — so the kernel resolves the path handed to
`os.unlink` / `shutil.rmtree` without leaving the tree -/
theorem selected_dirs_above (hw : f.wf = true) (h : it ∈ selectedWith keep fmt o f) :
    dirsAbove f it.path = true ∧
      ∀ r s, r ≠ [] → s ≠ [] → r ++ s = it.path → ∃ i k, f.get r = some (i, k) ∧ i.kind = .dir := by
  have hd := extras_dirsAbove hw (selected_sub h).1
  refine ⟨hd, ?_⟩
  intro r s hr hs e
  rw [← e] at hd
  exact dirsAbove_get hd hr hs

/-- `osutils.isdir` (lstat) always picks a primitive that accepts the entry:
`rmtree` for real directories only, `unlink` for files and for links of either sort -/
theorem lstat_prim_accepts (k : Kind) :
    (primFor false k).accepts k = true ∧ (primFor false k = .rmtree ↔ k = .dir) := by
  cases k <;> decide

/-- **refinement**: on every world whose tree layout is well formed,
`clean_tree` with per-kind primitives, kernel path resolution through links and
the dry-run test inside `delete_items` does to the tree exactly what the
abstract model says, with the same error flag, and changes nothing else -/
theorem clean_world_refines (w : World) (hw : w.tree.wf = true) :
    cleanTreeW keep fmt o w =
      ({ w with tree := (cleanTreeWith keep fmt o w.tree).1 }, (cleanTreeWith keep fmt o w.tree).2) := by
  unfold cleanTreeW cleanTreeWith
  by_cases he : (selectedWith keep fmt o w.tree).isEmpty = true
  · simp [he]
  · by_cases hp : o.prompt = some false
    · simp [he, hp]
    · by_cases hd : o.dryRun = true
      · simp [he, hp, hd, deleteItemsW_dry]
      · have hd' : o.dryRun = false := by simpa using hd
        simp only [he, hp, hd', Bool.false_eq_true, if_false]
        apply deleteItemsW_refines
        · intro p hp'
          obtain ⟨s, hs, rfl⟩ := List.mem_map.mp hp'
          exact extras_dirsAbove hw (selected_sub hs).1
        · rw [List.pairwise_map]
          exact (selected_antichain hw).imp (fun h => h.1)

/-- **nothing outside the tree is touched**, whatever the layout, the links in
it, the options and the filter -/
theorem outside_unchanged (w : World) (hw : w.tree.wf = true) :
    (cleanTreeW keep fmt o w).1.outside = w.outside ∧ (cleanTreeW keep fmt o w).1.targets = w.targets := by
  rw [clean_world_refines w hw]
  exact ⟨rfl, rfl⟩

/-- **a dry run deletes nothing**, with the test where the code has it (inside
`delete_items`, per item): whatever list `delete_items` is given — existing
paths or not — and whichever `isdir` it uses -/
theorem dry_run_deletes_nothing (follow : Bool) (w : World) (ps : List Path) :
    deleteItemsW follow true w ps = (w, false) :=
  deleteItemsW_dry follow w ps

/-- a dry run of `clean_tree` leaves the whole world as it is -/
theorem dry_run_noop_world (w : World) (h : o.dryRun = true) : cleanTreeW keep fmt o w = (w, false) := by
  unfold cleanTreeW
  by_cases he : (selectedWith keep fmt o w.tree).isEmpty = true
  · simp [he]
  · by_cases hp : o.prompt = some false
    · simp [he, hp]
    · simp [he, hp, h, deleteItemsW_dry]

private def lk (n : String) : Info :=
  { name := n, kind := .linkDir, versioned := false, ignored := false, valid := false }

/-- the outside area *is* reachable in the model: a path through a link to an
outside directory (what an `extras()` that entered such links would yield)
deletes the outside file and leaves the tree as it is -/
theorem follow_links_witness :
    let w : World := { tree := cons (lk "lnk") nil nil,
                       outside := cons (dr "od") (cons (fl "inner") nil nil) (cons (fl "canary") nil nil),
                       targets := [(["lnk"], ["od"])] }
    dirsAbove w.tree ["lnk", "inner"] = false ∧
      deleteItemsW false false w [["lnk", "inner"]] =
        ({ w with outside := cons (dr "od") nil (cons (fl "canary") nil nil) }, false) := by
  decide

/-- `os.path.isdir` instead of `osutils.isdir` would call `rmtree` on a link to
a directory, which raises; the code as it is unlinks the link and leaves its
target alone -/
theorem stat_isdir_witness :
    let w : World := { tree := cons (lk "lnk") nil (cons (fl "a") nil nil),
                       outside := cons (dr "od") (cons (fl "inner") nil nil) nil,
                       targets := [(["lnk"], ["od"])] }
    deleteItemsW true false w [["lnk"]] = (w, true) ∧
      deleteItemsW false false w [["lnk"]] = ({ w with tree := cons (fl "a") nil nil }, false) := by
  decide

/-! ### non-vacuity -/

/-- a layout satisfying `wf` and `unvClosed` on which every branch of the
selection is taken: a versioned directory with unknown, ignored and
detritus-named content, a top-level nested branch, an unknown directory -/
private def sample : Forest :=
  cons (dr ".bzr" false true) nil <|
  cons (dr "src" true) (cons (fl "main.c" true) nil <|
    cons { fl "main.o" with ignored := true } nil <| cons (fl "main.c~") nil <| cons (fl "notes") nil nil) <|
  cons (dr "nest") (cons (dr ".bzr" false true) nil (cons (fl "inner") nil nil)) <|
  cons (dr "build") (cons (fl "out") nil nil) nil

example : sample.wf = true ∧ sample.unvClosed = true := by decide

example :
    (selected .bzr { unknown := true, ignored := false, detritus := false, dryRun := false } sample).map (·.path)
      = [["src", "main.c~"], ["src", "notes"], ["build"]] ∧
    (selected .bzr { unknown := false, ignored := true, detritus := true, dryRun := false } sample).map (·.path)
      = [["src", "main.o"], ["src", "main.c~"]] := by decide

/-- hypotheses of `nested_branch_top_level_kept` are satisfiable: `nest` -/
example : ∃ it ∈ extras .bzr sample, it.path = ["nest"] ∧ it.info.kind = .dir ∧ hasCtl it.kids = true := by
  decide

/-- hypotheses of `git_nested_git_kept` are satisfiable -/
example :
    let f := cons (dr ".git" false true) nil <|
      cons (dr "sub") (cons (dr ".git" false true) nil (cons (fl "x") nil nil)) (cons (fl "y") nil nil)
    f.wf = true ∧ (f.get ["sub"]).map (fun x => (x.1.kind, x.2.hasName ".git")) = some (.dir, true) ∧
      (cleanTree .git unknownOnly f).1.paths = [[".git"], ["sub"], ["sub", ".git"], ["sub", "x"]] := by
  decide

/-- a real run that deletes: hypotheses of `clean_exact` -/
example : unknownOnly.dryRun = false ∧ unknownOnly.prompt ≠ some false ∧
    (cleanTree .bzr unknownOnly sample).1.paths =
      [[".bzr"], ["src"], ["src", "main.c"], ["src", "main.o"], ["nest"],
       ["nest", ".bzr"], ["nest", "inner"]] := by decide

/-- hypotheses of `control_paths_survive` / `nested_tree_survives` are satisfiable, and the
conclusion is not empty: `nest/.bzr`, `nest/inner` survive a run that deletes `build` -/
example :
    sample.wf = true ∧ ["nest", ".bzr"] ∈ sample.paths ∧ isCtlName ".bzr" = true ∧
      (["nest"] : Path) <+: ["nest", "inner"] ∧ ["nest", "inner"] ∈ sample.paths ∧
      ((cleanTreeWith (keepFixed sample) .bzr unknownOnly sample).1.paths).contains ["build"] = false := by
  decide

/-- the inventory shape holds for the sample (and fails when a versioned file sits in an
unversioned directory) -/
example : invShaped sample = true ∧
    invShaped (cons (dr "u") (cons (fl "v" true) nil nil) nil) = false := by decide

/-- a world satisfying the hypothesis of `clean_world_refines` / `outside_unchanged` in which
something is deleted next to a link to the outside and to a versioned directory that has been
replaced by a link to the outside -/
example :
    let w : World := { tree := cons (dr ".bzr" false true) nil <| cons (lk "lnk") nil <|
                         cons { lk "vdir" with versioned := true } nil <| cons (fl "junk") nil nil,
                       outside := cons (dr "od") (cons (fl "inner") nil nil) nil,
                       targets := [(["lnk"], ["od"]), (["vdir"], ["od"])] }
    w.tree.wf = true ∧
      (cleanTreeW (keepFixed w.tree) .bzr unknownOnly w).1.tree.paths = [[".bzr"], ["vdir"]] ∧
      (cleanTreeW (keepFixed w.tree) .bzr unknownOnly w).1.outside = w.outside := by
  decide

end BreezyVerif.C46
