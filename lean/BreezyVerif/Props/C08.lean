import BreezyVerif.Lemmas.C08
import BreezyVerif.Lemmas.C08Seq
/-
C08 — theorems.  All repositories, fallbacks, histories and operations are
universally quantified (no bound on sizes).
-/
namespace BreezyVerif.C08

open BreezyVerif.C03

/-- `stackable` ⇒ every locally stored revision, and every parent of it that is a
revision of the stack or of the fallback, can be read (inventory and every file
text) from the stacked repository together with its fallback — so every
revision tree and every delta to a parent is computable.
Hypotheses: the fallback is complete by itself, both hold equal copies of
inventories they share, parents have smaller numbers (acyclic history). -/
theorem stackable_readable (s : Stacked) (hst : stackable s = true) (hfb : complete s.fb = true)
    (hag : invsAgree s = true) (htopo : topo s.st = true) (k : Rev) (rec : RevRec)
    (hk : get s.st.revs k = some rec) :
    readable (both s) k = true ∧ ∀ p ∈ rec.parents, presentRev s p = true → readable (both s) p = true := by
  have main : ∀ n, ∀ k rec, k = n → get s.st.revs k = some rec → readable (both s) k = true := by
    intro n
    induction n using Nat.strongRecOn with
    | _ n ih =>
      intro k rec hkn hk
      obtain ⟨inv, hinv, _, htexts⟩ := stackable_rev hst hk
      rw [readable_iff]
      refine ⟨inv, by rw [both_invs_get, hinv], fun e he => ?_⟩
      rcases htexts e he with hpe | ⟨c, hc⟩
      · obtain ⟨p, hp, hpres, ip, hip, hep⟩ := mem_parentEntries hpe
        have hlt : p < n := hkn ▸ topo_lt htopo hk hp
        have hr : readable (both s) p = true := by
          unfold presentRev at hpres
          cases hl : hasRev s.st p with
          | true =>
            obtain ⟨prec, hprec⟩ := (hasRev_iff ..).mp hl
            exact ih p hlt p prec rfl hprec
          | false =>
            simp only [hl, Bool.false_or] at hpres
            exact readable_of_fallback hfb hag hpres
        obtain ⟨ip', hip', hall⟩ := readable_iff.mp hr
        rw [both_invs_get, hip] at hip'
        cases hip'
        exact hall e hep
      · exact both_texts_isSome s e.key (Or.inl (by simp [hc]))
  refine ⟨main k k rec rfl hk, fun p hp hpres => ?_⟩
  unfold presentRev at hpres
  cases hl : hasRev s.st p with
  | true =>
    obtain ⟨prec, hprec⟩ := (hasRev_iff ..).mp hl
    exact main p p prec rfl hprec
  | false =>
    simp only [hl, Bool.false_or] at hpres
    exact readable_of_fallback hfb hag hpres

/-- a commit to a stacked branch is refused exactly when some parent's inventory is
neither stored locally (after the new inventory was added) nor in the fallback -/
theorem commit_refused_iff (s : Stacked) (k : Rev) (rec : RevRec) (inv : Inv) (nt : List (TextKey × Nat)) :
    commitStacked s k rec inv nt = .error .cannotFillParentInventories ↔
      ∃ p ∈ rec.parents, get (s.st.invs ++ [(k, inv)]) p = none ∧ get s.fb.invs p = none := by
  unfold commitStacked fallbackParentInvs
  simp only
  by_cases hall : ((rec.parents.filter fun p => (get (s.st.invs ++ [(k, inv)]) p).isNone).all
      fun p => (get s.fb.invs p).isSome) = true
  · simp only [hall, if_true]
    constructor
    · intro h; cases h
    · rintro ⟨p, hp, hn, hfb⟩
      have := List.all_eq_true.mp hall p (List.mem_filter.mpr ⟨hp, by simp [hn]⟩)
      simp [hfb] at this
  · simp only [hall, Bool.false_eq_true, if_false, true_iff]
    have h2 := Bool.eq_false_iff.mpr hall
    rw [List.all_eq_false] at h2
    obtain ⟨p, hp, hnot⟩ := h2
    obtain ⟨hp1, hp2⟩ := List.mem_filter.mp hp
    refine ⟨p, hp1, by simpa using hp2, ?_⟩
    cases hh : get s.fb.invs p with
    | none => rfl
    | some i => simp [hh] at hnot

/-- a commit to a stacked branch keeps the invariant (when it is not refused):
`_ensure_fallback_inventories` supplies the parent inventories.  `k` is a fresh
revision id that is not its own parent; `commitCovers`: the commit writes the
text of every entry it introduces. -/
theorem commit_to_stacked_preserves (s s' : Stacked) (k : Rev) (rec : RevRec) (inv : Inv)
    (nt : List (TextKey × Nat)) (hst : stackable s = true)
    (hfresh : presentRev s k = false ∧ get s.st.invs k = none) (hself : k ∉ rec.parents)
    (hcov : commitCovers s rec inv nt = true)
    (h : commitStacked s k rec inv nt = .ok s') : stackable s' = true := by
  unfold commitStacked fallbackParentInvs at h
  simp only at h
  split at h
  · cases h
  · rename_i fill hfill
    split at hfill
    · rename_i hall
      simp only [Option.some.injEq] at hfill
      simp only [Except.ok.injEq] at h
      -- facts about the new local store
      have hinvs : s'.st.invs = (s.st.invs ++ [(k, inv)]) ++ fill := by subst h; rfl
      have hrevs : s'.st.revs = s.st.revs ++ [(k, rec)] := by subst h; rfl
      have htexts : s'.st.texts = s.st.texts ++ nt := by subst h; rfl
      have hfb : s'.fb = s.fb := by subst h; rfl
      have hinvmono : ∀ q i, get s.st.invs q = some i → get s'.st.invs q = some i := by
        intro q i hq; rw [hinvs]; exact get_append_some (get_append_some hq)
      have htxtmono : ∀ q c, get s.st.texts q = some c → get s'.st.texts q = some c := by
        intro q c hq; rw [htexts]; exact get_append_some hq
      have hpres : ∀ p, presentRev s p = true → presentRev s' p = true := by
        intro p hp
        unfold presentRev hasRev at hp ⊢
        rw [hrevs, hfb]
        cases hl : get s.st.revs p with
        | some v => simp [get_append_some hl]
        | none => simp [hl] at hp; simp [hp]
      have hpres' : ∀ p, presentRev s' p = true → presentRev s p = true ∨ p = k := by
        intro p hp
        unfold presentRev hasRev at hp ⊢
        rw [hrevs, hfb] at hp
        cases hl : get s.st.revs p with
        | some v => simp
        | none =>
          rw [get_append_none hl, get_singleton] at hp
          by_cases hkp : k = p
          · exact Or.inr hkp.symm
          · simp [hkp] at hp; simp [hp]
      have hk_inv : get s'.st.invs k = some inv := by
        rw [hinvs]
        apply get_append_some
        rw [get_append_none hfresh.2, get_singleton]; simp
      -- every parent's inventory is local afterwards, and it is the one read through the stack before
      have hparent : ∀ p ∈ rec.parents, ∀ ip, get (both s).invs p = some ip → get s'.st.invs p = some ip := by
        intro p hp ip hip
        rw [both_invs_get] at hip
        cases hl : get s.st.invs p with
        | some il => rw [hl] at hip; cases hip; exact hinvmono p _ hl
        | none =>
          rw [hl] at hip
          have hpk : ¬ k = p := fun e => hself (e ▸ hp)
          have h1 : get (s.st.invs ++ [(k, inv)]) p = none := by
            rw [get_append_none hl, get_singleton]; simp [hpk]
          rw [hinvs, get_append_none h1, ← hfill, get_filterMap_keyed]
          have : p ∈ rec.parents.filter fun p => (get (s.st.invs ++ [(k, inv)]) p).isNone :=
            List.mem_filter.mpr ⟨hp, by simp [h1]⟩
          simp [this, hip]
      have hparent_some : ∀ p ∈ rec.parents, (get s'.st.invs p).isSome = true := by
        intro p hp
        cases h1 : get (s.st.invs ++ [(k, inv)]) p with
        | some i => rw [hinvs, get_append_some h1]; rfl
        | none =>
          have hm : p ∈ rec.parents.filter fun p => (get (s.st.invs ++ [(k, inv)]) p).isNone :=
            List.mem_filter.mpr ⟨hp, by simp [h1]⟩
          have := List.all_eq_true.mp hall p hm
          rw [hinvs, get_append_none h1, ← hfill, get_filterMap_keyed]
          simpa [hm] using this
      unfold stackable
      rw [List.all_eq_true, hrevs]
      rintro ⟨k', rec'⟩ hmem
      rcases List.mem_append.mp hmem with hold | hnew
      · -- a revision that was there
        have hold' : stackableRev s k' rec' = true := by
          unfold stackable at hst
          exact List.all_eq_true.mp hst (k', rec') hold
        refine stackableRev_mono hinvmono htxtmono hpres (fun p _ hp' => ?_) hold'
        rcases hpres' p hp' with h1 | h1
        · exact Or.inl h1
        · right; rw [h1, hk_inv]; rfl
      · -- the new revision
        simp only [List.mem_singleton, Prod.mk.injEq] at hnew
        obtain ⟨hk', hrec'⟩ := hnew
        subst hk' hrec'
        unfold stackableRev
        simp only [hk_inv, Bool.and_eq_true, List.all_eq_true, Bool.or_eq_true, Bool.not_eq_true',
          decide_eq_true_eq]
        refine ⟨fun p hp => Or.inr (hparent_some p hp), fun e he => ?_⟩
        unfold commitCovers at hcov
        have := List.all_eq_true.mp hcov e he
        simp only [Bool.or_eq_true, decide_eq_true_eq] at this
        rcases this with h1 | h1
        · left
          obtain ⟨p, hp, hep⟩ := List.mem_flatMap.mp h1
          obtain ⟨hp1, hp2⟩ := List.mem_filter.mp hp
          obtain ⟨ip, hip, heip⟩ := mem_invOrEmpty hep
          unfold parentEntries
          refine List.mem_flatMap.mpr ⟨p, List.mem_filter.mpr ⟨hp1, hpres p hp2⟩, ?_⟩
          unfold invOrEmpty
          rw [hparent p hp1 ip hip]
          exact heip
        · right
          rw [htexts]; exact h1
    · cases hfill

/-- fetch / push into a stacked repository keeps the invariant.  Hypotheses: the stack
(with its fallback) is ancestry-closed w.r.t. the source or ghosts are asked for; the
source and the local store hold equal copies of inventories they share; the source can
supply the inventory of every parent of a sent revision that is a revision of the stack
or its fallback (`srcSuppliesM`, implied by `srcSupplies`); `exclusionLocal`. -/
theorem fetch_into_stacked_preserves (x : Exclusion) (fg : Bool) (src : Repo) (s s' : Stacked) (rev : Rev)
    (hst : stackable s = true) (hc : fg = true ∨ closed (both s) src = true)
    (hag : agreeOn src.invs s.st.invs = true)
    (hsup : srcSuppliesM src s (missing fg src (both s) rev) = true)
    (hloc : exclusionLocal x src (missing fg src (both s) rev) = true)
    (h : fetchStacked x fg src s rev = .ok s') : stackable s' = true := by
  obtain ⟨hstream, hfb, hrevs, htexts, hinvs⟩ := fetchStacked_ok h
  generalize hM : missing fg src (both s) rev = M at hstream hrevs htexts hinvs hloc hsup
  -- monotonicity
  have hinvmono : ∀ q i, get s.st.invs q = some i → get s'.st.invs q = some i := by
    intro q i hq
    rw [hinvs]; apply get_append_some; rw [copy_invs_get, hq]
  have htxtmono : ∀ q c, get s.st.texts q = some c → get s'.st.texts q = some c := by
    intro q c hq
    rw [htexts, copy_texts_get, hq]
  have hrevget : ∀ q, get s'.st.revs q = match get s.st.revs q with
      | some v => some v
      | none => if q ∈ M then get src.revs q else none := by
    intro q; rw [hrevs]; exact copy_revs_get ..
  have hpres : ∀ p, presentRev s p = true → presentRev s' p = true := by
    intro p hp
    unfold presentRev hasRev at hp ⊢
    rw [hfb, hrevget]
    cases hl : get s.st.revs p with
    | some v => simp
    | none => simp [hl] at hp; simp [hp]
  -- a sent revision has its (source) inventory locally
  have hsentinv : ∀ m ∈ M, ∃ i, get src.invs m = some i ∧ get s'.st.invs m = some i := by
    intro m hm
    obtain ⟨i, hi⟩ := streamable_inv hstream hm
    refine ⟨i, hi, ?_⟩
    cases hl : get s.st.invs m with
    | some il =>
      have : i = il := agreeOn_eq hag hl hi
      subst this; exact hinvmono m i hl
    | none =>
      rw [hinvs]; apply get_append_some
      rw [copy_invs_get, hl]; simp [hm, hi]
  -- who is a local revision afterwards
  have hlocalrev : ∀ p, hasRev s'.st p = true → hasRev s.st p = true ∨ p ∈ M := by
    intro p hp
    unfold hasRev at hp ⊢
    rw [hrevget] at hp
    cases hl : get s.st.revs p with
    | some v => simp
    | none =>
      rw [hl] at hp
      by_cases hm : p ∈ M
      · exact Or.inr hm
      · simp [hm] at hp
  -- the inventory of a parent of a sent revision that is a revision of the stack or fallback is local,
  -- and it is the source's copy
  have hparentinv : ∀ m ∈ M, ∀ p ∈ C33.parentsL (graph src) m, p ∉ M → presentRev s p = true →
      ∀ ip, get src.invs p = some ip → get s'.st.invs p = some ip := by
    intro m hm p hp hpM hpp ip hip
    cases hl : get s.st.invs p with
    | some il =>
      have : ip = il := agreeOn_eq hag hl hip
      subst this; exact hinvmono p ip hl
    | none =>
      -- not a local revision (its inventory would be local), so the sink asks the source for it
      have hnl : hasRev s.st p = false := by
        cases hh : hasRev s.st p with
        | false => rfl
        | true =>
          obtain ⟨prec, hprec⟩ := (hasRev_iff ..).mp hh
          obtain ⟨i, hi, _⟩ := stackable_rev hst hprec
          rw [hl] at hi; cases hi
      have hcopyinv : get (copy x src s.st M).invs p = none := by
        rw [copy_invs_get, hl]; simp [hpM]
      have hcopyrev : hasRev (copy x src s.st M) p = false := by
        unfold hasRev at hnl ⊢
        rw [copy_revs_get]
        cases hh : get s.st.revs p with
        | some v => simp [hh] at hnl
        | none => simp [hpM]
      rw [hinvs, get_append_none hcopyinv, get_parentInvFill]
      have : p ∈ (M.flatMap (C33.parentsL (graph src))).filter
          (fun p => !hasRev (copy x src s.st M) p && (get (copy x src s.st M).invs p).isNone) :=
        List.mem_filter.mpr ⟨List.mem_flatMap.mpr ⟨m, hm, hp⟩, by simp [hcopyrev, hcopyinv]⟩
      simp [this, hip]
  have hsupp : ∀ m ∈ M, ∀ p ∈ C33.parentsL (graph src) m, presentRev s p = true →
      ∃ ip, get src.invs p = some ip := by
    intro m hm p hp hpp
    unfold srcSuppliesM at hsup
    have h1 := List.all_eq_true.mp (List.all_eq_true.mp hsup m hm) p hp
    cases hh : get src.invs p with
    | none => simp [hh, hpp] at h1
    | some ip => exact ⟨ip, rfl⟩
  unfold stackable
  rw [List.all_eq_true, hrevs]
  rintro ⟨k, rec⟩ hmem
  simp only [copy, List.mem_append, List.mem_filterMap] at hmem
  rcases hmem with hold | ⟨m, hm, hmrec⟩
  · -- a revision that was stored before
    have hold' : stackableRev s k rec = true := by
      unfold stackable at hst
      exact List.all_eq_true.mp hst (k, rec) hold
    refine stackableRev_mono hinvmono htxtmono hpres (fun p _ hp' => ?_) hold'
    unfold presentRev at hp' ⊢
    rw [hfb] at hp'
    cases hl : hasRev s'.st p with
    | false => simp only [hl, Bool.false_or] at hp'; left; simp [hp']
    | true =>
      rcases hlocalrev p hl with h1 | h1
      · left; simp [h1]
      · right
        obtain ⟨i, _, hi⟩ := hsentinv p h1
        simp [hi]
  · -- a revision that was sent
    cases hsr : get src.revs m with
    | none => simp [hsr] at hmrec
    | some r =>
      simp only [hsr, Option.map_some, Option.some.injEq, Prod.mk.injEq] at hmrec
      obtain ⟨hmk, hrr⟩ := hmrec
      subst hmk hrr
      obtain ⟨i, hi, hil⟩ := hsentinv m hm
      have hma : m ∈ anc src rev := by rw [← hM] at hm; exact missing_sub_anc hm
      unfold stackableRev
      simp only [hil, Bool.and_eq_true, List.all_eq_true, Bool.or_eq_true, Bool.not_eq_true',
        decide_eq_true_eq]
      -- present parents
      have hparents : ∀ p ∈ r.parents, presentRev s' p = true → (get s'.st.invs p).isSome = true := by
        intro p hp hpp
        by_cases hpM : p ∈ M
        · obtain ⟨ip, _, hipl⟩ := hsentinv p hpM
          simp [hipl]
        · have hps : presentRev s p = true := by
            unfold presentRev at hpp ⊢
            rw [hfb] at hpp
            cases hl : hasRev s'.st p with
            | false => simp only [hl, Bool.false_or] at hpp; simp [hpp]
            | true =>
              rcases hlocalrev p hl with h1 | h1
              · simp [h1]
              · exact absurd h1 hpM
          obtain ⟨ip, hip⟩ := hsupp m hm p (mem_parentsL_graph.mpr ⟨r, hsr, hp⟩) hps
          rw [hparentinv m hm p (mem_parentsL_graph.mpr ⟨r, hsr, hp⟩) hpM hps ip hip]; rfl
      refine ⟨fun p hp => ?_, fun e he => ?_⟩
      · cases hpp : presentRev s' p with
        | false => exact Or.inl rfl
        | true => exact Or.inr (hparents p hp hpp)
      · by_cases hex : e ∈ excluded x src M
        · left
          unfold exclusionLocal at hloc
          have h1 := List.all_eq_true.mp hloc m hm
          have hem : e ∈ invOrEmpty src m := by unfold invOrEmpty; rw [hi]; exact he
          have h2 := List.all_eq_true.mp h1 e hem
          simp only [Bool.or_eq_true, Bool.not_eq_true', decide_eq_false_iff_not, List.any_eq_true,
            Bool.and_eq_true, decide_eq_true_eq] at h2
          rcases h2 with h2 | ⟨p, hp, hpsrc, hep⟩
          · exact absurd hex h2
          · obtain ⟨ip, hip, heip⟩ := mem_invOrEmpty hep
            obtain ⟨r', hr', hpr⟩ := mem_parentsL_graph.mp hp
            rw [hsr] at hr'; cases hr'
            unfold parentEntries
            by_cases hpM : p ∈ M
            · -- the parent is sent too: its inventory arrives with it
              obtain ⟨ip', hip', hipl⟩ := hsentinv p hpM
              rw [hip] at hip'; cases hip'
              have hpp : presentRev s' p = true := by
                unfold presentRev hasRev
                rw [hrevget]
                cases hl : get s.st.revs p with
                | some v => simp
                | none =>
                  obtain ⟨prec, hprec⟩ := (hasRev_iff ..).mp hpsrc
                  simp [hpM, hprec]
              refine List.mem_flatMap.mpr ⟨p, List.mem_filter.mpr ⟨hpr, hpp⟩, ?_⟩
              unfold invOrEmpty
              rw [hipl]
              exact heip
            · have hpa : p ∈ anc src rev := parent_mem_anc hma hsr hpr hpsrc
              have hps : presentRev s p = true := by
                rcases anc_cases_closed (fg := fg) (tgt := both s) hc hpa with h3 | h3
                · rw [hM] at h3; exact absurd h3 hpM
                · rw [hasRev_both] at h3; exact h3
              refine List.mem_flatMap.mpr ⟨p, List.mem_filter.mpr ⟨hpr, hpres p hps⟩, ?_⟩
              unfold invOrEmpty
              rw [hparentinv m hm p hp hpM hps ip hip]
              exact heip
        · right
          have hse : e ∈ streamEntries x src M := by
            unfold streamEntries
            simp only [List.mem_filter, List.mem_flatMap, Bool.not_eq_true', decide_eq_false_iff_not]
            refine ⟨⟨m, hm, ?_⟩, hex⟩
            unfold invOrEmpty; rw [hi]; exact he
          obtain ⟨c, hcs⟩ := streamable_text hstream hse
          rw [htexts, copy_texts_get]
          cases ht : get s.st.texts e.key with
          | some c0 => rfl
          | none =>
            have : e.key ∈ (streamEntries x src M).map Entry.key := List.mem_map.mpr ⟨e, hse, rfl⟩
            simp [this, hcs]

/-- `srcSupplies` (the source knows every revision of the stack and the fallback) implies
the hypothesis the theorem needs -/
theorem srcSupplies_imp (src : Repo) (s : Stacked) (m : List Rev) (h : srcSupplies src s = true) :
    srcSuppliesM src s m = true := by
  unfold srcSuppliesM
  rw [List.all_eq_true]
  intro k _
  rw [List.all_eq_true]
  intro p _
  cases hpp : presentRev s p with
  | false => rfl
  | true =>
    simp only [Bool.not_true, Bool.false_or]
    unfold srcSupplies at h
    unfold presentRev at hpp
    have hmem : ∃ v, (p, v) ∈ s.st.revs ++ s.fb.revs := by
      cases hl : hasRev s.st p with
      | true =>
        obtain ⟨v, hv⟩ := (hasRev_iff ..).mp hl
        exact ⟨v, List.mem_append_left _ (get_mem hv)⟩
      | false =>
        simp only [hl, Bool.false_or] at hpp
        obtain ⟨v, hv⟩ := (hasRev_iff ..).mp hpp
        exact ⟨v, List.mem_append_right _ (get_mem hv)⟩
    obtain ⟨v, hv⟩ := hmem
    exact List.all_eq_true.mp h (p, v) hv

/-- a repack changes no lookup … -/
theorem pack_preserves_lookups (s : Stacked) :
    (∀ k, get (pack s).st.revs k = get s.st.revs k) ∧ (∀ k, get (pack s).st.invs k = get s.st.invs k) ∧
    (∀ k, get (pack s).st.texts k = get s.st.texts k) ∧ (pack s).fb = s.fb :=
  ⟨fun k => get_dedupKeys _ k, fun k => get_dedupKeys _ k, fun k => get_dedupKeys _ k, rfl⟩

/-- … and therefore keeps the stacking invariant (pack / autopack of a stacked
repository: the inventories without a local revision survive) -/
theorem pack_preserves_stackable (s : Stacked) (hst : stackable s = true) : stackable (pack s) = true := by
  obtain ⟨hr, hi, ht, hfb⟩ := pack_preserves_lookups s
  unfold stackable
  rw [List.all_eq_true]
  rintro ⟨k, rec⟩ hmem
  have hold : stackableRev s k rec = true := by
    unfold stackable at hst
    exact List.all_eq_true.mp hst (k, rec) (mem_dedupKeys hmem)
  have hpres : ∀ p, presentRev (pack s) p = presentRev s p := by
    intro p; unfold presentRev hasRev; rw [hr, hfb]
  exact stackableRev_mono (fun q i h => by rw [hi]; exact h) (fun q c h => by rw [ht]; exact h)
    (fun p h => by rw [hpres]; exact h) (fun p _ h => Or.inl (by rw [← hpres]; exact h)) hold

/-- the repack does not look at the fallback at all: whatever the fallback holds (for
instance after the branch has been landed on the trunk it is stacked on), the packed
local store is the same, and every lookup is preserved -/
theorem pack_independent_of_fallback (st fb fb' : Repo) :
    (pack ⟨st, fb⟩).st = (pack ⟨st, fb'⟩).st ∧
    (∀ k, get (pack ⟨st, fb'⟩).st.revs k = get st.revs k) ∧
    (∀ k, get (pack ⟨st, fb'⟩).st.invs k = get st.invs k) ∧
    (∀ k, get (pack ⟨st, fb'⟩).st.texts k = get st.texts k) :=
  ⟨rfl, (pack_preserves_lookups ⟨st, fb'⟩).1, (pack_preserves_lookups ⟨st, fb'⟩).2.1,
    (pack_preserves_lookups ⟨st, fb'⟩).2.2.1⟩

/-- the invariant depends on the fallback only through which revisions count as present:
a change of the fallback that makes no further revision present (landing the stacked
branch's own revisions on the trunk) keeps it -/
theorem stackable_fallback_change (s : Stacked) (fb' : Repo)
    (h : ∀ p, presentRev ⟨s.st, fb'⟩ p = presentRev s p) : stackable ⟨s.st, fb'⟩ = stackable s := by
  have hf : presentRev ⟨s.st, fb'⟩ = presentRev s := funext h
  unfold stackable stackableRev parentEntries
  simp only [hf]

/-- the refusal is sound: a write group that leaves the repository `stackable` is
never refused by `_check_new_inventories` (any number of new revisions, which
may be each other's parents) -/
theorem check_accepts_stackable (s : Stacked) (new : List Rev) (hst : stackable s = true)
    (htopo : topo s.st = true) (hnew : new.all (hasRev s.st) = true) : checkNew s.st new = true := by
  have main : ∀ n, ∀ k rec, k = n → k ∈ new → get s.st.revs k = some rec →
      ∃ inv, get s.st.invs k = some inv ∧
        ∀ e ∈ inv, e ∈ parentOnlyEntries s.st new ∨ ∃ c, get s.st.texts e.key = some c := by
    intro n
    induction n using Nat.strongRecOn with
    | _ n ih =>
      intro k rec hkn hknew hk
      obtain ⟨inv, hinv, _, htexts⟩ := stackable_rev hst hk
      refine ⟨inv, hinv, fun e he => ?_⟩
      rcases htexts e he with hpe | htxt
      · obtain ⟨p, hp, _, ip, hip, hep⟩ := mem_parentEntries hpe
        by_cases hpn : p ∈ new
        · have hlt : p < n := hkn ▸ topo_lt htopo hk hp
          obtain ⟨prec, hprec⟩ := (hasRev_iff ..).mp (List.all_eq_true.mp hnew p hpn)
          obtain ⟨ip', hip', hall⟩ := ih p hlt p prec rfl hpn hprec
          rw [hip] at hip'; cases hip'
          exact hall e hep
        · left
          unfold parentOnlyEntries
          refine List.mem_flatMap.mpr ⟨p, List.mem_filter.mpr ⟨List.mem_flatMap.mpr ⟨k, hknew, ?_⟩, by simpa using hpn⟩, ?_⟩
          · exact mem_parentsL_graph.mpr ⟨rec, hk, hp⟩
          · unfold invOrEmpty; rw [hip]; exact hep
      · exact Or.inr htxt
  unfold checkNew
  rw [List.all_eq_true]
  intro k hk
  obtain ⟨rec, hrec⟩ := (hasRev_iff ..).mp (List.all_eq_true.mp hnew k hk)
  obtain ⟨inv, hinv, hall⟩ := main k k rec rfl hk hrec
  simp only [hinv, List.all_eq_true, Bool.or_eq_true, decide_eq_true_eq]
  intro e he
  rcases hall e he with h1 | ⟨c, hc⟩
  · exact Or.inl h1
  · right; simp [hc]

/-- for the one revision a write group adds (a commit), once the inventories of its
present parents are stored locally, the refusal accepts the write group exactly
when the revision satisfies the stacking invariant -/
theorem refusal_iff_stackable (s : Stacked) (k : Rev) (rec : RevRec)
    (hk : get s.st.revs k = some rec) (hself : k ∉ rec.parents) (horph : invsHaveRevs s = true)
    (hfilled : rec.parents.all (fun p => !presentRev s p || (get s.st.invs p).isSome) = true) :
    checkNew s.st [k] = true ↔ stackableRev s k rec = true := by
  have hent : ∀ e, e ∈ parentOnlyEntries s.st [k] ↔ e ∈ parentEntries s rec := by
    intro e
    unfold parentOnlyEntries parentEntries
    simp only [List.flatMap_cons, List.flatMap_nil, List.append_nil, List.mem_flatMap, List.mem_filter,
      List.mem_singleton, Bool.not_eq_true', decide_eq_false_iff_not]
    constructor
    · rintro ⟨p, ⟨hp, _⟩, hep⟩
      obtain ⟨rec', hrec', hpr⟩ := mem_parentsL_graph.mp hp
      rw [hk] at hrec'; cases hrec'
      obtain ⟨ip, hip, _⟩ := mem_invOrEmpty hep
      unfold invsHaveRevs at horph
      exact ⟨p, ⟨hpr, List.all_eq_true.mp horph (p, ip) (get_mem hip)⟩, hep⟩
    · rintro ⟨p, ⟨hp, _⟩, hep⟩
      exact ⟨p, ⟨mem_parentsL_graph.mpr ⟨rec, hk, hp⟩, fun h => hself (h ▸ hp)⟩, hep⟩
  unfold checkNew stackableRev
  simp only [List.all_cons, List.all_nil, Bool.and_true]
  cases hi : get s.st.invs k with
  | none => simp
  | some inv =>
    simp only [hfilled, Bool.true_and]
    simp only [List.all_eq_true, Bool.or_eq_true, decide_eq_true_eq, hent]

/-! ### any history: sequences of operations

`good` = `stackable ∧ topo ∧ invsAgree ∧ invsHaveRevs` is an invariant of every
sequence of fetches / pushes (from any sources), commits and packs in which every
operation satisfies its precondition (`stepOk`: `fetchOk` / `commitOk`, decidable,
evaluated by the driver for every real case) in the state it is applied to.  The
fallback is any repository without orphan inventories; it never changes. -/

/-- one operation keeps the whole invariant and leaves the fallback alone -/
theorem step_preserves_good (s : Stacked) (o : Op) (hno : noOrphanInv s.fb = true)
    (hg : good s = true) (hok : stepOk s o = true) :
    good (step s o) = true ∧ (step s o).fb = s.fb := by
  unfold good at hg
  simp only [Bool.and_eq_true] at hg
  obtain ⟨⟨⟨hst, htopo⟩, hag⟩, hhr⟩ := hg
  cases o with
  | fetch x fg src rev =>
    simp only [stepOk, fetchOk, Bool.and_eq_true, Bool.or_eq_true] at hok
    obtain ⟨⟨⟨⟨⟨⟨hc, hagS⟩, hagF⟩, hsup⟩, hloc⟩, htS⟩, hnoS⟩ := hok
    simp only [step]
    cases h : fetchStacked x fg src s rev with
    | error e => exact ⟨by simp [good, hst, htopo, hag, hhr], rfl⟩
    | ok s' =>
      have h1 := fetch_into_stacked_preserves x fg src s s' rev hst hc hagS hsup hloc h
      have h2 := fetch_preserves_topo h htopo htS
      have h3 := fetch_preserves_invsAgree h hag hagF
      have h4 := fetch_preserves_invsHaveRevs h hhr hc hnoS
      exact ⟨by simp [good, h1, h2, h3, h4], (fetchStacked_ok h).2.1⟩
  | commit k rec inv nt =>
    simp only [stepOk, commitOk, Bool.and_eq_true, Bool.not_eq_true', Option.isNone_iff_eq_none] at hok
    obtain ⟨⟨⟨⟨hfr, hfi⟩, hff⟩, hlt⟩, hcov⟩ := hok
    simp only [step]
    cases h : commitStacked s k rec inv nt with
    | error e => exact ⟨by simp [good, hst, htopo, hag, hhr], rfl⟩
    | ok s' =>
      have hself : k ∉ rec.parents := by
        intro hk
        have := List.all_eq_true.mp hlt k hk
        simp at this
      have h1 := commit_to_stacked_preserves s s' k rec inv nt hst ⟨hfr, hfi⟩ hself hcov h
      have h2 := commit_preserves_topo h htopo hlt
      have h3 := commit_preserves_invsAgree h hag hff
      have h4 := commit_preserves_invsHaveRevs h hhr hno
      exact ⟨by simp [good, h1, h2, h3, h4], (commitStacked_ok h).1⟩
  | pack =>
    simp only [step]
    exact ⟨by simp [good, pack_preserves_stackable s hst, pack_preserves_topo s htopo,
      pack_preserves_invsAgree s hag, pack_preserves_invsHaveRevs s hhr], rfl⟩

/-- **any history**: every sequence of fetches, pushes, commits and packs whose
operations satisfy their preconditions keeps the invariant (induction over the
sequence; no bound on its length, the sources may differ from step to step) -/
theorem run_preserves_good : ∀ (ops : List Op) (s : Stacked), noOrphanInv s.fb = true →
    good s = true → runOk s ops = true → good (run s ops) = true ∧ (run s ops).fb = s.fb
  | [], s, _, hg, _ => ⟨hg, rfl⟩
  | o :: os, s, hno, hg, hok => by
    simp only [runOk, Bool.and_eq_true] at hok
    obtain ⟨h1, h2⟩ := step_preserves_good s o hno hg hok.1
    obtain ⟨h3, h4⟩ := run_preserves_good os (step s o) (by rw [h2]; exact hno) h1 hok.2
    exact ⟨h3, by show (run (step s o) os).fb = s.fb; rw [h4, h2]⟩

/-- a freshly created stacked repository satisfies the invariant, whatever its fallback -/
theorem empty_good (fb : Repo) : good (emptyOn fb) = true := by
  simp [good, emptyOn, emptyRepo, stackable, topo, invsAgree, agreeOn, invsHaveRevs]

/-- **the property for any history**: starting from an empty repository stacked on a
complete fallback, after ANY sequence of fetches, pushes, commits and packs (each
satisfying its precondition when applied) every locally stored revision, and every
present parent of it, can be read — inventory and every file text — through the
stacked repository together with its fallback, and the invariant `stackable`
(parent inventories and differing texts stored locally) holds. -/
theorem reachable_readable (fb : Repo) (ops : List Op) (hfb : complete fb = true)
    (hno : noOrphanInv fb = true) (hok : runOk (emptyOn fb) ops = true) (k : Rev) (rec : RevRec)
    (hk : get (run (emptyOn fb) ops).st.revs k = some rec) :
    stackable (run (emptyOn fb) ops) = true ∧ readable (both (run (emptyOn fb) ops)) k = true ∧
      ∀ p ∈ rec.parents, presentRev (run (emptyOn fb) ops) p = true →
        readable (both (run (emptyOn fb) ops)) p = true := by
  obtain ⟨hg, hfb'⟩ := run_preserves_good ops (emptyOn fb) hno (empty_good fb) hok
  unfold good at hg
  simp only [Bool.and_eq_true] at hg
  obtain ⟨⟨⟨hst, htopo⟩, hag⟩, _⟩ := hg
  have hc : complete (run (emptyOn fb) ops).fb = true := by rw [hfb']; exact hfb
  exact ⟨hst, stackable_readable _ hst hc hag htopo k rec hk⟩

/-- **push never leaves the tip unreconstructable**: after a successful fetch / push
of `rev` (a revision of the source) into a stacked repository satisfying the
invariant, `rev` is a revision of the stack or its fallback and its tree can be read
through them. -/
theorem push_tip_readable (x : Exclusion) (fg : Bool) (src : Repo) (s s' : Stacked) (rev : Rev)
    (hfb : complete s.fb = true) (hno : noOrphanInv s.fb = true) (hg : good s = true)
    (hok : fetchOk x fg src s rev = true) (hrev : hasRev src rev = true)
    (h : fetchStacked x fg src s rev = .ok s') :
    presentRev s' rev = true ∧ readable (both s') rev = true := by
  have hstep : step s (.fetch x fg src rev) = s' := by simp [step, h]
  obtain ⟨hg', hfb'⟩ := step_preserves_good s (.fetch x fg src rev) hno hg hok
  rw [hstep] at hg' hfb'
  unfold good at hg'
  simp only [Bool.and_eq_true] at hg'
  obtain ⟨⟨⟨hst, htopo⟩, hag⟩, _⟩ := hg'
  have hc : complete s'.fb = true := by rw [hfb']; exact hfb
  simp only [fetchOk, Bool.and_eq_true, Bool.or_eq_true] at hok
  have hcl := hok.1.1.1.1.1.1
  have hpres : presentRev s' rev = true := by
    rcases anc_cases_closed (fg := fg) (tgt := both s) hcl (rev_mem_anc hrev) with h1 | h1
    · unfold presentRev; rw [fetch_sent_local h h1]; rfl
    · rw [hasRev_both] at h1; exact fetch_presentRev_mono h h1
  refine ⟨hpres, ?_⟩
  unfold presentRev at hpres
  cases hl : hasRev s'.st rev with
  | true =>
    obtain ⟨rec, hrec⟩ := (hasRev_iff ..).mp hl
    exact (stackable_readable s' hst hc hag htopo rev rec hrec).1
  | false =>
    simp only [hl, Bool.false_or] at hpres
    exact readable_of_fallback hc hag hpres

/-! ### the weak invariant: what holds without `srcSupplies` -/

/-- `stackable` implies the invariant the code maintains by design -/
theorem stackable_weaken (s : Stacked) (h : stackable s = true) : stackableW s = true := by
  unfold stackable at h
  unfold stackableW
  rw [List.all_eq_true] at h ⊢
  intro kv hkv
  exact stackableRev_imp_W (h kv hkv)

/-- the weak invariant is all that reading needs: every locally stored revision and
every present parent of it can be read through the stack and its fallback -/
theorem stackableW_readable (s : Stacked) (hst : stackableW s = true) (hfb : complete s.fb = true)
    (hag : invsAgree s = true) (htopo : topo s.st = true) (k : Rev) (rec : RevRec)
    (hk : get s.st.revs k = some rec) :
    readable (both s) k = true ∧ ∀ p ∈ rec.parents, presentRev s p = true → readable (both s) p = true := by
  have main : ∀ n, ∀ k rec, k = n → get s.st.revs k = some rec → readable (both s) k = true := by
    intro n
    induction n using Nat.strongRecOn with
    | _ n ih =>
      intro k rec hkn hk
      obtain ⟨inv, hinv, htexts⟩ := stackableW_rev hst hk
      rw [readable_iff]
      refine ⟨inv, by rw [both_invs_get, hinv], fun e he => ?_⟩
      rcases htexts e he with hpe | ⟨c, hc⟩
      · obtain ⟨p, hp, hpres, ip, hip, hep⟩ := mem_parentEntries hpe
        have hlt : p < n := hkn ▸ topo_lt htopo hk hp
        have hr : readable (both s) p = true := by
          unfold presentRev at hpres
          cases hl : hasRev s.st p with
          | true =>
            obtain ⟨prec, hprec⟩ := (hasRev_iff ..).mp hl
            exact ih p hlt p prec rfl hprec
          | false =>
            simp only [hl, Bool.false_or] at hpres
            exact readable_of_fallback hfb hag hpres
        obtain ⟨ip', hip', hall⟩ := readable_iff.mp hr
        rw [both_invs_get, hip] at hip'
        cases hip'
        exact hall e hep
      · exact both_texts_isSome s e.key (Or.inl (by simp [hc]))
  refine ⟨main k k rec rfl hk, fun p hp hpres => ?_⟩
  unfold presentRev at hpres
  cases hl : hasRev s.st p with
  | true =>
    obtain ⟨prec, hprec⟩ := (hasRev_iff ..).mp hl
    exact main p p prec rfl hprec
  | false =>
    simp only [hl, Bool.false_or] at hpres
    exact readable_of_fallback hfb hag hpres

/-- fetch / push into a stacked repository keeps the weak invariant WITHOUT any
assumption about which parent inventories the source can supply (`srcSupplies`
dropped): an entry the stream's filter drops is shared with a parent whose
inventory the source holds, and that inventory is either already local, sent, or
filled in by `get_missing_parent_inventories`. -/
theorem fetch_into_stacked_preservesW (x : Exclusion) (fg : Bool) (src : Repo) (s s' : Stacked) (rev : Rev)
    (hst : stackableW s = true) (hc : fg = true ∨ closed (both s) src = true)
    (hag : agreeOn src.invs s.st.invs = true)
    (hloc : exclusionLocal x src (missing fg src (both s) rev) = true)
    (h : fetchStacked x fg src s rev = .ok s') : stackableW s' = true := by
  obtain ⟨hstream, hfb, hrevs, htexts, hinvs⟩ := fetchStacked_ok h
  generalize hM : missing fg src (both s) rev = M at hstream hrevs htexts hinvs hloc
  have hinvmono : ∀ q i, get s.st.invs q = some i → get s'.st.invs q = some i := by
    intro q i hq
    rw [hinvs]; apply get_append_some; rw [copy_invs_get, hq]
  have htxtmono : ∀ q c, get s.st.texts q = some c → get s'.st.texts q = some c := by
    intro q c hq
    rw [htexts, copy_texts_get, hq]
  have hrevget : ∀ q, get s'.st.revs q = match get s.st.revs q with
      | some v => some v
      | none => if q ∈ M then get src.revs q else none := by
    intro q; rw [hrevs]; exact copy_revs_get ..
  have hpres : ∀ p, presentRev s p = true → presentRev s' p = true :=
    fun p hp => fetch_presentRev_mono h hp
  have hsentinv : ∀ m ∈ M, ∃ i, get src.invs m = some i ∧ get s'.st.invs m = some i := by
    intro m hm
    obtain ⟨i, hi⟩ := streamable_inv hstream hm
    refine ⟨i, hi, ?_⟩
    cases hl : get s.st.invs m with
    | some il =>
      have : i = il := agreeOn_eq hag hl hi
      subst this; exact hinvmono m i hl
    | none =>
      rw [hinvs]; apply get_append_some
      rw [copy_invs_get, hl]; simp [hm, hi]
  have hparentinv : ∀ m ∈ M, ∀ p ∈ C33.parentsL (graph src) m, p ∉ M → presentRev s p = true →
      ∀ ip, get src.invs p = some ip → get s'.st.invs p = some ip := by
    intro m hm p hp hpM hpp ip hip
    cases hl : get s.st.invs p with
    | some il =>
      have : ip = il := agreeOn_eq hag hl hip
      subst this; exact hinvmono p ip hl
    | none =>
      have hnl : hasRev s.st p = false := by
        cases hh : hasRev s.st p with
        | false => rfl
        | true =>
          obtain ⟨prec, hprec⟩ := (hasRev_iff ..).mp hh
          obtain ⟨i, hi, _⟩ := stackableW_rev hst hprec
          rw [hl] at hi; cases hi
      have hcopyinv : get (copy x src s.st M).invs p = none := by
        rw [copy_invs_get, hl]; simp [hpM]
      have hcopyrev : hasRev (copy x src s.st M) p = false := by
        unfold hasRev at hnl ⊢
        rw [copy_revs_get]
        cases hh : get s.st.revs p with
        | some v => simp [hh] at hnl
        | none => simp [hpM]
      rw [hinvs, get_append_none hcopyinv, get_parentInvFill]
      have : p ∈ (M.flatMap (C33.parentsL (graph src))).filter
          (fun p => !hasRev (copy x src s.st M) p && (get (copy x src s.st M).invs p).isNone) :=
        List.mem_filter.mpr ⟨List.mem_flatMap.mpr ⟨m, hm, hp⟩, by simp [hcopyrev, hcopyinv]⟩
      simp [this, hip]
  unfold stackableW
  rw [List.all_eq_true, hrevs]
  rintro ⟨k, rec⟩ hmem
  simp only [copy, List.mem_append, List.mem_filterMap] at hmem
  rcases hmem with hold | ⟨m, hm, hmrec⟩
  · have hold' : stackableRevW s k rec = true := by
      unfold stackableW at hst
      exact List.all_eq_true.mp hst (k, rec) hold
    exact stackableRevW_mono hinvmono htxtmono hpres hold'
  · cases hsr : get src.revs m with
    | none => simp [hsr] at hmrec
    | some r =>
      simp only [hsr, Option.map_some, Option.some.injEq, Prod.mk.injEq] at hmrec
      obtain ⟨hmk, hrr⟩ := hmrec
      subst hmk hrr
      obtain ⟨i, hi, hil⟩ := hsentinv m hm
      have hma : m ∈ anc src rev := by rw [← hM] at hm; exact missing_sub_anc hm
      unfold stackableRevW
      simp only [hil, List.all_eq_true, Bool.or_eq_true, decide_eq_true_eq]
      intro e he
      by_cases hex : e ∈ excluded x src M
      · left
        unfold exclusionLocal at hloc
        have h1 := List.all_eq_true.mp hloc m hm
        have hem : e ∈ invOrEmpty src m := by unfold invOrEmpty; rw [hi]; exact he
        have h2 := List.all_eq_true.mp h1 e hem
        simp only [Bool.or_eq_true, Bool.not_eq_true', decide_eq_false_iff_not, List.any_eq_true,
          Bool.and_eq_true, decide_eq_true_eq] at h2
        rcases h2 with h2 | ⟨p, hp, hpsrc, hep⟩
        · exact absurd hex h2
        · obtain ⟨ip, hip, heip⟩ := mem_invOrEmpty hep
          obtain ⟨r', hr', hpr⟩ := mem_parentsL_graph.mp hp
          rw [hsr] at hr'; cases hr'
          unfold parentEntries
          by_cases hpM : p ∈ M
          · obtain ⟨ip', hip', hipl⟩ := hsentinv p hpM
            rw [hip] at hip'; cases hip'
            have hpp : presentRev s' p = true := by
              unfold presentRev
              rw [fetch_sent_local h (hM ▸ hpM)]; rfl
            refine List.mem_flatMap.mpr ⟨p, List.mem_filter.mpr ⟨hpr, hpp⟩, ?_⟩
            unfold invOrEmpty
            rw [hipl]
            exact heip
          · have hpa : p ∈ anc src rev := parent_mem_anc hma hsr hpr hpsrc
            have hps : presentRev s p = true := by
              rcases anc_cases_closed (fg := fg) (tgt := both s) hc hpa with h3 | h3
              · rw [hM] at h3; exact absurd h3 hpM
              · rw [hasRev_both] at h3; exact h3
            refine List.mem_flatMap.mpr ⟨p, List.mem_filter.mpr ⟨hpr, hpres p hps⟩, ?_⟩
            unfold invOrEmpty
            rw [hparentinv m hm p hp hpM hps ip hip]
            exact heip
      · right
        have hse : e ∈ streamEntries x src M := by
          unfold streamEntries
          simp only [List.mem_filter, List.mem_flatMap, Bool.not_eq_true', decide_eq_false_iff_not]
          refine ⟨⟨m, hm, ?_⟩, hex⟩
          unfold invOrEmpty; rw [hi]; exact he
        obtain ⟨c, hcs⟩ := streamable_text hstream hse
        rw [htexts, copy_texts_get]
        cases ht : get s.st.texts e.key with
        | some c0 => rfl
        | none =>
          have : e.key ∈ (streamEntries x src M).map Entry.key := List.mem_map.mpr ⟨e, hse, rfl⟩
          simp [this, hcs]

/-- a source in which revision 1 — a revision of the fallback — is a ghost: it holds only
revision 2 (parent 1), which rewrites file 1 -/
def gSrc : Repo :=
  { revs := [(2, ⟨[1], 20⟩)], invs := [(2, [⟨1, 1, 2, 200⟩])], texts := [((1, 2), 200)] }

def gStack : Stacked :=
  emptyOn { revs := [(1, ⟨[], 10⟩)], invs := [(1, [⟨1, 1, 1, 100⟩])], texts := [((1, 1), 100)] }

/-- `srcSuppliesM` cannot be dropped from `fetch_into_stacked_preserves`: a fetch from a
source that does not hold a parent the fallback holds succeeds (the real sink accepts
it too — `get_missing_parent_inventories(check_for_missing_texts=True)` only insists
on parent inventories when texts are missing; reproduced by the harness), every other
hypothesis holds, the weak invariant holds and the new revision can be read, but the
inventory of the present parent is NOT stored locally: `stackable` is false. -/
theorem srcSupplies_needed_witness :
    (match fetchStacked .revisionPresent false gSrc gStack 2 with
      | .ok s' => !stackable s' && stackableW s' && readable (both s') 2 && hasRev s'.st 2
      | .error _ => false) = true ∧
    stackable gStack = true ∧ closed (both gStack) gSrc = true ∧ agreeOn gSrc.invs gStack.st.invs = true ∧
    exclusionLocal .revisionPresent gSrc (missing false gSrc (both gStack) 2) = true ∧
    srcSuppliesM gSrc gStack (missing false gSrc (both gStack) 2) = false := by decide +kernel

/-- two branches in the fallback: 1 ← 2 (2 rewrites file 1) and 1 ← 3 (3 adds file 2);
the write group adds 5 (parent 3) and 6 (parents 2 and the ghost 4) whose inventory
still carries file 1 as revision 1 left it; the inventories of 3 and 2 are filled in -/
def mStack : Stacked :=
  { st := { revs := [(5, ⟨[3], 50⟩), (6, ⟨[2, 4], 60⟩)],
            invs := [(5, [⟨1, 1, 1, 100⟩, ⟨2, 2, 5, 500⟩]), (6, [⟨1, 1, 1, 100⟩]),
                     (3, [⟨1, 1, 1, 100⟩, ⟨2, 2, 3, 300⟩]), (2, [⟨1, 1, 2, 200⟩])],
            texts := [((2, 5), 500)] }
    fb := { revs := [(1, ⟨[], 10⟩), (2, ⟨[1], 20⟩), (3, ⟨[1], 30⟩)],
            invs := [(1, [⟨1, 1, 1, 100⟩]), (2, [⟨1, 1, 2, 200⟩]), (3, [⟨1, 1, 1, 100⟩, ⟨2, 2, 3, 300⟩])],
            texts := [((1, 1), 100), ((1, 2), 200), ((2, 3), 300)] } }

/-- the multi-revision converse of `refusal_iff_stackable` is FALSE: one set of
parent-only inventories is computed for the whole write group, so revision 6's entry
for file 1 is excused by the inventory of 3 — a parent of revision 5, not of 6.
`_check_new_inventories` accepts, every present parent's inventory is stored locally
(`hfilled` of `refusal_iff_stackable` holds for both revisions), yet revision 6
violates the stacking invariant (the text (1, 1) is not stored locally); the tree of
6 can still be read through the fallback. -/
theorem refusal_multi_witness :
    checkNew mStack.st [5, 6] = true ∧ stackable mStack = false ∧ stackableW mStack = false ∧
    invsHaveRevs mStack = true ∧ topo mStack.st = true ∧
    mStack.st.revs.all (fun kv => kv.2.parents.all fun p =>
      !presentRev mStack p || (get mStack.st.invs p).isSome) = true ∧
    stackableRev mStack 5 ⟨[3], 50⟩ = true ∧ stackableRev mStack 6 ⟨[2, 4], 60⟩ = false ∧
    readable (both mStack) 6 = true := by decide +kernel

/-- the stack used by the witness: revision 2 (parent 1) stored locally with its text, revision 1 in
the fallback, but the inventory of 1 NOT stored locally -/
def wStack : Stacked :=
  { st := { revs := [(2, ⟨[1], 20⟩)], invs := [(2, [⟨1, 1, 1, 100⟩, ⟨2, 2, 2, 200⟩])],
            texts := [((2, 2), 200), ((1, 1), 100)] }
    fb := { revs := [(1, ⟨[], 10⟩)], invs := [(1, [⟨1, 1, 1, 100⟩])], texts := [((1, 1), 100)] } }

/-- `_check_new_inventories` alone does not enforce the whole invariant: it accepts a
write group whose revision lacks the inventory of a parent that lives in the
fallback.  That half is enforced before, by `get_missing_parent_inventories`
(fetch) and `_ensure_fallback_inventories` (commit) — which is why the
correspondence check sabotages those too. -/
theorem refusal_alone_witness :
    checkNew wStack.st [2] = true ∧ stackable wStack = false ∧ invsHaveRevs wStack = true := by
  decide +kernel

/-! ### non-vacuity -/

/-- fallback 1 ← 2; stacked: 3 (parent 2) changes file 1, keeps file 2 -/
def eStack : Stacked :=
  { st := { revs := [(3, ⟨[2], 30⟩)],
            invs := [(3, [⟨1, 1, 3, 300⟩, ⟨2, 2, 1, 110⟩]), (2, [⟨1, 1, 2, 200⟩, ⟨2, 2, 1, 110⟩])],
            texts := [((1, 3), 300)] }
    fb := { revs := [(1, ⟨[], 10⟩), (2, ⟨[1], 20⟩)],
            invs := [(1, [⟨1, 1, 1, 100⟩, ⟨2, 2, 1, 110⟩]), (2, [⟨1, 1, 2, 200⟩, ⟨2, 2, 1, 110⟩])],
            texts := [((1, 1), 100), ((2, 1), 110), ((1, 2), 200)] } }

example : stackable eStack = true ∧ complete eStack.fb = true ∧ invsAgree eStack = true ∧ topo eStack.st = true ∧
    invsHaveRevs eStack = true ∧ readable (both eStack) 3 = true ∧ readable eStack.st 3 = false ∧
    checkNew eStack.st [3] = true ∧ [3].all (hasRev eStack.st) = true := by decide +kernel

/-- eStack after its revision 3 has been landed on the fallback -/
def lStack : Stacked :=
  land eStack [(3, ⟨[2], 30⟩)] [(3, [⟨1, 1, 3, 300⟩, ⟨2, 2, 1, 110⟩])] [((1, 3), 300)]

/-- a repack that leaves out the texts the fallback also holds breaks the invariant once
the branch has been landed: before the landing it changes nothing, after it revision 3
loses the text it introduces — the stack is no longer `stackable` (nor `stackableW`),
although everything can still be read through the fallback. -/
theorem pack_minus_fallback_witness :
    stackable eStack = true ∧ stackable (packMinusFallback eStack) = true ∧
    stackable lStack = true ∧ stackable (pack lStack) = true ∧
    stackable (packMinusFallback lStack) = false ∧ stackableW (packMinusFallback lStack) = false ∧
    get (packMinusFallback lStack).st.texts (1, 3) = none ∧ get lStack.st.texts (1, 3) = some 300 ∧
    readable (both (packMinusFallback lStack)) 3 = true := by decide +kernel

/-- a commit of 4 on top of 3 that merges fallback revision 1 -/
example : commitCovers eStack ⟨[3, 1], 40⟩ [⟨1, 1, 4, 400⟩, ⟨2, 2, 1, 110⟩] [((1, 4), 400)] = true ∧
    presentRev eStack 4 = false ∧
    (match commitStacked eStack 4 ⟨[3, 1], 40⟩ [⟨1, 1, 4, 400⟩, ⟨2, 2, 1, 110⟩] [((1, 4), 400)] with
      | .ok s' => stackable s' && (get s'.st.invs 1).isSome
      | .error _ => false) = true := by decide +kernel

/-- a source holding the whole history 1 ← 2 ← 3 ← 5 (5 also merges 4 = a ghost) -/
def eSrc : Repo :=
  { revs := [(1, ⟨[], 10⟩), (2, ⟨[1], 20⟩), (3, ⟨[2], 30⟩), (5, ⟨[3, 4], 50⟩)]
    invs := [(1, [⟨1, 1, 1, 100⟩, ⟨2, 2, 1, 110⟩]), (2, [⟨1, 1, 2, 200⟩, ⟨2, 2, 1, 110⟩]),
             (3, [⟨1, 1, 3, 300⟩, ⟨2, 2, 1, 110⟩]), (5, [⟨1, 1, 3, 300⟩, ⟨2, 2, 5, 510⟩])]
    texts := [((1, 1), 100), ((2, 1), 110), ((1, 2), 200), ((1, 3), 300), ((2, 5), 510)] }

/-- a stack that holds nothing yet, on the fallback 1 ← 2 -/
def eEmpty : Stacked := { eStack with st := ⟨[], [], []⟩ }

example : stackable eEmpty = true ∧ closed (both eEmpty) eSrc = true ∧ agreeOn eSrc.invs eEmpty.st.invs = true ∧
    srcSuppliesM eSrc eEmpty (missing false eSrc (both eEmpty) 5) = true ∧ exclusionLocal .revisionPresent eSrc (missing false eSrc (both eEmpty) 5) = true ∧
    missing false eSrc (both eEmpty) 5 = [5, 3] ∧
    (match fetchStacked .revisionPresent false eSrc eEmpty 5 with
      | .ok s' => stackable s' && (get s'.st.invs 2).isSome && (get s'.st.texts (2, 1)).isNone &&
                  readable (both s') 3 && !readable s'.st 3
      | .error _ => false) = true := by decide +kernel

/-- … and one that names a parent nobody has is refused -/
example : (match commitStacked eStack 4 ⟨[3, 9], 40⟩ [] [] with
      | .ok _ => false
      | .error _ => true) = true := by decide +kernel

/-- `run_preserves_good` / `reachable_readable`: a fetch of 5 (merging the ghost 4) into the empty
stack, a commit of 6 merging fallback revision 1, and a pack — every precondition holds -/
def eOps : List Op :=
  [.fetch .revisionPresent false eSrc 5,
   .commit 6 ⟨[5, 1], 60⟩ [⟨1, 1, 6, 600⟩, ⟨2, 2, 5, 510⟩] [((1, 6), 600)],
   .pack]

example : complete eStack.fb = true ∧ noOrphanInv eStack.fb = true ∧ runOk (emptyOn eStack.fb) eOps = true ∧
    ((run (emptyOn eStack.fb) eOps).st.revs.map (·.1)) = [5, 3, 6] ∧
    ((run (emptyOn eStack.fb) eOps).st.invs.map (·.1)) = [5, 3, 2, 6, 1] ∧
    readable (both (run (emptyOn eStack.fb) eOps)) 6 = true ∧
    readable (run (emptyOn eStack.fb) eOps).st 3 = false := by decide +kernel

/-- `push_tip_readable` -/
example : good eEmpty = true ∧ fetchOk .revisionPresent false eSrc eEmpty 5 = true ∧ hasRev eSrc 5 = true := by
  decide +kernel

end BreezyVerif.C08
