import BreezyVerif.Common
import BreezyVerif.Model.C29
/-!
Line protocol of the C29/C30 model driver (fields separated by one space).

byte strings: lowercase hex, `-` = empty.  lists of byte strings: `[]` = empty
list, otherwise comma separated.  reads (SEGS): comma separated, never empty.

  consts                         -> marker3 request2 response2
  lp SEGS MASK                   -> per read `tag/left/drained/fin/unused/nrs` joined by `;`
                                    (MASK: one 0/1 per read = call read_pending_data after it)
  ck SEGS                        -> per read `tag/chunks/fin/unused/nrs` joined by `;`
  v3 M SEGS                      -> per read `tag/nev/fin/unused/nrs` joined by `;`, then ` EVENTS`
  v3resp FX M SEGS               -> response-handler state after the whole input
                                    (FX = T: handler variant with the F15 fix, see Model)
  req W SEGS                     -> per read `tag/fin/unused/nrs` joined by `;`, then ` ARGS BODY`
  enc.lp B | enc.ck LIST ERR | enc.v3 M HEADERS PARTS | enc.tuple LIST | dec.tuple B
  enc.args LIST | dec.args B | enc.req LIST BODY | enc.offsets s:l,s:l
  dec.offsets B                  -> s:l,s:l | [] | E:ValueError
  v3req W SEGS                   -> request-handler state after the whole input (server side, no
                                    marker): `expecting/calls/finished/responses FIN UNUSED`, or
                                    `E:first-handler-error FIN UNUSED` (the decoder goes on after a
                                    handler error), or a framing error
  dec.v2resp KIND B              -> `status/args/body REST` (KIND n|b|s) or E:…
  enc.v2resp OK ARGS BODY CHUNKS ERR  (BODY, CHUNKS, ERR: `~` = absent)
-/
namespace BreezyVerif.C29

def parseSegs (s : String) : Option (List Bytes) := (s.splitOn ",").mapM fromHex

def parseBL (s : String) : Option (List Bytes) :=
  if s == "[]" then some [] else (s.splitOn ",").mapM fromHex

def showBL (l : List Bytes) : String :=
  if l.isEmpty then "[]" else ",".intercalate (l.map toHex)

def parseOptB (s : String) : Option (Option Bytes) :=
  if s == "~" then some none else (fromHex s).map some

def showOptB : Option Bytes → String
  | none => "~"
  | some b => toHex b

def sep (l : List String) : String := "/".intercalate l

/-! LP -/

def lpTag : LP → String
  | .expectingLength _ => "expecting_length"
  | .readingBody .. => "reading_body"
  | .readingTrailer .. => "reading_trailer"
  | .done .. => "reading_unused"
  | .failed => "failed"

def lpLeft : LP → String
  | .readingBody l _ => toString l
  | _ => "~"

def lpRun (s : LP) : List Bytes → List Char → List String → Option (List String)
  | [], [], acc => some acc.reverse
  | x :: xs, m :: ms, acc =>
    let s1 := s.feed x
    match s1 with
    | .failed => some (("E:ValueError") :: acc).reverse
    | _ =>
      let (dr, s2) := if m == '1' then (toHex (s1.drain).1, (s1.drain).2) else ("~", s1)
      lpRun s2 xs ms
        (sep [lpTag s1, lpLeft s1, dr, showBool s2.finished, toHex s2.unused,
              toString s2.nextReadSize] :: acc)
  | _, _, _ => none

/-! CK -/

def ckTag : CK → String
  | .expectingHeader _ => "expecting_header"
  | .expectingLength .. => "expecting_length"
  | .readingChunk .. => "reading_chunk"
  | .done .. => "reading_unused"
  | .failed _ => "failed"

def showChunk : Chunk → String
  | .data b => "d" ++ toHex b
  | .failure args => "f" ++ "+".intercalate (args.map toHex)

def showChunks (l : List Chunk) : String :=
  if l.isEmpty then "[]" else ",".intercalate (l.map showChunk)

def ckRun (s : CK) : List Bytes → List String → List String
  | [], acc => acc.reverse
  | x :: xs, acc =>
    let s1 := s.feed x
    match s1 with
    | .failed .badHeader => ("E:BadHeader" :: acc).reverse
    | .failed .badLength => ("E:ValueError" :: acc).reverse
    | _ =>
      ckRun s1 xs
        (sep [ckTag s1, showChunks s1.chunks, showBool s1.finished, toHex s1.unused,
              toString s1.nextReadSize] :: acc)

/-! V3 -/

def v3Tag : V3 → String
  | .run .version .. => "expecting_protocol_version"
  | .run .headers .. => "expecting_headers"
  | .run .part .. => "expecting_message_part"
  | .run .oneByte .. => "expecting_one_byte"
  | .run .bytes .. => "expecting_bytes"
  | .run .struct .. => "expecting_structure"
  | .done .. => "reading_unused"
  | .failed .. => "failed"

def showEv : Ev → String
  | .headers r => "H" ++ toHex r
  | .byte b => "o" ++ toHex [b]
  | .bytes b => "b" ++ toHex b
  | .struct r => "s" ++ toHex r
  | .end_ => "e"

def showEvs (l : List Ev) : String :=
  if l.isEmpty then "[]" else "+".intercalate (l.map showEv)

def v3Run (s : V3) : List Bytes → List String → List String × V3
  | [], acc => (acc.reverse, s)
  | x :: xs, acc =>
    let s1 := s.feed x
    match s1 with
    | .failed _ .badVersion => (("E:BadVersion" :: acc).reverse, s1)
    | .failed _ .badKind => (("E:BadKind" :: acc).reverse, s1)
    | _ =>
      v3Run s1 xs
        (sep [v3Tag s1, toString s1.events.length, showBool s1.finished, toHex s1.unused,
              toString s1.nextReadSize] :: acc)

def showOptByte : Option UInt8 → String
  | none => "~"
  | some b => toHex [b]

def showResp : Except RespErr Resp → String
  | .error .unknownStatus => "E:UnknownStatus"
  | .error .unexpectedByte => "E:UnexpectedByte"
  | .error .unexpectedStructure => "E:UnexpectedStructure"
  | .error .headersAgain => "E:Headers"
  | .ok r => sep [showOptByte r.status, showOptB r.args, showBL r.parts, showBool r.bodyStarted,
                  showOptByte r.streamStatus, showOptB r.errArgs]

/-! Req -/

def reqTag : Req → String
  | .line _ => "line"
  | .body .. => "body"
  | .done .. => "done"
  | .failed => "failed"

def reqRun (w : Bool) (s : Req) : List Bytes → List String → List String × Req
  | [], acc => (acc.reverse, s)
  | x :: xs, acc =>
    let s1 := s.feed (fun _ => w) x
    match s1 with
    | .failed => (("E:ValueError" :: acc).reverse, s1)
    | _ =>
      let u := match s1 with | .done _ _ u => u | _ => []
      reqRun w s1 xs
        (sep [reqTag s1, showBool s1.finished, toHex u, toString s1.nextReadSize] :: acc)

def parsePart (s : String) : Option Part :=
  match s.toList with
  | 'o' :: r => match fromHex (String.ofList r) with
    | some [b] => some (.byte b)
    | _ => none
  | 'b' :: r => (fromHex (String.ofList r)).map .bytes
  | 's' :: r => (fromHex (String.ofList r)).map .struct
  | _ => none

def parseParts (s : String) : Option (List Part) :=
  if s == "[]" then some [] else (s.splitOn ",").mapM parsePart

def parseOffsets (s : String) : Option (List (Nat × Nat)) :=
  if s == "[]" then some [] else
  (s.splitOn ",").mapM fun p =>
    match p.splitOn ":" with
    | [a, b] => do
      let x ← a.toNat?
      let y ← b.toNat?
      pure (x, y)
    | _ => none

def semi (l : List String) : String := ";".intercalate l

def showOffsets (l : List (Nat × Nat)) : String :=
  if l.isEmpty then "[]" else ",".intercalate (l.map fun p => toString p.1 ++ ":" ++ toString p.2)

def showRqExp : RqExp → String
  | .args => "args" | .body => "body" | .error => "error" | .end_ => "end" | .nothing => "nothing"

def showRqCall : RqCall → String
  | .args r => "A" ++ toHex r
  | .body b => "B" ++ toHex b
  | .postBodyError r => "P" ++ toHex r
  | .end_ => "e"

def showRq : Except RqErr Rq → String
  | .error .unexpectedByte => "E:UnexpectedByte"
  | .error .badStatusByte => "E:BadStatusByte"
  | .error .unexpectedStruct => "E:UnexpectedStructure"
  | .error .unexpectedBytes => "E:UnexpectedBytes"
  | .error .prematureEnd => "E:PrematureEnd"
  | .ok r => sep [showRqExp r.expecting,
      (if r.calls.isEmpty then "[]" else "+".intercalate (r.calls.map showRqCall)),
      showBool r.finished, toString r.responses]

def parseOptBL (s : String) : Option (Option (List Bytes)) :=
  if s == "~" then some none else (parseBL s).map some

def showV2 : Except V2Err (V2Resp × Bytes) → String
  | .error .incomplete => "E:Incomplete"
  | .error .badVersion => "E:BadVersion"
  | .error .badStatus => "E:BadStatus"
  | .error .badBody => "E:BadBody"
  | .ok (r, rest) =>
    sep [(if r.ok then "ok" else "failed"), showBL r.args,
      (match r.body with
       | .none_ => "~"
       | .bytes b => "b" ++ toHex b
       | .stream cs => "s" ++ showChunks cs)] ++ " " ++ toHex rest

def handleLine : List String → String
  | ["consts"] => " ".intercalate [toHex marker3, toHex request2, toHex response2]
  | ["lp", segs, mask] =>
    match parseSegs segs with
    | some l =>
      match lpRun LP.init l mask.toList [] with
      | some out => semi out
      | none => "bad-op"
    | none => "bad-op"
  | ["ck", segs] =>
    match parseSegs segs with
    | some l => semi (ckRun CK.init l [])
    | none => "bad-op"
  | ["v3", m, segs] =>
    match parseBool m, parseSegs segs with
    | some m, some l =>
      let (out, s) := v3Run (V3.init m) l []
      semi out ++ " " ++ showEvs s.events
    | _, _ => "bad-op"
  | ["v3resp", fx, m, segs] =>
    match parseBool fx, parseBool m, parseSegs segs with
    | some fx, some m, some l =>
      let s := feedAll V3.feed (V3.init m) l
      -- handler callbacks happen before a later framing error is detected
      match Resp.run fx {} s.events, s with
      | .error e, _ => showResp (.error e)
      | .ok _, .failed _ .badVersion => "E:BadVersion"
      | .ok _, .failed _ .badKind => "E:BadKind"
      | .ok r, _ => showResp (.ok r) ++ " " ++ showBool s.finished ++ " " ++ toHex s.unused
    | _, _, _ => "bad-op"
  | ["req", w, segs] =>
    match parseBool w, parseSegs segs with
    | some w, some l =>
      let (out, s) := reqRun w (.line []) l []
      match s with
      | .done a b _ => semi out ++ " " ++ showBL a ++ " " ++ showOptB b
      | _ => semi out ++ " ~ ~"
    | _, _ => "bad-op"
  | ["enc.lp", b] =>
    match fromHex b with
    | some b => toHex (lpEncode b)
    | none => "bad-op"
  | ["enc.ck", cs, err] =>
    match parseBL cs with
    | some cs =>
      if err == "~" then toHex (ckEncode cs none)
      else match parseBL err with
        | some e => toHex (ckEncode cs (some e))
        | none => "bad-op"
    | none => "bad-op"
  | ["enc.v3", m, h, ps] =>
    match parseBool m, fromHex h, parseParts ps with
    | some m, some h, some ps => toHex (if m then v3Encode h ps else v3EncodeBody h ps)
    | _, _, _ => "bad-op"
  | ["enc.tuple", l] =>
    match parseBL l with
    | some l => toHex (encodeTuple l)
    | none => "bad-op"
  | ["dec.tuple", b] =>
    match fromHex b with
    | some b =>
      match decodeTuple b with
      | .none_ => "~"
      | .notTerminated => "E:NotTerminated"
      | .ok a => showBL a
    | none => "bad-op"
  | ["enc.args", l] =>
    match parseBL l with
    | some l => toHex (bencodeArgs l)
    | none => "bad-op"
  | ["dec.args", b] =>
    match fromHex b with
    | some b =>
      match bdecodeArgs b with
      | some a => showBL a
      | none => "E:NotArgs"
    | none => "bad-op"
  | ["enc.req", l, b] =>
    match parseBL l, parseOptB b with
    | some l, some b => toHex (reqEncode l b)
    | _, _ => "bad-op"
  | ["enc.offsets", o] =>
    match parseOffsets o with
    | some o => toHex (serialiseOffsets o)
    | none => "bad-op"
  | ["dec.offsets", b] =>
    match fromHex b with
    | some b =>
      match deserialiseOffsets b with
      | some l => showOffsets l
      | none => "E:ValueError"
    | none => "bad-op"
  | ["v3req", w, segs] =>
    match parseBool w, parseSegs segs with
    | some w, some l =>
      let s := feedAll V3.feed (V3.init false) l
      -- handler callbacks happen before a later framing error is detected
      -- an error raised by the message handler does not stop the decoder: it goes on
      -- parsing to find the end of the message (framing state reported in every case)
      match Rq.run w {} s.events, s with
      | .error e, _ => showRq (.error e) ++ " " ++ showBool s.finished ++ " " ++ toHex s.unused
      | .ok _, .failed _ .badVersion => "E:BadVersion"
      | .ok _, .failed _ .badKind => "E:BadKind"
      | .ok r, _ => showRq (.ok r) ++ " " ++ showBool s.finished ++ " " ++ toHex s.unused
    | _, _ => "bad-op"
  | ["dec.v2resp", k, b] =>
    match fromHex b with
    | some b =>
      if k == "n" then showV2 (v2Decode .none_ b)
      else if k == "b" then showV2 (v2Decode .bytes b)
      else if k == "s" then showV2 (v2Decode .stream b)
      else "bad-op"
    | none => "bad-op"
  | ["enc.v2resp", ok, args, body, cs, err] =>
    match parseBool ok, parseBL args, parseOptB body, parseOptBL cs, parseOptBL err with
    | some ok, some args, some body, some cs, some err =>
      match body, cs with
      | some b, none => toHex (v2RespEncode ok args (some (.inl b)))
      | none, some cs => toHex (v2RespEncode ok args (some (.inr (cs, err))))
      | none, none => toHex (v2RespEncode ok args none)
      | some _, some _ => "bad-op"
    | _, _, _, _, _ => "bad-op"
  | _ => "bad-op"

end BreezyVerif.C29
