import BreezyVerif.Lemmas.C21D
/-! C21 — operation sequences over a system of branches. -/
namespace BreezyVerif.C21

/-- a relation between the old and the new state of every branch that each
single pull/push establishes is established pointwise by a step -/
theorem stepAux_pointwise (R : Br → Br → Prop) (hrefl : ∀ b, R b b)
    (g : Graph) (s : List Br) (isPull : Bool) (si ti : Nat) (mi : Option Nat)
    (stop : Option Tip) (ow : Bool)
    (hop : ∀ src tgt m, s[si]? = some src →
      R tgt (applyOp g isPull src tgt m stop ow).tgt ∧
      ∀ mb, m = some mb → ∃ mb', (applyOp g isPull src tgt m stop ow).master = some mb' ∧ R mb mb') :
    ∀ (i : Nat) (b : Br), s[i]? = some b → ∃ b', (stepAux g s isPull si ti mi stop ow)[i]? = some b' ∧ R b b' := by
  intro i b hb
  unfold stepAux
  cases hsrc : s[si]? with
  | none => exact ⟨b, hb, hrefl b⟩
  | some src =>
    cases htgt : s[ti]? with
    | none => exact ⟨b, hb, hrefl b⟩
    | some tgt =>
      simp only
      split
      · exact ⟨b, hb, hrefl b⟩
      · have hti : ti < s.length := by
          rcases List.getElem?_eq_some_iff.mp htgt with ⟨h, _⟩; exact h
        cases mi with
        | none =>
          simp only
          by_cases hi : ti = i
          · subst hi
            rw [htgt] at hb; cases hb
            exact ⟨_, by simp [hti], (hop src b none hsrc).1⟩
          · exact ⟨b, by simp [hi, hb], hrefl b⟩
        | some m =>
          simp only
          cases hm : s[m]? with
          | none => exact ⟨b, hb, hrefl b⟩
          | some mb =>
            simp only
            split
            · exact ⟨b, hb, hrefl b⟩
            · rename_i hne
              have hmlt : m < s.length := by
                rcases List.getElem?_eq_some_iff.mp hm with ⟨h, _⟩; exact h
              obtain ⟨h1, h2⟩ := hop src tgt (some mb) hsrc
              obtain ⟨mb', hmb', hR⟩ := h2 mb rfl
              rw [hmb']
              simp only
              have hmti : ¬ m = ti := fun e => hne (Or.inr e)
              by_cases hi : ti = i
              · subst hi
                rw [htgt] at hb; cases hb
                exact ⟨_, by simp [hti], h1⟩
              · by_cases hi2 : m = i
                · subst hi2
                  rw [hm] at hb; cases hb
                  exact ⟨mb', by simp [hi, hmlt], hR⟩
                · exact ⟨b, by simp [hi, hi2, hb], hrefl b⟩

theorem step_pointwise (R : Br → Br → Prop) (hrefl : ∀ b, R b b) (g : Graph) (s : List Br) (op : Op)
    (hop : ∀ isPull src tgt m stop, src ∈ s →
      R tgt (applyOp g isPull src tgt m stop op.ow).tgt ∧
      ∀ mb, m = some mb → ∃ mb', (applyOp g isPull src tgt m stop op.ow).master = some mb' ∧ R mb mb') :
    ∀ (i : Nat) (b : Br), s[i]? = some b → ∃ b', (step g s op)[i]? = some b' ∧ R b b' := by
  cases op with
  | pull si ti mi stop ow =>
    exact stepAux_pointwise R hrefl g s true si ti mi stop ow
      (fun src tgt m hs => hop true src tgt m stop (List.mem_of_getElem? hs))
  | push si ti mi stop ow =>
    exact stepAux_pointwise R hrefl g s false si ti mi stop ow
      (fun src tgt m hs => hop false src tgt m stop (List.mem_of_getElem? hs))

theorem mem_step_of (g : Graph) (s : List Br) (op : Op) (b' : Br) (h : b' ∈ step g s op)
    (R : Br → Br → Prop)
    (hpt : ∀ (i : Nat) (b : Br), s[i]? = some b → ∃ b', (step g s op)[i]? = some b' ∧ R b b')
    (hlen : (step g s op).length = s.length) : ∃ b ∈ s, R b b' := by
  obtain ⟨i, hi, hget⟩ := List.mem_iff_getElem.mp h
  have hi' : i < s.length := hlen ▸ hi
  obtain ⟨b'', h1, h2⟩ := hpt i s[i] (by simp [hi'])
  have : (step g s op)[i]? = some b' := by simp [hi, hget]
  rw [this] at h1; cases h1
  exact ⟨s[i], by simp, h2⟩

theorem stepAux_length (g : Graph) (s : List Br) (isPull : Bool) (si ti : Nat) (mi : Option Nat)
    (stop : Option Tip) (ow : Bool) : (stepAux g s isPull si ti mi stop ow).length = s.length := by
  unfold stepAux
  repeat' split
  all_goals simp

theorem step_length (g : Graph) (s : List Br) (op : Op) : (step g s op).length = s.length := by
  cases op <;> exact stepAux_length ..

end BreezyVerif.C21
