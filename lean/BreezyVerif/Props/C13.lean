import BreezyVerif.Model.C13
import BreezyVerif.Lemmas.C13
import BreezyVerif.Lemmas.C13Erase
/-!
C13 — theorems.  Every file system state, every operation list, every fault
position (unbounded).
-/
namespace BreezyVerif.C13

/-- undoing a non-clobbering move re-creates the very same association list -/
theorem moveL_inverse (fs : FS) (a b : Path) (hb : keysUnder fs b = false) :
    moveL (moveL fs a b) b a = fs := by
  unfold moveL
  rw [List.map_map]
  conv => rhs; rw [← List.map_id fs]
  apply List.map_congr_left
  intro e he
  have hbe := keysUnder_false hb e he
  simp only [Function.comp]
  by_cases hae : a.isPrefixOf e.1 = true
  · simp only [hae, if_true, pre_append, drop_pre, pre_split hae, id]
  · simp [hae, hbe]

theorem not_pre_dropLast {b : Path} (h : b ≠ []) : b.isPrefixOf b.dropLast = false := by
  cases hh : b.isPrefixOf b.dropLast
  · rfl
  · rw [List.isPrefixOf_iff_prefix] at hh
    have := hh.length_le
    simp at this
    have : b.length = 0 := by omega
    exact absurd (List.eq_nil_of_length_eq_zero this) h

/-- **Single-step inverse.**  A rename that succeeded and found nothing at or
below its target is undone exactly by the reverse rename. -/
theorem rename_undo (fs fs' : FS) (a b : Path) (h : rename fs a b = .ok fs')
    (hb : keysUnder fs b = false) (hab : a ≠ b) : rename fs' b a = .ok fs := by
  have hbnone := get_none_of_keysUnder_false hb
  unfold rename at h
  split at h
  · cases h
  · rename_i hroot
    have ha0 : a ≠ [] := fun e => hroot (Or.inl e)
    have hb0 : b ≠ [] := fun e => hroot (Or.inr e)
    split at h
    · cases h
    · rename_i hpa
      split at h
      · cases h
      · rename_i hpb
        split at h
        · cases h
        · rename_i na hna
          · split at h
            · cases h
            · rename_i hprefab
              have hba : b.isPrefixOf a = false := by
                cases hh : b.isPrefixOf a
                · rfl
                · rw [hbnone a hh] at hna; cases hna
              simp only [hba, Bool.false_eq_true, if_false] at h
              have hgb : get fs b = none := hbnone b (by simp [List.isPrefixOf_iff_prefix])
              simp only [hgb, hb, Bool.false_eq_true, if_false] at h
              cases h
              -- facts about the moved state, through the bridge lemma
              have G := get_moveL fs a b hb
              have hba : b.isPrefixOf a = false := by
                cases hh : b.isPrefixOf a
                · rfl
                · rw [hbnone a hh] at hna; cases hna
              have hab' : a.isPrefixOf b = false := by
                cases hh : a.isPrefixOf b <;> simp_all
              have g_b : get (moveL fs a b) b = some na := by
                rw [G]; unfold moveF
                have : b.isPrefixOf b = true := by simp [List.isPrefixOf_iff_prefix]
                simp [this, hna]
              have g_pb : get (moveL fs a b) b.dropLast = some .dir := by
                rw [G]; unfold moveF
                have h1 := not_pre_dropLast hb0
                have h2 : a.isPrefixOf b.dropLast = false := by
                  cases hh : a.isPrefixOf b.dropLast
                  · rfl
                  · rw [pre_dropLast hh] at hab'; cases hab'
                simp only [h1, h2, Bool.false_eq_true, if_false]
                simpa using hpb
              have g_pa : get (moveL fs a b) a.dropLast = some .dir := by
                rw [G]; unfold moveF
                have h1 := not_pre_dropLast ha0
                have h2 : b.isPrefixOf a.dropLast = false := by
                  cases hh : b.isPrefixOf a.dropLast
                  · rfl
                  · rw [pre_dropLast hh] at hba; cases hba
                simp only [h1, h2, Bool.false_eq_true, if_false]
                simpa using hpa
              have g_a : get (moveL fs a b) a = none := by
                rw [G]; unfold moveF
                have : a.isPrefixOf a = true := by simp [List.isPrefixOf_iff_prefix]
                simp [hba, this]
              have k_a : keysUnder (moveL fs a b) a = false := by
                unfold keysUnder moveL
                rw [List.any_eq_false]
                intro e' he'
                rcases List.mem_map.mp he' with ⟨e, he, rfl⟩
                by_cases hae : a.isPrefixOf e.1 = true
                · simp only [hae, if_true]
                  intro hc
                  rcases pre_comparable hc (pre_append b (e.1.drop a.length)) with h1 | h1
                  · rw [h1] at hab'; cases hab'
                  · rw [h1] at hba; cases hba
                · simp [hae]
              unfold rename
              have hroot' : ¬ (b = [] ∨ a = []) := fun h => h.elim hb0 ha0
              have hba' : ¬ b = a := fun e => hab e.symm
              simp only [hroot', if_false, g_b, g_pb, g_pa, ne_eq, not_true_eq_false, hba',
                hba, hab', Bool.false_eq_true, g_a, k_a]
              rw [moveL_inverse fs a b hb]

/-- **Single-step inverse of a mode change.**  Setting the executable bit back
to the journalled value re-creates the very same file system. -/
theorem chmod_undo (fs fs' : FS) (p : Path) (x old : Bool) (h : chmod fs p x = .ok (fs', old)) :
    undo fs' (.mode p old) = .ok fs := by
  unfold chmod at h
  split at h
  · rename_i c o hg
    cases h
    simp only [undo, chmod, get_setExec_self x hg, Except.map, setExec_setExec x hg]
  · cases h
  · cases h

/-- `rollback` undoes the newest journal entry first -/
theorem rollback_snoc (fs : FS) (past : List JEntry) (j : JEntry) :
    rollback fs (past ++ [j]) =
      (match undo fs j with | .ok fs1 => rollback fs1 past | .error e => (fs, some e)) := by
  simp only [rollback, List.reverse_append, List.reverse_cons, List.reverse_nil, List.nil_append,
    List.cons_append, rollbackRev]
  cases undo fs j <;> simp

/-- what one executed operation must satisfy for its effect to be undone exactly:
a rename finds nothing at or below its target, a mode change is journalled or
changes nothing -/
def stepOk (jc : Bool) (m : Mover) (op : Op) : Bool :=
  opNoClobber m.fs op && (jc || opNoModeChange m.fs op)

/-- invariant step: one operation that satisfies `stepOk` keeps "the journal
rolls back to `fs0`" -/
theorem step_rollback (jc : Bool) (m m' : Mover) (op : Op) (fs0 : FS)
    (hs : m.step jc op = .ok m') (h0 : rollback m.fs m.past = (fs0, none))
    (hok : stepOk jc m op = true) : rollback m'.fs m'.past = (fs0, none) := by
  simp only [stepOk, Bool.and_eq_true, Bool.or_eq_true] at hok
  obtain ⟨hok, hmode⟩ := hok
  cases op with
  | rename a b =>
    simp only [Mover.step] at hs
    simp only [opNoClobber] at hok
    cases hr : rename m.fs a b with
    | ok fs' =>
      simp only [hr] at hs hok
      cases hs
      simp only [Bool.and_eq_true, bne_iff_ne, ne_eq, Bool.not_eq_eq_eq_not, Bool.not_true] at hok
      simp only [rollback_snoc, undo, rename_undo m.fs fs' a b hr hok.2 hok.1]
      exact h0
    | error e =>
      simp only [hr] at hs
      split at hs
      · cases hs; exact h0
      · cases hs
  | preDelete a b =>
    simp only [Mover.step] at hs
    simp only [opNoClobber] at hok
    cases hr : rename m.fs a b with
    | ok fs' =>
      simp only [hr] at hs hok
      cases hs
      simp only [Bool.and_eq_true, bne_iff_ne, ne_eq, Bool.not_eq_eq_eq_not, Bool.not_true] at hok
      simp only [rollback_snoc, undo, rename_undo m.fs fs' a b hr hok.2 hok.1]
      exact h0
    | error e => simp only [hr] at hs; cases hs
  | chmod p x =>
    simp only [Mover.step] at hs
    cases hc : chmod m.fs p x with
    | error e => simp only [hc] at hs; cases hs
    | ok r =>
      obtain ⟨fs', old⟩ := r
      simp only [hc] at hs
      cases hs
      cases jc with
      | true =>
        simp only [if_true, rollback_snoc, chmod_undo m.fs fs' p x old hc]
        exact h0
      | false =>
        simp only [Bool.false_eq_true, if_false]
        simp only [Bool.false_eq_true, false_or, opNoModeChange] at hmode
        unfold chmod at hc
        split at hc
        · rename_i c o hg
          cases hc
          simp only [hg, beq_iff_eq] at hmode
          subst hmode
          rw [setExec_same hg]
          exact h0
        · cases hc
        · cases hc

/-- every executed operation satisfies `stepOk` -/
def allStepsOk (jc : Bool) (m : Mover) : List Op → Option Nat → Bool
  | [], _ => true
  | op :: rest, fault =>
    if fault = some 0 then true
    else match m.step jc op with
      | .ok m' => stepOk jc m op && allStepsOk jc m' rest (fault.map (· - 1))
      | .error _ => true

/-- `allStepsOk` is `noClobber` together with "journalled, or no mode changes" -/
theorem allStepsOk_of (jc : Bool) (ops : List Op) (m : Mover) (fault : Option Nat)
    (hn : noClobber jc m ops fault = true)
    (hj : jc = true ∨ noModeChange jc m ops fault = true) : allStepsOk jc m ops fault = true := by
  induction ops generalizing m fault with
  | nil => rfl
  | cons op rest ih =>
    unfold allStepsOk
    unfold noClobber at hn
    by_cases hf : fault = some 0
    · simp [hf]
    · simp only [hf, if_false] at hn ⊢
      cases hs : m.step jc op with
      | error e => rfl
      | ok m' =>
        simp only [hs, Bool.and_eq_true] at hn ⊢
        have hj' : jc = true ∨
            (opNoModeChange m.fs op = true ∧ noModeChange jc m' rest (fault.map (· - 1)) = true) := by
          rcases hj with hj | hj
          · exact Or.inl hj
          · unfold noModeChange at hj
            simp only [hf, if_false, hs, Bool.and_eq_true] at hj
            exact Or.inr hj
        refine ⟨?_, ih m' _ hn.2 (hj'.imp id (·.2))⟩
        simp only [stepOk, Bool.and_eq_true, Bool.or_eq_true]
        exact ⟨hn.1, hj'.imp id (·.1)⟩

/-- invariant: a mover whose journal rolls back to `fs0` still does so after any
further operations that clobber nothing and whose mode changes are journalled
(or change nothing), wherever the run stops -/
theorem rollback_invariant (jc : Bool) (ops : List Op) (m : Mover) (fault : Option Nat) (fs0 : FS)
    (h0 : rollback m.fs m.past = (fs0, none)) (hok : allStepsOk jc m ops fault = true) :
    rollback (runOps jc m ops fault).1.fs (runOps jc m ops fault).1.past = (fs0, none) := by
  induction ops generalizing m fault with
  | nil => simpa [runOps] using h0
  | cons op rest ih =>
    unfold runOps
    unfold allStepsOk at hok
    by_cases hf : fault = some 0
    · simpa [hf] using h0
    · simp only [hf, if_false] at hok ⊢
      cases hs : m.step jc op with
      | error e => simpa [hs] using h0
      | ok m' =>
        simp only [hs, Bool.and_eq_true] at hok ⊢
        exact ih m' _ (step_rollback jc m m' op fs0 hs h0 hok.1) hok.2

/-- **A failure before the transform is committed restores every file and
directory exactly** — contents, kinds, names AND executable bits — when mode
changes are journalled (`jc = true`): whatever the operation list, wherever the
fault or error strikes during the removal / insertion phases, if no executed
rename clobbered anything, the rollback succeeds and yields the original file
system. -/
theorem rollback_restores (fs : FS) (ops : List Op) (fault : Option Nat)
    (hn : noClobber true { fs := fs } ops fault = true) :
    rollback (runOps true { fs := fs } ops fault).1.fs (runOps true { fs := fs } ops fault).1.past
      = (fs, none) :=
  rollback_invariant true ops { fs := fs } fault fs rfl (allStepsOk_of true ops _ fault hn (Or.inl rfl))

/-- The same for the code as it is when `_set_executability` is NOT journalled
(`jc = false`), under the additional excluding hypothesis that no executed mode
change changed anything.  What is missing for the full statement is exactly
`execbit_witness`. -/
theorem rollback_restores_partial (fs : FS) (ops : List Op) (fault : Option Nat)
    (hn : noClobber false { fs := fs } ops fault = true)
    (hm : noModeChange false { fs := fs } ops fault = true) :
    rollback (runOps false { fs := fs } ops fault).1.fs (runOps false { fs := fs } ops fault).1.past
      = (fs, none) :=
  rollback_invariant false ops { fs := fs } fault fs rfl (allStepsOk_of false ops _ fault hn (Or.inr hm))

/-- an un-journalled run only ever journals renames -/
def onlyRen (past : List JEntry) : Bool := past.all fun j => match j with | .ren _ _ => true | .mode _ _ => false

theorem onlyRen_runOps (ops : List Op) (m : Mover) (fault : Option Nat) (h : onlyRen m.past = true) :
    onlyRen (runOps false m ops fault).1.past = true := by
  induction ops generalizing m fault with
  | nil => simpa [runOps] using h
  | cons op rest ih =>
    unfold runOps
    by_cases hf : fault = some 0
    · simpa [hf] using h
    · simp only [hf, if_false]
      cases hs : m.step false op with
      | error e => simpa using h
      | ok m' =>
        simp only
        apply ih
        cases op with
        | rename a b =>
          simp only [Mover.step] at hs
          cases hr : rename m.fs a b with
          | ok fs' => simp only [hr] at hs; cases hs; simpa [onlyRen] using h
          | error e =>
            simp only [hr] at hs
            split at hs
            · cases hs; exact h
            · cases hs
        | preDelete a b =>
          simp only [Mover.step] at hs
          cases hr : rename m.fs a b with
          | ok fs' => simp only [hr] at hs; cases hs; simpa [onlyRen] using h
          | error e => simp only [hr] at hs; cases hs
        | chmod p x =>
          simp only [Mover.step] at hs
          cases hc : chmod m.fs p x with
          | ok r => simp only [hc] at hs; cases hs; simpa using h
          | error e => simp only [hc] at hs; cases hs

/-- rolling back a rename-only journal on two file systems that differ in
executable bits only succeeds on both or fails on both, with results that again
differ in executable bits only -/
theorem rollbackRev_erase_congr (js : List JEntry) (hjs : onlyRen js = true) (fs1 fs2 fs1' : FS)
    (h : eraseExec fs1 = eraseExec fs2) (h1 : rollbackRev fs1 js none = (fs1', none)) :
    ∃ fs2', rollbackRev fs2 js none = (fs2', none) ∧ eraseExec fs1' = eraseExec fs2' := by
  induction js generalizing fs1 fs2 with
  | nil =>
    simp only [rollbackRev] at h1 ⊢
    cases h1
    exact ⟨fs2, rfl, h⟩
  | cons j rest ih =>
    simp only [onlyRen, List.all_cons, Bool.and_eq_true] at hjs
    cases j with
    | mode p o => simp at hjs
    | ren a b =>
      simp only [rollbackRev, undo, Option.map_none] at h1 ⊢
      have hc := rename_erase_congr h b a
      cases hr1 : rename fs1 b a with
      | error e => simp [hr1] at h1
      | ok g1 =>
        simp only [hr1] at h1 hc
        cases hr2 : rename fs2 b a with
        | error e => simp [hr2, Except.map] at hc
        | ok g2 =>
          simp only [hr2, Except.map, Except.ok.injEq] at hc ⊢
          exact ih (by simpa [onlyRen] using hjs.2) g1 g2 hc h1

/-- invariant for the un-journalled code: the journal always rolls back to the
original file system *up to executable bits* -/
theorem rollback_invariant_modulo_exec (ops : List Op) (m : Mover) (fault : Option Nat) (fs0 : FS)
    (hp : onlyRen m.past = true)
    (h0 : ∃ r, rollback m.fs m.past = (r, none) ∧ eraseExec r = eraseExec fs0)
    (hn : noClobber false m ops fault = true) :
    ∃ r, rollback (runOps false m ops fault).1.fs (runOps false m ops fault).1.past = (r, none) ∧
      eraseExec r = eraseExec fs0 := by
  induction ops generalizing m fault with
  | nil => simpa [runOps] using h0
  | cons op rest ih =>
    unfold runOps
    unfold noClobber at hn
    by_cases hf : fault = some 0
    · simpa [hf] using h0
    · simp only [hf, if_false] at hn ⊢
      cases hs : m.step false op with
      | error e => simpa [hs] using h0
      | ok m' =>
        simp only [hs, Bool.and_eq_true] at hn ⊢
        obtain ⟨r, hr, he⟩ := h0
        cases op with
        | rename a b =>
          have hok : stepOk false m (.rename a b) = true := by simp [stepOk, hn.1, opNoModeChange]
          have := step_rollback false m m' _ r hs hr hok
          refine ih m' _ ?_ ⟨r, this, he⟩ hn.2
          have := onlyRen_runOps [.rename a b] m none hp
          simpa [runOps, hs] using this
        | preDelete a b =>
          have hok : stepOk false m (.preDelete a b) = true := by simp [stepOk, hn.1, opNoModeChange]
          have := step_rollback false m m' _ r hs hr hok
          refine ih m' _ ?_ ⟨r, this, he⟩ hn.2
          have := onlyRen_runOps [.preDelete a b] m none hp
          simpa [runOps, hs] using this
        | chmod p x =>
          simp only [Mover.step] at hs
          cases hc : chmod m.fs p x with
          | error e => simp only [hc] at hs; cases hs
          | ok q =>
            obtain ⟨fs', old⟩ := q
            simp only [hc, Bool.false_eq_true, if_false] at hs
            cases hs
            have hfs' : eraseExec m.fs = eraseExec fs' := by
              unfold chmod at hc
              split at hc
              · cases hc; exact (eraseExec_setExec _ _ _).symm
              · cases hc
              · cases hc
            obtain ⟨r', hr', he'⟩ := rollbackRev_erase_congr m.past.reverse
              (by simpa [onlyRen] using hp) m.fs fs' r hfs' hr
            exact ih { m with fs := fs' } _ hp ⟨r', hr', he'.symm.trans he⟩ hn.2

/-- **What the un-journalled code still guarantees**: after a failure anywhere
in the removal / insertion phases the rollback succeeds and restores every
path, kind, content and link target; only executable bits may differ. -/
theorem rollback_restores_modulo_exec (fs : FS) (ops : List Op) (fault : Option Nat)
    (hn : noClobber false { fs := fs } ops fault = true) :
    ∃ r, rollback (runOps false { fs := fs } ops fault).1.fs
            (runOps false { fs := fs } ops fault).1.past = (r, none) ∧
      eraseExec r = eraseExec fs :=
  rollback_invariant_modulo_exec ops { fs := fs } fault fs rfl ⟨fs, rfl, rfl⟩ hn

/-- the same at the level of `apply`: a fault or error in the first two phases
leaves files and metadata in the old state (journalled mode changes, or none) -/
theorem apply_phase12_failure_restores (order : Order) (jc : Bool) (fs : FS) (ops : List Op)
    (f1 f2 : Option Nat) (e : Err)
    (hn : noClobber jc { fs := fs } ops f1 = true)
    (hj : jc = true ∨ noModeChange jc { fs := fs } ops f1 = true)
    (he : (runOps jc { fs := fs } ops f1).2 = some e) :
    let o := apply order jc fs ops f1 f2
    o.fs = fs ∧ o.md = .old ∧ o.raised = some e ∧ o.rollbackFailed = false := by
  have hr := rollback_invariant jc ops { fs := fs } f1 fs rfl (allStepsOk_of jc ops _ f1 hn hj)
  unfold apply applyF
  cases hrun : runOps jc { fs := fs } ops f1 with
  | mk m oe =>
    rw [hrun] at he hr
    simp only at he hr
    subst he
    simp [hr]

theorem not_pre_of_ne_self {p q : Path} (h : p.isPrefixOf q = false) : p ≠ q := by
  intro e
  subst e
  have : p.isPrefixOf p = true := by rw [List.isPrefixOf_iff_prefix]; exact List.prefix_refl p
  rw [this] at h
  cases h

/-- deleting the pending paths does not disturb anything outside them, however
far the loop gets (fault or failing `delete_any`) -/
theorem get_runDeletions (fs : FS) (ps : List Path) (fault : Option Nat) (q : Path)
    (hq : ∀ p ∈ ps, p.isPrefixOf q = false) :
    get (runDeletions fs ps fault).1 q = get fs q := by
  induction ps generalizing fs fault with
  | nil => rfl
  | cons p rest ih =>
    unfold runDeletions
    by_cases hf : fault = some 0
    · simp [hf]
    · simp only [hf, if_false]
      cases hd : deleteOne fs p with
      | error e => rfl
      | ok fs' =>
        simp only
        rw [ih _ _ (fun p' hp' => hq p' (by simp [hp']))]
        have hne : p ≠ q := not_pre_of_ne_self (hq p (by simp))
        unfold deleteOne at hd
        split at hd
        · cases hd
        · split at hd
          · cases hd
          · cases hd; rw [get_removeKey]; simp [hne]
        · cases hd; rw [get_removeKey]; simp [hne]

/-- **Metadata always agrees with the files** when the metadata is updated
before the replaced content is discarded: every outcome of `apply` is either
(old files, old metadata) or (new layout outside the pending-deletion area, new
metadata) — for every operation list and every fault position in any phase. -/
theorem metadata_agrees (jc : Bool) (fs : FS) (ops : List Op) (f1 f2 : Option Nat)
    (hn : noClobber jc { fs := fs } ops f1 = true)
    (hj : jc = true ∨ noModeChange jc { fs := fs } ops f1 = true) :
    let o := apply .metadataFirst jc fs ops f1 f2
    (o.fs = fs ∧ o.md = .old) ∨
    (o.md = .new ∧ (runOps jc { fs := fs } ops f1).2 = none ∧
      ∀ q, (∀ p ∈ (runOps jc { fs := fs } ops f1).1.pending, p.isPrefixOf q = false) →
        get o.fs q = get (runOps jc { fs := fs } ops f1).1.fs q) := by
  cases he : (runOps jc { fs := fs } ops f1).2 with
  | some e =>
    have := apply_phase12_failure_restores .metadataFirst jc fs ops f1 f2 e hn hj he
    exact Or.inl ⟨this.1, this.2.1⟩
  | none =>
    refine Or.inr ?_
    unfold apply applyF
    cases hrun : runOps jc { fs := fs } ops f1 with
    | mk m oe =>
      rw [hrun] at he
      simp only at he
      subst he
      simp only [Bool.false_eq_true, if_false]
      cases hd : runDeletions m.fs m.pending f2 with
      | mk fs' raised =>
        have hg := fun q hq => get_runDeletions m.fs m.pending f2 q hq
        rw [hd] at hg
        cases raised <;> simp only [true_and] <;> exact hg

/-- the un-journalled code, all faults: old metadata with the old files *up to
executable bits*, or new metadata with the new layout -/
theorem metadata_agrees_modulo_exec (fs : FS) (ops : List Op) (f1 f2 : Option Nat)
    (hn : noClobber false { fs := fs } ops f1 = true) :
    let o := apply .metadataFirst false fs ops f1 f2
    (eraseExec o.fs = eraseExec fs ∧ o.md = .old ∧ o.rollbackFailed = false) ∨
    (o.md = .new ∧ (runOps false { fs := fs } ops f1).2 = none) := by
  obtain ⟨r, hr, he⟩ := rollback_restores_modulo_exec fs ops f1 hn
  unfold apply applyF
  cases hrun : runOps false { fs := fs } ops f1 with
  | mk m oe =>
    rw [hrun] at hr
    simp only at hr
    cases oe with
    | some e => left; simp [hr, he]
    | none =>
      right
      simp only [Bool.false_eq_true, if_false]
      cases hd : runDeletions m.fs m.pending f2 with
      | mk fs' raised => cases raised <;> simp

/-- deleting never creates an entry -/
theorem runDeletions_get_none (fs : FS) (ps : List Path) (q : Path) (h : get fs q = none) :
    get (runDeletions fs ps none).1 q = none := by
  induction ps generalizing fs with
  | nil => exact h
  | cons p rest ih =>
    unfold runDeletions
    simp only [reduceCtorEq, if_false, Option.map_none]
    cases hd : deleteOne fs p with
    | error e => exact h
    | ok fs' =>
      apply ih
      unfold deleteOne at hd
      split at hd
      · cases hd
      · split at hd
        · cases hd
        · cases hd; rw [get_removeKey]; split <;> simp [h]
      · cases hd; rw [get_removeKey]; split <;> simp [h]

/-- **Creation failures are invisible**: `finalize` runs `delete_any` over the
limbo files (children first) and then over the limbo directory `L` itself.
Whatever content was created inside `L` while the transform was being built,
in whatever order the paths are deleted and wherever that loop stops (a fault
or a failing `delete_any`), every path outside `L` reads as before. -/
theorem finalize_discards_limbo (fs : FS) (ps : List Path) (fault : Option Nat) (L q : Path)
    (hc : ∀ p ∈ ps, L.isPrefixOf p = true) (hq : L.isPrefixOf q = false) :
    get (runDeletions fs ps fault).1 q = get fs q := by
  apply get_runDeletions
  intro p hp
  cases h : p.isPrefixOf q
  · rfl
  · rw [pre_trans (hc p hp) h] at hq; cases hq

/-- …and when every `delete_any` succeeds, nothing is left at the deleted paths -/
theorem runDeletions_removes (fs : FS) (ps : List Path) (p : Path) (hp : p ∈ ps)
    (h : (runDeletions fs ps none).2 = none) : get (runDeletions fs ps none).1 p = none := by
  induction ps generalizing fs with
  | nil => cases hp
  | cons p0 rest ih =>
    unfold runDeletions at h ⊢
    simp only [reduceCtorEq, if_false, Option.map_none] at h ⊢
    cases hd : deleteOne fs p0 with
    | error e => simp [hd] at h
    | ok fs' =>
      simp only [hd] at h ⊢
      by_cases hmem : p ∈ rest
      · exact ih fs' hmem h
      · have : p = p0 := by
          rcases List.mem_cons.mp hp with h1 | h1
          · exact h1
          · exact absurd h1 hmem
        subst this
        -- `p` is not deleted again later: the remaining loop leaves `get · p` alone
        have hfs' : get fs' p = none := by
          unfold deleteOne at hd
          split at hd
          · cases hd
          · split at hd
            · cases hd
            · cases hd; rw [get_removeKey]; simp
          · cases hd; rw [get_removeKey]; simp
        exact runDeletions_get_none fs' rest p hfs'

/-- With the deletions performed *before* the metadata update (the order found
in the code at the pinned commit) a failure while discarding replaced content
leaves the new file layout described by the old metadata. -/
theorem deletions_first_witness :
    let fs : FS := [([], .dir), ([".d"], .dir), (["a"], .file "A" false), (["b"], .file "B" false)]
    let ops := [Op.preDelete ["b"] [".d", "x"], Op.rename ["a"] ["c"]]
    let o := apply .deletionsFirst true fs ops none (some 0)
    noClobber true { fs := fs } ops none = true ∧ o.md = .old ∧ o.raised = some .injected ∧
      get o.fs ["a"] = none ∧ get o.fs ["c"] = some (.file "A" false) ∧
      get fs ["a"] = some (.file "A" false) := by
  decide

/-- `noClobber` is needed: a rename that silently replaces an existing file
cannot be rolled back. -/
theorem clobber_witness :
    let fs : FS := [([], .dir), (["a"], .file "A" false), (["b"], .file "B" false)]
    let ops := [Op.rename ["a"] ["b"], Op.rename ["b"] ["c"]]
    noClobber true { fs := fs } ops (some 1) = false ∧
      (apply .metadataFirst true fs ops (some 1) none).fs ≠ fs := by
  decide

/-- **The un-journalled `_set_executability` breaks "restores exactly"**: revert
of an executable-bit change plus a rename, fault at the second rename.  No
rename clobbers anything, the rollback succeeds, the rename is undone — and
file `a` keeps the new mode although the metadata (and everything else) is back
in the old state.  With the mode change journalled the same run restores the
file system exactly. -/
theorem execbit_witness :
    let fs : FS := [([], .dir), ([".l"], .dir), (["a"], .file "A" true), (["zz"], .file "Z" false)]
    let ops := [Op.rename ["zz"] [".l", "1"], Op.chmod ["a"] false, Op.rename [".l", "1"] ["z"]]
    let o := apply .metadataFirst false fs ops (some 2) none
    noClobber false { fs := fs } ops (some 2) = true ∧ o.raised = some .injected ∧
      o.rollbackFailed = false ∧ o.md = .old ∧
      o.fs ≠ fs ∧ get o.fs ["a"] = some (.file "A" false) ∧ eraseExec o.fs = eraseExec fs ∧
      (apply .metadataFirst true fs ops (some 2) none).fs = fs := by
  decide

/-- A failure of the metadata update itself (`apply_inventory_delta` /
`_apply_index_changes` run after the `try … rollback` block) is outside the
property's quantifier (it is not a rename, deletion or creation) and is not
recovered: the files are in the new layout, nothing has been discarded yet, the
metadata is the old one.  The harness injects this fault too and compares. -/
theorem metadata_fault_outcome (jc : Bool) (fs : FS) (ops : List Op)
    (h : (runOps jc { fs := fs } ops none).2 = none) :
    let o := applyF .metadataFirst jc fs ops { metaUpdate := true }
    o.fs = (runOps jc { fs := fs } ops none).1.fs ∧ o.md = .old ∧ o.raised = some .injected := by
  unfold applyF
  cases hrun : runOps jc { fs := fs } ops none with
  | mk m oe =>
    rw [hrun] at h
    simp only at h
    subst h
    simp

/-- **A second failure, inside `rollback`, loses nothing**: whenever the
un-faulted rollback of a journal reaches `r`, a rollback that is interrupted
before its `j`-th undo step stops in a state from which undoing the remaining
journal entries still reaches `r` (the names under which the remaining entries
were journalled are still the right ones). -/
theorem rollback_fault_resumable (js : List JEntry) (fs r : FS) (j : Nat)
    (h : rollbackRev fs js none = (r, none)) :
    ∃ fsj, rollbackRev fs js (some j) = (fsj, if j < js.length then some .injected else none) ∧
      rollbackRev fsj (js.drop j) none = (r, none) := by
  induction js generalizing fs j with
  | nil => exact ⟨fs, by simp [rollbackRev], by simpa [rollbackRev] using h⟩
  | cons e rest ih =>
    cases j with
    | zero => exact ⟨fs, by simp [rollbackRev], by simpa using h⟩
    | succ j =>
      simp only [rollbackRev, Option.map_none] at h
      cases hu : undo fs e with
      | error err => simp [hu] at h
      | ok fs1 =>
        simp only [hu] at h
        obtain ⟨fsj, h1, h2⟩ := ih fs1 j h
        refine ⟨fsj, ?_, ?_⟩
        · simp only [rollbackRev, Option.some.injEq, Nat.add_one_ne_zero, if_false, hu, Option.map_some,
            Nat.add_sub_cancel, h1, List.length_cons, Nat.add_lt_add_iff_right]
        · simpa using h2

/-- a second failure, inside `rollback`, stops the rollback where it is: the
journal entries newer than the failing one have been undone, the others not -/
theorem rollback_fault_witness :
    let fs : FS := [([], .dir), ([".l"], .dir), (["a"], .file "A" false), (["b"], .file "B" false)]
    let ops := [Op.rename ["a"] [".l", "1"], Op.rename ["b"] [".l", "2"], Op.rename [".l", "1"] ["c"]]
    let o := applyF .metadataFirst true fs ops { mover := some 2, undo := some 1 }
    o.rollbackFailed = true ∧ o.md = .old ∧
      get o.fs ["b"] = some (.file "B" false) ∧ get o.fs ["a"] = none ∧
      get o.fs [".l", "1"] = some (.file "A" false) := by
  decide

/-- non-vacuity of `rollback_restores`: a swap through limbo with a mode change, fault at the last step -/
example :
    let fs : FS := [([], .dir), ([".l"], .dir), (["a"], .file "A" false), (["b"], .dir), (["b", "x"], .file "X" true)]
    let ops := [Op.rename ["b"] [".l", "1"], Op.rename ["a"] [".l", "2"],
                Op.rename [".l", "1"] ["a"], Op.chmod ["a", "x"] false, Op.rename [".l", "2"] ["b"]]
    noClobber true { fs := fs } ops (some 4) = true ∧
      (runOps true { fs := fs } ops (some 4)).1.past.length = 4 ∧
      get (runOps true { fs := fs } ops (some 4)).1.fs ["a", "x"] = some (.file "X" false) := by
  decide

/-- non-vacuity of `rollback_restores_partial`: the mode change re-asserts the current bit -/
example :
    let fs : FS := [([], .dir), ([".l"], .dir), (["a"], .file "A" true), (["b"], .file "B" false)]
    let ops := [Op.rename ["b"] [".l", "1"], Op.chmod ["a"] true, Op.rename [".l", "1"] ["c"]]
    noClobber false { fs := fs } ops (some 2) = true ∧ noModeChange false { fs := fs } ops (some 2) = true ∧
      (runOps false { fs := fs } ops (some 2)).1.past.length = 1 := by
  decide

/-- non-vacuity of `rollback_fault_resumable` -/
example :
    rollbackRev [([], .dir), ([".l"], .dir), ([".l", "1"], .file "A" false), (["c"], .file "B" true)]
      [.mode ["c"] false, .ren ["a"] [".l", "1"]] none =
    ([([], .dir), ([".l"], .dir), (["a"], .file "A" false), (["c"], .file "B" false)], none) := by
  decide

/-- non-vacuity of `metadata_fault_outcome` -/
example :
    let fs : FS := [([], .dir), (["a"], .file "A" false)]
    (runOps true { fs := fs } [Op.rename ["a"] ["b"]] none).2 = none := by
  decide

end BreezyVerif.C13
