import BreezyVerif.Lemmas.C46Remove
/-! C46 — `cleanTree` as a whole: exact characterisation of what survives. -/
namespace BreezyVerif.C46
open Forest

theorem selected_path_mem {keep : Item → Bool} {fmt : Fmt} {o : Opts} {f : Forest} {it : Item}
    (h : it ∈ selectedWith keep fmt o f) : it.path ∈ f.paths :=
  items_path_mem (extras_sub (selected_sub h).1)

/-- what `cleanTree` does when it really deletes -/
theorem cleanTree_spec {keep : Item → Bool} {fmt : Fmt} {o : Opts} {f : Forest} (hw : f.wf = true)
    (hd : o.dryRun = false) (hp : o.prompt ≠ some false) :
    (cleanTreeWith keep fmt o f).2 = false ∧ (cleanTreeWith keep fmt o f).1.wf = true ∧
      ∀ q, q ∈ (cleanTreeWith keep fmt o f).1.paths ↔
        (q ∈ f.paths ∧ ∀ s ∈ selectedWith keep fmt o f, ¬ s.path <+: q) := by
  by_cases he : (selectedWith keep fmt o f).isEmpty = true
  · have : selectedWith keep fmt o f = [] := by simpa using he
    simp [cleanTreeWith, this, hw]
  · have e0 : cleanTreeWith keep fmt o f = deleteItems f ((selectedWith keep fmt o f).map (·.path)) := by
      simp [cleanTreeWith, he, hp, hd]
    rw [e0]
    have h1 : ∀ p ∈ (selectedWith keep fmt o f).map (·.path), p ∈ f.paths := by
      intro p hp'
      obtain ⟨s, hs, rfl⟩ := List.mem_map.mp hp'
      exact selected_path_mem hs
    have h2 : ((selectedWith keep fmt o f).map (·.path)).Pairwise (fun a b => ¬ a <+: b) := by
      rw [List.pairwise_map]
      exact (selected_antichain hw).imp (fun h => h.1)
    obtain ⟨f', e, hw', hs⟩ := deleteItems_spec _ hw h1 h2
    rw [e]
    refine ⟨rfl, hw', ?_⟩
    intro q
    rw [hs q]
    simp only [List.mem_map, forall_exists_index, and_imp, forall_apply_eq_imp_iff₂]

theorem cleanTree_noop {keep : Item → Bool} {fmt : Fmt} {o : Opts} {f : Forest}
    (h : o.dryRun = true ∨ o.prompt = some false) : cleanTreeWith keep fmt o f = (f, false) := by
  by_cases he : (selectedWith keep fmt o f).isEmpty = true
  · simp [cleanTreeWith, he]
  · by_cases hp : o.prompt = some false
    · simp [cleanTreeWith, hp]
    · rcases h with h | h
      · simp [cleanTreeWith, h]
      · exact absurd h hp

/-- a path no selected candidate is a prefix of survives, whatever the options -/
theorem survives {keep : Item → Bool} {fmt : Fmt} {o : Opts} {f : Forest} {q : Path} (hw : f.wf = true)
    (hq : q ∈ f.paths) (hs : ∀ s ∈ selectedWith keep fmt o f, ¬ s.path <+: q) :
    q ∈ (cleanTreeWith keep fmt o f).1.paths := by
  by_cases hd : o.dryRun = true
  · rw [cleanTree_noop (Or.inl hd)]; exact hq
  · by_cases hp : o.prompt = some false
    · rw [cleanTree_noop (Or.inr hp)]; exact hq
    · exact ((cleanTree_spec (keep := keep) hw (by simpa using hd) hp).2.2 q).mpr ⟨hq, hs⟩

theorem wf_items_kids {f : Forest} {it : Item} (hw : f.wf = true) (h : it ∈ items f) :
    it.info.kind = .dir ∨ it.kids = nil := by
  induction f generalizing it with
  | nil => simp [items] at h
  | cons i kids rest ih1 ih2 =>
    obtain ⟨_, _, _, _, _, h6, hk, hr⟩ := wf_cons hw
    simp only [items, List.mem_cons, List.mem_append, List.mem_map] at h
    rcases h with (h | ⟨t, ht, rfl⟩) | h
    · subst h; exact h6
    · exact ih1 (it := t) hk ht
    · exact ih2 hr h

/-- git: no walked file lies at or below a directory that has a `.git` entry -/
theorem filesG_not_below_gitdir {f : Forest} {d : Path} {i : Info} {k : Forest} {it : Item}
    (hw : f.wf = true) (hg : f.get d = some (i, k)) (hd : i.kind = .dir)
    (hc : k.hasName ".git" = true) (h : it ∈ filesG f) : ¬ d <+: it.path := by
  induction f generalizing d it with
  | nil => simp [filesG] at h
  | cons j kids rest ih1 ih2 =>
    obtain ⟨hn, _, _, _, _, _, hk, hr⟩ := wf_cons hw
    cases d with
    | nil => simp [Forest.get] at hg
    | cons n d' =>
      simp only [filesG, List.mem_append] at h
      rcases h with h | h
      · -- the head entry
        split at h
        · split at h
          · simp at h
          · rename_i hkind hnp
            simp only [List.mem_map] at h
            obtain ⟨t, ht, rfl⟩ := h
            intro hpre
            obtain ⟨e, hpre'⟩ := List.cons_prefix_cons.mp hpre
            subst e
            cases d' with
            | nil =>
              rw [get_cons_self] at hg
              simp at hg
              rw [hg.2] at hnp
              simp [hc] at hnp
            | cons a b =>
              rw [get_cons_down] at hg
              exact ih1 hk hg ht hpre'
        · simp at h
        · rename_i h1 h2
          split at h
          · simp at h
          · simp at h
            subst h
            intro hpre
            obtain ⟨e, hpre'⟩ := List.cons_prefix_cons.mp hpre
            subst e
            have : d' = [] := by simpa using hpre'
            subst this
            rw [get_cons_self] at hg
            simp at hg
            exact h1 (hg.1 ▸ hd)
      · -- a later sibling
        obtain ⟨a, t, e, ha⟩ := items_head (filesG_sub h)
        intro hpre
        rw [e] at hpre
        obtain ⟨e', _⟩ := List.cons_prefix_cons.mp hpre
        subst e'
        have hne : j.name ≠ n := fun e' => hn (e' ▸ ha)
        rw [get_cons_ne hne] at hg
        exact ih2 hr hg h (e ▸ hpre)

end BreezyVerif.C46
